"""C05 - array-like containers equal the abstract sequence, even with aliased / empty arguments.
proof : Coq theorems over the hand-written cell-level models ArrayShift.v / ArrayModel.v (all lengths, indexes, counts
        incl. 0, alias positions, element behaviours) + over the cxx2coq-GENERATED GrowCapacity.
tie   : T-gen (GrowCapacity regenerated + validated) and T-cor (extracted model vs the real containers on the same scripts).
oracle: std::vector<long long> twin inside the harness + the reserve/no-allocation claim evaluated on the real code."""
import os, re

GEN = ['gen_grow.json', 'gen_guards_shifter.json', 'gen_guards_array.json', 'gen_guards_seg.json', 'gen_shift_loops.json', 'gen_shift_loops_seg.json', 'gen_indexof.json']
ELEMS = ['pod', 'ntm', 'cpy', 'smh', 'str']
# container configs: (name, ic / logInitialItemCount)
def configs(elem):
    c = [('arr', 0), ('arrG', 0), ('vec', 0), ('segc', 0), ('segc', 2), ('segc', 5), ('segs', 0), ('segs', 1), ('segs', 3)]
    if elem != 'cpy':        # ArrayIntCap needs nothrow-relocatable items
        c += [('arr', 1), ('arr', 4), ('arr', 16), ('vec', 4)]
    if elem == 'pod':        # memory manager with Reallocate
        c += [('arrR', 0), ('arrR', 4)]
    return c


class Fresh:
    def __init__(self, start=1): self.v = start
    def __call__(self):
        self.v += 1
        return self.v


def setup(n, state, fresh, cont):
    """ops that build a container of n fresh elements in a given capacity state"""
    ops = []
    if state == 'grown':                   # whatever the growth policy left
        ops += ['ab:v:%d' % fresh() for _ in range(n)]
    elif state == 'full':                  # count == capacity (or count <= internal capacity)
        ops += ['ab:v:%d' % fresh() for _ in range(n)] + ['sh:-']
    elif state == 'onefree':
        ops += ['ab:v:%d' % fresh() for _ in range(n + 1)] + ['sh:-', 'rm:%d:1' % n]
    elif state == 'roomy':
        ops += ['rs:%d' % (2 * n + 6)] + ['ab:v:%d' % fresh() for _ in range(n)]
    return ops


def tested_ops(n, fresh, cont, full, elem):
    """every operation with the value argument aliasing every index, empty ranges, all positions"""
    out = []
    idx = range(n)
    pos = range(n + 1)
    counts = sorted(set([0, 1, 2, n]))
    for i in idx:
        out.append(['ab:r:%d' % i])
        out.append(['abm:r:%d' % i, 'set:%d:%d' % (i, fresh())])
    out.append(['ab:v:%d' % fresh()]); out.append(['abm:v:%d' % fresh()]); out.append(['emb:v:%d' % fresh()])
    for i in idx:
        out.append(['emb:r:%d' % i])                       # AddBackVar(a[i]) / emplace_back(v[i])
    out += [['cpc'], ['cpa'], ['mvc'], ['swp:%d:%d' % (fresh(), fresh())]]
    if elem != 'str':
        for m in sorted(set([0, max(0, n - 1), n, n + 1, 2 * n + 9])):
            out.append(['sc0:%d' % m])
    for j in pos:
        for c in counts:
            out.append(['ins:%d:%d:v:%d' % (j, c, fresh())])
            for i in idx:
                out.append(['ins:%d:%d:r:%d' % (j, c, i)])
        out.append(['ins1:%d:v:%d' % (j, fresh())]); out.append(['insm:%d:v:%d' % (j, fresh())])
        out.append(['emi:%d:v:%d' % (j, fresh())])
        if j < n:
            out.append(['rm1:%d' % j])
        for i in idx:
            out.append(['emi:%d:r:%d' % (j, i)])          # InsertVar(j, a[i]) / emplace(pos, v[i])
        for i in idx:
            out.append(['ins1:%d:r:%d' % (j, i)])
            out.append(['insm:%d:r:%d' % (j, i), 'set:%d:%d' % (i + 1 if i >= j else i, fresh())])
    for j in sorted(set([0, n // 2, n])):
        for ln in counts:
            out.append(['insr:%d:%s' % (j, ','.join(str(fresh()) for _ in range(ln)))])
    for j in sorted(set([0, n // 2, n])):
        for ln in counts:
            out.append(['insi:%d:%s' % (j, ','.join(str(fresh()) for _ in range(ln)))])
            if ln <= 3:
                out.append(['insl:%d:%s' % (j, ','.join(str(fresh()) for _ in range(ln)))])
    for c in sorted(set([0, 1, n])):
        if c <= n:
            out.append(['rb:%d' % c])
    out.append(['clr:0'])
    if cont != 'vec':
        out.append(['clr:1'])
    else:
        for ln in sorted(set([0, 1, n, n + 3, 2 * n + 9])):
            out.append(['asgr:%s' % ','.join(str(fresh()) for _ in range(ln))])
    for j in pos:
        for c in range(0, n - j + 1):
            if full or c in (0, 1, 2, n - j):
                out.append(['rm:%d:%d' % (j, c)])
    for m in (1, 2, 3, 1000):
        out.append(['rmf:%d' % m])
    for m in sorted(set([0, max(0, n - 1), n, n + 1, n + 3, 2 * n + 9])):
        out.append(['sc:%d:v:%d' % (m, fresh())])
        for i in idx:
            out.append(['sc:%d:r:%d' % (m, i)])
            if cont == 'vec':
                out.append(['asg:%d:r:%d' % (m, i)])
    for m in sorted(set([0, n, n + 1, 2 * n + 9])):
        out.append(['rs:%d' % m])
    out.append(['sh:-'])
    if cont != 'vec':
        out.append(['sh:%d' % (n + 2)]); out.append(['sh:0'])
    return out


def random_script(r, cont, length, fresh, elem='pod'):
    ops = []; n = 0; moved = 0      # moved = number of moved-from elements possibly still present
    for _ in range(length):
        t = r.below(24)
        if moved and t in (11,):
            t = 0                   # the filter is not applied to moved-from elements
        if moved and r.chance(1, 4):
            # refill everything that may be moved-from by a resize to a known state
            ops.append('clr:0'); n = 0; moved = 0
        ref = n > 0 and r.chance(2, 3)
        arg = lambda: ('r:%d' % r.below(n)) if ref else ('v:%d' % fresh())
        if t <= 2:
            ops.append('ab:' + arg()); n += 1
        elif t == 3:
            if ref:
                i = r.below(n); ops += ['abm:r:%d' % i]
                if r.chance(2, 3): ops += ['set:%d:%d' % (i, fresh())]
                else: moved += 1
            else:
                ops.append('abm:v:%d' % fresh())
            n += 1
        elif t <= 5:
            j = r.below(n + 1); c = r.choice([0, 0, 1, 1, 2, 3, 5]); ops.append('ins:%d:%d:%s' % (j, c, arg())); n += c
        elif t == 6:
            j = r.below(n + 1); ops.append('ins1:%d:%s' % (j, arg())); n += 1
        elif t == 7:
            j = r.below(n + 1)
            if ref:
                i = r.below(n); ops += ['insm:%d:r:%d' % (j, i)]
                if r.chance(2, 3): ops += ['set:%d:%d' % (i + 1 if i >= j else i, fresh())]
                else: moved += 1
            else:
                ops.append('insm:%d:v:%d' % (j, fresh()))
            n += 1
        elif t == 8:
            j = r.below(n + 1); ln = r.choice([0, 0, 1, 2, 4]); ops.append('insr:%d:%s' % (j, ','.join(str(fresh()) for _ in range(ln)))); n += ln
        elif t <= 10:
            j = r.below(n + 1); c = r.choice([0, 0, 1, 2, 3]); c = min(c, n - j); ops.append('rm:%d:%d' % (j, c)); n -= c
        elif t == 11:
            # the count after a filter is not known to the generator: follow with a resize to a known count
            m = r.choice([2, 3, 5]); ops.append('rmf:%d' % m); n2 = r.below(6); ops.append('sc:%d:v:%d' % (n2, fresh() * 30 + 1)); n = n2
        elif t == 12:
            m = r.below(n + 6); ops.append('sc:%d:%s' % (m, arg())); n = m
        elif t == 13:
            ops.append('rs:%d' % r.below(2 * n + 8))
        elif t == 14:
            ops.append('sh:-' if (cont == 'vec' or r.chance(1, 2)) else 'sh:%d' % r.below(n + 4))
        elif t == 15:
            if cont == 'vec' and n > 0:
                m = r.below(n + 4); ops.append('asg:%d:%s' % (m, arg())); n = m
            else:
                ops.append('ab:' + arg()); n += 1
        elif t == 16:
            j = r.below(n + 1); ln = r.choice([0, 1, 2, 3]); ops.append('insi:%d:%s' % (j, ','.join(str(fresh()) for _ in range(ln)))); n += ln
        elif t == 17:
            c = r.below(min(n, 3) + 1); ops.append('rb:%d' % c); n -= c
        elif t == 19:
            ops.append('emb:' + arg()); n += 1
        elif t == 20:
            j = r.below(n + 1); ops.append('emi:%d:%s' % (j, arg())); n += 1
        elif t == 21:
            j = r.below(n + 1); ln = r.below(4); ops.append('insl:%d:%s' % (j, ','.join(str(fresh()) for _ in range(ln)))); n += ln
        elif t == 22:
            if moved == 0: ops.append(r.choice(['cpc', 'cpa', 'mvc', 'swp:%d:%d' % (fresh(), fresh())]))
            else: ops.append('mvc')
        elif t == 23:
            if n > 0 and r.chance(1, 2):
                ops.append('rm1:%d' % r.below(n)); n -= 1
            elif elem != 'str':
                m = r.below(n + 5); ops.append('sc0:%d' % m); n = m
            else:
                ops.append('rs:%d' % r.below(3 * n + 4))
        else:
            if r.chance(1, 3):
                ops.append('clr:%d' % (0 if cont == 'vec' else r.below(2))); n = 0; moved = 0
            elif cont == 'vec':
                ln = r.below(6); ops.append('asgr:%s' % ','.join(str(fresh()) for _ in range(ln))); n = ln
            else:
                ops.append('ab:' + arg()); n += 1
        if n > 40:
            ops.append('sc:3:v:%d' % fresh()); n = 3
    return ops


def gen_cases(ctx, elem, traits, scale):
    r = ctx.rng
    nm, nr = traits[elem]
    cases = []
    for (cont, ic) in configs(elem):
        head = '%s %s %d %d %d ' % (cont, elem, ic, nm, nr)
        fresh = Fresh(10)
        primary = cont in ('arr', 'arrR', 'arrG', 'vec')
        ns = [0, 1, 2, 3, 5] if primary else [0, 2, 5]
        if scale > 1:
            ns = [0, 1, 2, 3, 4, 5, 8] if primary else [0, 1, 2, 5, 9]
        for n in ns:
            states = ['grown', 'full', 'onefree', 'roomy'] if primary else ['grown']
            for st in states:
                pre = setup(n, st, fresh, cont)
                for t in tested_ops(n, fresh, cont, full=(n <= 3 or scale > 1), elem=elem):
                    cases.append(head + ' '.join(pre + t))
        for _ in range((60 if primary else 25) * scale):
            cases.append(head + ' '.join(random_script(r, cont, 30, Fresh(100), elem)))
        for _ in range((3 if primary else 2) * scale):
            cases.append(head + ' '.join(long_script(r, cont, Fresh(1000), elem)))
    return cases


def long_script(r, cont, fresh, elem):
    """a history that crosses every growth band of GrowCapacity (<=2 -> 4, doubling up to 64, +64 below 150, +23/50 above) and,
    for SegmentedArray, several segment boundaries - twice (grow, shrink/clear, grow again), with aliased arguments at the big sizes"""
    ops = []; n = 0
    def grow_to(target):
        nonlocal n
        while n < target:
            t = r.below(6)
            if t == 0 or n == 0:
                ops.append('ab:%s' % ('r:%d' % r.below(n) if n and r.chance(1, 2) else 'v:%d' % fresh())); n += 1
            elif t == 1:
                c = min(target - n, r.choice([1, 2, 7, 30])); j = r.below(n + 1)
                ops.append('ins:%d:%d:r:%d' % (j, c, r.below(n))); n += c
            elif t == 2:
                m = min(target, n + r.choice([1, 3, 20, 64])); ops.append('sc:%d:r:%d' % (m, r.below(n))); n = m
            elif t == 3:
                ln = min(target - n, r.choice([1, 2, 5])); j = r.below(n + 1)
                ops.append('%s:%d:%s' % (r.choice(['insr', 'insi']), j, ','.join(str(fresh()) for _ in range(ln)))); n += ln
            elif t == 4:
                i = r.below(n); j = r.below(n + 1)
                ops.extend(['insm:%d:r:%d' % (j, i), 'set:%d:%d' % (i + 1 if i >= j else i, fresh())]); n += 1
            else:
                ops.append('emb:r:%d' % r.below(n)); n += 1
    def probe():
        nonlocal n
        i = r.below(n); j = r.below(n + 1)
        ops.append('ins:%d:0:r:%d' % (j, i)); ops.append('rm:%d:0' % j)
        ops.append('ins:%d:2:r:%d' % (r.choice([0, n // 2, n]), r.choice([0, n // 2, n - 1]))); n += 2
        c = min(n, r.choice([1, 5, 33])); j = r.below(n - c + 1); ops.append('rm:%d:%d' % (j, c)); n -= c
    for target in (5, 40, 70, 160, 330):
        grow_to(target); probe()
    ops.append('rmf:%d' % r.choice([2, 3])); m = 200 + r.below(20); ops.append('sc:%d:v:%d' % (m, fresh() * 6 + 1)); n = m
    ops.append('sh:-'); ops.append('ab:r:%d' % r.below(n)); n += 1
    ops.append('rb:%d' % (n - 20)); n = 20
    ops.append('sh:%s' % ('-' if cont == 'vec' else '10'))          # SegmentedArray: a request below the count is clamped to the count
    ops.append('cpc'); ops.append('mvc')
    ops.append('clr:%d' % (0 if cont == 'vec' else 1)); n = 0
    for target in (70, 160):
        grow_to(target); probe()
    return ops


M = 2 ** 64 - 1

def rej_cases(ctx, traits, scale):
    """calls that must be rejected (MOMO_CHECK / MOMO_ASSERT = assert, or an exception) WITHOUT touching the array:
    boundary values 0, n-1, n, n+1, SIZE_MAX-k, SIZE_MAX for every numeric argument; run in a forked child by the harness"""
    out = {e: [] for e in ELEMS}
    for e in (ELEMS if scale > 1 else ['pod', 'str', 'cpy']):
        nm, nr = traits[e]
        conts = [('rej-arr', 0), ('rej-segc', 2), ('rej-vec', 0)] + ([('rej-arr', 4)] if e != 'cpy' else [])
        for (cont, ic) in conts:
            for n in (0, 4, 5, 9):       # 4 = full (capacity 4), 5 and 9 = free capacity left
                pre = ' '.join('ab:v:%d' % (10 + k) for k in range(n))
                bad = []
                if cont != 'rej-vec':    # (stdish erase/pop_back take iterators / no count)
                    for j in sorted(set([0, max(0, n - 1), n, n + 1, M - 1, M])):
                        for c in sorted(set([1, n - j + 1 if j <= n else 1, M - j if j <= M else 1, M - j + 1 if 0 < j else M, M - 1, M])):
                            if 0 <= c <= M and not (j <= n and c <= n - j):
                                bad.append('rm:%d:%d' % (j, c))
                    bad += ['rm:%d:0' % (n + 1), 'rm:%d:0' % M, 'rb:%d' % (n + 1), 'rb:%d' % M, 'rm1:%d' % n, 'rm1:%d' % M,
                            'set:%d:5' % n, 'set:%d:5' % M]
                for j in ((n + 1, M) if cont != 'rej-vec' else ()):   # (a std iterator beyond end() is UB on the caller's side)
                    bad += ['ins:%d:1:v:5' % j, 'ins:%d:0:v:5' % j, 'ins1:%d:v:5' % j, 'insm:%d:v:5' % j, 'emi:%d:v:5' % j,
                            'insr:%d:1,2' % j, 'insi:%d:1,2' % j, 'insl:%d:1,2' % j]
                for j in sorted(set([0, n // 2, n])):
                    for c in (M, M - 1, M - n, M - n + 1, M - n - 1, 2 ** 63):
                        if c > 0 and not (cont == 'rej-segc' and n + c <= M):   # (no wrap on a SegmentedArray = a real huge Reserve)
                            bad.append('ins:%d:%d:v:5' % (j, c))
                            if n: bad.append('ins:%d:%d:r:%d' % (j, c, n - 1))
                if cont not in ('rej-segc',):
                    bad += ['sc:%d:v:5' % M, 'sc:%d:v:5' % (2 ** 63), 'rs:%d' % M, 'rs:%d' % (2 ** 62)]
                    if e != 'str': bad.append('sc0:%d' % M)
                for b in bad:
                    out[e].append('%s %s %d %d %d %s | %s' % (cont, e, ic, nm, nr, pre, b))
    return out


# failing inputs of a genuine defect found by the audit (see NOTES.md); key for known_findings.txt
KNOWN_KEY_INSERT_OVERFLOW = 'insert-count-overflow-touches-array'

def rej_oracle(case, out):
    w = out.split()
    if len(w) < 4 or w[0] != 'pre':
        return 'harness failed on a call that must be rejected: ' + out[:80], None
    pre, how, post = w[1], w[2], w[3]
    bad = case.split('|')[1].strip()
    key = KNOWN_KEY_INSERT_OVERFLOW if bad.startswith('ins:') and int(bad.split(':')[2]) > 2 ** 62 else None
    if how == 'accepted':
        return 'a call violating its precondition was accepted (%s): %s -> %s' % (bad, pre, post), key
    if post != pre:
        return 'the array was modified before the call was rejected (%s, %s): %s -> %s' % (bad, how, pre, post), key
    return None, None


def guard_cases(ctx, scale):
    """translator validation of the generated guards: the real functions on arrays with exactly n items / capacity cap, every
    numeric argument at 0, 1, n-1, n, n+1, free, free+1 and at the top of the 64-bit range (where the sums wrap)"""
    U = 2 ** 64; out = []
    for (n, cap) in [(0, 0), (0, 3), (1, 1), (4, 4), (5, 8), (3, 7), (8, 8)] + ([(2, 16), (7, 9)] if scale > 1 else []):
        small = sorted(set([0, 1, max(0, n - 1), n, n + 1, cap - n, cap - n + 1, cap + 1]))
        huge = sorted(set([U - 1, U - 2, U - n, U - n - 1, U - n + 1, U - cap, U - cap - 1 + n]) & set(range(U - 40, U)))
        vals = [v for v in small if 0 <= v < U] + huge
        for i in vals:
            for c in vals:
                out.append('gd remove %d %d %d %d' % (n, cap, i, c))
                out.append('gd insnogrow %d %d %d %d' % (n, cap, i, c))
                if c <= 64 or n + c >= U:     # (a huge count that does NOT wrap is a genuine huge allocation request: not a guard matter)
                    out.append('gd insert %d %d %d %d' % (n, cap, i, c))
                    out.append('gd seginsert %d 0 %d %d' % (n, i, c))
            out.append('gd rb %d %d 0 %d' % (n, cap, i)); out.append('gd segrb %d 0 0 %d' % (n, i))
            out.append('gd idx %d %d %d 0' % (n, cap, i))
        out.append('gd abn %d %d 0 0' % (n, cap))
        for c in sorted(set([0, 1, max(0, n - 1), n, n + 1, max(0, cap - 1), cap, cap + 1])):      # Shrink(capacity): generated clamps vs the real capacity afterwards
            out.append('gd shrink %d %d 0 %d' % (n, cap, c)); out.append('gd segshrink %d %d 0 %d' % (n, cap, c))
        if cap % 4 == 0:     # ArrayShifter<SegmentedArray> (whole segments of 4, so that the capacities agree): Gen_ShiftLoopsSeg.v
            for i in range(0, n + 2):
                for c in range(0, n + 2):
                    out.append('gl sremove %d %d %d %d 0' % (n, cap, i, c))
                for c in range(0, cap - n + 2):
                    for ii in range(0, n + 1):
                        out.append('gl sinsert %d %d %d %d %d' % (n, cap, i, c, ii))
        for i in range(0, n + 2):
            out.append('gd indexof %d %d %d 0' % (n, cap, i))
        # the generated LOOPS: every index, counts 0..free+1, item = every element (aliased) or an external object
        for i in range(0, n + 2):
            for c in range(0, n + 2):
                out.append('gl remove %d %d %d %d 0' % (n, cap, i, c))
            for c in range(0, cap - n + 2):
                for ii in range(0, n + 1):
                    out.append('gl insert %d %d %d %d %d' % (n, cap, i, c, ii))
            out.append('gl aaddback %d %d 0 0 %d' % (n, cap, i)); out.append('gl aaddbackm %d %d 0 0 %d' % (n, cap, i))     # Array::AddBack(const Item&), item = element i (aliased) or external
            for c in range(0, cap - n + 4):          # Array::Insert itself: also counts that force a reallocation
                for ii in range(0, n + 1):
                    out.append('gl ainsert %d %d %d %d %d' % (n, cap, i, c, ii))
    return out


def grow_cases(ctx, scale):
    r = ctx.rng; out = []
    edge = [0, 1, 2, 3, 4, 5, 63, 64, 65, 66, 128, 129, 149, 150, 151, 199, 200, 250, 1000, 2 ** 32, 2 ** 63, 2 ** 64 - 66, 2 ** 64 - 65, 2 ** 64 - 2]
    for cap in edge:
        for d in (1, 2, 3, 60, 64, 65, 100, 10 ** 6):
            mn = cap + d
            if mn >= 2 ** 64: continue
            for gor in (0, 1):
                for cause in (0, 1):
                    for lin in (0, 1):
                        out.append('grow %d %d %d %d %d' % (gor, cap, mn, cause, lin))
    for _ in range(600 * scale):
        cap = r.below(2 ** r.range(1, 63)); mn = cap + 1 + r.below(2 ** r.range(0, 20))
        out.append('grow %d %d %d %d %d' % (r.below(2), cap, mn, r.below(2), r.below(2)))
    return out


STEP = re.compile(r'\[([^\]]*)\]c(-|\d+)a(-|\d+)')

def oracle_line(ctx, case, out):
    """the property on the real code's output, independent of the Coq model: the element sequence equals the
    std::vector twin after every op; nothing leaked; capacity >= count; after Reserve(n) no allocation while count <= n."""
    w = case.split()
    if w[0] == 'grow':
        try:
            return None if int(out) >= int(w[3]) else 'GrowCapacity returned %s < requested %s' % (out, w[3])
        except ValueError:
            return 'unparsable GrowCapacity output'
    ops = w[5:]
    if not out.endswith('twin=ok'):
        return 'element sequence differs from the std::vector twin (or the harness failed): ' + out[-60:]
    if 'LEAK' in out:
        return 'memory blocks leaked'
    steps = STEP.findall(out)
    if len(steps) != len(ops):
        return 'harness printed %d steps for %d ops' % (len(steps), len(ops))
    reserved = None     # (n, allocs at that time)
    for op, (seq, cap, al) in zip(ops, steps):
        cnt = len(seq.split(',')) if seq else 0
        if cap != '-' and int(cap) < cnt:
            return 'capacity %s < count %d' % (cap, cnt)
        if al != '-':
            o = op.split(':')[0]
            if o == 'rs':
                reserved = (int(op.split(':')[1]), int(al))
            elif o in ('sh', 'asg', 'asgr', 'clr', 'cpc', 'cpa', 'mvc', 'swp'):
                reserved = None
            elif reserved is not None:
                if cnt > reserved[0]:
                    reserved = None
                elif int(al) != reserved[1]:
                    return 'allocation after Reserve(%d) while count %d <= %d (op %s)' % (reserved[0], cnt, reserved[0], op)
    return None


def measure(cases, impl_out, gcases, rcases, rej_stats):
    """what actually occurred in this run (measured on the case lines and on the real code's outputs)"""
    d = {'scripts_per_element_kind': {e: len(cases[e]) for e in cases}, 'growcapacity_cases': len(gcases),
         'rejected_call_cases': {e: len(rcases[e]) for e in rcases if rcases[e]}, 'rejected_call_outcomes': rej_stats}
    conf = {}; opk = {}; alias = {'lvalue_alias': 0, 'rvalue_alias': 0, 'empty_range_or_count0': 0, 'index_eq_count': 0}
    ev = {'steps': 0, 'allocation_events': 0, 'steps_with_moved_from_element': 0, 'scripts_reaching_capacity>64': 0,
          'scripts_reaching_capacity>=150': 0, 'scripts_reaching_count>=300': 0, 'seg_scripts_crossing_a_segment_boundary': 0,
          'steps_count==capacity(full)': 0, 'steps_count<=internal_capacity(intcap)': 0, 'growth_events_per_script_max': 0}
    seg_items = {('segc', 0): 1, ('segc', 2): 4, ('segc', 5): 32, ('segs', 0): 1, ('segs', 1): 2, ('segs', 3): 8}
    for e in cases:
        outs = impl_out.get(e, [])
        for idx, c in enumerate(cases[e]):
            w = c.split(); k = '%s<%s>' % (w[0], w[2]); conf[k] = conf.get(k, 0) + 1
            for tok in w[5:]:
                p = tok.split(':'); o = p[0]; opk[o] = opk.get(o, 0) + 1
                if ':r:' in tok:
                    alias['rvalue_alias' if o in ('abm', 'insm') else 'lvalue_alias'] += 1
                if (o in ('ins',) and p[2] == '0') or (o == 'rm' and p[2] == '0') or (o in ('insr', 'insi', 'insl') and p[2] == '') or o == 'rb' and p[1] == '0':
                    alias['empty_range_or_count0'] += 1
            if idx < len(outs):
                steps = STEP.findall(outs[idx]); last_a = 0; maxcap = 0; maxcnt = 0; grows = 0
                for tok, (seq, cap, al) in zip(w[5:], steps):
                    ev['steps'] += 1
                    cnt = len(seq.split(',')) if seq else 0; maxcnt = max(maxcnt, cnt)
                    if 'M' in seq: ev['steps_with_moved_from_element'] += 1
                    if cap != '-':
                        maxcap = max(maxcap, int(cap))
                        if int(cap) == cnt: ev['steps_count==capacity(full)'] += 1
                        if w[0] in ('arr', 'arrR', 'vec') and int(w[2]) > 0 and cnt <= int(w[2]): ev['steps_count<=internal_capacity(intcap)'] += 1
                    if al != '-':
                        if int(al) > last_a: ev['allocation_events'] += int(al) - last_a; grows += int(al) - last_a
                        last_a = int(al)
                    p = tok.split(':')
                    if p[0] in ('ins', 'ins1', 'insm', 'emi', 'insr', 'insi', 'insl', 'rm') and p[1].isdigit() and int(p[1]) == cnt:
                        alias['index_eq_count'] += 1
                if maxcap > 64: ev['scripts_reaching_capacity>64'] += 1
                if maxcap >= 150: ev['scripts_reaching_capacity>=150'] += 1
                if maxcnt >= 300: ev['scripts_reaching_count>=300'] += 1
                ev['growth_events_per_script_max'] = max(ev['growth_events_per_script_max'], grows)
                if (w[0], int(w[2])) in seg_items and maxcnt > 2 * seg_items[(w[0], int(w[2]))]:
                    ev['seg_scripts_crossing_a_segment_boundary'] += 1
    d['scripts_per_container_config'] = conf; d['ops_by_kind'] = opk; d['argument_categories'] = alias; d['events_measured_on_real_outputs'] = ev
    return d


def gen_array_facts(ctx):
    """T-gen (AST facts, after props/C14): statement ORDER inside Array::Insert(index, count, item) and the two nothrow pvAddBackGrow
    overloads, read off the clang AST of the current headers and written to coq/Gen_ArrayFacts.v as lists of strings.  FactsProofs.v
    pins them (reflexivity) and InsertGlue.v interprets the copy branch of Insert from the list, so `the ItemHandler temporary is
    constructed before pvGrow is called` and `the alias test is index <= itemIndex < initCount` are part of the proved statement."""
    import sys, json as _json
    sys.path.insert(0, os.path.join(ctx.root, 'tools'))
    import cxx2coq
    out = os.path.join(ctx.cdir, 'Gen_ArrayFacts.v')
    sw = cxx2coq.skip_wrappers
    def strip(n):
        n = sw(n)
        while n.get('kind') in ('ImplicitCastExpr', 'ParenExpr', 'CXXStaticCastExpr', 'CXXFunctionalCastExpr', 'CXXBindTemporaryExpr',
                                'MaterializeTemporaryExpr', 'ExprWithCleanups') and n.get('inner'):
            n = sw(n['inner'][-1] if n['kind'] == 'CXXFunctionalCastExpr' else n['inner'][0])
        return n
    def expr(n):
        n = strip(n); k = n.get('kind')
        if k == 'BinaryOperator': return '(%s %s %s)' % (expr(n['inner'][0]), n['opcode'], expr(n['inner'][1]))
        if k == 'UnaryOperator': return '%s%s' % (n['opcode'], expr(n['inner'][0]))
        if k == 'DeclRefExpr': return n['referencedDecl']['name']
        if k == 'MemberExpr': return n['name']
        if k == 'IntegerLiteral': return n['value']
        if k in ('CallExpr', 'CXXMemberCallExpr', 'CXXOperatorCallExpr'): return call(n)
        if k == 'CXXConstructExpr' or k == 'CXXTemporaryObjectExpr':
            return '%s{%s}' % ('ctor', ', '.join(expr(a) for a in n.get('inner', [])))
        if k == 'ConditionalOperator' and '__assert_fail' in _json.dumps(n): return 'assert(%s)' % expr(n['inner'][0])   # (no line numbers in the facts)
        if k == 'ConditionalOperator': return '(%s ? %s : %s)' % tuple(expr(a) for a in n['inner'])
        if k == 'ArraySubscriptExpr': return '%s[%s]' % (expr(n['inner'][0]), expr(n['inner'][1]))
        return k
    def call(n):
        c = strip(n['inner'][0])
        nm = c.get('name') or (c.get('referencedDecl') or {}).get('name') or expr(c)
        return '%s(%s)' % (nm, ', '.join(expr(a) for a in n['inner'][1:]))
    def stmt(st):
        st0 = sw(st); k = st0.get('kind')
        if k == 'DeclStmt':
            vds_ = [x for x in st0['inner'] if x.get('kind') == 'VarDecl']
            if not vds_: return 'typedef'
            v = vds_[0]
            init = [x for x in v.get('inner', []) if isinstance(x, dict) and ('Expr' in x.get('kind', '') or x.get('kind', '').endswith('Literal') or x.get('kind', '').endswith('Operator'))]
            return 'decl %s = %s' % (v['name'], expr(init[0]) if init else '-')
        if k == 'IfStmt':
            parts = st0['inner']
            t = 'if %s { %s }' % (expr(parts[0]), '; '.join(stmts(parts[1])))
            if len(parts) > 2: t += ' else { %s }' % '; '.join(stmts(parts[2]))
            return t
        if k == 'ForStmt':
            ini, _cv, cond, inc, body = (st0['inner'] + [{}] * 5)[:5]
            return 'for (%s; %s; %s) { %s }' % (stmt(ini) if ini else '', expr(cond) if cond else '', expr(inc) if inc else '', '; '.join(stmts(body)))
        if k == 'CXXTryStmt': return 'try { %s }' % '; '.join(stmts(st0['inner'][0]))
        if k == 'ReturnStmt': return ('return ' + expr(st0['inner'][0])) if st0.get('inner') else 'return'
        if k in ('CallExpr', 'CXXMemberCallExpr', 'CXXOperatorCallExpr'): return call(st0)
        if k == 'CompoundStmt': return '{ %s }' % '; '.join(stmts(st0))
        return expr(st0)
    def stmts(n):
        n0 = sw(n)
        return [stmt(x) for x in n0.get('inner', [])] if n0.get('kind') == 'CompoundStmt' else [stmt(n0)]
    try:
        cfg = {'tu': os.path.join(ctx.pdir, 'inst_guards.cpp'), 'filter': 'Array', 'class': 'Array', 'includes': [os.path.join(ctx.repo, 'include')]}
        spec = cxx2coq.find_spec(cxx2coq.load_objs(cxx2coq.dump_ast(cfg, ctx.repo)), cfg)
        def body_of(name, pred):
            ds = [d for d in cxx2coq.method_decls(spec, name) if pred(d)]
            if len(ds) != 1: raise cxx2coq.TranslationError('%s: %d candidate bodies' % (name, len(ds)))
            return [x for x in ds[0]['inner'] if x.get('kind') == 'CompoundStmt'][0]
        npar = lambda d: [p.get('name') for p in d.get('inner', []) if p.get('kind') == 'ParmVarDecl']
        ins_body = body_of('Insert', lambda d: npar(d) == ['index', 'count', 'item'])
        ins = stmts(ins_body)
        ifs = [x for x in ins_body['inner'] if sw(x).get('kind') == 'IfStmt' and len(sw(x)['inner']) == 3]
        if len(ifs) != 1: raise cxx2coq.TranslationError('Insert: the copy-or-direct if statement was not found exactly once')
        ins_cond = expr(sw(ifs[0])['inner'][0]); ins_copy = stmts(sw(ifs[0])['inner'][1]); ins_direct = stmts(sw(ifs[0])['inner'][2])
        abc = stmts(body_of('pvAddBackGrow', lambda d: len(npar(d)) == 2 and 'const' in d['type']['qualType'].split(',')[0] and 'itemBuffer' in _json.dumps(d)))
        abm = stmts(body_of('pvAddBackGrow', lambda d: len(npar(d)) == 2 and 'itemIndex' in _json.dumps(d)))
        addback = stmts(body_of('AddBack', lambda d: 'const' in d['type']['qualType'].split('(')[1]))
        ng_ = [stmts([x for x in d['inner'] if x.get('kind') == 'CompoundStmt'][0]) for d in cxx2coq.method_decls(spec, 'pvAddBackNogrow')]
        ng_ = [[re.sub(r'forward\(itemCreator\)|itemCreator', 'creator', t_) for t_ in l_] for l_ in ng_]
        if not ng_ or any(l_ != ng_[0] for l_ in ng_): raise cxx2coq.TranslationError('pvAddBackNogrow: the instantiations differ')
        nogrow = ng_[0]
        shrink = stmts(body_of('Shrink', lambda d: npar(d) == ['capacity']))
        reserve = stmts(body_of('Reserve', lambda d: True))
        more = [('add_back_move_stmts', stmts(body_of('AddBack', lambda d: '&&' in d['type']['qualType']))),
                ('insert_rvalue_stmts', stmts(body_of('Insert', lambda d: npar(d) == ['index', 'item'] and '&&' in d['type']['qualType']))),
                ('remove_back_stmts', stmts(body_of('RemoveBack', lambda d: True))), ('pv_remove_back_stmts', stmts(body_of('pvRemoveBack', lambda d: True))),
                ('clear_stmts', stmts(body_of('Clear', lambda d: True)))]
        def tmpl(name, canon):
            ls_ = [stmts([x for x in d['inner'] if x.get('kind') == 'CompoundStmt'][0]) for d in cxx2coq.method_decls(spec, name)]
            ls_ = [[canon(t_) for t_ in l_] for l_ in ls_]
            if not ls_ or any(l_ != ls_[0] for l_ in ls_): raise cxx2coq.TranslationError('%s: no body / the instantiations differ' % name)
            return ls_[0]
        more.append(('insert_crt_stmts', tmpl('InsertCrt', lambda t_: t_)))
        more.append(('set_count_crt_stmts', tmpl('SetCountCrt', lambda t_: t_)))
        # ArrayShifter::Insert (input iterators)
        cfg4 = {'tu': os.path.join(ctx.pdir, 'inst_guards.cpp'), 'filter': 'ArrayShifter', 'class': 'ArrayShifter', 'includes': [os.path.join(ctx.repo, 'include')]}
        shspec = cxx2coq.find_spec(cxx2coq.load_objs(cxx2coq.dump_ast(cfg4, ctx.repo)), cfg4)
        ds4 = cxx2coq.method_decls(shspec, 'Insert')
        if len(ds4) != 1: raise cxx2coq.TranslationError('ArrayShifter::Insert: %d candidate bodies' % len(ds4))
        more.append(('shifter_insert_input_stmts', stmts([x for x in ds4[0]['inner'] if x.get('kind') == 'CompoundStmt'][0])))
        # Array::Data::Reset (external branch): the items creator runs BEFORE the old storage is released
        datas = [x for x in spec.get('inner', []) if x.get('kind') == 'CXXRecordDecl' and x.get('name') == 'Data' and any(m_.get('kind') == 'FunctionTemplateDecl' for m_ in x.get('inner', []))]
        if len(datas) != 1: raise cxx2coq.TranslationError('Array::Data: %d definitions' % len(datas))
        rs_ = [stmts([x for x in d['inner'] if x.get('kind') == 'CompoundStmt'][0]) for d in cxx2coq.method_decls(datas[0], 'Reset')]
        if not rs_ or any(l_ != rs_[0] for l_ in rs_): raise cxx2coq.TranslationError('Data::Reset: no body / the instantiations differ')
        more.append(('data_reset_stmts', rs_[0]))
        # the creator lambdas handed to Reset: pvGrow / Shrink (relocate only), SetCountCrt (create the new items, then relocate), pvAddBackGrow(creator)
        def lambdas_of(name, pred=lambda d: True):
            outl = []
            for d in cxx2coq.method_decls(spec, name):
                if not pred(d): continue
                def walk(n):
                    if not isinstance(n, dict): return
                    if n.get('kind') == 'LambdaExpr':
                        for r_ in n.get('inner', []):
                            if r_.get('kind') == 'CXXRecordDecl':
                                for m_ in r_.get('inner', []):
                                    if m_.get('kind') == 'CXXMethodDecl' and m_.get('name') == 'operator()':
                                        b_ = [x for x in m_.get('inner', []) if x.get('kind') == 'CompoundStmt']
                                        if b_: outl.append('; '.join(stmts(b_[0])))
                        return
                    for x in n.get('inner', []) or []: walk(x)
                walk(d)
            return sorted(set(outl))
        more.append(('pv_grow_lambda', lambdas_of('pvGrow')))
        more.append(('set_count_crt_lambdas', lambdas_of('SetCountCrt')))
        # momo::stdish::vector: the body of each forwarding member
        cfg2 = {'tu': os.path.join(ctx.pdir, 'inst_stdish.cpp'), 'filter': 'stdish::vector', 'class': 'vector', 'includes': [os.path.join(ctx.repo, 'include')]}
        vspec = cxx2coq.find_spec(cxx2coq.load_objs(cxx2coq.dump_ast(cfg2, ctx.repo)), cfg2)
        def vbody(name, pred):
            ds = [d for d in cxx2coq.method_decls(vspec, name) if pred(d)]
            if len(ds) != 1: raise cxx2coq.TranslationError('stdish::vector::%s: %d candidate bodies' % (name, len(ds)))
            return stmts([x for x in ds[0]['inner'] if x.get('kind') == 'CompoundStmt'][0])
        vfacts = [('vector_insert_n', vbody('insert', lambda d: npar(d) == ['where', 'count', 'value'])),
                  ('vector_insert_copy', vbody('insert', lambda d: npar(d) == ['where', 'value'] and '&&' not in d['type']['qualType'])),
                  ('vector_insert_move', vbody('insert', lambda d: npar(d) == ['where', 'value'] and '&&' in d['type']['qualType'])),
                  ('vector_erase_range', vbody('erase', lambda d: npar(d) == ['first', 'last'])),
                  ('vector_erase_one', vbody('erase', lambda d: npar(d) == ['where'])),
                  ('vector_push_back_copy', vbody('push_back', lambda d: '&&' not in d['type']['qualType'])),
                  ('vector_push_back_move', vbody('push_back', lambda d: '&&' in d['type']['qualType'])),
                  ('vector_resize_value', vbody('resize', lambda d: npar(d) == ['size', 'value'])),
                  ('vector_resize', vbody('resize', lambda d: npar(d) == ['size'])),
                  ('vector_assign_n', vbody('assign', lambda d: npar(d) == ['count', 'value'])),
                  ('vector_reserve', vbody('reserve', lambda d: True)), ('vector_shrink_to_fit', vbody('shrink_to_fit', lambda d: True)),
                  ('vector_clear', vbody('clear', lambda d: True)), ('vector_pop_back', vbody('pop_back', lambda d: True))]
        # Gen_ShiftLoopsSeg.v must really come from the SegmentedArray instantiation of ArrayShifter (spec_index 1 of the AST dump)
        cfg3 = {'tu': os.path.join(ctx.pdir, 'inst_guards.cpp'), 'filter': 'ArrayShifter', 'class': 'ArrayShifter', 'spec_index': 1,
                'includes': [os.path.join(ctx.repo, 'include')]}
        sspec = cxx2coq.find_spec(cxx2coq.load_objs(cxx2coq.dump_ast(cfg3, ctx.repo)), cfg3)
        targ = _json.dumps([x for x in sspec.get('inner', []) if x.get('kind') == 'TemplateArgument'])
        if 'momo::SegmentedArray<' not in targ:
            raise cxx2coq.TranslationError('ArrayShifter specialization #1 is not the SegmentedArray instantiation')
        def lst(name, items): return 'Definition %s : list string := [%s].\n' % (name, '; '.join('"%s"' % x.replace('"', "'") for x in items))
        txt = ('(* GENERATED by props/C05/prop.py (gen_array_facts) from the clang AST of inst_guards.cpp -- do not edit *)\n'
               'From Coq Require Import List String.\nImport ListNotations.\nLocal Open Scope string_scope.\n\n'
               '(* the statements of Array::Insert(size_t index, size_t count, const Item& item), in source order *)\n' + lst('array_insert_stmts', ins) +
               '(* its last statement `if (COND) { COPY BRANCH } else { DIRECT BRANCH }` taken apart *)\n'
               'Definition array_insert_condition : string := "%s".\n' % ins_cond + lst('array_insert_copy_branch', ins_copy) + lst('array_insert_direct_branch', ins_direct) +
               '(* ... of Array::pvAddBackGrow(const Item& item, std::true_type) *)\n' + lst('add_back_grow_copy_stmts', abc) +
               '(* ... of Array::pvAddBackGrow(Item&& item, std::true_type) *)\n' + lst('add_back_grow_move_stmts', abm) +
               '(* Array::AddBack(const Item&), pvAddBackNogrow(creator), Shrink(size_t), Reserve(size_t) *)\n' + lst('add_back_copy_stmts', addback) + lst('add_back_nogrow_stmts', nogrow) +
               lst('array_shrink_stmts', shrink) + lst('array_reserve_stmts', reserve) +
               '(* AddBack(Item&&), Insert(index, Item&&), RemoveBack, pvRemoveBack, Clear, InsertCrt, SetCountCrt, ArrayShifter::Insert(input iterators) *)\n' + ''.join(lst(n_, b_) for n_, b_ in more) +
               '(* momo::stdish::vector: the body of each forwarding member *)\n' + ''.join(lst(n_, b_) for n_, b_ in vfacts))
        if not os.path.exists(out) or open(out).read() != txt:
            open(out, 'w').write(txt)
        ctx.tie_obligations.append({'name': 'translate Gen_ArrayFacts (statement order of Array::Insert / pvAddBackGrow)', 'ok': True})
        return True
    except Exception as e:
        if os.path.exists(out): os.remove(out)
        ctx.tie_obligations.append({'name': 'translate Gen_ArrayFacts', 'ok': False, 'error': str(e)[:400]})
        return False


def build_harnesses(ctx):
    fast = ['-O0', '-g0'] if ctx.quick() else ['-O0', '-g1']   # (compile time: ~16 container types x 40 ops per element kind; -O1 + sanitizers costs 5x)
    jobs = [('harness.cpp', 'harness_' + e, ['-DELEM=%d' % i] + fast) for i, e in enumerate(ELEMS)]
    res = ctx.cxx_many(jobs, timeout=2400)
    if any(v is None for v in res.values()):
        ctx.stage('build-harness', False, getattr(ctx, 'last_cxx_error', ''))
        return None
    return {e: res['harness_' + e] for e in ELEMS}


def get_traits(ctx, hs):
    traits = {}
    for e in ELEMS:
        path = os.path.join(ctx.build, 'traits.cases'); open(path, 'w').write('traits x 0 0 0\n')
        rc, lines, err = ctx.run_lines([hs[e]], path)
        w = lines[0].split() if lines else []
        if rc != 0 or len(w) != 3 or w[0] != e:
            ctx.stage('build-harness', False, 'traits query failed for %s: %s %s' % (e, lines, err[-300:])); return None
        traits[e] = (int(w[1]), int(w[2]))
    return traits


def replay(ctx, rp):
    case = rp.get('case')
    if not case:
        print('replay has no concrete case (no-failing-input-found): broken stages were', list(rp.get('broken', {}).keys())); return 1
    hs = build_harnesses(ctx)
    if hs is None:
        print('harness does not build'); return 2
    w = case.split()
    elem = 'pod' if w[0] == 'grow' else w[1]
    path = os.path.join(ctx.build, 'replay.cases'); open(path, 'w').write(case + '\n')
    rc, lines, err = ctx.run_lines([hs[elem]], path)
    out = lines[0] if lines else ''
    print('case:', case, '\nimplementation:', out if lines else err[-500:])
    why = (rej_oracle(case, out)[0] if w[0].startswith('rej-') else oracle_line(ctx, case, out)) if rc == 0 and lines else 'harness crashed'
    if rp.get('model') and out != rp.get('model'):
        why = why or 'implementation differs from the recorded model output ' + rp['model']
    if why:
        print(why); print('VIOLATION property=C05 replay=%s' % ctx.replay); return 1
    print('property holds on this case'); return 0


def finish(ctx):
    """ctx.finish + hygiene for runs against a private copy of the headers (VERIF_REPO = mutant / seed runs): such a run must not leave
    anything behind that a following normal run (or a reader of evidence/) would trip over: the evidence file of the last NORMAL run is
    restored (the mutant's evidence is kept as build/C05/evidence-mutant.json).  The replay files written by the run are moved from replays/ to
    build/C05/mutant-replays/ (same file names as in the VIOLATION lines)."""
    ev = os.path.join(ctx.root, 'evidence', ctx.id + '.json')
    mutant = os.path.realpath(ctx.repo) != os.path.realpath('/repo')
    saved = open(ev).read() if (mutant and os.path.exists(ev)) else None
    rdir = os.path.join(ctx.root, 'replays')
    before = set(os.listdir(rdir)) if os.path.isdir(rdir) else set()
    rc = ctx.finish(rule=RULE)
    if mutant:
        import shutil
        try:
            shutil.copy(ev, os.path.join(ctx.build, 'evidence-mutant.json'))
            if saved is not None:
                open(ev, 'w').write(saved)
            else:
                os.remove(ev)
            dst = os.path.join(ctx.build, 'mutant-replays'); os.makedirs(dst, exist_ok=True)
            moved = 0
            for f in sorted(set(os.listdir(rdir)) - before):
                if f.startswith(ctx.id + '-'):
                    shutil.move(os.path.join(rdir, f), os.path.join(dst, f)); moved += 1
            print('[%s] mutant run (VERIF_REPO=%s): evidence/%s.json restored (this run: build/%s/evidence-mutant.json); %d replay file(s) of this run moved to %s' % (ctx.id, ctx.repo, ctx.id, ctx.id, moved, dst), flush=True)
        except OSError as e:
            print('[%s] mutant-run hygiene failed: %s' % (ctx.id, e), flush=True)
    return rc


def run(ctx):
    scale = 1 if ctx.quick() else 4
    ctx.trusted += ['tools/cxx2coq.py + clang 14 JSON AST for GrowCapacity (validated on every run against the real function)',
                    'hand-written Gallina models ArrayShift.v / ArrayModel.v of ArrayUtility.h:185-307 and Array.h (tied by running the extracted OCaml against the real containers on the same scripts, every run)',
                    'extraction: ExtrOcamlBasic only, OCaml 4.13.1; g++ 12 -std=c++17; harness reaches nothing private']
    ctx.assumptions += ['no exceptions thrown by element operations / allocation (exception safety is C04)',
                        'index arithmetic in nat: no size_t overflow (guaranteed by MOMO_ASSERT(capacity >= initCount + count))',
                        'iterator-range inserts take ranges outside the container (documented precondition, MOMO_ASSERT in Array::Insert)']
    ctx.regen(GEN)
    if not gen_array_facts(ctx):
        ctx.stage('regen', False, 'Array facts extraction failed: ' + str(ctx.tie_obligations[-1].get('error')))
    ctx.prove()
    hs = build_harnesses(ctx)
    if hs is None:
        return finish(ctx)
    traits = get_traits(ctx, hs)
    if traits is None:
        return finish(ctx)
    ctx.coverage['element_traits(isNothrowMoveConstructible,isNothrowRelocatable)'] = traits
    cases = {e: gen_cases(ctx, e, traits, scale) for e in ELEMS}
    gcases = grow_cases(ctx, scale)
    have_model = ctx.stages.get('prove', {}).get('ok') and ctx.extract()
    if have_model:
        mism, _ = ctx.correspond('growcapacity-translation', gcases, [hs['pod']], [ctx.model_exe])
        ctx.tie_obligations.append({'name': 'generated GrowCapacity == real ArraySettings::GrowCapacity on %d cases' % len(gcases), 'ok': not mism})
        for (i, c, a, b) in mism[:2]:
            ctx.violation('generated GrowCapacity and the implementation disagree', {'case': c, 'impl': a, 'model': b}, found_input=True)
        gdc = guard_cases(ctx, scale)
        mism, _ = ctx.correspond('guards-translation', gdc, [hs['pod']], [ctx.model_exe])
        ctx.tie_obligations.append({'name': 'generated range checks (Remove, InsertNogrow, Array::Insert prefix, RemoveBack, AddBackNogrow, operator[], '
                                            'SegmentedArray::Insert/RemoveBack) == real functions on %d boundary cases' % len(gdc), 'ok': not mism})
        for (i, c, a, b) in mism[:2]:
            ctx.violation('a generated range check and the real function disagree', {'case': c, 'impl': a, 'model': b,
                          'cmd': 'echo "%s" | build/C05/harness_pod' % c}, found_input=True)
        ctx.coverage['guard_cases'] = len(gdc)
        for e in ELEMS:
            mism, _ = ctx.correspond('scripts-' + e, cases[e], [hs[e]], [ctx.model_exe])
            ctx.tie_obligations.append({'name': 'extracted array model == real containers (%s elements) on %d scripts' % (e, len(cases[e])), 'ok': not mism})
            for (i, c, a, b) in mism[:2]:
                ctx.violation('array model and implementation disagree (%s)' % e, {'case': c, 'impl': a, 'model': b,
                              'cmd': 'echo "%s" | build/C05/harness_%s' % (c, e)}, found_input=True)
    # the property predicate on the real code (always; with a bigger generator when a stage broke = search stage)
    if any(not s['ok'] for s in ctx.stages.values()):
        ctx.log('a stage broke: searching the implementation for a failing input with the thorough generator')
        for e in ELEMS:
            cases[e] = cases[e] + gen_cases(ctx, e, traits, 4)
    bad = []
    impl_out = {}
    for e in ELEMS:
        cs = cases[e] + (gcases if e == 'pod' else [])
        path = os.path.join(ctx.build, 'oracle-%s.cases' % e)
        open(path, 'w').write('\n'.join(cs) + '\n')
        rc, lines, err = ctx.run_lines([hs[e]], path)
        ctx.evaluations += len(cs)
        impl_out[e] = lines[:len(cases[e])]
        for i, c in enumerate(cs):
            out = lines[i] if i < len(lines) else '<harness died: %s>' % err[-200:].strip()
            why = oracle_line(ctx, c, out)
            if why:
                bad.append((c, out, why))
                if i >= len(lines): break
            else:
                if ':r:' in c or ':0:' in c:
                    ctx.nontrivial.add(c)
    # calls that must be rejected without touching the array (oracle only: the huge values do not exist in the model's nat)
    rcases = rej_cases(ctx, traits, scale)
    rej_stats = {}
    rbad = []
    for e in ELEMS:
        if not rcases[e]:
            continue
        path = os.path.join(ctx.build, 'rej-%s.cases' % e)
        open(path, 'w').write('\n'.join(rcases[e]) + '\n')
        rc, lines, err = ctx.run_lines([hs[e]], path)
        ctx.evaluations += len(rcases[e])
        for i, c in enumerate(rcases[e]):
            out = lines[i] if i < len(lines) else '<harness died>'
            why, key = rej_oracle(c, out)
            how = out.split()[2] if len(out.split()) > 2 else 'failed'
            rej_stats[how] = rej_stats.get(how, 0) + 1
            if why:
                rbad.append((c, out, why, key))
            else:
                ctx.nontrivial.add(c)
    known_keys = {k['key'] for k in ctx.known_findings() if k['kind'] == 'known' and k['property'] == ctx.id}
    ctx.stage('oracle-rejected', all(b[3] in known_keys for b in rbad), rbad[0][2] if rbad else '')
    rbad.sort(key=lambda t: len(t[0]))
    seen_keys = set()
    for (c, out, why, key) in rbad:
        if key in seen_keys and key is not None:
            continue
        seen_keys.add(key)
        if len(seen_keys) > 3: break
        ctx.violation(why, {'case': c, 'impl_output': out, 'cmd': 'echo "%s" | build/C05/harness_%s' % (c, c.split()[1])},
                      found_input=True, key=key)
    ctx.stage('oracle', not bad, bad[0][2] if bad else '')
    bad.sort(key=lambda t: len(t[0]))
    for (c, out, why) in bad[:3]:
        ctx.violation(why, {'case': c, 'impl_output': out, 'cmd': 'echo "%s" | build/C05/harness_%s' % (c, c.split()[1])}, found_input=True)
    allc = [c for e in ELEMS for c in cases[e]]
    for c in allc[::max(1, len(allc) // 6)][:6]:
        ctx.add_sample(c[:300])
    ctx.coverage['input_distribution'] = measure(cases, impl_out, gcases, rcases, rej_stats)
    return finish(ctx)


RULE = ('scripts = for every container config (Array, ArrayIntCap<1,4,16>, Array with a Reallocate manager, SegmentedArray cnst/sqrt x 3 '
        'logInitialItemCount, stdish::vector, vector_intcap<4>) x element kind (pod, nothrow-move heap-owning, copy-only, self-move-hostile, '
        'long std::string) x initial length n x capacity state (grown/full/one free/reserved): EVERY op with the value argument aliasing every '
        'index (AddBack, AddBack&&, Insert n copies with n in {0,1,2,len}, Insert one, Insert&&, SetCount, assign), ranges of length 0,1,2,n at '
        'begin/middle/end (forward AND input iterators), Remove(index,count) for all index/count incl. 0, Remove(filter), RemoveBack, Clear, '
        'assign(range), Reserve/Shrink; + random 30-op histories; '
        '+ GrowCapacity boundary grid.  distinct = distinct script line; non-trivial = script with an aliased argument or an empty range')
