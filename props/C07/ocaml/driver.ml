(* C07 model driver: runs the extracted Coq models on the same case lines as the C++ harnesses and prints
   the same output lines.  All table/index computation is the extracted code; OCaml only parses, formats
   and folds results into the printed digests.
     T | op | op ...     L0 TableSpec history (see harness.cpp for the op syntax)
     X ...               L1 IndexModel / MultiHash scripts (see harness_idx.cpp) *)
open Zutil
open Datatypes
open TableSpec

let modp = 1000003
let fold_digest d x = (d * 131 + x) mod modp
let zi = int_of_z
let row_hash r = match Stdlib.List.map zi r with
  | [i; a; b; c] -> ((((i * 7 + a) * 11 + b) * 13 + c + 1) mod modp)
  | _ -> 0
let key_hash k = Stdlib.List.fold_left (fun h x -> (h * 17 + zi x + 1) mod modp) 0 k
let nat = nat_of_int
let ofnat = int_of_nat

let split_on c s = Stdlib.String.split_on_char c s

let rec parse_pred ws = match ws with
  | "T" :: r -> (PTrue, r)
  | "E" :: c :: v :: r -> (PEq (nat (int_of_string c), z_of_string v), r)
  | "L" :: c :: v :: r -> (PLt (nat (int_of_string c), z_of_string v), r)
  | "N" :: r -> let (p, r') = parse_pred r in (PNot p, r')
  | "&" :: r -> let (p, r1) = parse_pred r in let (q, r2) = parse_pred r1 in (PAnd (p, q), r2)
  | [] -> (PTrue, [])
  | _ :: r -> (PTrue, r)

let row_of ws = Stdlib.List.map z_of_string ws
let cols_of_mask m = Stdlib.List.filter_map (fun i -> if (m lsr i) land 1 = 1 then Some (nat i) else None) [0; 1; 2; 3]
(* "c1 c2 : rest" -> sorted column list, rest *)
let rec cols_until_colon ws acc = match ws with
  | ":" :: r -> (Stdlib.List.sort compare acc, r)
  | c :: r -> cols_until_colon r (int_of_string c :: acc)
  | [] -> (Stdlib.List.sort compare acc, [])
let mask_of_cols cs = Stdlib.List.fold_left (fun m c -> m lor (1 lsl c)) 0 cs

let table_digest t = Stdlib.List.fold_left (fun d r -> fold_digest d (row_hash r)) 0 t.rows
let pos_digest ps = Stdlib.List.fold_left (fun d p -> fold_digest d (ofnat p + 1)) 0 ps
let keys_digest ks = Stdlib.List.fold_left (fun d k -> fold_digest d (key_hash k)) 0 ks

let show_result = function
  | ROk -> "ok"
  | RConflict (n, j) -> Printf.sprintf "conflict %d %d" (ofnat n) (ofnat j)
  | RDup n -> Printf.sprintf "dup %d" (ofnat n)
  | RRow r -> "row " ^ Stdlib.String.concat " " (Stdlib.List.map string_of_z r)
  | RCount n -> Printf.sprintf "count %d" (ofnat n)
  | RInvalid -> "invalid"

let eqs_of mask vals = Stdlib.List.filter_map (fun i -> if (mask lsr i) land 1 = 1 then Some (nat i, Stdlib.List.nth vals i) else None) [0; 1; 2; 3]

let run_table_op (t : table ref) (text : string) : string =
  let ws = words text in
  let mut o =
    let (t', res) = step !t o in
    t := t';
    Printf.sprintf "%s #%d:%d" (show_result res) (Stdlib.List.length t'.rows) (table_digest t') in
  match ws with
  | "A" :: _ :: r -> mut (OAdd (row_of r))
  | "I" :: _ :: n :: r -> mut (OInsert (nat (int_of_string n), row_of r))
  | "U" :: _ :: n :: r -> mut (OUpdate (nat (int_of_string n), row_of r))
  | ["C"; _; n; c; v] -> mut (OUpdateCol (nat (int_of_string n), nat (int_of_string c), z_of_string v))
  | ["R"; _; n; keep] -> mut (ORemove (nat (int_of_string n), keep <> "0"))
  | ["X"; _; n; keep] -> mut (OExtract (nat (int_of_string n), keep <> "0"))
  | ["RR"; _; n; k] -> mut (ORemoveRange (nat (int_of_string n), nat (int_of_string k)))
  | "RP" :: _ :: p -> mut (ORemovePred (fst (parse_pred p)))
  | "AS" :: _ :: ns -> mut (OAssign (Stdlib.List.map (fun n -> nat (int_of_string n)) ns))
  | ["CL"] -> mut OClear
  | ["CP"; _] -> mut OCopy
  | "CF" :: _ :: p -> mut (OCopyFilter (fst (parse_pred p)))
  | "IU" :: cs -> mut (OAddUnique (Stdlib.List.map nat (fst (cols_until_colon cs []))))
  | "IM" :: cs -> mut (OAddMulti (Stdlib.List.map nat (fst (cols_until_colon cs []))))
  | ["DU"] -> mut ODropUnique
  | ["DM"] -> mut ODropMulti
  | "Q" :: mask :: _ :: i :: a :: b :: c :: p ->
    let vals = row_of [i; a; b; c] in
    let ps = select !t (eqs_of (int_of_string mask) vals) (fst (parse_pred p)) in
    Printf.sprintf "q %d %d" (Stdlib.List.length ps) (pos_digest ps)
  | ["QA"] ->
    let d = ref 0 in
    for va = -1 to 4 do for vb = -1 to 6 do for vc = -1 to 8 do
      let eqs = (if va >= 0 then [(nat 1, z_of_int va)] else []) @ (if vb >= 0 then [(nat 2, z_of_int vb)] else [])
                @ (if vc >= 0 then [(nat 3, z_of_int vc)] else []) in
      d := fold_digest !d (Stdlib.List.length (select !t eqs PTrue))
    done done done;
    Printf.sprintf "qa %d" !d
  | ("FU" | "FUR") :: rest ->
    let (cs, vals) = cols_until_colon rest [] in
    let cols = Stdlib.List.map nat cs in
    if not (Stdlib.List.exists (fun u -> natlist_eqb cols u) !t.uniq) then "noindex"
    else begin
      let k = Stdlib.List.map (fun c -> Stdlib.List.nth (row_of vals) c) cs in
      match find_by_key !t cols k with
      | [] -> "fu none"
      | p :: _ -> Printf.sprintf "fu %d" (ofnat p)
    end
  | "FM" :: rest ->
    let (cs, vals) = cols_until_colon rest [] in
    let cols = Stdlib.List.map nat cs in
    if not (Stdlib.List.exists (fun u -> natlist_eqb cols u) !t.multi) then "noindex"
    else begin
      let k = Stdlib.List.map (fun c -> Stdlib.List.nth (row_of vals) c) cs in
      let ps = find_by_key !t cols k in
      Printf.sprintf "fm %d %d" (Stdlib.List.length ps) (pos_digest ps)
    end
  | "P" :: distinct :: mask :: p ->
    let ks = project !t (distinct <> "0") (fst (parse_pred p)) (cols_of_mask (int_of_string mask)) in
    Printf.sprintf "p %d %d" (Stdlib.List.length ks) (keys_digest ks)
  | "S" :: mask :: rest ->
    let (p, rest') = parse_pred rest in
    let vals = (match rest' with ":" :: v -> row_of v | v -> row_of v) in
    let cols = cols_of_mask (int_of_string mask) in
    let ks = sorted_projection !t p cols in
    let k = Stdlib.List.map (fun c -> Stdlib.List.nth vals (ofnat c)) cols in
    (* bounds by the model of std::upper_bound's halving loop with pvBinarySearch's two predicates *)
    let n = Stdlib.List.length ks in
    let lb = SelectionModel.ub_bisect (nat (n + 1)) (SelectionModel.lower_pred k) [] ks (nat 0) (nat n) in
    let ub = SelectionModel.ub_bisect (nat (n + 1)) (SelectionModel.upper_pred k) [] ks (nat 0) (nat n) in
    if ofnat lb <> ofnat (lower_bound_count ks k) || ofnat ub <> ofnat (upper_bound_count ks k) then "s MODEL-BOUNDS-DIFFER" else
    Printf.sprintf "s %d %d %d %d" n (keys_digest ks) (ofnat lb) (ofnat ub)
  | ["D"] -> Stdlib.String.concat " " ("d" :: Stdlib.List.map (fun r -> Stdlib.String.concat "." (Stdlib.List.map string_of_z r)) !t.rows)
  | _ -> "?"

let run_table_case (line : string) : string =
  match split_on '|' line with
  | _ :: ops ->
    let t = ref empty_table in
    Stdlib.String.concat "|" (Stdlib.List.map (fun o -> run_table_op t o) ops)
  | [] -> ""

let () = iter_lines (fun line ->
  let l = Stdlib.String.trim line in
  if Stdlib.String.length l > 0 && l.[0] = 'T' then print_endline (run_table_case l)
  else print_endline (Idx_driver.run_case l))
