(* C09: the completeness clause of the invariant and DeallocateIf *)
From Coq Require Import ZArith List Bool Lia Permutation.
From MomoCommon Require Import GenPrelude.
From C09 Require Import PoolConc PoolInv.
From C09 Require PoolConcProofs.
Import ListNotations.
Local Open Scope Z_scope.

Section Compl.
Variable C : Z.
Hypothesis HC : 1 <= C.

(* every block of an owned buffer is in its buffer's free chain, live, cached - or it is the block in transit (the hole) *)
Definition Compl (q : bool) (hq : option blk) (w : cworld) : Prop :=
  forall p b j, In b (own (getp w p)) -> 0 <= j < C ->
    In j (chain_of w b) \/ In (b, j) (lb (getp w p)) \/ (p = q /\ hq = Some (b, j)).

Lemma Compl_sym q w : Compl q None w <-> Compl (negb q) None w.
Proof. unfold Compl. split; intros H p b j Hb Hj; destruct (H p b j Hb Hj) as [K|[K|(_ & K)]]; auto; discriminate. Qed.

(* general transfer lemma: every step of the model falls under it *)
Lemma Compl_gen q hq hq' w w' :
  Compl q hq w ->
  (* owned buffers are old ones or brand-new completely free ones *)
  (forall p b, In b (own (getp w' p)) -> In b (own (getp w p)) \/ (forall j, 0 <= j < C -> In j (chain_of w' b))) ->
  (* chain members of buffers that stay owned stay chain members, except the new hole *)
  (forall p b j, In b (own (getp w' p)) -> In b (own (getp w p)) -> In j (chain_of w b) -> In j (chain_of w' b) \/ (p = q /\ hq' = Some (b, j))) ->
  (* live / cached blocks stay so, except the new hole *)
  (forall p b j, In b (own (getp w' p)) -> In (b, j) (lb (getp w p)) -> In (b, j) (lb (getp w' p)) \/ In j (chain_of w' b) \/ (p = q /\ hq' = Some (b, j))) ->
  (* the old hole is resolved *)
  (forall b j, hq = Some (b, j) -> In b (own (getp w' q)) -> In j (chain_of w' b) \/ In (b, j) (lb (getp w' q)) \/ hq' = Some (b, j)) ->
  Compl q hq' w'.
Proof.
  intros H O Ch Lb Ho p b j Hb Hj. destruct (O p b Hb) as [Hold|Hnew]; [|left; apply Hnew; exact Hj].
  destruct (H p b j Hold Hj) as [K|[K|(Ep & K)]].
  - destruct (Ch p b j Hb Hold K) as [K'|K']; auto.
  - destruct (Lb p b j Hb K) as [K'|[K'|K']]; auto.
  - subst p. destruct (Ho b j K Hb) as [K'|[K'|K']]; auto.
Qed.

Lemma chain_of_setp w p x b : chain_of (setp w p x) b = chain_of w b.
Proof. apply same_maps_chain, setp_same_maps. Qed.

(* steps that only replace the record of pool q, keeping its buffers *)
Lemma Compl_record q hq hq' w x' :
  Compl q hq w -> own x' = own (getp w q) ->
  (forall b j, In (b, j) (lb (getp w q)) -> In (b, j) (lb x') \/ hq' = Some (b, j)) ->
  (forall b j, hq = Some (b, j) -> In (b, j) (lb x') \/ hq' = Some (b, j)) ->
  Compl q hq' (setp w q x').
Proof.
  intros H Eo Lb Ho. apply Compl_gen with (hq := hq) (w := w); [exact H| | | |].
  - intros p b Hb. left. destruct (bool_dec p q) as [->|N]; [rewrite getp_setp_eq in Hb; rewrite <- Eo; exact Hb|rewrite getp_setp_neq in Hb by exact N; exact Hb].
  - intros p b j _ _ Hc. left. rewrite chain_of_setp. exact Hc.
  - intros p b j _ Hl. destruct (bool_dec p q) as [->|N].
    + rewrite getp_setp_eq. destruct (Lb b j Hl); auto.
    + rewrite getp_setp_neq by exact N. auto.
  - intros b j E _. rewrite getp_setp_eq. destruct (Ho b j E); auto.
Qed.

Lemma add_live_C q bk w : Compl q (Some bk) w -> Compl q None (add_live w q bk).
Proof.
  intros H. unfold add_live. apply Compl_record with (hq := Some bk); [exact H|reflexivity| |].
  - intros b j Hl. left. unfold lb in *. cbn [live cache]. simpl. right. exact Hl.
  - intros b j E. inversion E. left. unfold lb. cbn [live cache]. simpl. left. reflexivity.
Qed.
Lemma remove_live_C q bk w : Compl q None w -> Compl q (Some bk) (remove_live w q bk).
Proof.
  intros H. unfold remove_live. apply Compl_record with (hq := None); [exact H|reflexivity| |intros; discriminate].
  intros b j Hl. destruct (blk_eqb_spec (b, j) bk) as [E|N]; [right; rewrite E; reflexivity|left].
  unfold lb in *. cbn [live cache]. rewrite in_app_iff in *. rewrite removeb_In. tauto.
Qed.
Lemma cache_push_C q bk w : Compl q (Some bk) w -> Compl q None (set_cache w q (bk :: cache (getp w q))).
Proof.
  intros H. unfold set_cache. apply Compl_record with (hq := Some bk); [exact H|reflexivity| |].
  - intros b j Hl. left. unfold lb in *. cbn [live cache]. rewrite in_app_iff in *. simpl. tauto.
  - intros b j E. inversion E. left. unfold lb. cbn [live cache]. rewrite in_app_iff. simpl. auto.
Qed.
Lemma cache_pop_C q bk rest w : Compl q None w -> cache (getp w q) = bk :: rest -> Compl q (Some bk) (set_cache w q rest).
Proof.
  intros H Ec. unfold set_cache. apply Compl_record with (hq := None); [exact H|reflexivity| |intros; discriminate].
  intros b j Hl. unfold lb in *. cbn [live cache]. rewrite Ec in Hl. rewrite in_app_iff in *. simpl in Hl.
  destruct Hl as [Hl|[E|Hl]]; [left; auto|right; rewrite E; reflexivity|left; auto].
Qed.


(* ---------- the steps that change maps or lists ---------- *)
Lemma lb_of w' w p : lives w' = lives w -> PoolConcProofs.caches w' = PoolConcProofs.caches w -> lb (getp w' p) = lb (getp w p).
Proof. intros L K. unfold lb. rewrite (live_of_lives _ _ p L), (cache_of_caches _ _ p K). reflexivity. Qed.

Lemma Jq_own_lt q h w p b : Jq C q h w -> In b (own (getp w p)) -> 1 <= b < fresh w.
Proof.
  intros (_ & (_ & P2 & _) & (_ & O2 & _) & _) Hb. destruct (bool_dec p q) as [->|N]; [exact (proj1 (P2 b Hb))|].
  assert (p = negb q) as -> by (destruct p, q; try congruence; reflexivity). exact (proj1 (O2 b Hb)).
Qed.
Lemma Jq_own_disj q h w p p' b : Jq C q h w -> p <> p' -> In b (own (getp w p)) -> In b (own (getp w p')) -> False.
Proof.
  intros (_ & _ & _ & d) N H1 H2. destruct p, p', q; try congruence; cbn [negb getp] in *; eauto.
Qed.

Lemma attach_new_getp q w :
  getp (attach_new C w q) q = relist (getp w q) (lfull (getp w q)) (lfree (getp w q) ++ [fresh w]) /\
  getp (attach_new C w q) (negb q) = getp w (negb q) /\
  (forall b, chain_of (attach_new C w q) b = chain_of (fst (new_buffer C w)) b).
Proof.
  unfold attach_new, new_buffer, set_lists, relist. cbv zeta. split; [rewrite getp_setp_eq; destruct q; reflexivity|].
  split; [rewrite getp_setp_neq by (destruct q; discriminate); destruct q; reflexivity|]. intros b. apply chain_of_setp.
Qed.

Lemma attach_new_C q w : Jq C q None w -> Compl q None w -> Compl q None (attach_new C w q).
Proof.
  intros Jw H. destruct (attach_new_getp q w) as (Gq & Go & Ch).
  pose proof (PoolConcProofs.chain_new_buffer C w HC) as CN. cbv zeta in CN. destruct CN as (Enb & Ech & _ & _ & Oth).
  apply Compl_gen with (hq := None) (w := w); [exact H| | | |intros; discriminate].
  - intros p b Hb. destruct (bool_dec p q) as [->|N].
    + rewrite Gq in Hb. unfold relist, own in Hb. cbn [lfull lfree] in Hb. rewrite app_assoc in Hb. apply in_app_or in Hb.
      destruct Hb as [Hb|[<-|[]]]; [left; exact Hb|right]. intros j Hj. rewrite Ch, <- Enb, Ech. apply PoolConcProofs.upto_In. lia.
    + left. assert (p = negb q) as -> by (destruct p, q; try congruence; reflexivity). rewrite Go in Hb. exact Hb.
  - intros p b j _ Hold Hc. left. rewrite Ch. assert (b <> snd (new_buffer C w)) as N by (rewrite Enb; pose proof (Jq_own_lt q None w p b Jw Hold); lia).
    rewrite (proj1 (Oth b N)). exact Hc.
  - intros p b j _ Hl. left. rewrite (lb_of _ w p (attach_new_lives C w q) (PoolConcProofs.attach_new_caches C w q)). exact Hl.
Qed.

Lemma take_C q w head rest :
  Jq C q None w -> Compl q None w -> lfree (getp w q) = head :: rest ->
  Compl q (Some (head, fb w head)) (fst (take w q)).
Proof.
  intros Jw H E. pose proof Jw as (_ & (_ & _ & P3 & _) & _).
  assert (In head (lfree (getp w q))) as Hh by (rewrite E; left; reflexivity).
  assert (In head (own (getp w q))) as Ho by (unfold own; apply in_or_app; auto).
  destruct (PoolConcProofs.chain_take w head (P3 head Hh)) as (CT1 & CT2).
  set (w1 := set_bytes w head (nx w head (fb w head)) (fc w head - 1)) in *.
  assert (forall b, chain_of (fst (take w q)) b = chain_of w1 b) as Ch.
  { intros b. unfold take. rewrite E. cbn [hd0 tl0 fst]. cbv zeta. fold w1. destruct (_ =? 0); [unfold set_lists; apply chain_of_setp|reflexivity]. }
  assert (forall p b, In b (own (getp (fst (take w q)) p)) -> In b (own (getp w p))) as Sub.
  { assert (forall p, getp w1 p = getp w p) as Gw1 by (intros p; unfold w1; apply getp_set_bytes).
    intros p b. unfold take. rewrite E. cbn [hd0 tl0 fst]. cbv zeta. fold w1. destruct (_ =? 0).
    - unfold set_lists. destruct (bool_dec p q) as [->|N].
      + rewrite getp_setp_eq. unfold own. cbn [lfull lfree]. rewrite E. rewrite <- app_assoc. auto.
      + rewrite getp_setp_neq by exact N. rewrite Gw1. auto.
    - rewrite Gw1. auto. }
  apply Compl_gen with (hq := None) (w := w); [exact H| | | |intros; discriminate].
  - intros p b Hb. left. apply Sub. exact Hb.
  - intros p b j Hb Hold Hc. rewrite Ch. destruct (Z.eq_dec b head) as [->|N].
    + rewrite CT1 in Hc. destruct Hc as [<-|Hc]; [right|left; exact Hc]. split; [|reflexivity].
      destruct (bool_dec p q) as [Ep|Np]; [exact Ep|]. exfalso. exact (Jq_own_disj q None w p q head Jw Np Hold Ho).
    + left. rewrite (CT2 b N). exact Hc.
  - intros p b j _ Hl. left. rewrite (lb_of _ w p (take_lives w q) (PoolConcProofs.take_caches w q)). exact Hl.
Qed.

(* effect of pvDeleteBlock on ownership and chains *)
Lemma getp_set_lists_eq w q a b : getp (set_lists w q a b) q = relist (getp w q) a b.
Proof. unfold set_lists, relist. rewrite getp_setp_eq. reflexivity. Qed.
Lemma getp_set_lists_neq w q p a b : p <> q -> getp (set_lists w q a b) p = getp w p.
Proof. intros N. unfold set_lists. apply getp_setp_neq. exact N. Qed.

Lemma drop_effect w q b lf lr :
  let w' := add_returned (set_bytes (set_lists w q lf lr) b 0 0) b in
  getp w' q = relist (getp w q) lf lr /\ (forall p, p <> q -> getp w' p = getp w p) /\
  (forall y, y <> b -> chain_of w' y = chain_of w y).
Proof.
  cbv zeta. split; [unfold set_lists, relist; destruct q; reflexivity|]. split.
  - intros p N. unfold set_lists. destruct p, q; try congruence; reflexivity.
  - intros y N. apply chain_of_ext.
    + unfold set_lists. destruct q; simpl; apply upd_other; exact N.
    + unfold set_lists. destruct q; simpl; apply upd_other; exact N.
    + intros k. unfold set_lists. destruct q; reflexivity.
Qed.

Lemma pvDeleteBlock_effect q w bk :
  Jq C q (Some bk) w ->
  let w' := pvDeleteBlock C w q bk in
  (forall p y, In y (own (getp w' p)) -> In y (own (getp w p))) /\
  (forall p y, y <> fst bk -> In y (own (getp w p)) -> In y (own (getp w' p))) /\
  (forall y, y <> fst bk -> chain_of w' y = chain_of w y) /\
  (In (fst bk) (own (getp w' q)) -> chain_of w' (fst bk) = snd bk :: chain_of w (fst bk)).
Proof.
  intros Jw. pose proof (pushmove_J C q w bk Jw) as J2.
  pose proof Jw as ((g1 & _) & (_ & _ & _ & _ & _ & _ & P7 & _) & _).
  destruct (P7 bk (or_intror eq_refl)) as (_ & Nj & Ob).
  destruct (PoolConcProofs.chain_push w (fst bk) (snd bk) (proj1 (g1 (fst bk))) Nj) as (CP1 & CP2).
  pose proof (fun y => pushmove_own q w bk y Ob) as OwnIff.
  cbv zeta. unfold pvDeleteBlock. cbv zeta.
  set (w2 := if fc (push w bk) (fst bk) =? 1 then move_head (push w bk) q (fst bk) else push w bk) in *.
  set (b := fst bk) in *.
  assert (forall y, chain_of w2 y = chain_of (push w bk) y) as Ch2.
  { intros y. unfold w2. destruct (_ =? 1); [unfold move_head, set_lists; apply chain_of_setp|reflexivity]. }
  assert (forall p, p <> q -> getp w2 p = getp w p) as Oth2.
  { intros p N. unfold w2. destruct (_ =? 1); [unfold move_head; rewrite getp_set_lists_neq by exact N|]; apply getp_push. }
  assert (forall p y, In y (own (getp w2 p)) <-> In y (own (getp w p))) as Own2.
  { intros p y. destruct (bool_dec p q) as [->|N]; [apply OwnIff|rewrite (Oth2 p N); reflexivity]. }
  assert (forall y, y <> b -> chain_of w2 y = chain_of w y) as ChO by (intros y N; rewrite Ch2; apply CP2; exact N).
  assert (chain_of w2 b = snd bk :: chain_of w b) as ChB by (rewrite Ch2; exact CP1).
  clearbody w2.
  (* the result is w2 or a drop of b *)
  assert (forall lf lr, (forall y, In y (lf ++ lr) -> In y (own (getp w2 q)) /\ y <> b) ->
                        (forall y, y <> b -> In y (own (getp w2 q)) -> In y (lf ++ lr)) ->
     let w' := add_returned (set_bytes (set_lists w2 q lf lr) b 0 0) b in
     (forall p y, In y (own (getp w' p)) -> In y (own (getp w p))) /\
     (forall p y, y <> b -> In y (own (getp w p)) -> In y (own (getp w' p))) /\
     (forall y, y <> b -> chain_of w' y = chain_of w y) /\
     (In b (own (getp w' q)) -> chain_of w' b = snd bk :: chain_of w b)) as Drop.
  { intros lf lr S1 S2. cbv zeta. destruct (drop_effect w2 q b lf lr) as (Gq & Go & Gc).
    split; [|split; [|split]].
    - intros p y Hy. apply Own2. destruct (bool_dec p q) as [->|N]; [rewrite Gq in Hy; unfold relist, own in Hy; cbn [lfull lfree] in Hy; apply S1; exact Hy|rewrite (Go p N) in Hy; exact Hy].
    - intros p y N Hy. apply Own2 in Hy. destruct (bool_dec p q) as [->|Np]; [rewrite Gq; unfold relist, own; cbn [lfull lfree]; apply S2; assumption|rewrite (Go p Np); exact Hy].
    - intros y N. rewrite (Gc y N). apply ChO. exact N.
    - intros Hb. rewrite Gq in Hb. unfold relist, own in Hb. cbn [lfull lfree] in Hb. destruct (S1 b Hb) as (_ & F). congruence. }
  destruct (Z.eqb_spec (fc w2 b) C) as [Fc|_].
  2:{ split; [intros p y; apply Own2|]. split; [intros p y _; apply Own2|]. split; [exact ChO|intros _; exact ChB]. }
  pose proof J2 as (_ & (P1 & _ & _ & P4 & _) & _). set (x := getp w2 q) in *.
  assert (In b (own x)) as Ob2 by (apply OwnIff; exact Ob).
  assert (In b (lfree x)) as Hbr.
  { unfold own in Ob2. apply in_app_or in Ob2. destruct Ob2 as [H|H]; [specialize (P4 b H); lia|exact H]. }
  unfold own in P1. pose proof P1 as P1'. apply NoDup_app_iff in P1'. destruct P1' as (NDf & NDr & Dfr).
  destruct (lfree x) as [|h t] eqn:El; [destruct Hbr|]. cbn [hd0 tl0].
  destruct (Z.eqb_spec b h) as [Ebh|Nbh].
  - destruct (Z.eqb_spec (hd0 t) 0) as [_|Nt].
    + split; [intros p y; apply Own2|]. split; [intros p y _; apply Own2|]. split; [exact ChO|intros _; exact ChB].
    + unfold drop_head. fold x. rewrite El. cbn [tl0]. subst h. apply Drop.
      * intros y Hy. pose proof (NoDup_remove_2 _ _ _ P1) as Nb. unfold own. fold x. rewrite El. rewrite !in_app_iff in *. simpl.
        split; [tauto|]. intro; subst. tauto.
      * intros y N Hy. unfold own in Hy. fold x in Hy. rewrite El in Hy. rewrite !in_app_iff in *. simpl in Hy. destruct Hy as [H|[H|H]]; auto. congruence.
  - unfold drop_mid. fold x. rewrite El. apply Drop.
    + intros y Hy. unfold own. fold x. rewrite El. rewrite !in_app_iff, !removez_In in *. tauto.
    + intros y N Hy. unfold own in Hy. fold x in Hy. rewrite El in Hy. rewrite !in_app_iff, !removez_In in *. tauto.
Qed.

Lemma pvDeleteBlock_C q w bk : Jq C q (Some bk) w -> Compl q (Some bk) w -> Compl q None (pvDeleteBlock C w q bk).
Proof.
  intros Jw H. destruct (pvDeleteBlock_effect q w bk Jw) as (F1 & _ & F2 & F3). cbv zeta in *.
  apply Compl_gen with (hq := Some bk) (w := w); [exact H| | | |].
  - intros p b Hb. left. apply (F1 p b Hb).
  - intros p b j Hb Hold Hc. left. destruct (Z.eq_dec b (fst bk)) as [E|N]; [|rewrite (F2 b N); exact Hc].
    subst b. assert (p = q) as ->.
    { destruct (bool_dec p q) as [Ep|Np]; [exact Ep|]. exfalso. pose proof Jw as (_ & (_ & _ & _ & _ & _ & _ & P7 & _) & _).
      destruct (P7 bk (or_intror eq_refl)) as (_ & _ & Ob). exact (Jq_own_disj q (Some bk) w p q (fst bk) Jw Np Hold Ob). }
    rewrite (F3 Hb). right. exact Hc.
  - intros p b j _ Hl. left. rewrite (lb_of _ w p (pvDeleteBlock_lives C w q bk) (PoolConcProofs.pvDeleteBlock_caches C w q bk)). exact Hl.
  - intros b j E Hb. left. inversion E; subst bk. cbn [fst snd] in *. rewrite (F3 Hb). left. reflexivity.
Qed.

(* ---------- composite operations: invariant and completeness together ---------- *)
Definition JC (q : bool) (h : option blk) (w : cworld) : Prop := Jq C q h w /\ Compl q h w.

Lemma JC_any q w : JC false None w <-> JC q None w.
Proof.
  unfold JC. destruct q; [|reflexivity]. split; intros (a & b); (split; [apply (Jq_sym C) in a; exact a|apply Compl_sym in b; exact b]).
Qed.

Lemma JC_sym q w : JC q None w -> JC (negb q) None w.
Proof. intros (a & b). split; [apply (proj1 (Jq_sym C q w)); exact a|apply Compl_sym in b; exact b]. Qed.

Lemma pvNewBlock_JC q w : JC q None w -> JC q (Some (snd (pvNewBlock C w q))) (fst (pvNewBlock C w q)).
Proof.
  intros (Jw & Cw). unfold pvNewBlock. cbv zeta.
  set (w0 := match lfree (getp w q) with [] => attach_new C w q | _ :: _ => w end).
  assert (JC q None w0 /\ lfree (getp w0 q) <> []) as ((J0 & C0) & N0).
  { unfold w0. destruct (lfree (getp w q)) eqn:E.
    - split; [split; [apply attach_new_J; assumption|apply attach_new_C; assumption]|]. rewrite attach_new_lfree, E. discriminate.
    - split; [split; assumption|]. rewrite E. discriminate. }
  clearbody w0. destruct (lfree (getp w0 q)) as [|head rest0] eqn:E0; [congruence|]. cbn [hd0 tl0].
  set (w1 := if (fc w0 head =? 1) && (hd0 rest0 =? 0) then attach_new C w0 q else w0).
  assert (JC q None w1 /\ exists rest1, lfree (getp w1 q) = head :: rest1 /\ (fc w1 head = 1 -> rest1 <> [])) as ((J1 & C1) & rest1 & E1 & H1).
  { unfold w1. destruct (Z.eqb_spec (fc w0 head) 1) as [F|F]; destruct (Z.eqb_spec (hd0 rest0) 0) as [Z0|Z0]; cbn [andb].
    - split; [split; [apply attach_new_J; assumption|apply attach_new_C; assumption]|]. exists (rest0 ++ [fresh w0]). rewrite attach_new_lfree, E0. split; [reflexivity|].
      intros _. destruct rest0; discriminate.
    - split; [split; assumption|]. exists rest0. split; [exact E0|]. intros _ E. rewrite E in Z0. apply Z0. reflexivity.
    - split; [split; assumption|]. exists rest0. split; [exact E0|]. intros F'. congruence.
    - split; [split; assumption|]. exists rest0. split; [exact E0|]. intros F'. congruence. }
  clearbody w1. destruct (take_J C q w1 head rest1 J1 E1 H1) as (Es & Jt). rewrite Es. split; [exact Jt|].
  apply take_C with (rest := rest1); assumption.
Qed.

Lemma flush_loop_JC q : forall l w, JC q None w -> cache (getp w q) = l -> JC q None (flush_loop C l w q).
Proof.
  induction l as [|bk rest IH]; intros w (Jw & Cw) E; [split; assumption|]. cbn [flush_loop]. apply IH.
  - pose proof (cache_pop_J C q bk rest w Jw E) as J1. split; [apply pvDeleteBlock_J; assumption|].
    apply pvDeleteBlock_C; [exact J1|]. apply cache_pop_C; assumption.
  - rewrite (cache_of_caches _ _ q (PoolConcProofs.pvDeleteBlock_caches C (set_cache w q rest) q bk)). apply cache_set_cache.
Qed.
Lemma flush_JC q w : JC q None w -> JC q None (flush C w q).
Proof. intros H. unfold flush. apply flush_loop_JC; [exact H|reflexivity]. Qed.

Variable CF : Z.
Variable uc : bool.

Lemma Allocate_JC q w : JC q None w -> JC q None (fst (Allocate C uc w q)).
Proof.
  intros (Jw & Cw). unfold Allocate.
  assert (JC q None (fst (let '(w0, bk) := pvNewBlock C w q in (add_live w0 q bk, bk)))) as ViaNew.
  { pose proof (pvNewBlock_JC q w (conj Jw Cw)) as (JN & CN). destruct (pvNewBlock C w q) as [w0 bk]. cbn [fst snd] in *.
    split; [apply add_live_J; exact JN|apply add_live_C; exact CN]. }
  destruct (cache (getp w q)) as [|bk rest] eqn:E; [exact ViaNew|]. destruct uc; [|exact ViaNew].
  cbn [fst]. split; [apply add_live_J; apply cache_pop_J with (rest := rest); assumption|apply add_live_C; apply cache_pop_C; assumption].
Qed.

Lemma Deallocate_JC q w bk : JC q None w -> In bk (live (getp w q)) -> JC q None (Deallocate C CF uc w q bk).
Proof.
  intros (Jw & Cw) Hl. unfold Deallocate. destruct uc.
  - cbv zeta. set (w0 := if CF <=? lenz (cache (getp w q)) then flush C w q else w).
    assert (JC q None w0 /\ In bk (live (getp w0 q))) as ((J0 & C0) & H0).
    { unfold w0. destruct (CF <=? lenz (cache (getp w q))); [|split; [split|]; assumption]. split; [apply flush_JC; split; assumption|].
      unfold flush. rewrite (live_of_lives _ _ q (flush_loop_lives C q _ w)). exact Hl. }
    clearbody w0. pose proof (remove_live_J C q bk w0 J0 H0) as J1.
    assert (cache (getp (remove_live w0 q bk) q) = cache (getp w0 q)) as Ec by (unfold remove_live; rewrite getp_setp_eq; reflexivity).
    split; [apply cache_push_J; exact J1|]. apply cache_push_C. apply remove_live_C. exact C0.
  - split; [apply pvDeleteBlock_J; [exact HC|apply remove_live_J; assumption]|].
    apply pvDeleteBlock_C; [apply remove_live_J; assumption|apply remove_live_C; exact Cw].
Qed.

Lemma Compl_merge d w1 x' y' :
  Compl d None w1 -> cache (getp w1 (negb d)) = [] ->
  (forall b, In b (own x') -> In b (own (getp w1 d)) \/ In b (own (getp w1 (negb d)))) ->
  (forall bk, In bk (lb (getp w1 d)) \/ In bk (live (getp w1 (negb d))) -> In bk (lb x')) ->
  own y' = [] ->
  Compl d None (setp (setp w1 d x') (negb d) y').
Proof.
  intros H Ec Ow Lb Ey p b j Hb Hj.
  assert (forall y, chain_of (setp (setp w1 d x') (negb d) y') y = chain_of w1 y) as Ch by (intros y; rewrite !chain_of_setp; reflexivity).
  rewrite Ch. destruct (bool_dec p d) as [->|N].
  - rewrite getp_setp_neq in Hb by (destruct d; discriminate). rewrite getp_setp_eq in Hb.
    rewrite getp_setp_neq by (destruct d; discriminate). rewrite getp_setp_eq.
    destruct (Ow b Hb) as [Hx|Hy].
    + destruct (H d b j Hx Hj) as [K|[K|(_ & K)]]; [auto|right; left; apply Lb; auto|discriminate].
    + destruct (H (negb d) b j Hy Hj) as [K|[K|(_ & K)]]; [auto| |discriminate]. right. left. apply Lb. right.
      unfold lb in K. rewrite Ec, app_nil_r in K. exact K.
  - assert (p = negb d) as -> by (destruct p, d; try congruence; reflexivity). rewrite getp_setp_eq in Hb. rewrite Ey in Hb. destruct Hb.
Qed.

Lemma MergeFrom_JC d w : (uc = false -> cache (getp w (negb d)) = []) -> JC d None w -> JC d None (MergeFrom C uc w d).
Proof.
  intros Hnc (Jw & Cw). split; [apply MergeFrom_J; assumption|].
  unfold MergeFrom. cbv zeta. set (w1 := if uc then flush C w (negb d) else w).
  assert (JC d None w1 /\ cache (getp w1 (negb d)) = []) as ((J1 & C1) & Ec).
  { unfold w1. destruct uc.
    - split; [|apply PoolConcProofs.flush_cache_empty]. pose proof (JC_sym _ _ (flush_JC (negb d) w (JC_sym d w (conj Jw Cw)))) as K. rewrite negb_involutive in K. exact K.
    - split; [split; assumption|apply Hnc; reflexivity]. }
  clearbody w1. pose proof J1 as (_ & Px & Py & _). set (x := getp w1 d) in *. set (y := getp w1 (negb d)) in *.
  pose proof Py as (_ & _ & _ & _ & Q5 & _).
  destruct (lfree y) as [|hy ty] eqn:Ey.
  - assert (lfull y = []) as Efy by (apply Q5; reflexivity). rewrite Efy.
    apply Compl_merge; [exact C1|exact Ec| | |reflexivity]; fold x y.
    + intros b Hb. left. exact Hb.
    + intros bk Hk. unfold lb in *. cbn [live cache]. rewrite !in_app_iff in *. tauto.
  - destruct (lfree x) as [|hx tx] eqn:Ex.
    + apply Compl_merge; [exact C1|exact Ec| | |reflexivity]; fold x y.
      * intros b Hb. right. unfold own in *. cbn [lfull lfree] in Hb. rewrite Ey. exact Hb.
      * intros bk Hk. unfold lb in *. cbn [live cache]. rewrite !in_app_iff in *. tauto.
    + apply Compl_merge; [exact C1|exact Ec| | |reflexivity]; fold x y.
      * intros b Hb. unfold own in *. cbn [lfull lfree] in Hb. rewrite rev0_spec, app_nil_r in Hb. rewrite Ex, Ey.
        rewrite !in_app_iff in *. rewrite <- in_rev in Hb. tauto.
      * intros bk Hk. unfold lb in *. cbn [live cache]. rewrite !in_app_iff in *. tauto.
Qed.

Lemma DeallocateAll_C q w : Jq C q None w -> Compl q None w -> Compl q None (DeallocateAll w q).
Proof.
  intros Jw H. unfold DeallocateAll. destruct (lfree (getp w q)) as [|h t] eqn:El; [exact H|]. rewrite <- El.
  set (x := getp w q). set (l1 := rev0 (lfull x) []). set (wa := return_all w l1). set (wb := return_all wa (lfree x)).
  destruct (return_all_spec l1 w) as (A1 & _ & _ & A4 & _). fold wa in A1, A4.
  destruct (return_all_spec (lfree x) wa) as (B1 & _ & _ & B4 & _). fold wb in B1, B4.
  intros p b j Hb Hj. destruct (bool_dec p q) as [->|N]; [rewrite getp_setp_eq in Hb; destruct Hb|].
  rewrite getp_setp_neq in Hb by exact N. rewrite getp_setp_neq by exact N. rewrite chain_of_setp.
  rewrite B1, A1 in *.
  assert (~ In b (own x)) as Nx by (intro Hx; exact (Jq_own_disj q None w p q b Jw N Hb Hx)).
  assert (~ In b (lfree x) /\ ~ In b l1) as (N1 & N2).
  { split; intro K; apply Nx; unfold own; apply in_or_app; [right; exact K|left]. unfold l1 in K. rewrite rev0_spec, app_nil_r, <- in_rev in K. exact K. }
  rewrite (proj2 (B4 b N1)), (proj2 (A4 b N2)).
  destruct (H p b j Hb Hj) as [K|[K|(E & _)]]; auto; congruence.
Qed.

Lemma Swap_C w : Compl false None w -> Compl false None (Swap w).
Proof.
  intros H p b j Hb Hj. assert (getp (Swap w) p = getp w (negb p)) as E by (destruct p; reflexivity). rewrite E in *.
  assert (chain_of (Swap w) b = chain_of w b) as -> by (apply same_maps_chain; repeat split).
  destruct (H (negb p) b j Hb Hj) as [K|[K|(_ & K)]]; auto. discriminate.
Qed.

(* ---------- DeallocateIf / pvDeleteBlocks ---------- *)
Lemma memz_In i l : memz i l = true <-> In i l.
Proof.
  induction l as [|a t IH]; simpl; [split; [discriminate|tauto]|]. destruct (Z.eqb_spec a i) as [->|N]; simpl; [tauto|]. rewrite IH. intuition congruence.
Qed.

Section DelIf.
Variable f : blk -> bool.
Variable p : bool.

Definition del_step (b : Z) (freeBits : list Z) (w : cworld) (i : Z) : cworld :=
  if memz i freeBits then w else if f (b, i) then pvDeleteBlock C (remove_live w p (b, i)) p (b, i) else w.

Lemma del_loop_JC b freeBits : forall l w,
  NoDup l -> JC p None w -> cache (getp w p) = [] ->
  (forall i, In i l -> ~ In i freeBits -> In (b, i) (live (getp w p))) ->
  let w' := foldl (del_step b freeBits) l w in
  JC p None w' /\ cache (getp w' p) = [] /\
  (forall y, y <> b -> In y (own (getp w p)) -> In y (own (getp w' p))) /\
  (forall bk, In bk (live (getp w' p)) -> In bk (live (getp w p))) /\
  (forall bk, In bk (live (getp w p)) -> fst bk <> b -> In bk (live (getp w' p))) /\
  (NoDup (returned w) -> NoDup (returned w')).
Proof.
  induction l as [|i t IH]; intros w ND (Jw & Cw) Ec Hl; cbv zeta.
  - simpl. split; [split; assumption|]. split; [exact Ec|]. split; [auto|]. split; [auto|]. split; auto.
  - cbn [foldl]. inversion ND as [|? ? Ni NDt]; subst.
    assert (let w1 := del_step b freeBits w i in
            JC p None w1 /\ cache (getp w1 p) = [] /\
            (forall y, y <> b -> In y (own (getp w p)) -> In y (own (getp w1 p))) /\
            (forall bk, In bk (live (getp w1 p)) -> In bk (live (getp w p))) /\
            (forall bk, In bk (live (getp w p)) -> bk <> (b, i) -> In bk (live (getp w1 p))) /\
            (NoDup (returned w) -> NoDup (returned w1))) as S.
    { cbv zeta. unfold del_step. destruct (memz i freeBits) eqn:M; [split; [split; assumption|]; split; [exact Ec|]; split; [auto|]; split; [auto|]; split; auto|].
      destruct (f (b, i)); [|split; [split; assumption|]; split; [exact Ec|]; split; [auto|]; split; [auto|]; split; auto].
      assert (In (b, i) (live (getp w p))) as Hin.
      { apply Hl; [left; reflexivity|]. intro K. apply memz_In in K. congruence. }
      pose proof (remove_live_J C p (b, i) w Jw Hin) as J1. pose proof (remove_live_C p (b, i) w Cw) as C1.
      set (w0 := remove_live w p (b, i)) in *.
      destruct (pvDeleteBlock_effect p w0 (b, i) J1) as (_ & F4 & _). cbv zeta in F4. cbn [fst] in F4.
      assert (forall q, live (getp (pvDeleteBlock C w0 p (b, i)) q) = live (getp w0 q)) as Lv
        by (intros q; apply live_of_lives; apply pvDeleteBlock_lives).
      assert (live (getp w0 p) = removeb (b, i) (live (getp w p))) as L0 by (unfold w0, remove_live; rewrite getp_setp_eq; reflexivity).
      assert (own (getp w0 p) = own (getp w p)) as O0 by (unfold w0, remove_live; rewrite getp_setp_eq; reflexivity).
      split; [split; [apply pvDeleteBlock_J; assumption|apply pvDeleteBlock_C; assumption]|].
      split; [rewrite (cache_of_caches _ _ p (PoolConcProofs.pvDeleteBlock_caches C w0 p (b, i))); unfold w0, remove_live; rewrite getp_setp_eq; exact Ec|].
      split; [intros y N Hy; apply F4; [exact N|rewrite O0; exact Hy]|].
      split; [intros bk Hk; rewrite Lv, L0 in Hk; apply removeb_In in Hk; tauto|].
      split; [intros bk Hk N; rewrite Lv, L0; apply removeb_In; tauto|].
      intros NDr. apply (pvDeleteBlock_NR C p w0 (b, i) J1). unfold w0, remove_live. rewrite returned_setp. exact NDr. }
    cbv zeta in S. destruct S as (J1 & E1 & O1 & L1 & K1 & R1).
    destruct (IH (del_step b freeBits w i) NDt J1 E1) as (J2 & E2 & O2 & L2 & K2 & R2).
    { intros i' Hi' Nf. apply K1; [apply Hl; [right; exact Hi'|exact Nf]|]. intro E. inversion E; subst. contradiction. }
    cbv zeta in *. split; [exact J2|]. split; [exact E2|]. split; [intros y N Hy; apply O2; [exact N|apply O1; assumption]|].
    split; [intros bk Hk; apply L1; apply L2; exact Hk|].
    split; [intros bk Hk N; apply K2; [|exact N]; apply K1; [exact Hk|]; intro E; apply N; rewrite E; reflexivity|].
    intros NDr. apply R2. apply R1. exact NDr.
Qed.

Lemma pvDeleteBlocks_is_loop w b : pvDeleteBlocks C f w p b = foldl (del_step b (chain_of w b)) (upto (Z.to_nat C) 0) w.
Proof. reflexivity. Qed.

(* one buffer: every block of it that is not free is live (completeness, empty cache) *)
Lemma pvDeleteBlocks_JC w b :
  JC p None w -> cache (getp w p) = [] -> In b (own (getp w p)) ->
  let w' := pvDeleteBlocks C f w p b in
  JC p None w' /\ cache (getp w' p) = [] /\
  (forall y, y <> b -> In y (own (getp w p)) -> In y (own (getp w' p))) /\
  (forall bk, In bk (live (getp w' p)) -> In bk (live (getp w p))) /\
  (forall bk, In bk (live (getp w p)) -> fst bk <> b -> In bk (live (getp w' p))) /\
  (NoDup (returned w) -> NoDup (returned w')).
Proof.
  intros (Jw & Cw) Ec Ob. rewrite pvDeleteBlocks_is_loop. apply del_loop_JC; [apply PoolConcProofs.upto_NoDup|split; assumption|exact Ec|].
  intros i Hi Nf. apply PoolConcProofs.upto_In in Hi.
  destruct (Cw p b i Ob ltac:(lia)) as [K|[K|(_ & K)]]; [contradiction| |discriminate].
  unfold lb in K. rewrite Ec, app_nil_r in K. exact K.
Qed.

(* a snapshot list of buffers, all still owned *)
Lemma del_buffers_JC : forall L w,
  NoDup L -> (forall b, In b L -> In b (own (getp w p))) -> JC p None w -> cache (getp w p) = [] ->
  let w' := foldl (fun w b => pvDeleteBlocks C f w p b) L w in
  JC p None w' /\ cache (getp w' p) = [] /\ (forall bk, In bk (live (getp w' p)) -> In bk (live (getp w p))).
Proof.
  induction L as [|b t IH]; intros w ND Ow Jw Ec; cbv zeta; [simpl; auto|]. cbn [foldl]. inversion ND as [|? ? Nb NDt]; subst.
  destruct (pvDeleteBlocks_JC w b Jw Ec (Ow b (or_introl eq_refl))) as (J1 & E1 & O1 & L1 & _). cbv zeta in *.
  assert (forall y, In y t -> In y (own (getp (pvDeleteBlocks C f w p b) p))) as Ow'.
  { intros y Hy. apply O1; [intro; subst; contradiction|apply Ow; right; exact Hy]. }
  destruct (IH (pvDeleteBlocks C f w p b) NDt Ow' J1 E1) as (J2 & E2 & L2).
  cbv zeta in *. split; [exact J2|]. split; [exact E2|]. intros bk Hk. apply L1. apply L2. exact Hk.
Qed.
Lemma del_buffers_NR : forall L w,
  NoDup L -> (forall b, In b L -> In b (own (getp w p))) -> JC p None w -> cache (getp w p) = [] ->
  NoDup (returned w) -> NoDup (returned (foldl (fun w b => pvDeleteBlocks C f w p b) L w)).
Proof.
  induction L as [|b t IH]; intros w ND Ow Jw Ec NDr; [exact NDr|]. cbn [foldl]. inversion ND as [|? ? Nb NDt]; subst.
  destruct (pvDeleteBlocks_JC w b Jw Ec (Ow b (or_introl eq_refl))) as (J1 & E1 & O1 & _ & _ & R1). cbv zeta in *.
  apply IH; auto. intros y Hy. apply O1; [intro; subst; contradiction|apply Ow; right; exact Hy].
Qed.
End DelIf.

(* DeallocateIf 360-384 keeps the invariant (with completeness) and only removes live blocks *)
Lemma DeallocateIf_JC p f w :
  (uc = false -> cache (getp w p) = []) -> JC p None w ->
  JC p None (DeallocateIf C uc w p f) /\
  (forall bk, In bk (live (getp (DeallocateIf C uc w p f) p)) -> In bk (live (getp w p))).
Proof.
  intros Hnc Jw. unfold DeallocateIf. cbv zeta.
  set (w1 := if uc then flush C w p else w).
  assert (JC p None w1 /\ cache (getp w1 p) = [] /\ live (getp w1 p) = live (getp w p)) as (J1 & E1 & L1).
  { unfold w1. destruct uc; [|split; [exact Jw|split; [apply Hnc; reflexivity|reflexivity]]].
    split; [apply flush_JC; exact Jw|]. split; [apply PoolConcProofs.flush_cache_empty|].
    unfold flush. apply live_of_lives. apply flush_loop_lives. }
  clearbody w1. destruct (acount (getp w1 p) =? 0); [split; [exact J1|rewrite L1; auto]|].
  pose proof J1 as ((_ & (P1 & _) & _) & _). unfold own in P1. apply NoDup_app_iff in P1. destruct P1 as (NDf & NDr & _).
  assert (forall b, In b (lfree (getp w1 p)) -> In b (own (getp w1 p))) as Ow1 by (intros b Hb; unfold own; apply in_or_app; right; exact Hb).
  destruct (del_buffers_JC f p (lfree (getp w1 p)) w1 NDr Ow1 J1 E1) as (J2 & E2 & L2).
  cbv zeta in *. set (w2 := foldl (fun w b => pvDeleteBlocks C f w p b) (lfree (getp w1 p)) w1) in *.
  pose proof J2 as ((_ & (Q1 & _) & _) & _). unfold own in Q1. apply NoDup_app_iff in Q1. destruct Q1 as (NDf2 & _ & _).
  assert (NoDup (rev0 (lfull (getp w2 p)) [])) as ND2 by (rewrite rev0_spec, app_nil_r; apply NoDup_rev; exact NDf2).
  assert (forall b, In b (rev0 (lfull (getp w2 p)) []) -> In b (own (getp w2 p))) as Ow2.
  { intros b Hb. rewrite rev0_spec, app_nil_r, <- in_rev in Hb. unfold own. apply in_or_app. left. exact Hb. }
  destruct (del_buffers_JC f p (rev0 (lfull (getp w2 p)) []) w2 ND2 Ow2 J2 E2) as (J3 & E3 & L3).
  cbv zeta in *. split; [exact J3|]. intros bk Hk. rewrite <- L1. apply L2. apply L3. exact Hk.
Qed.

(* ---------- DeallocateIf frees exactly the selected live blocks ---------- *)
Lemma lfull_set_lists w q a b0 : lfull (getp (set_lists w q a b0) q) = a.
Proof. unfold set_lists. rewrite getp_setp_eq. reflexivity. Qed.

Lemma pvDeleteBlock_lfull q w bk y : y <> fst bk ->
  (In y (lfull (getp (pvDeleteBlock C w q bk) q)) <-> In y (lfull (getp w q))).
Proof.
  intros N. unfold pvDeleteBlock. cbv zeta. set (w1 := push w bk).
  set (w2 := if fc w1 (fst bk) =? 1 then move_head w1 q (fst bk) else w1).
  assert (In y (lfull (getp w2 q)) <-> In y (lfull (getp w q))) as E2.
  { unfold w2. destruct (fc w1 (fst bk) =? 1).
    - unfold move_head. rewrite lfull_set_lists. rewrite removez_In. unfold w1. rewrite getp_push. tauto.
    - unfold w1. rewrite getp_push. tauto. }
  assert (forall lf lr, getp (add_returned (set_bytes (set_lists w2 q lf lr) (fst bk) 0 0) (fst bk)) q = relist (getp w2 q) lf lr) as Gd
    by (intros; unfold set_lists, relist; destruct q; reflexivity).
  repeat match goal with |- context [if ?c then _ else _] => destruct c end; try exact E2.
  - unfold drop_head. rewrite Gd. unfold relist. cbn [lfull]. exact E2.
  - unfold drop_mid. rewrite Gd. unfold relist. cbn [lfull]. rewrite removez_In. tauto.
Qed.

Section Sel.
Variable f : blk -> bool.
Variable p : bool.

Lemma del_step_live b fbits w i q :
  live (getp (del_step f p b fbits w i) q) =
    if memz i fbits then live (getp w q) else if f (b, i) then (if Bool.eqb q p then removeb (b, i) (live (getp w q)) else live (getp w q)) else live (getp w q).
Proof.
  unfold del_step. destruct (memz i fbits); [reflexivity|]. destruct (f (b, i)); [|reflexivity].
  rewrite (live_of_lives _ _ q (pvDeleteBlock_lives C (remove_live w p (b, i)) p (b, i))). unfold remove_live.
  destruct q, p; simpl; reflexivity.
Qed.

Lemma del_step_lfull b fbits w i y : y <> b ->
  (In y (lfull (getp (del_step f p b fbits w i) p)) <-> In y (lfull (getp w p))).
Proof.
  intros N. unfold del_step. destruct (memz i fbits); [tauto|]. destruct (f (b, i)); [|tauto].
  rewrite pvDeleteBlock_lfull by exact N. unfold remove_live. rewrite getp_setp_eq. reflexivity.
Qed.

(* which blocks one call of pvDeleteBlocks removes from the live list (purely by computation) *)
Lemma del_loop_live b fbits : forall l w bk,
  In bk (live (getp (foldl (del_step f p b fbits) l w) p)) <->
  In bk (live (getp w p)) /\ ~ (fst bk = b /\ In (snd bk) l /\ memz (snd bk) fbits = false /\ f bk = true).
Proof.
  induction l as [|i t IH]; intros w bk; cbn [foldl].
  - simpl. tauto.
  - rewrite IH. rewrite del_step_live. rewrite Bool.eqb_reflx.
    destruct bk as [b' j]. cbn [fst snd].
    destruct (memz i fbits) eqn:M.
    + split; intros (H1 & H2); (split; [exact H1|]).
      * intros (E & [Ei|Hi] & Mm & Ff); [subst; congruence|apply H2; auto].
      * intros (E & Hi & Mm & Ff). apply H2. simpl. auto.
    + destruct (f (b, i)) eqn:F.
      * rewrite removeb_In. split.
        -- intros ((H1 & Hn) & H2). split; [exact H1|]. intros (E & [Ei|Hi] & Mm & Ff); [subst; apply Hn; reflexivity|apply H2; auto].
        -- intros (H1 & H2). split; [split; [exact H1|]|].
           ++ intro E. inversion E; subst. apply H2. simpl. auto.
           ++ intros (E & Hi & Mm & Ff). apply H2. simpl. auto.
      * split; intros (H1 & H2); (split; [exact H1|]).
        -- intros (E & [Ei|Hi] & Mm & Ff); [subst; congruence|apply H2; auto].
        -- intros (E & Hi & Mm & Ff). apply H2. simpl. auto.
Qed.

Lemma del_loop_live_other b fbits : forall l w,
  live (getp (foldl (del_step f p b fbits) l w) (negb p)) = live (getp w (negb p)).
Proof.
  induction l as [|i t IH]; intros w; cbn [foldl]; [reflexivity|]. rewrite IH, del_step_live.
  assert (Bool.eqb (negb p) p = false) as -> by (destruct p; reflexivity).
  destruct (memz i fbits); [reflexivity|]. destruct (f (b, i)); reflexivity.
Qed.

Lemma del_loop_lfull b fbits y : y <> b -> forall l w,
  (In y (lfull (getp (foldl (del_step f p b fbits) l w) p)) <-> In y (lfull (getp w p))).
Proof. intros N. induction l as [|i t IH]; intros w; cbn [foldl]; [tauto|]. rewrite IH. apply del_step_lfull. exact N. Qed.

(* one buffer *)
Lemma pvDeleteBlocks_sel w b :
  JC p None w -> In b (own (getp w p)) ->
  let w' := pvDeleteBlocks C f w p b in
  (forall bk, In bk (live (getp w p)) -> f bk = false -> In bk (live (getp w' p))) /\
  (forall bk, In bk (live (getp w' p)) -> fst bk = b -> f bk = false) /\
  (forall y, y <> b -> (In y (lfull (getp w' p)) <-> In y (lfull (getp w p)))).
Proof.
  intros ((_ & (_ & _ & _ & _ & _ & _ & P7 & _) & _) & _) Ob. cbv zeta. rewrite pvDeleteBlocks_is_loop.
  split; [|split].
  - intros bk Hk Ff. apply del_loop_live. split; [exact Hk|]. intros (_ & _ & _ & Ft). congruence.
  - intros bk Hk Eb. apply del_loop_live in Hk. destruct Hk as (Hl & Hn).
    destruct (P7 bk) as (Rg & Nc & _); [left; unfold lb; apply in_or_app; left; exact Hl|].
    destruct (f bk) eqn:Ff; [|reflexivity]. exfalso. apply Hn. split; [exact Eb|]. split; [apply PoolConcProofs.upto_In; lia|].
    split; [|reflexivity]. rewrite <- Eb. destruct (memz (snd bk) (chain_of w (fst bk))) eqn:M; [apply memz_In in M; contradiction|reflexivity].
  - intros y N. apply del_loop_lfull. exact N.
Qed.

(* a snapshot list of buffers *)
Lemma del_buffers_sel : forall L w,
  NoDup L -> (forall b, In b L -> In b (own (getp w p))) -> JC p None w -> cache (getp w p) = [] ->
  let w' := foldl (fun w b => pvDeleteBlocks C f w p b) L w in
  (forall bk, In bk (live (getp w p)) -> f bk = false -> In bk (live (getp w' p))) /\
  (forall bk, In bk (live (getp w' p)) -> In (fst bk) L -> f bk = false) /\
  (forall y, ~ In y L -> (In y (lfull (getp w' p)) <-> In y (lfull (getp w p)))).
Proof.
  induction L as [|b t IH]; intros w ND Ow Jw Ec; cbv zeta; [simpl; repeat split; auto; tauto|]. cbn [foldl]. inversion ND as [|? ? Nb NDt]; subst.
  destruct (pvDeleteBlocks_JC f p w b Jw Ec (Ow b (or_introl eq_refl))) as (J1 & E1 & O1 & L1 & _).
  destruct (pvDeleteBlocks_sel w b Jw (Ow b (or_introl eq_refl))) as (S1 & S2 & S3). cbv zeta in *.
  assert (forall y, In y t -> In y (own (getp (pvDeleteBlocks C f w p b) p))) as Ow'.
  { intros y Hy. apply O1; [intro; subst; contradiction|apply Ow; right; exact Hy]. }
  destruct (IH (pvDeleteBlocks C f w p b) NDt Ow' J1 E1) as (T1 & T2 & T3).
  destruct (del_buffers_JC f p t (pvDeleteBlocks C f w p b) NDt Ow' J1 E1) as (_ & _ & TL). cbv zeta in *.
  split; [|split].
  - intros bk Hk Ff. apply T1; [apply S1; assumption|exact Ff].
  - intros bk Hk [Eb|Hin]; [|apply T2; assumption]. apply S2; [apply TL; exact Hk|symmetry; exact Eb].
  - intros y Hn. rewrite T3 by (intro; apply Hn; right; assumption). apply S3. intro; subst; apply Hn; left; reflexivity.
Qed.
End Sel.

(* C09_deallocate_if_frees_exactly_selected *)
Theorem DeallocateIf_exact p f w :
  (uc = false -> cache (getp w p) = []) -> JC p None w ->
  let w' := DeallocateIf C uc w p f in
  (forall bk, In bk (live (getp w' p)) <-> In bk (live (getp w p)) /\ f bk = false) /\
  live (getp w' (negb p)) = live (getp w (negb p)) /\
  acount (getp w' p) = lenz (live (getp w' p)).
Proof.
  intros Hnc Jw. destruct (DeallocateIf_JC p f w Hnc Jw) as ((J' & _) & Sub). cbv zeta.
  split; [|split; [|destruct J' as (_ & (_ & _ & _ & _ & _ & _ & _ & _ & P9) & _); exact P9]].
  2:{ unfold DeallocateIf. cbv zeta. set (w1 := if uc then flush C w p else w).
      assert (live (getp w1 (negb p)) = live (getp w (negb p))) as L1 by (unfold w1; destruct uc; [unfold flush; apply live_of_lives; apply flush_loop_lives|reflexivity]).
      destruct (acount (getp w1 p) =? 0); [exact L1|]. rewrite <- L1.
      assert (forall L v, live (getp (foldl (fun w b => pvDeleteBlocks C f w p b) L v) (negb p)) = live (getp v (negb p))) as K.
      { induction L as [|b t IH]; intros v; cbn [foldl]; [reflexivity|]. rewrite IH. rewrite pvDeleteBlocks_is_loop. apply del_loop_live_other. }
      rewrite !K. reflexivity. }
  intros bk. split.
  - intros Hk. split; [apply Sub; exact Hk|]. revert Hk. unfold DeallocateIf. cbv zeta.
    set (w1 := if uc then flush C w p else w).
    assert (JC p None w1 /\ cache (getp w1 p) = [] /\ live (getp w1 p) = live (getp w p)) as (J1 & E1 & L1).
    { unfold w1. destruct uc; [|split; [exact Jw|split; [apply Hnc; reflexivity|reflexivity]]].
      split; [apply flush_JC; exact Jw|]. split; [apply PoolConcProofs.flush_cache_empty|]. unfold flush. apply live_of_lives. apply flush_loop_lives. }
    clearbody w1. destruct (Z.eqb_spec (acount (getp w1 p)) 0) as [Ez|_].
    { intros Hk. exfalso. destruct J1 as ((_ & (_ & _ & _ & _ & _ & _ & _ & _ & P9) & _) & _). rewrite Ez in P9.
      destruct (live (getp w1 p)); [destruct Hk|]. cbn [lenz] in P9. pose proof (PoolInv.lenz_nonneg l). lia. }
    pose proof J1 as ((_ & (P1 & _ & _ & _ & _ & _ & P7 & _) & _) & _). unfold own in P1. pose proof P1 as P1'. apply NoDup_app_iff in P1'. destruct P1' as (NDf & NDr & Dfr).
    assert (forall b, In b (lfree (getp w1 p)) -> In b (own (getp w1 p))) as Ow1 by (intros b Hb; unfold own; apply in_or_app; right; exact Hb).
    destruct (del_buffers_JC f p (lfree (getp w1 p)) w1 NDr Ow1 J1 E1) as (J2 & E2 & L2).
    destruct (del_buffers_sel f p (lfree (getp w1 p)) w1 NDr Ow1 J1 E1) as (_ & U2 & U3). cbv zeta in *.
    set (w2 := foldl (fun w b => pvDeleteBlocks C f w p b) (lfree (getp w1 p)) w1) in *.
    pose proof J2 as ((_ & (Q1 & _) & _) & _). unfold own in Q1. apply NoDup_app_iff in Q1. destruct Q1 as (NDf2 & _ & _).
    assert (NoDup (rev0 (lfull (getp w2 p)) [])) as ND2 by (rewrite rev0_spec, app_nil_r; apply NoDup_rev; exact NDf2).
    assert (forall b, In b (rev0 (lfull (getp w2 p)) []) -> In b (own (getp w2 p))) as Ow2.
    { intros b Hb. rewrite rev0_spec, app_nil_r, <- in_rev in Hb. unfold own. apply in_or_app. left. exact Hb. }
    destruct (del_buffers_JC f p (rev0 (lfull (getp w2 p)) []) w2 ND2 Ow2 J2 E2) as (_ & _ & L3).
    destruct (del_buffers_sel f p (rev0 (lfull (getp w2 p)) []) w2 ND2 Ow2 J2 E2) as (_ & V2 & _). cbv zeta in *.
    intros Hk. pose proof (L3 bk Hk) as Hk2. pose proof (L2 bk Hk2) as Hk1.
    destruct (P7 bk) as (_ & _ & Ob); [left; unfold lb; apply in_or_app; left; exact Hk1|].
    unfold own in Ob. apply in_app_or in Ob. destruct Ob as [Hf|Hr].
    + apply V2; [exact Hk|]. rewrite rev0_spec, app_nil_r, <- in_rev. apply U3; [intro Hr; exact (Dfr _ Hf Hr)|exact Hf].
    + apply U2; [exact Hk2|exact Hr].
  - intros (Hk & Ff). unfold DeallocateIf. cbv zeta.
    set (w1 := if uc then flush C w p else w).
    assert (JC p None w1 /\ cache (getp w1 p) = [] /\ live (getp w1 p) = live (getp w p)) as (J1 & E1 & L1).
    { unfold w1. destruct uc; [|split; [exact Jw|split; [apply Hnc; reflexivity|reflexivity]]].
      split; [apply flush_JC; exact Jw|]. split; [apply PoolConcProofs.flush_cache_empty|]. unfold flush. apply live_of_lives. apply flush_loop_lives. }
    clearbody w1. rewrite <- L1 in Hk. destruct (acount (getp w1 p) =? 0); [exact Hk|].
    pose proof J1 as ((_ & (P1 & _) & _) & _). unfold own in P1. apply NoDup_app_iff in P1. destruct P1 as (NDf & NDr & _).
    assert (forall b, In b (lfree (getp w1 p)) -> In b (own (getp w1 p))) as Ow1 by (intros b Hb; unfold own; apply in_or_app; right; exact Hb).
    destruct (del_buffers_JC f p (lfree (getp w1 p)) w1 NDr Ow1 J1 E1) as (J2 & E2 & _).
    destruct (del_buffers_sel f p (lfree (getp w1 p)) w1 NDr Ow1 J1 E1) as (U1 & _ & _). cbv zeta in *.
    set (w2 := foldl (fun w b => pvDeleteBlocks C f w p b) (lfree (getp w1 p)) w1) in *.
    pose proof J2 as ((_ & (Q1 & _) & _) & _). unfold own in Q1. apply NoDup_app_iff in Q1. destruct Q1 as (NDf2 & _ & _).
    assert (NoDup (rev0 (lfull (getp w2 p)) [])) as ND2 by (rewrite rev0_spec, app_nil_r; apply NoDup_rev; exact NDf2).
    assert (forall b, In b (rev0 (lfull (getp w2 p)) []) -> In b (own (getp w2 p))) as Ow2.
    { intros b Hb. rewrite rev0_spec, app_nil_r, <- in_rev in Hb. unfold own. apply in_or_app. left. exact Hb. }
    destruct (del_buffers_sel f p (rev0 (lfull (getp w2 p)) []) w2 ND2 Ow2 J2 E2) as (V1 & _ & _). cbv zeta in *.
    apply V1; [apply U1; assumption|exact Ff].
Qed.

(* ---------- the full history alphabet: the operations of PoolInv.gop and DeallocateIf ---------- *)
Lemma gstep_JC w o : JC false None w -> nocache uc w -> JC false None (gstep C CF uc w o).
Proof.
  intros Jw Nc. destruct o as [p|p bk|d|p| |d]; simpl.
  - apply (proj2 (JC_any p _)). apply Allocate_JC. apply (proj1 (JC_any p _)). exact Jw.
  - destruct (memb bk (live (getp w p))) eqn:M; [|exact Jw]. apply (proj2 (JC_any p _)).
    apply Deallocate_JC; [apply (proj1 (JC_any p _)); exact Jw|apply memb_In; exact M].
  - apply (proj2 (JC_any d _)). apply MergeFrom_JC; [|apply (proj1 (JC_any d _)); exact Jw].
    intros U. specialize (Nc U). unfold PoolConcProofs.caches in Nc. apply pair_equal_spec in Nc. destruct Nc. destruct d; assumption.
  - apply (proj2 (JC_any p _)). apply (proj1 (JC_any p w)) in Jw. destruct Jw as (a & b). split; [apply DeallocateAll_J; exact a|apply DeallocateAll_C; assumption].
  - destruct Jw as (a & b). split; [apply Swap_J; exact a|apply Swap_C; exact b].
  - unfold MoveAssign. destruct (acount (getp w d) =? 0); [|exact Jw].
    apply (proj1 (JC_any d w)) in Jw. destruct Jw as (a & b).
    assert (JC false None (DeallocateAll w d)) as (a' & b') by (apply (proj2 (JC_any d _)); split; [apply DeallocateAll_J; exact a|apply DeallocateAll_C; assumption]).
    split; [apply Swap_J; exact a'|apply Swap_C; exact b'].
Qed.

Inductive fop := FG (o : gop) | FIf (p : bool) (f : blk -> bool).
Definition fstep (w : cworld) (o : fop) : cworld :=
  match o with FG o => gstep C CF uc w o | FIf p f => DeallocateIf C uc w p f end.
Definition frun (ops : list fop) : cworld := foldl fstep ops empty_world.

Lemma fstep_nocache w o : nocache uc w -> nocache uc (fstep w o).
Proof.
  destruct o as [o|p f]; [apply gstep_nocache|]. intros H U. specialize (H U). simpl. unfold DeallocateIf. rewrite U. cbv zeta.
  destruct (acount (getp w p) =? 0); [exact H|].
  rewrite PoolConcProofs.foldl_caches by (intros; apply PoolConcProofs.pvDeleteBlocks_caches).
  rewrite PoolConcProofs.foldl_caches by (intros; apply PoolConcProofs.pvDeleteBlocks_caches). exact H.
Qed.

Lemma fstep_JC w o : JC false None w -> nocache uc w -> JC false None (fstep w o).
Proof.
  intros Jw Nc. destruct o as [o|p f]; [apply gstep_JC; assumption|]. simpl. apply (proj2 (JC_any p _)).
  apply DeallocateIf_JC; [|apply (proj1 (JC_any p _)); exact Jw].
  intros U. specialize (Nc U). unfold PoolConcProofs.caches in Nc. apply pair_equal_spec in Nc. destruct Nc. destruct p; assumption.
Qed.

Lemma JC_empty : JC false None empty_world.
Proof. split; [apply J_empty|]. intros p b j Hb. destruct p; destruct Hb. Qed.

(* THE INVARIANT WITH THE COMPLETENESS CLAUSE HOLDS AFTER EVERY HISTORY over the full alphabet: Allocate, Deallocate (of live
   blocks), MergeFrom, DeallocateAll, Swap, move assignment and DeallocateIf, on both pools *)
Theorem JC_all_histories ops : J C (frun ops) /\ Compl false None (frun ops) /\ nocache uc (frun ops).
Proof.
  assert (JC false None empty_world /\ nocache uc empty_world) as B by (split; [apply JC_empty|intros _; reflexivity]).
  unfold frun. revert B. generalize empty_world. induction ops as [|o t IH]; intros w (Jw & Nw); simpl.
  - destruct Jw as (a & b). split; [exact a|split; [exact b|exact Nw]].
  - apply IH. split; [apply fstep_JC; assumption|apply fstep_nocache; assumption].
Qed.

(* DeallocateIf frees only blocks that were live *)
Theorem DeallocateIf_only_live ops p f :
  let w := frun ops in forall bk, In bk (live (getp (DeallocateIf C uc w p f) p)) -> In bk (live (getp w p)).
Proof.
  cbv zeta. destruct (JC_all_histories ops) as (Jw & Cw & Nw). intros bk.
  apply (DeallocateIf_JC p f (frun ops)); [|apply (proj1 (JC_any p _)); split; assumption].
  intros U. specialize (Nw U). unfold PoolConcProofs.caches in Nw. apply pair_equal_spec in Nw. destruct Nw. destruct p; assumption.
Qed.


Lemma DeallocateIf_NR p f w :
  (uc = false -> cache (getp w p) = []) -> JC p None w -> NoDup (returned w) -> NoDup (returned (DeallocateIf C uc w p f)).
Proof.
  intros Hnc Jw NDr. unfold DeallocateIf. cbv zeta.
  set (w1 := if uc then flush C w p else w).
  assert (JC p None w1 /\ cache (getp w1 p) = [] /\ NoDup (returned w1)) as (J1 & E1 & R1).
  { unfold w1. destruct uc; [|split; [exact Jw|split; [apply Hnc; reflexivity|exact NDr]]].
    split; [apply flush_JC; exact Jw|]. split; [apply PoolConcProofs.flush_cache_empty|].
    unfold flush. apply flush_loop_NR; [exact HC|exact (proj1 Jw)|reflexivity|exact NDr]. }
  clearbody w1. destruct (acount (getp w1 p) =? 0); [exact R1|].
  pose proof J1 as ((_ & (P1 & _) & _) & _). unfold own in P1. apply NoDup_app_iff in P1. destruct P1 as (NDf & NDrr & _).
  assert (forall b, In b (lfree (getp w1 p)) -> In b (own (getp w1 p))) as Ow1 by (intros b Hb; unfold own; apply in_or_app; right; exact Hb).
  destruct (del_buffers_JC f p (lfree (getp w1 p)) w1 NDrr Ow1 J1 E1) as (J2 & E2 & _).
  pose proof (del_buffers_NR f p (lfree (getp w1 p)) w1 NDrr Ow1 J1 E1 R1) as R2. cbv zeta in *.
  set (w2 := foldl (fun w b => pvDeleteBlocks C f w p b) (lfree (getp w1 p)) w1) in *.
  pose proof J2 as ((_ & (Q1 & _) & _) & _). unfold own in Q1. apply NoDup_app_iff in Q1. destruct Q1 as (NDf2 & _ & _).
  apply del_buffers_NR; auto.
  - rewrite rev0_spec, app_nil_r. apply NoDup_rev. exact NDf2.
  - intros b Hb. rewrite rev0_spec, app_nil_r, <- in_rev in Hb. unfold own. apply in_or_app. left. exact Hb.
Qed.

(* every buffer is returned at most once - over the FULL alphabet, DeallocateIf included *)
Theorem returned_once_full ops : NoDup (returned (frun ops)).
Proof.
  assert (forall l w, JC false None w /\ nocache uc w /\ NoDup (returned w) -> NoDup (returned (foldl fstep l w))) as K.
  { induction l as [|o t IH]; intros w (Jw & Nw & Rw); simpl; [exact Rw|]. apply IH.
    split; [apply fstep_JC; assumption|]. split; [apply fstep_nocache; assumption|].
    destruct o as [o|p f]; simpl.
    - apply gstep_NR; [exact HC|exact (proj1 Jw)|exact Rw].
    - apply DeallocateIf_NR; [|apply (proj1 (JC_any p _)); exact Jw|exact Rw].
      intros U. specialize (Nw U). unfold PoolConcProofs.caches in Nw. apply pair_equal_spec in Nw. destruct Nw. destruct p; assumption. }
  unfold frun. apply K. split; [apply JC_empty|]. split; [intros _; reflexivity|constructor].
Qed.

Lemma ghost_steps q bk w :
  (Compl q (Some bk) w -> Compl q None (add_live w q bk)) /\
  (Compl q None w -> Compl q (Some bk) (remove_live w q bk)) /\
  (Compl q (Some bk) w -> Compl q None (set_cache w q (bk :: cache (getp w q)))).
Proof. split; [apply add_live_C|split; [apply remove_live_C|apply cache_push_C]]. Qed.
End Compl.
