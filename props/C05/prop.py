"""C05 - array-like containers equal the abstract sequence, even with aliased / empty arguments.
proof : Coq theorems over the hand-written cell-level models ArrayShift.v / ArrayModel.v (all lengths, indexes, counts
        incl. 0, alias positions, element behaviours) + over the cxx2coq-GENERATED GrowCapacity.
tie   : T-gen (GrowCapacity regenerated + validated) and T-cor (extracted model vs the real containers on the same scripts).
oracle: std::vector<long long> twin inside the harness + the reserve/no-allocation claim evaluated on the real code."""
import os, re

GEN = ['gen_grow.json']
ELEMS = ['pod', 'ntm', 'cpy', 'smh', 'str']
# container configs: (name, ic / logInitialItemCount)
def configs(elem):
    c = [('arr', 0), ('vec', 0), ('segc', 0), ('segc', 2), ('segc', 5), ('segs', 0), ('segs', 1), ('segs', 3)]
    if elem != 'cpy':        # ArrayIntCap needs nothrow-relocatable items
        c += [('arr', 1), ('arr', 4), ('arr', 16), ('vec', 4)]
    if elem == 'pod':        # memory manager with Reallocate
        c += [('arrR', 0), ('arrR', 4)]
    return c


class Fresh:
    def __init__(self, start=1): self.v = start
    def __call__(self):
        self.v += 1
        return self.v


def setup(n, state, fresh, cont):
    """ops that build a container of n fresh elements in a given capacity state"""
    ops = []
    if state == 'grown':                   # whatever the growth policy left
        ops += ['ab:v:%d' % fresh() for _ in range(n)]
    elif state == 'full':                  # count == capacity (or count <= internal capacity)
        ops += ['ab:v:%d' % fresh() for _ in range(n)] + ['sh:-']
    elif state == 'onefree':
        ops += ['ab:v:%d' % fresh() for _ in range(n + 1)] + ['sh:-', 'rm:%d:1' % n]
    elif state == 'roomy':
        ops += ['rs:%d' % (2 * n + 6)] + ['ab:v:%d' % fresh() for _ in range(n)]
    return ops


def tested_ops(n, fresh, cont, full):
    """every operation with the value argument aliasing every index, empty ranges, all positions"""
    out = []
    idx = range(n)
    pos = range(n + 1)
    counts = sorted(set([0, 1, 2, n]))
    for i in idx:
        out.append(['ab:r:%d' % i])
        out.append(['abm:r:%d' % i, 'set:%d:%d' % (i, fresh())])
    out.append(['ab:v:%d' % fresh()]); out.append(['abm:v:%d' % fresh()])
    for j in pos:
        for c in counts:
            out.append(['ins:%d:%d:v:%d' % (j, c, fresh())])
            for i in idx:
                out.append(['ins:%d:%d:r:%d' % (j, c, i)])
        out.append(['ins1:%d:v:%d' % (j, fresh())]); out.append(['insm:%d:v:%d' % (j, fresh())])
        for i in idx:
            out.append(['ins1:%d:r:%d' % (j, i)])
            out.append(['insm:%d:r:%d' % (j, i), 'set:%d:%d' % (i + 1 if i >= j else i, fresh())])
    for j in sorted(set([0, n // 2, n])):
        for ln in counts:
            out.append(['insr:%d:%s' % (j, ','.join(str(fresh()) for _ in range(ln)))])
    for j in sorted(set([0, n // 2, n])):
        for ln in counts:
            out.append(['insi:%d:%s' % (j, ','.join(str(fresh()) for _ in range(ln)))])
    for c in sorted(set([0, 1, n])):
        if c <= n:
            out.append(['rb:%d' % c])
    out.append(['clr:0'])
    if cont != 'vec':
        out.append(['clr:1'])
    else:
        for ln in sorted(set([0, 1, n, n + 3, 2 * n + 9])):
            out.append(['asgr:%s' % ','.join(str(fresh()) for _ in range(ln))])
    for j in pos:
        for c in range(0, n - j + 1):
            if full or c in (0, 1, 2, n - j):
                out.append(['rm:%d:%d' % (j, c)])
    for m in (1, 2, 3, 1000):
        out.append(['rmf:%d' % m])
    for m in sorted(set([0, max(0, n - 1), n, n + 1, n + 3, 2 * n + 9])):
        out.append(['sc:%d:v:%d' % (m, fresh())])
        for i in idx:
            out.append(['sc:%d:r:%d' % (m, i)])
            if cont == 'vec':
                out.append(['asg:%d:r:%d' % (m, i)])
    out.append(['rs:%d' % (n + 1)]); out.append(['sh:-'])
    if cont != 'vec':
        out.append(['sh:%d' % (n + 2)]); out.append(['sh:0'])
    return out


def random_script(r, cont, length, fresh):
    ops = []; n = 0; moved = None
    for _ in range(length):
        t = r.below(19)
        ref = n > 0 and r.chance(2, 3)
        arg = lambda: ('r:%d' % r.below(n)) if ref else ('v:%d' % fresh())
        if t <= 2:
            ops.append('ab:' + arg()); n += 1
        elif t == 3:
            if ref:
                i = r.below(n); ops += ['abm:r:%d' % i, 'set:%d:%d' % (i, fresh())]
            else:
                ops.append('abm:v:%d' % fresh())
            n += 1
        elif t <= 5:
            j = r.below(n + 1); c = r.choice([0, 0, 1, 1, 2, 3, 5]); ops.append('ins:%d:%d:%s' % (j, c, arg())); n += c
        elif t == 6:
            j = r.below(n + 1); ops.append('ins1:%d:%s' % (j, arg())); n += 1
        elif t == 7:
            j = r.below(n + 1)
            if ref:
                i = r.below(n); ops += ['insm:%d:r:%d' % (j, i), 'set:%d:%d' % (i + 1 if i >= j else i, fresh())]
            else:
                ops.append('insm:%d:v:%d' % (j, fresh()))
            n += 1
        elif t == 8:
            j = r.below(n + 1); ln = r.choice([0, 0, 1, 2, 4]); ops.append('insr:%d:%s' % (j, ','.join(str(fresh()) for _ in range(ln)))); n += ln
        elif t <= 10:
            j = r.below(n + 1); c = r.choice([0, 0, 1, 2, 3]); c = min(c, n - j); ops.append('rm:%d:%d' % (j, c)); n -= c
        elif t == 11:
            # the count after a filter is not known to the generator: follow with a resize to a known count
            m = r.choice([2, 3, 5]); ops.append('rmf:%d' % m); n2 = r.below(6); ops.append('sc:%d:v:%d' % (n2, fresh() * 30 + 1)); n = n2
        elif t == 12:
            m = r.below(n + 6); ops.append('sc:%d:%s' % (m, arg())); n = m
        elif t == 13:
            ops.append('rs:%d' % r.below(2 * n + 8))
        elif t == 14:
            ops.append('sh:-' if (cont == 'vec' or r.chance(1, 2)) else 'sh:%d' % r.below(n + 4))
        elif t == 15:
            if cont == 'vec' and n > 0:
                m = r.below(n + 4); ops.append('asg:%d:%s' % (m, arg())); n = m
            else:
                ops.append('ab:' + arg()); n += 1
        elif t == 16:
            j = r.below(n + 1); ln = r.choice([0, 1, 2, 3]); ops.append('insi:%d:%s' % (j, ','.join(str(fresh()) for _ in range(ln)))); n += ln
        elif t == 17:
            c = r.below(min(n, 3) + 1); ops.append('rb:%d' % c); n -= c
        else:
            if r.chance(1, 3):
                ops.append('clr:%d' % (0 if cont == 'vec' else r.below(2))); n = 0
            elif cont == 'vec':
                ln = r.below(6); ops.append('asgr:%s' % ','.join(str(fresh()) for _ in range(ln))); n = ln
            else:
                ops.append('ab:' + arg()); n += 1
        if n > 40:
            ops.append('sc:3:v:%d' % fresh()); n = 3
    return ops


def gen_cases(ctx, elem, traits, scale):
    r = ctx.rng
    nm, nr = traits[elem]
    cases = []
    for (cont, ic) in configs(elem):
        head = '%s %s %d %d %d ' % (cont, elem, ic, nm, nr)
        fresh = Fresh(10)
        primary = cont in ('arr', 'arrR', 'vec')
        ns = [0, 1, 2, 3, 5] if primary else [0, 2, 5]
        if scale > 1:
            ns = [0, 1, 2, 3, 4, 5, 8] if primary else [0, 1, 2, 5, 9]
        for n in ns:
            states = ['grown', 'full', 'onefree', 'roomy'] if primary else ['grown']
            for st in states:
                pre = setup(n, st, fresh, cont)
                for t in tested_ops(n, fresh, cont, full=(n <= 3 or scale > 1)):
                    cases.append(head + ' '.join(pre + t))
        for _ in range((60 if primary else 25) * scale):
            cases.append(head + ' '.join(random_script(r, cont, 30, Fresh(100))))
    return cases


def grow_cases(ctx, scale):
    r = ctx.rng; out = []
    edge = [0, 1, 2, 3, 4, 5, 63, 64, 65, 66, 128, 129, 149, 150, 151, 199, 200, 250, 1000, 2 ** 32, 2 ** 63, 2 ** 64 - 66, 2 ** 64 - 65, 2 ** 64 - 2]
    for cap in edge:
        for d in (1, 2, 3, 60, 64, 65, 100, 10 ** 6):
            mn = cap + d
            if mn >= 2 ** 64: continue
            for gor in (0, 1):
                for cause in (0, 1):
                    for lin in (0, 1):
                        out.append('grow %d %d %d %d %d' % (gor, cap, mn, cause, lin))
    for _ in range(600 * scale):
        cap = r.below(2 ** r.range(1, 63)); mn = cap + 1 + r.below(2 ** r.range(0, 20))
        out.append('grow %d %d %d %d %d' % (r.below(2), cap, mn, r.below(2), r.below(2)))
    return out


STEP = re.compile(r'\[([^\]]*)\]c(-|\d+)a(-|\d+)')

def oracle_line(ctx, case, out):
    """the property on the real code's output, independent of the Coq model: the element sequence equals the
    std::vector twin after every op; nothing leaked; capacity >= count; after Reserve(n) no allocation while count <= n."""
    w = case.split()
    if w[0] == 'grow':
        try:
            return None if int(out) >= int(w[3]) else 'GrowCapacity returned %s < requested %s' % (out, w[3])
        except ValueError:
            return 'unparsable GrowCapacity output'
    ops = w[5:]
    if not out.endswith('twin=ok'):
        return 'element sequence differs from the std::vector twin (or the harness failed): ' + out[-60:]
    if 'LEAK' in out:
        return 'memory blocks leaked'
    steps = STEP.findall(out)
    if len(steps) != len(ops):
        return 'harness printed %d steps for %d ops' % (len(steps), len(ops))
    reserved = None     # (n, allocs at that time)
    for op, (seq, cap, al) in zip(ops, steps):
        cnt = len(seq.split(',')) if seq else 0
        if cap != '-' and int(cap) < cnt:
            return 'capacity %s < count %d' % (cap, cnt)
        if al != '-':
            o = op.split(':')[0]
            if o == 'rs':
                reserved = (int(op.split(':')[1]), int(al))
            elif o in ('sh', 'asg', 'asgr', 'clr'):
                reserved = None
            elif reserved is not None:
                if cnt > reserved[0]:
                    reserved = None
                elif int(al) != reserved[1]:
                    return 'allocation after Reserve(%d) while count %d <= %d (op %s)' % (reserved[0], cnt, reserved[0], op)
    return None


def build_harnesses(ctx):
    jobs = [('harness.cpp', 'harness_' + e, ['-DELEM=%d' % i]) for i, e in enumerate(ELEMS)]
    res = ctx.cxx_many(jobs)
    if any(v is None for v in res.values()):
        ctx.stage('build-harness', False, getattr(ctx, 'last_cxx_error', ''))
        return None
    return {e: res['harness_' + e] for e in ELEMS}


def get_traits(ctx, hs):
    traits = {}
    for e in ELEMS:
        path = os.path.join(ctx.build, 'traits.cases'); open(path, 'w').write('traits x 0 0 0\n')
        rc, lines, err = ctx.run_lines([hs[e]], path)
        w = lines[0].split() if lines else []
        if rc != 0 or len(w) != 3 or w[0] != e:
            ctx.stage('build-harness', False, 'traits query failed for %s: %s %s' % (e, lines, err[-300:])); return None
        traits[e] = (int(w[1]), int(w[2]))
    return traits


def replay(ctx, rp):
    case = rp.get('case')
    if not case:
        print('replay has no concrete case (no-failing-input-found): broken stages were', list(rp.get('broken', {}).keys())); return 1
    hs = build_harnesses(ctx)
    if hs is None:
        print('harness does not build'); return 2
    w = case.split()
    elem = 'pod' if w[0] == 'grow' else w[1]
    path = os.path.join(ctx.build, 'replay.cases'); open(path, 'w').write(case + '\n')
    rc, lines, err = ctx.run_lines([hs[elem]], path)
    out = lines[0] if lines else ''
    print('case:', case, '\nimplementation:', out if lines else err[-500:])
    why = oracle_line(ctx, case, out) if rc == 0 and lines else 'harness crashed'
    if rp.get('model') and out != rp.get('model'):
        why = why or 'implementation differs from the recorded model output ' + rp['model']
    if why:
        print(why); print('VIOLATION property=C05 replay=%s' % ctx.replay); return 1
    print('property holds on this case'); return 0


def run(ctx):
    scale = 1 if ctx.quick() else 4
    ctx.trusted += ['tools/cxx2coq.py + clang 14 JSON AST for GrowCapacity (validated on every run against the real function)',
                    'hand-written Gallina models ArrayShift.v / ArrayModel.v of ArrayUtility.h:185-307 and Array.h (tied by running the extracted OCaml against the real containers on the same scripts, every run)',
                    'extraction: ExtrOcamlBasic only, OCaml 4.13.1; g++ 12 -std=c++17; harness reaches nothing private']
    ctx.assumptions += ['no exceptions thrown by element operations / allocation (exception safety is C04)',
                        'index arithmetic in nat: no size_t overflow (guaranteed by MOMO_ASSERT(capacity >= initCount + count))',
                        'iterator-range inserts take ranges outside the container (documented precondition, MOMO_ASSERT in Array::Insert)']
    ctx.regen(GEN)
    ctx.prove()
    hs = build_harnesses(ctx)
    if hs is None:
        return ctx.finish(rule=RULE)
    traits = get_traits(ctx, hs)
    if traits is None:
        return ctx.finish(rule=RULE)
    ctx.coverage['element_traits(isNothrowMoveConstructible,isNothrowRelocatable)'] = traits
    cases = {e: gen_cases(ctx, e, traits, scale) for e in ELEMS}
    gcases = grow_cases(ctx, scale)
    have_model = ctx.stages.get('prove', {}).get('ok') and ctx.extract()
    if have_model:
        mism, _ = ctx.correspond('growcapacity-translation', gcases, [hs['pod']], [ctx.model_exe])
        ctx.tie_obligations.append({'name': 'generated GrowCapacity == real ArraySettings::GrowCapacity on %d cases' % len(gcases), 'ok': not mism})
        for (i, c, a, b) in mism[:2]:
            ctx.violation('generated GrowCapacity and the implementation disagree', {'case': c, 'impl': a, 'model': b}, found_input=True)
        for e in ELEMS:
            mism, _ = ctx.correspond('scripts-' + e, cases[e], [hs[e]], [ctx.model_exe])
            ctx.tie_obligations.append({'name': 'extracted array model == real containers (%s elements) on %d scripts' % (e, len(cases[e])), 'ok': not mism})
            for (i, c, a, b) in mism[:2]:
                ctx.violation('array model and implementation disagree (%s)' % e, {'case': c, 'impl': a, 'model': b,
                              'cmd': 'echo "%s" | build/C05/harness_%s' % (c, e)}, found_input=True)
    # the property predicate on the real code (always; with a bigger generator when a stage broke = search stage)
    if any(not s['ok'] for s in ctx.stages.values()):
        ctx.log('a stage broke: searching the implementation for a failing input with the thorough generator')
        for e in ELEMS:
            cases[e] = cases[e] + gen_cases(ctx, e, traits, 4)
    bad = []
    for e in ELEMS:
        cs = cases[e] + (gcases if e == 'pod' else [])
        path = os.path.join(ctx.build, 'oracle-%s.cases' % e)
        open(path, 'w').write('\n'.join(cs) + '\n')
        rc, lines, err = ctx.run_lines([hs[e]], path)
        ctx.evaluations += len(cs)
        for i, c in enumerate(cs):
            out = lines[i] if i < len(lines) else '<harness died: %s>' % err[-200:].strip()
            why = oracle_line(ctx, c, out)
            if why:
                bad.append((c, out, why))
                if i >= len(lines): break
            else:
                if ':r:' in c or ':0:' in c:
                    ctx.nontrivial.add(c)
    ctx.stage('oracle', not bad, bad[0][2] if bad else '')
    bad.sort(key=lambda t: len(t[0]))
    for (c, out, why) in bad[:3]:
        ctx.violation(why, {'case': c, 'impl_output': out, 'cmd': 'echo "%s" | build/C05/harness_%s' % (c, c.split()[1])}, found_input=True)
    allc = [c for e in ELEMS for c in cases[e]]
    for c in allc[::max(1, len(allc) // 6)][:6]:
        ctx.add_sample(c[:300])
    ctx.coverage['input_distribution'] = {e: len(cases[e]) for e in ELEMS}
    ctx.coverage['input_distribution']['grow'] = len(gcases)
    return ctx.finish(rule=RULE)


RULE = ('scripts = for every container config (Array, ArrayIntCap<1,4,16>, Array with a Reallocate manager, SegmentedArray cnst/sqrt x 3 '
        'logInitialItemCount, stdish::vector, vector_intcap<4>) x element kind (pod, nothrow-move heap-owning, copy-only, self-move-hostile, '
        'long std::string) x initial length n x capacity state (grown/full/one free/reserved): EVERY op with the value argument aliasing every '
        'index (AddBack, AddBack&&, Insert n copies with n in {0,1,2,len}, Insert one, Insert&&, SetCount, assign), ranges of length 0,1,2,n at '
        'begin/middle/end (forward AND input iterators), Remove(index,count) for all index/count incl. 0, Remove(filter), RemoveBack, Clear, '
        'assign(range), Reserve/Shrink; + random 30-op histories; '
        '+ GrowCapacity boundary grid.  distinct = distinct script line; non-trivial = script with an aliased argument or an empty range')
