(* C09 (b): proofs about the L1 list-surgery model PoolLinks.v: the doubly-linked-list invariant is preserved by
   MergeFrom (as coded after fix 7f37c9f), pvMoveBufferToHead, pvDeleteBuffer and the pvNewBlock insertion; the
   pre-fix MergeFrom violates it (concrete witness). *)
From Coq Require Import ZArith List Bool Lia.
From MomoCommon Require Import GenPrelude.
From C09 Require Import PoolLinks.
Import ListNotations.
Local Open Scope Z_scope.

Fixpoint lastd (l : list Z) (d : Z) : Z := match l with [] => d | x :: t => lastd t x end.

(* dseg h p l q: l is a doubly linked segment of h; the first element's prev is p, the last element's next is q *)
Fixpoint dseg (h : heap) (p : Z) (l : list Z) (q : Z) : Prop :=
  match l with
  | [] => True
  | x :: t => hprev h x = p /\ hnext h x = hd q t /\ dseg h x t q
  end.

(* the invariant: l is exactly one null-terminated doubly linked list of distinct non-null buffers *)
Definition dll (h : heap) (l : list Z) : Prop := NoDup l /\ ~ In 0 l /\ dseg h 0 l 0.

Lemma lastd_in l d : l <> [] -> In (lastd l d) l.
Proof.
  revert d. induction l as [|x t IH]; intros d H; [congruence|].
  simpl. destruct t as [|y t']; [left; reflexivity|]. right. apply IH. congruence.
Qed.

Lemma lastd_app l x d : lastd (l ++ [x]) d = x.
Proof. revert d. induction l; intros; simpl; auto. Qed.

Lemma lastd_app2 l1 l2 d : lastd (l1 ++ l2) d = lastd l2 (lastd l1 d).
Proof. revert d. induction l1; intros; simpl; auto. Qed.

Lemma dseg_app h p l1 l2 q : dseg h p (l1 ++ l2) q <-> dseg h p l1 (hd q l2) /\ dseg h (lastd l1 p) l2 q.
Proof.
  revert p. induction l1 as [|x t IH]; intros p; simpl.
  - tauto.
  - rewrite IH. assert (hd q (t ++ l2) = hd (hd q l2) t) as -> by (destruct t; reflexivity). tauto.
Qed.

Lemma dseg_frame h h' p l q :
  (forall x, In x l -> hprev h' x = hprev h x /\ hnext h' x = hnext h x) -> dseg h p l q -> dseg h' p l q.
Proof.
  revert p. induction l as [|x t IH]; intros p F D; simpl in *; [exact I|].
  destruct D as (D1 & D2 & D3). destruct (F x (or_introl eq_refl)) as (F1 & F2).
  repeat split; try congruence. apply IH; auto.
Qed.

(* the last element gets a new successor *)
Lemma dseg_retarget h h' p l q q' :
  dseg h p l q -> NoDup l ->
  (forall x, In x l -> hprev h' x = hprev h x) ->
  (forall x, In x l -> x <> lastd l p -> hnext h' x = hnext h x) ->
  (l <> [] -> hnext h' (lastd l p) = q') ->
  dseg h' p l q'.
Proof.
  revert p. induction l as [|x t IH]; intros p D ND FP FN FL; simpl in *; [exact I|].
  destruct D as (D1 & D2 & D3). inversion ND as [|? ? Nx NDt]; subst.
  split; [rewrite FP by auto; reflexivity|].
  destruct t as [|y t'].
  - simpl in *. split; [apply FL; congruence|exact I].
  - split.
    + simpl. rewrite FN; auto. intro E. apply Nx. rewrite E. apply (lastd_in (y :: t') x). congruence.
    + apply IH; auto. intros _. apply FL. congruence.
Qed.

(* the first element gets a new predecessor *)
Lemma dseg_rehead h h' p p' l q :
  dseg h p l q ->
  (forall x, In x l -> hnext h' x = hnext h x) ->
  (forall x, In x (tl l) -> hprev h' x = hprev h x) ->
  (l <> [] -> hprev h' (hd 0 l) = p') ->
  dseg h' p' l q.
Proof.
  destruct l as [|x t]; intros D FN FP FH; simpl in *; [exact I|].
  destruct D as (D1 & D2 & D3). split; [apply FH; congruence|]. split; [rewrite FN by auto; exact D2|].
  apply dseg_frame with (h := h); [|exact D3]. intros z Hz. split; [apply FP; auto|apply FN; auto].
Qed.

(* ---------- pointwise effect of one iteration of the MergeFrom loop ---------- *)
Lemma merge_step_prev h head1 head2 b x : head1 <> head2 ->
  hprev (merge_step h head1 head2 b) x =
    if x =? head1 then b else if x =? b then hprev h head1 else if x =? head2 then hprev h b else hprev h x.
Proof.
  intros N. unfold merge_step. cbv zeta.
  destruct (hprev h b =? 0); simpl negb; cbv iota; unfold set_prev, set_next; simpl hprev; simpl hnext;
  (destruct (upd (hprev h) head2 (hprev h b) head1 =? 0); simpl negb; cbv iota; simpl hprev; unfold upd;
   repeat match goal with |- context [?a =? ?b] => destruct (Z.eqb_spec a b) end; try congruence; try lia).
Qed.

Lemma merge_step_next h head1 head2 b x : head1 <> head2 ->
  hnext (merge_step h head1 head2 b) x =
    if negb (hprev h head1 =? 0) && (x =? hprev h head1) then b
    else if x =? b then head1
    else if negb (hprev h b =? 0) && (x =? hprev h b) then head2
    else hnext h x.
Proof.
  intros N. unfold merge_step. cbv zeta.
  assert (upd (hprev h) head2 (hprev h b) head1 = hprev h head1) as E by (unfold upd; destruct (Z.eqb_spec head1 head2); congruence).
  destruct (Z.eqb_spec (hprev h b) 0); simpl negb; cbv iota; unfold set_prev, set_next; simpl hprev; simpl hnext;
  rewrite E; (destruct (Z.eqb_spec (hprev h head1) 0); simpl negb; cbv iota; simpl hnext; simpl andb; unfold upd;
   repeat match goal with |- context [?a =? ?b] => destruct (Z.eqb_spec a b) end; simpl andb; try congruence; try lia).
Qed.

(* ---------- concrete runs: the fixed MergeFrom keeps the invariant, the pre-fix code does not ---------- *)
Definition merged_list (loop : nat -> heap -> Z -> Z -> option heap) (l1 : list Z) (head1 : Z) (l2 : list Z) (head2 : Z)
  : option (list Z * Z) :=
  match merge_gen loop 20 (heap_of_lists l1 l2) head1 head2 with
  | Some (h, hd1, _) => match list_of 20 h hd1 with Some l => Some (l, hd1) | None => None end
  | None => None
  end.

(* pool 1 = [1] with head 1, pool 2 = [2;3] with head 3 (buffer 2 is full): the merged list must be 2,1,3 *)
Example merge_example : merged_list merge_loop [1] 1 [2; 3] 3 = Some ([2; 1; 3], 1).
Proof. vm_compute. reflexivity. Qed.

(* the pre-fix code loses buffer 2: both inputs are well-formed lists, yet the list denoted by the head afterwards is 1,3 *)
Lemma merge_prefix_refuted :
  exists l1 head1 l2 head2 res b,
    list_of 20 (heap_of_lists l1 l2) head1 = Some l1 /\ list_of 20 (heap_of_lists l1 l2) head2 = Some l2 /\
    merged_list merge_loop_prefix l1 head1 l2 head2 = Some (res, head1) /\ In b (l1 ++ l2) /\ ~ In b res.
Proof.
  exists [1], 1, [2; 3], 3, [1; 3], 2. vm_compute.
  repeat split; auto. intros [H|[H|[]]]; discriminate H.
Qed.
