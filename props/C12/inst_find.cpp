// instantiation TU for cxx2coq (C12): HashSet::pvFind(key) -- the generation walk --, the static pvFind(indexCode, buckets, pred),
// pvAddNogrow<false> and pvRelocateItems(Buckets*) for a slow-hash key with HashBucketLimP4
// (BucketIterator = Item*, so iterator comparisons are plain pointer comparisons)
#include "momo/HashSet.h"
namespace c12find {
struct H { size_t operator()(const uint64_t& k) const { return size_t(k); } };
typedef momo::HashSet<uint64_t, momo::HashTraitsStd<uint64_t, H, std::equal_to<uint64_t>, momo::HashBucketLimP4<>>> Set;
inline bool use(Set& s) { return !!s.Find(uint64_t(2)); }
inline void use2(Set& s) { s.Insert(uint64_t(3)); s.Reserve(100); }
}
