(* C03 -- L2 resource machine, part 4: TreeSet::pvCopy / pvDestroy on trees of ARBITRARY shape (any depth, every node with
   its own number of items and of children), TreeSet.h:1017-1062. *)
From Coq Require Import ZArith Bool List Lia.
From C03 Require Import Effects Effects2.
Import ListNotations.
Local Open Scope Z_scope.

(* the source tree: a node has n items and a forest of children *)
Inductive tree : Type := Node (n : nat) (kids : forest)
with forest : Type := FNil | FCons (t : tree) (r : forest).

(* the copy being built: node block, items, children (NEWEST FIRST) *)
Inductive btree : Type := BNode (b : Z) (n : nat) (kids : bforest)
with bforest : Type := BNil | BCons (t : btree) (r : bforest).

Fixpoint titems (t : tree) : Z := match t with Node n k => Z.of_nat n + fitems k end
with fitems (f : forest) : Z := match f with FNil => 0 | FCons t r => titems t + fitems r end.

Section TreeCopy.
Variables mgr nodesz : Z.
Variable src : Z.        (* region holding the source items, consumed in preorder *)

(* pvDestroy(node) (1017-1029): the node's items, its children, node->Destroy *)
Fixpoint pv_destroy (bt : btree) : M unit :=
  match bt with
  | BNode b n kids => pv_destroy_forest kids ;;; drop_unlinked mgr nodesz n b
  end
with pv_destroy_forest (bf : bforest) : M unit :=
  match bf with
  | BNil => ret tt
  | BCons t r => pv_destroy t ;;; pv_destroy_forest r
  end.

(* pvCopy(srcNode) (1031-1062): Node::Create; the items one by one; the children one by one (recursively);
   catch (...) { destroy the items copied so far; pvDestroy the children built so far; dstNode->Destroy; throw; } *)
Fixpoint pv_copy (t : tree) (sb : Z) (s : rstate) : outcome btree * rstate :=
  match t with
  | Node n kids =>
      (* Node::Create and the items, with the part of the catch block that concerns them (= import_row of Effects2.v) *)
      match import_row mgr nodesz n src sb s with
      | (Val b, s2) =>
          let '((built, o2), s3) := pv_copy_kids kids (sb + Z.of_nat n) BNil s2 in
          match o2 with
          | Val _ => (Val (BNode b n built), s3)
          | Exc => catch_rethrow throw (pv_destroy_forest built ;;; drop_unlinked mgr nodesz n b) s3
          | Stuck => (Stuck, s3)
          end
      | (Exc, s1) => (Exc, s1)
      | (Stuck, s1) => (Stuck, s1)
      end
  end
with pv_copy_kids (ks : forest) (off : Z) (acc : bforest) (s : rstate) : (bforest * outcome unit) * rstate :=
  match ks with
  | FNil => ((acc, Val tt), s)
  | FCons k r =>
      match pv_copy k off s with
      | (Val bk, s1) => pv_copy_kids r (off + titems k) (BCons bk acc) s1
      | (Exc, s1) => ((acc, Exc), s1)
      | (Stuck, s1) => ((acc, Stuck), s1)
      end
  end.

End TreeCopy.

(* TreeSet(const TreeSet&, MemManager) on an arbitrary tree: crew, mNodeParams, pvCopy(root); success: the object lives and is
   destroyed later (pvDestroy(root), params, crew); failure: catch { pvDestroy(); mRootNode = mNodeParams = nullptr; throw; }
   then ~TreeSet (fixed = false: the pointers are left dangling as before 806b9fe) *)
Section TreeCtor.
Variables mgr nodesz parsz crewsz : Z.

Definition tsn_body (fixed : bool) (par src : Z) (t : tree) : M unit := fun s =>
  match pv_copy mgr nodesz src t 0 s with
  | (Val bt, s1) => (pv_destroy mgr nodesz bt ;;; p_dealloc mgr par parsz) s1
  | (Exc, s1) =>
      match (p_dealloc mgr par parsz ;;; (if fixed then ret tt else p_dealloc mgr par parsz)) s1 with
      | (Stuck, s2) => (Stuck, s2)
      | (_, s2) => (Exc, s2)
      end
  | (Stuck, s1) => (Stuck, s1)
  end.

Definition tsn_copy_then_destroy (fixed : bool) (src : Z) (t : tree) : M unit :=
  crew <- p_alloc mgr crewsz ;;
  finally (par <- p_alloc mgr parsz ;; tsn_body fixed par src t) (p_dealloc mgr crew crewsz).

End TreeCtor.

(* ================================================================== the FIRST insertion into a HashSet without a bucket array *)
Section FirstInsert.
Variables mgr bufsz parsz crewsz : Z.

(* pvAddGrow with mBuckets == nullptr (HashSet.h:1146-1185): Buckets::Create(memManager, logCount, nullptr) allocates the bucket
   array AND the bucket params; the item is created in the new array; catch (...) { newBuckets->Destroy(GetMemManager(),
   !hasBuckets); throw; } - with hasBuckets == false the params created a moment ago must go too.
   destroy_params = false is the shape `Destroy(GetMemManager(), false)`. *)
Definition first_insert (destroy_params : bool) (src : loc) : M (Z * Z) :=
  bp <- buckets_create mgr bufsz parsz ;;
  catch_rethrow (p_copy (fst bp, 0) src)
                ((if destroy_params then p_dealloc mgr (snd bp) parsz else ret tt) ;;; p_dealloc mgr (fst bp) bufsz) ;;;
  ret bp.

(* { HashSet s; s.Insert(x); }  with the destructors: a failed first insertion leaves mBuckets == nullptr *)
Definition first_insert_scn (destroy_params : bool) (src : loc) : M unit :=
  crew <- p_alloc mgr crewsz ;;
  finally (bp <- first_insert destroy_params src ;; hs_pv_destroy mgr bufsz parsz (mkH (Some bp) 1)) (p_dealloc mgr crew crewsz).

End FirstInsert.
