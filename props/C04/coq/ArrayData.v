(* C04 -- momo::Array<...>::Data::Reset (Array.h:316-342) = allocate new storage, fill it via the items creator,
   then swap it in; the growth paths built on it (pvGrow/Reserve/Shrink: creator = Relocate; pvAddBackGrow:
   creator = RelocateCreate); and pvReset for arrays with internal capacity (Array.h:462-481) where mCapacity
   shares a union with the internal items.
   Data members are registers: rItems (block id of mItems), rCount, rCap (mCapacity). *)
From Coq Require Import List Arith Lia Bool PeanoNat.
From C04 Require Import Effects ObjMgr.
Import ListNotations.

Definition rItems := 10.
Definition rCount := 11.
Definition rCap := 12.
Definition rInitCap := 1.       (* local `size_t initCapacity` of pvReset *)

(* pvDeallocate: if (GetCapacity() > internalCapacity) Deallocate(mItems)   [internalCapacity = 0: capacity 0 <=> no block] *)
Definition pv_deallocate : M unit :=
  cap <- getr rCap ;; if cap =? 0 then ret tt else (b <- getr rItems ;; dealloc b).

(* Data::Reset, branch capacity > internalCapacity (Array.h:321-337) *)
Definition data_reset (capacity count : nat) (items_creator : nat -> M unit) : M unit :=
  items <- alloc capacity ;;
  try_catch (items_creator items) (dealloc items ;; throw) ;;
  pv_deallocate ;;
  setr rItems items ;; setr rCount count ;; setr rCap capacity.

(* the items creators of the growth paths; GetItems() is read when the creator runs *)
(* pvGrow / Shrink:  [this, count] (Item* newItems) { ItemTraits::Relocate(GetMemManager(), GetItems(), newItems, count); } *)
Definition creator_relocate (c : cat) (count : nat) : nat -> M unit :=
  fun nb => b <- getr rItems ;; relocate_range c (fun j => (b, j)) (fun j => (nb, j)) count.
(* pvAddBackGrow(ItemCreator&&): RelocateCreate(GetItems(), newItems, initCount, itemCreator, newItems + initCount) *)
Definition creator_relocate_create (c : cat) (count : nat) (item_creator : loc -> M unit) : nat -> M unit :=
  fun nb => b <- getr rItems ;; relocate_create c (fun j => (b, j)) (fun j => (nb, j)) count item_creator (nb, count).

(* pvGrow when Reallocate is not available (Array.h:998-1010) / Reserve / Shrink(capacity) non-internal *)
Definition array_grow (c : cat) (new_capacity : nat) : M unit :=
  count <- getr rCount ;; data_reset new_capacity count (creator_relocate c count).
(* pvAddBackGrow(ItemCreator&&) (Array.h:1020-1032) *)
Definition array_addback_grow (c : cat) (new_capacity : nat) (item_creator : loc -> M unit) : M unit :=
  count <- getr rCount ;; data_reset new_capacity (S count) (creator_relocate_create c count item_creator).

(* ---- arrays with internal capacity: pvReset (Array.h:462-481), AFTER fix f340ccf --------------------
   The internal buffer is block `ib` (never allocated/freed by the array); mCapacity (rCap) lives in the same
   union: whatever the creator does to the buffer leaves an unspecified value in mCapacity -- modelled by the
   explicit `havoc` right after the creator touched the buffer (on both exits), with an arbitrary junk value. *)
Definition havoc_cap (junk : nat) : M unit := setr rCap junk.

Definition pv_reset_intcap (ib count junk : nat) (items_creator : nat -> M unit) : M unit :=
  initCap <- getr rCap ;; setr rInitCap initCap ;;
  try_catch (try_catch (items_creator ib) (havoc_cap junk ;; throw) ;; havoc_cap junk)
            (ic <- getr rInitCap ;; setr rCap ic ;; throw) ;;
  old <- getr rItems ;; dealloc old ;;
  setr rItems ib ;; setr rCount count.

(* the shape BEFORE the fix: no try/catch around the creator *)
Definition pv_reset_intcap_prefix (ib count junk : nat) (items_creator : nat -> M unit) : M unit :=
  initCap <- getr rCap ;; setr rInitCap initCap ;;
  (try_catch (items_creator ib) (havoc_cap junk ;; throw) ;; havoc_cap junk) ;;
  old <- getr rItems ;; dealloc old ;;
  setr rItems ib ;; setr rCount count.

(* ---- specifications ------------------------------------------------------------------------------ *)
Definition wf (h : heap) : Prop := forall b, next h <= b -> alive h b = false.

(* observable contents + resources: every cell of every live block, the set of live blocks and their sizes, the
   data members.  (Blocks that were allocated and freed again in between do not count.) *)
Record same_res (h h' : heap) : Prop := mkSameRes
  { sr_mem : forall l, alive h (fst l) = true -> mem h' l = mem h l;
    sr_alive : forall b, alive h' b = alive h b;
    sr_bsize : forall b, alive h b = true -> bsize h' b = bsize h b;
    sr_fields : fields_same h h' }.

Record arr_inv (h : heap) : Prop := mkArrInv
  { ai_blk : regs h rCap > 0 -> alive h (regs h rItems) = true /\ bsize h (regs h rItems) = regs h rCap;
    ai_cnt : regs h rCount <= regs h rCap;
    ai_live : forall i, i < regs h rCount -> exists v, mem h (regs h rItems, i) = Live v;
    ai_raw : forall i, regs h rCount <= i -> i < regs h rCap -> mem h (regs h rItems, i) = Raw }.

(* what Reset needs from an items creator, started right after the allocation of the new block nb:
   - it never performs an undefined step, - if it throws the heap is as it was,
   - if it returns, the old block holds no object any more (it will be freed), only the old and the new block
     were touched, and the new block satisfies NewOk *)
Definition creator_ok (cr : nat -> M unit) (capacity : nat) (h0 : heap) (NewOk : heap -> Prop) : Prop :=
  forall s, heq (halloc h0 capacity) (hp s) ->
    wp (cr (next h0)) s
       (fun _ s' => agree (fun l => fst l <> regs h0 rItems /\ fst l <> next h0) (hp s) (hp s') /\
                    fields_same (hp s) (hp s') /\
                    (regs h0 rCap > 0 -> forall i, i < regs h0 rCap -> mem (hp s') (regs h0 rItems, i) = Raw) /\
                    NewOk (hp s'))
       (fun s' => unchanged (hp s) (hp s')).

Lemma alive_halloc_old : forall h n b, wf h -> alive h b = true -> alive (halloc h n) b = true.
Proof.
  intros h n b W A. simpl. unfold updn. destruct (b =? next h) eqn:E; auto.
Qed.

Lemma old_ne_next : forall h b, wf h -> alive h b = true -> b <> next h.
Proof. intros h b W A E. subst. rewrite W in A by lia. discriminate. Qed.

Theorem data_reset_spec : forall capacity count cr NewOk s,
  wf (hp s) -> arr_inv (hp s) -> creator_ok cr capacity (hp s) NewOk ->
  (forall h h', (forall l, fst l = next (hp s) -> mem h' l = mem h l) -> NewOk h -> NewOk h') ->
  wp (data_reset capacity count cr) s
     (fun _ s' => regs (hp s') rItems = next (hp s) /\ regs (hp s') rCount = count /\ regs (hp s') rCap = capacity /\
                  alive (hp s') (next (hp s)) = true /\ bsize (hp s') (next (hp s)) = capacity /\
                  (regs (hp s) rCap > 0 -> alive (hp s') (regs (hp s) rItems) = false) /\
                  (forall b, b <> next (hp s) -> b <> regs (hp s) rItems -> alive (hp s') b = alive (hp s) b) /\
                  (forall l, fst l <> next (hp s) -> fst l <> regs (hp s) rItems -> mem (hp s') l = mem (hp s) l) /\
                  NewOk (hp s'))
     (fun s' => same_res (hp s) (hp s')).
Proof.
  intros capacity count cr NewOk s W [Iblk Icnt Ilive Iraw] Hcr Hstable. unfold data_reset.
  set (h0 := hp s) in *. set (nb := next h0) in *.
  apply wp_bind. apply wp_alloc.
  { intros s' H'. destruct H' as [Hm Ha Hb Hn Hr]. split; auto. intros r _; auto. }
  intros s1 H1.
  assert (Anb : alive (hp s1) nb = true).
  { rewrite (hq_alive _ _ H1). simpl. unfold updn. fold h0 nb. rewrite Nat.eqb_refl. reflexivity. }
  assert (Snb : bsize (hp s1) nb = capacity).
  { rewrite (hq_bsize _ _ H1). simpl. unfold updn. fold h0 nb. rewrite Nat.eqb_refl. reflexivity. }
  assert (Rnb : forall i, mem (hp s1) (nb, i) = Raw).
  { intros i. rewrite (hq_mem _ _ H1). simpl. fold h0 nb. rewrite Nat.eqb_refl. reflexivity. }
  assert (Mold : forall l, fst l <> nb -> mem (hp s1) l = mem h0 l).
  { intros l Hl. rewrite (hq_mem _ _ H1). simpl. fold h0 nb. apply Nat.eqb_neq in Hl. rewrite Hl. reflexivity. }
  assert (Aold : forall b, b <> nb -> alive (hp s1) b = alive h0 b).
  { intros b Hb. rewrite (hq_alive _ _ H1). simpl. unfold updn. fold h0 nb. apply Nat.eqb_neq in Hb. rewrite Hb. reflexivity. }
  assert (Sold : forall b, b <> nb -> bsize (hp s1) b = bsize h0 b).
  { intros b Hb. rewrite (hq_bsize _ _ H1). simpl. unfold updn. fold h0 nb. apply Nat.eqb_neq in Hb. rewrite Hb. reflexivity. }
  assert (Reg1 : forall r, regs (hp s1) r = regs h0 r) by (intros; apply (hq_regs _ _ H1)).
  apply wp_bind. apply wp_try.
  eapply wp_mono. { apply Hcr. exact H1. }
  - (* creator succeeded *)
    intros _ s2 [Ag2 [Hf2 [Hraw2 Hnew2]]]. simpl.
    unfold pv_deallocate.
    assert (Reg2 : forall r, 10 <= r -> regs (hp s2) r = regs h0 r) by (intros; rewrite Hf2, Reg1; auto).
    apply wp_bind. apply wp_bind, wp_getr. rewrite Reg2 by (unfold rCap; lia).
    (* finishing steps, shared by both branches *)
    assert (Fin : forall s3,
      (forall l, mem (hp s3) l = mem (hp s2) l) -> (forall r, regs (hp s3) r = regs (hp s2) r) ->
      alive (hp s3) nb = true -> bsize (hp s3) nb = capacity ->
      (regs h0 rCap > 0 -> alive (hp s3) (regs h0 rItems) = false) ->
      (forall b, b <> nb -> b <> regs h0 rItems -> alive (hp s3) b = alive h0 b) ->
      wp (setr rItems nb ;; setr rCount count ;; setr rCap capacity) s3
         (fun _ s' => regs (hp s') rItems = nb /\ regs (hp s') rCount = count /\ regs (hp s') rCap = capacity /\
                  alive (hp s') nb = true /\ bsize (hp s') nb = capacity /\
                  (regs h0 rCap > 0 -> alive (hp s') (regs h0 rItems) = false) /\
                  (forall b, b <> nb -> b <> regs h0 rItems -> alive (hp s') b = alive h0 b) /\
                  (forall l, fst l <> nb -> fst l <> regs h0 rItems -> mem (hp s') l = mem h0 l) /\
                  NewOk (hp s'))
         (fun s' => same_res h0 (hp s'))).
    { intros s3 M3 R3 A3 S3 D3 O3.
      apply wp_bind, wp_setr. intros s4 H4. apply wp_bind, wp_setr. intros s5 H5. apply wp_setr. intros s6 H6.
      assert (M6 : forall l, mem (hp s6) l = mem (hp s2) l).
      { intros l. rewrite (hq_mem _ _ H6), mem_hsetr, (hq_mem _ _ H5), mem_hsetr, (hq_mem _ _ H4), mem_hsetr. apply M3. }
      assert (A6 : forall b, alive (hp s6) b = alive (hp s3) b).
      { intros b. rewrite (hq_alive _ _ H6). simpl. rewrite (hq_alive _ _ H5). simpl. rewrite (hq_alive _ _ H4). reflexivity. }
      assert (S6 : forall b, bsize (hp s6) b = bsize (hp s3) b).
      { intros b. rewrite (hq_bsize _ _ H6). simpl. rewrite (hq_bsize _ _ H5). simpl. rewrite (hq_bsize _ _ H4). reflexivity. }
      repeat split.
      - rewrite (hq_regs _ _ H6), regs_hsetr_other by (unfold rItems, rCap; lia).
        rewrite (hq_regs _ _ H5), regs_hsetr_other by (unfold rItems, rCount; lia).
        rewrite (hq_regs _ _ H4). apply regs_hsetr_same.
      - rewrite (hq_regs _ _ H6), regs_hsetr_other by (unfold rCount, rCap; lia).
        rewrite (hq_regs _ _ H5). apply regs_hsetr_same.
      - rewrite (hq_regs _ _ H6). apply regs_hsetr_same.
      - rewrite A6; auto.
      - rewrite S6; auto.
      - intros; rewrite A6; auto.
      - intros; rewrite A6; auto.
      - intros l L1 L2. rewrite M6. rewrite (ag_mem _ _ _ Ag2) by (split; auto). apply Mold; auto.
      - eapply Hstable; [|exact Hnew2]. intros l _. apply M6. }
    destruct (regs h0 rCap =? 0) eqn:Ec.
    + apply wp_ret. apply Nat.eqb_eq in Ec. apply Fin; auto.
      * rewrite (ag_alive _ _ _ Ag2); auto.
      * rewrite (ag_bsize _ _ _ Ag2); auto.
      * intros; lia.
      * intros b B1 B2. rewrite (ag_alive _ _ _ Ag2). apply Aold; auto.
    + apply Nat.eqb_neq in Ec. assert (Hc : regs h0 rCap > 0) by lia.
      destruct (Iblk Hc) as [Ab Sb].
      assert (Hbn : regs h0 rItems <> nb) by (apply old_ne_next; auto).
      apply wp_bind, wp_getr. rewrite Reg2 by (unfold rItems; lia).
      apply wp_dealloc.
      * rewrite (ag_alive _ _ _ Ag2), Aold; auto.
      * intros i Hi. rewrite (ag_bsize _ _ _ Ag2), Sold, Sb in Hi by auto. apply Hraw2; auto.
      * intros s3 H3. apply Fin.
        -- intros l. apply (hq_mem _ _ H3).
        -- intros r. apply (hq_regs _ _ H3).
        -- rewrite (hq_alive _ _ H3). simpl. unfold updn. apply Nat.eqb_neq in Hbn. rewrite Nat.eqb_sym, Hbn.
           rewrite (ag_alive _ _ _ Ag2); auto.
        -- rewrite (hq_bsize _ _ H3). simpl. rewrite (ag_bsize _ _ _ Ag2); auto.
        -- intros _. rewrite (hq_alive _ _ H3). simpl. unfold updn. rewrite Nat.eqb_refl. reflexivity.
        -- intros b B1 B2. rewrite (hq_alive _ _ H3). simpl. unfold updn. apply Nat.eqb_neq in B2. rewrite B2.
           rewrite (ag_alive _ _ _ Ag2). apply Aold; auto.
  - (* creator threw: free the new block *)
    intros s2 U2.
    apply wp_bind. apply wp_dealloc.
    + rewrite (un_alive _ _ U2); auto.
    + intros i _. rewrite (un_mem _ _ U2). apply Rnb.
    + intros s3 H3. apply wp_throw. split.
      * intros l Al. rewrite (hq_mem _ _ H3). simpl. rewrite (un_mem _ _ U2). apply Mold.
        intro E. rewrite E in Al. unfold nb in Al. rewrite W in Al by lia. discriminate.
      * intros b. rewrite (hq_alive _ _ H3). simpl. unfold updn. change (next (hp s)) with nb. destruct (b =? nb) eqn:E.
        -- apply Nat.eqb_eq in E. subst b. unfold nb. rewrite W by lia. reflexivity.
        -- rewrite (un_alive _ _ U2). apply Aold. apply Nat.eqb_neq; auto.
      * intros b Ab. rewrite (hq_bsize _ _ H3). simpl. rewrite (un_bsize _ _ U2). apply Sold. apply old_ne_next; auto.
      * intros r Hr. rewrite (hq_regs _ _ H3). simpl. rewrite (un_regs _ _ U2) by auto. apply Reg1.
Qed.

(* ---- the growth paths ------------------------------------------------------------------------------ *)
Lemma unchanged_refl : forall h, unchanged h h.
Proof. intros; split; auto. Qed.
Lemma unchanged_trans : forall a b c, unchanged a b -> unchanged b c -> unchanged a c.
Proof.
  intros a b c [m1 a1 b1 n1 r1] [m2 a2 b2 n2 r2]; split; intros.
  - rewrite m2; auto. - rewrite a2; auto. - rewrite b2; auto. - congruence. - rewrite r2; auto.
Qed.

Section Growth.
Variables (c : cat) (capacity : nat) (h0 : heap).
Hypothesis W : wf h0.
Hypothesis I : arr_inv h0.
Hypothesis Hcap : regs h0 rCount <= capacity.
Let b := regs h0 rItems.
Let nb := next h0.
Let count := regs h0 rCount.

Lemma growth_range_pre : forall s extra, heq (halloc h0 capacity) (hp s) -> count + extra <= capacity ->
  range_pre (fun j => (b, j)) (fun j => (nb, j)) count (hp s) /\ (count > 0 -> b <> nb) /\
  (forall i, i < capacity -> valid (hp s) (nb, i) = true /\ mem (hp s) (nb, i) = Raw) /\
  (forall l, fst l <> nb -> mem (hp s) l = mem h0 l) /\ (forall r, regs (hp s) r = regs h0 r) /\
  (forall l, fst l <> nb -> valid (hp s) l = valid h0 l).
Proof.
  intros s extra H Hx. destruct I as [Iblk Icnt Ilive Iraw]. fold b count in Iblk, Icnt, Ilive, Iraw.
  assert (Hbn : count > 0 -> b <> nb).
  { intros Hc. apply old_ne_next; auto. apply Iblk. lia. }
  assert (Mo : forall l, fst l <> nb -> mem (hp s) l = mem h0 l).
  { intros l Hl. rewrite (hq_mem _ _ H). simpl. fold nb. apply Nat.eqb_neq in Hl. rewrite Hl. reflexivity. }
  assert (Vo : forall l, fst l <> nb -> valid (hp s) l = valid h0 l).
  { intros l Hl. rewrite (heq_valid _ _ _ H). unfold valid. simpl. unfold updn. fold nb. apply Nat.eqb_neq in Hl. rewrite !Hl. reflexivity. }
  assert (Vn : forall i, i < capacity -> valid (hp s) (nb, i) = true /\ mem (hp s) (nb, i) = Raw).
  { intros i Hi. rewrite (heq_valid _ _ _ H), (hq_mem _ _ H). unfold valid. simpl. unfold updn. fold nb. rewrite !Nat.eqb_refl.
    split; auto. apply Nat.ltb_lt; auto. }
  split; [|split; [|split; [|split; [|split]]]]; auto.
  - split.
    + intros j Hj. assert (Hc : count > 0) by lia. specialize (Hbn Hc).
      destruct (Iblk ltac:(lia)) as [Ab Sb]. destruct (Ilive j Hj) as [v Hv].
      rewrite Vo by auto. rewrite Mo by auto. destruct (Vn j ltac:(lia)) as [V1 V2]. rewrite V1, V2.
      repeat split; eauto. unfold valid. simpl. fold b. rewrite Ab, Sb. apply Nat.ltb_lt. lia.
    + intros j k Hj Hk E. inversion E. apply Hbn; auto; lia.
    + intros j k Hj Hk Hjk E. inversion E. auto.
    + intros j k Hj Hk Hjk E. inversion E. auto.
  - intros r. apply (hq_regs _ _ H).
Qed.

Lemma creator_relocate_ok :
  creator_ok (creator_relocate c count) capacity h0 (fun h => forall i, i < count -> mem h (nb, i) = mem h0 (b, i)).
Proof.
  intros s H. destruct (growth_range_pre s 0 H ltac:(lia)) as [Hpre [Hbn [Vn [Mo [Ro Vo]]]]].
  unfold creator_relocate. apply wp_bind, wp_getr. rewrite Ro. fold b nb.
  eapply wp_mono. { apply relocate_range_spec. exact Hpre. }
  - intros _ s' [D1 D2 D3 D4 D5]. simpl. split; [|split; [|split]].
    + destruct D4. split; auto. intros l [L1 L2]. apply D3; auto.
      * intros j Hj E. subst l. apply L1. reflexivity.
      * intros j Hj E. subst l. apply L2. reflexivity.
    + exact D5.
    + intros Hc i Hi. destruct I as [Iblk Icnt Ilive Iraw]. fold b count in Iblk, Icnt, Ilive, Iraw.
      destruct (le_lt_dec count i) as [Hge|Hlt].
      * rewrite D3; auto.
        -- rewrite Mo. apply Iraw; auto. simpl. intro E. fold b in E. apply (old_ne_next h0 b); auto. apply Iblk; auto.
        -- intros j Hj E. inversion E. lia.
        -- intros j Hj E. inversion E. assert (b <> nb) by (apply old_ne_next; auto; apply Iblk; auto). congruence.
      * apply D2; auto.
    + intros i Hi. rewrite D1 by auto. apply Mo. simpl. apply Hbn. lia.
  - intros s' U. exact U.
Qed.

End Growth.

(* Reserve / pvGrow / Shrink(capacity) of a non-internal array, every element category, every count and capacity:
   on failure (allocation, or any copy / throwing move during relocation) contents, blocks and data members are as
   before; on success the same objects are in the new block, the old block is freed. *)
Theorem array_grow_spec : forall c capacity s,
  wf (hp s) -> arr_inv (hp s) -> regs (hp s) rCount <= capacity ->
  wp (array_grow c capacity) s
     (fun _ s' => regs (hp s') rItems = next (hp s) /\ regs (hp s') rCount = regs (hp s) rCount /\ regs (hp s') rCap = capacity /\
                  alive (hp s') (next (hp s)) = true /\
                  (regs (hp s) rCap > 0 -> alive (hp s') (regs (hp s) rItems) = false) /\
                  (forall i, i < regs (hp s) rCount -> mem (hp s') (next (hp s), i) = mem (hp s) (regs (hp s) rItems, i)))
     (fun s' => same_res (hp s) (hp s')).
Proof.
  intros c capacity s W I Hc. unfold array_grow. apply wp_bind, wp_getr.
  eapply wp_mono.
  - eapply data_reset_spec; eauto.
    + apply creator_relocate_ok; auto.
    + intros h h' Hm Hn i Hi. rewrite Hm by reflexivity. apply Hn; auto.
  - intros _ s' [A [B [C [D [E [F [G [H N]]]]]]]]. simpl in *. repeat split; auto.
  - intros s' H; exact H.
Qed.

(* ---- internal capacity ----------------------------------------------------------------------------- *)
(* what pvReset needs from the creator (it constructs `count` items in the internal buffer ib from the external
   block, e.g. Relocate): all-or-nothing, and on success the external block holds no object any more *)
Definition intcap_creator_ok (cr : nat -> M unit) (ib : nat) (h0 : heap) : Prop :=
  forall s, unchanged h0 (hp s) ->
    wp (cr ib) s
       (fun _ s' => agree (fun l => fst l <> regs h0 rItems /\ fst l <> ib) (hp s) (hp s') /\ fields_same (hp s) (hp s') /\
                    (forall i, i < bsize h0 (regs h0 rItems) -> mem (hp s') (regs h0 rItems, i) = Raw))
       (fun s' => unchanged (hp s) (hp s') /\ regs (hp s') rInitCap = regs (hp s) rInitCap).
(* (rInitCap is a local variable of pvReset: another function cannot modify it) *)

(* pvReset as it is NOW (after f340ccf): whatever the creator leaves in the union, mCapacity is restored before
   the exception propagates; for every junk value, every creator, every schedule *)
Theorem pv_reset_intcap_spec : forall ib count junk cr s,
  intcap_creator_ok cr ib (hp s) -> alive (hp s) (regs (hp s) rItems) = true ->
  wp (pv_reset_intcap ib count junk cr) s
     (fun _ s' => regs (hp s') rItems = ib /\ regs (hp s') rCount = count /\ alive (hp s') (regs (hp s) rItems) = false)
     (fun s' => unchanged (hp s) (hp s')).
Proof.
  intros ib count junk cr s Hcr Ab. unfold pv_reset_intcap.
  apply wp_bind, wp_getr. apply wp_bind, wp_setr. intros s1 H1.
  assert (U1 : unchanged (hp s) (hp s1)).
  { destruct H1 as [Hm Ha Hb Hn Hr]. split; auto. intros r Hr'. rewrite Hr. apply regs_hsetr_other. unfold rInitCap; lia. }
  assert (Ri : regs (hp s1) rInitCap = regs (hp s) rCap) by (rewrite (hq_regs _ _ H1); apply regs_hsetr_same).
  apply wp_bind. apply wp_try. apply wp_bind. apply wp_try.
  eapply wp_mono. { apply Hcr. exact U1. }
  - (* creator succeeded; the union now holds junk *)
    intros _ s2 [Ag2 [Hf2 Hraw2]]. simpl. unfold havoc_cap. apply wp_setr. intros s3 H3.
    apply wp_bind, wp_getr.
    assert (R3 : forall r, r <> rCap -> regs (hp s3) r = regs (hp s2) r).
    { intros r Hr. rewrite (hq_regs _ _ H3). apply regs_hsetr_other; auto. }
    rewrite R3 by (unfold rItems, rCap; lia). rewrite Hf2 by (unfold rItems; lia). rewrite (un_regs _ _ U1) by (unfold rItems; lia).
    apply wp_bind. apply wp_dealloc.
    + rewrite (hq_alive _ _ H3). simpl. rewrite (ag_alive _ _ _ Ag2), (un_alive _ _ U1). exact Ab.
    + intros i Hi. rewrite (hq_bsize _ _ H3) in Hi. simpl in Hi. rewrite (ag_bsize _ _ _ Ag2), (un_bsize _ _ U1) in Hi.
      rewrite (hq_mem _ _ H3). simpl. apply Hraw2; auto.
    + intros s4 H4. apply wp_bind, wp_setr. intros s5 H5. apply wp_setr. intros s6 H6. repeat split.
      * rewrite (hq_regs _ _ H6), regs_hsetr_other by (unfold rItems, rCount; lia). rewrite (hq_regs _ _ H5). apply regs_hsetr_same.
      * rewrite (hq_regs _ _ H6). apply regs_hsetr_same.
      * rewrite (hq_alive _ _ H6). simpl. rewrite (hq_alive _ _ H5). simpl. rewrite (hq_alive _ _ H4). simpl.
        unfold updn. rewrite Nat.eqb_refl. reflexivity.
  - (* creator threw: union clobbered, inner handler rethrows, outer handler restores mCapacity *)
    intros s2 [U2 L2]. unfold havoc_cap. apply wp_bind, wp_setr. intros s3 H3. apply wp_throw.
    apply wp_bind, wp_getr. apply wp_bind, wp_setr. intros s4 H4. apply wp_throw.
    split.
    + intros l. rewrite (hq_mem _ _ H4), mem_hsetr, (hq_mem _ _ H3), mem_hsetr, (un_mem _ _ U2). apply (un_mem _ _ U1).
    + intros x. rewrite (hq_alive _ _ H4). simpl. rewrite (hq_alive _ _ H3). simpl. rewrite (un_alive _ _ U2). apply (un_alive _ _ U1).
    + intros x. rewrite (hq_bsize _ _ H4). simpl. rewrite (hq_bsize _ _ H3). simpl. rewrite (un_bsize _ _ U2). apply (un_bsize _ _ U1).
    + rewrite (hq_next _ _ H4). simpl. rewrite (hq_next _ _ H3). simpl. rewrite (un_next _ _ U2). apply (un_next _ _ U1).
    + intros r Hr. rewrite (hq_regs _ _ H4). simpl. unfold updn. destruct (r =? rCap) eqn:E.
      * apply Nat.eqb_eq in E. subst r.
        rewrite (hq_regs _ _ H3), regs_hsetr_other by (unfold rInitCap, rCap; lia).
        rewrite L2. exact Ri.
      * apply Nat.eqb_neq in E. rewrite (hq_regs _ _ H3), regs_hsetr_other by auto.
        rewrite (un_regs _ _ U2) by auto. apply (un_regs _ _ U1); auto.
Qed.

(* ---- the pre-fix shape is refuted by a concrete run; the fixed shape restores the capacity on the same run --- *)
Definition demo_heap : heap :=
  mkH (fun l => if loc_eqb l (0, 0) then Live 1 else Raw) (fun b => b <? 2) (fun b => if b =? 0 then 8 else 4) 2
      (fun r => if r =? rCap then 8 else if r =? rCount then 1 else 0).
Definition demo_st : st := mkS demo_heap [true] [].
Definition demo_creator : nat -> M unit := fun ib => copy_construct (0, 0) (ib, 0).

Lemma array_reset_intcap_prefix_clobbers :
  exists s', pv_reset_intcap_prefix 1 1 77 demo_creator demo_st = (Exn, s') /\
             regs (hp demo_st) rCap = 8 /\ regs (hp s') rCap = 77.
Proof. eexists. split; [vm_compute; reflexivity|]. split; reflexivity. Qed.

Lemma array_reset_intcap_fixed_restores :
  exists s', pv_reset_intcap 1 1 77 demo_creator demo_st = (Exn, s') /\ regs (hp s') rCap = 8.
Proof. eexists. split; [vm_compute; reflexivity|]. reflexivity. Qed.

(* ---- AddBack with growth, copy creator (pvAddBackGrow(const Item&) for types that are not nothrow relocatable,
        and AddBackVar(const Item&)) ------------------------------------------------------------------------- *)
Section AddBack.
Variables (c : cat) (capacity : nat) (h0 : heap) (arg : loc) (v : nat).
Hypothesis W : wf h0.
Hypothesis I : arr_inv h0.
Hypothesis Hcap : S (regs h0 rCount) <= capacity.
Hypothesis Harg : valid h0 arg = true /\ mem h0 arg = Live v /\ fst arg <> regs h0 rItems.
Let b := regs h0 rItems.
Let nb := next h0.
Let count := regs h0 rCount.

Lemma creator_relocate_create_ok :
  creator_ok (creator_relocate_create c count (creator_copy arg)) capacity h0
    (fun h => (forall i, i < count -> mem h (nb, i) = mem h0 (b, i)) /\ mem h (nb, count) = Live v).
Proof.
  intros s H. destruct Harg as [Va [Ma Nab]]. fold b in Nab.
  destruct (growth_range_pre capacity h0 W I ltac:(lia) s 1 H ltac:(fold count; lia)) as [Hpre [Hbn [Vn [Mo [Ro Vo]]]]].
  fold b nb count in Hpre, Hbn, Vn, Mo, Vo.
  assert (Nan : fst arg <> nb).
  { intro E. unfold valid in Va. rewrite E in Va. unfold nb in Va. rewrite W in Va by lia. discriminate. }
  assert (Hne : arg <> (nb, count)) by (intro E; apply Nan; rewrite E; reflexivity).
  unfold creator_relocate_create. apply wp_bind, wp_getr. rewrite Ro. fold b nb.
  eapply wp_mono.
  { eapply relocate_create_spec with (fp := two arg (nb, count)).
    - apply (creator_copy_spec arg (nb, count) v Hne).
    - intros j Hj. unfold two. split; intros [X|X].
      + apply Nab. rewrite <- X. reflexivity.
      + inversion X. apply Hbn; auto; lia.
      + apply Nan. rewrite <- X. reflexivity.
      + inversion X. lia.
    - exact Hpre.
    - simpl. destruct (Vn count ltac:(fold count in Hcap; lia)) as [V1 V2].
      rewrite Vo, Mo by auto. auto. }
  - intros _ s' [[D1 D2 D3 D4 D5] [Rn Ra]]. simpl in *. split; [|split; [|split]].
    + destruct D4. split; auto. intros l [L1 L2].
      destruct (loc_eq_dec l arg) as [->|Hla]. { rewrite Ra. symmetry. rewrite Mo; auto. }
      apply D3.
      * unfold two. intros [X|X]; auto. apply L2. rewrite X. reflexivity.
      * intros j Hj E. subst l. apply L1. reflexivity.
      * intros j Hj E. subst l. apply L2. reflexivity.
    + exact D5.
    + intros Hc i Hi. destruct I as [Iblk Icnt Ilive Iraw]. fold b count in Iblk, Icnt, Ilive, Iraw.
      assert (Hb : b <> nb) by (apply old_ne_next; auto; apply Iblk; auto).
      destruct (le_lt_dec count i) as [Hge|Hlt].
      * rewrite D3; auto.
        -- rewrite Mo by auto. apply Iraw; auto.
        -- unfold two. intros [X|X]. apply Nab. rewrite <- X. reflexivity. inversion X. auto.
        -- intros j Hj E. inversion E. lia.
        -- intros j Hj E. inversion E. auto.
      * apply D2; auto.
    + split; auto. intros i Hi. rewrite D1 by auto. apply Mo. simpl. apply Hbn. lia.
  - intros s' U. exact U.
Qed.
End AddBack.

Theorem array_addback_spec : forall c capacity arg v s,
  wf (hp s) -> arr_inv (hp s) -> S (regs (hp s) rCount) <= capacity ->
  valid (hp s) arg = true /\ mem (hp s) arg = Live v /\ fst arg <> regs (hp s) rItems ->
  wp (array_addback_grow c capacity (creator_copy arg)) s
     (fun _ s' => regs (hp s') rItems = next (hp s) /\ regs (hp s') rCount = S (regs (hp s) rCount) /\ regs (hp s') rCap = capacity /\
                  alive (hp s') (next (hp s)) = true /\
                  (regs (hp s) rCap > 0 -> alive (hp s') (regs (hp s) rItems) = false) /\
                  (forall i, i < regs (hp s) rCount -> mem (hp s') (next (hp s), i) = mem (hp s) (regs (hp s) rItems, i)) /\
                  mem (hp s') (next (hp s), regs (hp s) rCount) = Live v)
     (fun s' => same_res (hp s) (hp s')).
Proof.
  intros c capacity arg v s W I Hc Ha. unfold array_addback_grow. apply wp_bind, wp_getr.
  eapply wp_mono.
  - eapply data_reset_spec; eauto.
    + apply creator_relocate_create_ok; eauto.
    + intros h h' Hm [Hn1 Hn2]. split. intros i Hi. rewrite Hm by reflexivity. apply Hn1; auto. rewrite Hm by reflexivity. auto.
  - intros _ s' [A [B [C [D [E [F [G [H [N1 N2]]]]]]]]]. simpl in *. repeat split; auto.
  - intros s' H; exact H.
Qed.
