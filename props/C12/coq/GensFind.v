(* C12: HashSet::Find across chained generations (the state a throwing full getter leaves behind): the search walks the newest
   table, then the older generations; every key stored in ANY generation is returned. *)
From Coq Require Import ZArith Bool List Lia.
From MomoCommon Require Import GenPrelude.
From C12 Require Import Bits Known Gen_Base Gen_P4 TableP4 TableP4_Proofs TableP4_Find.
Import ListNotations.
Local Open Scope Z_scope.

Section GensP4.
Variables (H mm : Z).
Variable hash : Z -> Z.
Hypothesis HH : 4 <= H <= 8.
Hypothesis Hmm : 1 <= mm <= 4.
Hypothesis hash_range : forall k, 0 <= hash k < 2 ^ 64.

(* totality: the modelled search never asserts and never runs out of fuel, and whatever it returns holds the key *)
Lemma pfind_loop_total L t key h : 0 <= L <= 63 -> forall fuel idx probe, 1 <= probe ->
  (Z.to_nat (2 ^ L - probe) < fuel)%nat ->
  exists r, pfind_loop fuel t (2 ^ L) idx probe (2 ^ L - 1) key h = Ok r /\
    (forall b s, r = Some (b, s) -> 0 <= s <= 3 /\ pky (t b) s = key /\ ps (t b) s = Gen_P4.pvCalcShortHash h).
Proof.
  intros HL. assert (2 ^ L <= 2 ^ 63) by (apply pow2_le_mono; lia). assert (0 < 2 ^ L) by (apply pow2_pos; lia).
  induction fuel as [|f IH]; intros idx probe Hp Hf; [lia|].
  cbn [pfind_loop]. destruct (was_full (t idx) && (probe <=? 2 ^ L - 1)) eqn:E.
  - apply andb_true_iff in E. destruct E as [_ E]. apply Z.leb_le in E.
    destruct (pbucket_find_spec (t (Gen_P4.GetNextBucketIndex idx (2 ^ L))) key h) as (r & Hr & Hcase). rewrite Hr.
    destruct Hcase as [(-> & _)|(Hr14 & Hrs & Hrk)].
    + rewrite Z.eqb_refl. rewrite (wrapU_small 64 (probe + 1)) by (change (2 ^ 64) with (2 * 2 ^ 63); lia). apply IH; lia.
    + destruct (Z.eqb_spec r 0); [lia|]. eexists. split; [reflexivity|]. intros b s Hbs. injection Hbs as <- <-.
      split; [lia|]. split; assumption.
  - eexists. split; [reflexivity|]. intros b s Hbs. discriminate.
Qed.

Lemma pfind_total L t key h : 0 <= L <= 63 ->
  exists r, pfind t L key h = Ok r /\
    (forall b s, r = Some (b, s) -> 0 <= s <= 3 /\ pky (t b) s = key /\ ps (t b) s = Gen_P4.pvCalcShortHash h).
Proof.
  intros HL. assert (2 ^ L <= 2 ^ 63) by (apply pow2_le_mono; lia). assert (0 < 2 ^ L) by (apply pow2_pos; lia).
  unfold pfind. rewrite shl1_pow2 by lia. rewrite (wrapU_small 64 (2 ^ L)) by (change (2 ^ 64) with (2 * 2 ^ 63); lia).
  rewrite pmaxprobe by lia.
  destruct (pbucket_find_spec (t (Gen_Base.GetStartBucketIndex h (2 ^ L))) key h) as (r & Hr & Hcase). rewrite Hr.
  destruct Hcase as [(-> & _)|(Hr14 & Hrs & Hrk)].
  - rewrite Z.eqb_refl. apply pfind_loop_total; lia.
  - destruct (Z.eqb_spec r 0); [lia|]. eexists. split; [reflexivity|]. intros b s Hbs. injection Hbs as <- <-.
    split; [lia|]. split; assumption.
Qed.

Definition pgens_inv (gens : list (ptable * Z)) : Prop :=
  Forall (fun g => 0 <= snd g <= 63 /\ PTinv H hash (snd g) (fst g)) gens.

(* the element the result points at: generation g, bucket b, slot s *)
Definition pgens_hit (gens : list (ptable * Z)) (key : Z) (r : nat * Z * Z) : Prop :=
  let '(g, b, s) := r in exists t L, nth_error gens g = Some (t, L) /\ 0 <= s <= 3 /\ pky (t b) s = key.

(* Find across chained generations returns every key stored in any generation *)
Theorem pfind_gens_present key : forall gens, pgens_inv gens ->
  (exists g, In g gens /\ PPresent (snd g) (fst g) key) ->
  exists r, pfind_gens gens key (hash key) = Ok (Some r) /\ pgens_hit gens key r.
Proof.
  induction gens as [|[t L] rest IH]; intros Hinv (g & Hin & Hk); [destruct Hin|].
  inversion Hinv as [|x xs Hx Hxs]; subst. cbn [fst snd] in Hx. destruct Hx as [HL Ht].
  cbn [pfind_gens]. destruct (pfind_total L t key (hash key) HL) as (r0 & Hr0 & Hhold). rewrite Hr0.
  destruct r0 as [[b s]|].
  - eexists. split; [reflexivity|]. destruct (Hhold b s eq_refl) as (Hs & Hky & _).
    exists t, L. split; [reflexivity|]. split; assumption.
  - (* not in the newest table: then it is not present there (a present key is always hit), so it is in an older generation *)
    assert (Hrest : exists g', In g' rest /\ PPresent (snd g') (fst g') key).
    { destruct Hin as [<-|Hin]; [|exists g; split; assumption]. exfalso. cbn [fst snd] in Hk.
      destruct (pfind_present H hash L t key HL Ht Hk) as (r1 & Hr1 & (b & s & E & _)). rewrite Hr0 in Hr1. injection Hr1 as <-. discriminate. }
    destruct (IH Hxs Hrest) as ([[g1 b1] s1] & Hr1 & (t1 & L1 & Hn & Hs1 & Hk1)). rewrite Hr1.
    eexists. split; [reflexivity|]. exists t1, L1. split; [exact Hn|]. split; assumption.
Qed.

(* after a migration interrupted (or not) by a throwing full getter, Find over (newest table, remaining older generations in
   any order) returns every key that was stored anywhere before *)
Theorem pmigrate_gens_find newL budget : 0 <= newL <= 63 -> forall gens tnew calls, pgens_ok H hash newL gens -> PTinv H hash newL tnew ->
  match pmigrate_gens H mm hash gens tnew newL budget calls with
  | Ok (gens', tnew', _, _) =>
      forall k, pin_gens gens k \/ PPresent newL tnew k ->
        exists r, pfind_gens ((tnew', newL) :: rev gens') k (hash k) = Ok (Some r) /\ pgens_hit ((tnew', newL) :: rev gens') k r
  | Exn => True
  | _ => False
  end.
Proof.
  intros HnL gens tnew calls Hg Hnew.
  pose proof (pmigrate_gens_spec H mm hash HH Hmm hash_range newL budget ltac:(lia) gens tnew calls Hg Hnew) as Hs.
  destruct (pmigrate_gens H mm hash gens tnew newL budget calls) as [[[[gens' tnew'] c'] th]| | |]; try exact Hs.
  destruct Hs as (Hg' & Ht' & Hk' & _). intros k Hk. apply pfind_gens_present.
  - constructor; [cbn [fst snd]; split; [lia|exact Ht']|].
    apply Forall_rev. unfold pgens_ok in Hg'. eapply Forall_impl; [|exact Hg'].
    intros a (Ha0 & Ha1 & Ha2). split; [lia|exact Ha2].
  - destruct (Hk' k Hk) as [(g & Hin & Hp)|Hp].
    + exists g. split; [right; rewrite <- in_rev; exact Hin|exact Hp].
    + exists (tnew', newL). split; [left; reflexivity|exact Hp].
Qed.
End GensP4.

(* ------------------------------------------------------------------ Open2N2 *)
From C12 Require Import Gen_O2 Gen_O2MP MP_Open2N2 TableO2 TableO2_Proofs TableO2_Find.

Section GensO2.
Variable hash : Z -> Z.
Hypothesis hash_range : forall k, 0 <= hash k < 2 ^ 64.

(* the search bound of a reachable encoding is far below 2^64 (mantissa < 256, exponent <= 56), so `++probe` never wraps *)
Lemma decode_lt st : enc_inv st -> 0 <= decode st <= 255 * 2 ^ 56.
Proof.
  intros Henc. rewrite (decode_val st Henc). destruct Henc as (H0 & H1 & _ & He).
  assert (0 <= st 1 / 4) by (apply Z.div_pos; lia).
  assert (0 < 2 ^ (st 1 / 4)) by (apply pow2_pos; lia).
  assert (2 ^ (st 1 / 4) <= 2 ^ 56) by (apply pow2_le_mono; lia).
  split; [nia|]. nia.
Qed.

Lemma find_loop_total t bc key h maxProbe : 0 <= maxProbe <= 255 * 2 ^ 56 -> forall fuel idx probe, 1 <= probe ->
  (Z.to_nat (maxProbe + 1 - probe) < fuel)%nat ->
  exists r, find_loop fuel t bc idx probe maxProbe key h = Ok r /\
    (forall b s, r = Some (b, s) -> 0 <= s <= 2 /\ bky (t b) s = key /\ bsh (t b) s = Gen_O2.pvCalcShortHash h).
Proof.
  intros Hmax. induction fuel as [|f IH]; intros idx probe Hp Hf; [lia|].
  cbn [find_loop]. change (Gen_O2.WasFull _ _ _) with true. cbn [andb].
  destruct (Z.leb_spec probe maxProbe).
  - destruct (bucket_find_spec (t (Gen_O2.GetNextBucketIndex idx bc probe)) key h) as (r & Hr & Hcase). rewrite Hr.
    destruct Hcase as [(-> & _)|(Hr13 & Hrs & Hrk)].
    + rewrite Z.eqb_refl. rewrite (wrapU_small 64 (probe + 1)) by (change (2 ^ 64) with (256 * 2 ^ 56); lia). apply IH; lia.
    + destruct (Z.eqb_spec r 0); [lia|]. eexists. split; [reflexivity|]. intros b s Hbs. injection Hbs as <- <-.
      split; [lia|]. split; assumption.
  - eexists. split; [reflexivity|]. intros b s Hbs. discriminate.
Qed.

Lemma find_total L t key h : Tinv hash L t ->
  exists r, find t L key h = Ok r /\
    (forall b s, r = Some (b, s) -> 0 <= s <= 2 /\ bky (t b) s = key /\ bsh (t b) s = Gen_O2.pvCalcShortHash h).
Proof.
  intros [Hwf _]. unfold find. cbv zeta.
  set (start := Gen_Base.GetStartBucketIndex h (wrapU 64 (Z.shiftl 1 L))).
  destruct (bucket_find_spec (t start) key h) as (r & Hr & Hcase). rewrite Hr.
  destruct Hcase as [(-> & _)|(Hr13 & Hrs & Hrk)].
  - rewrite Z.eqb_refl. destruct (Hwf start) as (Henc & _). pose proof (decode_lt _ Henc) as Hd.
    unfold Gen_O2MP.GetMaxProbe. fold (decode (bst (t start))).
    apply find_loop_total; [exact Hd|lia|lia].
  - destruct (Z.eqb_spec r 0); [lia|]. eexists. split; [reflexivity|]. intros b s Hbs. injection Hbs as <- <-.
    split; [lia|]. split; assumption.
Qed.

Definition gens_inv (gens : list (table * Z)) : Prop :=
  Forall (fun g => 0 <= snd g <= 63 /\ Tinv hash (snd g) (fst g)) gens.
Definition gens_hit (gens : list (table * Z)) (key : Z) (r : nat * Z * Z) : Prop :=
  let '(g, b, s) := r in exists t L, nth_error gens g = Some (t, L) /\ 0 <= s <= 2 /\ bky (t b) s = key.

(* Find across chained generations, Open2N2: never asserts, never runs out of fuel, returns every key stored in any generation *)
Theorem find_gens_present key : forall gens, gens_inv gens ->
  (exists g, In g gens /\ Present (snd g) (fst g) key) ->
  exists r, find_gens gens key (hash key) = Ok (Some r) /\ gens_hit gens key r.
Proof.
  induction gens as [|[t L] rest IH]; intros Hinv (g & Hin & Hk); [destruct Hin|].
  inversion Hinv as [|x xs Hx Hxs]; subst. cbn [fst snd] in Hx. destruct Hx as [HL Ht].
  cbn [find_gens]. destruct (find_total L t key (hash key) Ht) as (r0 & Hr0 & Hhold). rewrite Hr0.
  destruct r0 as [[b s]|].
  - eexists. split; [reflexivity|]. destruct (Hhold b s eq_refl) as (Hs & Hky & _).
    exists t, L. split; [reflexivity|]. split; assumption.
  - assert (Hrest : exists g', In g' rest /\ Present (snd g') (fst g') key).
    { destruct Hin as [<-|Hin]; [|exists g; split; assumption]. exfalso. cbn [fst snd] in Hk.
      destruct (find_present hash L t key HL Ht Hk) as (r1 & Hr1 & (b & s & E & _)). rewrite Hr0 in Hr1. injection Hr1 as <-. discriminate. }
    destruct (IH Hxs Hrest) as ([[g1 b1] s1] & Hr1 & (t1 & L1 & Hn & Hs1 & Hk1)). rewrite Hr1.
    eexists. split; [reflexivity|]. exists t1, L1. split; [exact Hn|]. split; assumption.
Qed.

Theorem migrate_gens_find newL budget : 0 <= newL <= 63 -> forall gens tnew calls, gens_ok hash newL gens -> Tinv hash newL tnew ->
  match migrate_gens hash gens tnew newL budget calls with
  | Ok (gens', tnew', _, _) =>
      forall k, in_gens gens k \/ Present newL tnew k ->
        exists r, find_gens ((tnew', newL) :: rev gens') k (hash k) = Ok (Some r) /\ gens_hit ((tnew', newL) :: rev gens') k r
  | Exn => True
  | _ => False
  end.
Proof.
  intros HnL gens tnew calls Hg Hnew.
  pose proof (migrate_gens_spec hash hash_range newL budget ltac:(lia) gens tnew calls Hg Hnew) as Hs.
  destruct (migrate_gens hash gens tnew newL budget calls) as [[[[gens' tnew'] c'] th]| | |]; try exact Hs.
  destruct Hs as (Hg' & Ht' & Hk' & _). intros k Hk. apply find_gens_present.
  - constructor; [cbn [fst snd]; split; [lia|exact Ht']|].
    apply Forall_rev. unfold gens_ok in Hg'. eapply Forall_impl; [|exact Hg'].
    intros a (Ha0 & Ha1 & Ha2). split; [lia|exact Ha2].
  - destruct (Hk' k Hk) as [(g & Hin & Hp)|Hp].
    + exists g. split; [right; rewrite <- in_rev; exact Hin|exact Hp].
    + exists (tnew', newL). split; [left; reflexivity|exact Hp].
Qed.
End GensO2.
