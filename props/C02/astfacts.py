"""C02 - facts read off the clang AST of TreeSet.h for code that walks node pointers and cannot be translated as a whole
(T-gen, "AST facts"): written to coq/Gen_TreeFacts.v on every run, theorems in coq/BTreeFastDecide.v interpret them.
  1. TreeSet::MergeTo(TreeSet&): the if / else-if chain that chooses pvMergeFast (condition, argument order of the call);
  2. pvIsOrdered(const TreeSet&, const TreeSet&): which key of which set it compares;
  3. pvRebalance(Node*, Node*, bool): the statements of the root-collapse loop body, in order.
An unexpected shape raises TranslationError (regen stage broken)."""
import json, os, sys

def _tools(root):
    p = os.path.join(root, 'tools')
    if p not in sys.path: sys.path.insert(0, p)
    import cxx2coq
    return cxx2coq

def tree_facts_text(tu, repo, root='/verif'):
    cx = _tools(root)
    E = cx.TranslationError
    cfg = {'tu': tu, 'filter': 'TreeSet', 'class': 'TreeSet', 'includes': [os.path.join(repo, 'include')]}
    objs = cx.load_objs(cx.dump_ast(cfg, repo))
    spec = cx.find_spec(objs, cfg)
    sk = cx.skip_wrappers
    def strip(n):
        n = sk(n)
        while n.get('kind') in ('ImplicitCastExpr', 'ParenExpr', 'CXXBindTemporaryExpr', 'MaterializeTemporaryExpr') and n.get('inner'):
            n = sk(n['inner'][0])
        return n
    def callee(n):
        c = strip(n['inner'][0])
        return c.get('name') or (c.get('referencedDecl') or {}).get('name')
    def side(n):
        s = json.dumps(n)
        has_this = '"kind": "CXXThisExpr"' in s; has_dst = '"name": "dstTreeSet"' in s
        if has_this == has_dst: raise E('cannot tell *this from dstTreeSet in a MergeTo argument')
        return 'SThis' if has_this else 'SDst'
    # ---- 1. MergeTo(TreeSet&) ----
    ds = [d for d in cx.method_decls(spec, 'MergeTo') if '"name": "dstCount"' in json.dumps(d)]
    if len(ds) != 1: raise E('MergeTo(TreeSet&) not found')
    chains = []
    def find_chain(n):
        if not isinstance(n, dict): return
        if n.get('kind') == 'CompoundStmt':
            inner = n.get('inner', [])
            for i, st in enumerate(inner):
                if st.get('kind') == 'DeclStmt' and any(v.get('name') == 'rootNode' for v in st.get('inner', [])) and i + 1 < len(inner) and inner[i + 1].get('kind') == 'IfStmt':
                    chains.append(inner[i + 1])
        for x in n.get('inner', []) or []: find_chain(x)
    find_chain(ds[0])
    if len(chains) != 1: raise E('the pvMergeFast if-chain of MergeTo was not found exactly once')
    branches = []
    st = chains[0]
    while st is not None:
        if st.get('kind') != 'IfStmt': raise E('MergeTo fast chain: else branch is not an if')
        cnd = strip(st['inner'][0]); th = st['inner'][1]; el = st['inner'][2] if len(st['inner']) > 2 else None
        if cnd.get('kind') not in ('CallExpr', 'CXXMemberCallExpr'): raise E('MergeTo fast chain: condition is not a call')
        nm = callee(cnd); args = cnd['inner'][1:]
        if nm == 'pvIsOrdered' and len(args) == 2:
            c = '(COrdered %s %s)' % (side(args[0]), side(args[1]))
        elif nm == 'IsLess' and len(args) == 2:
            a0, a1 = json.dumps(args[0]), json.dumps(args[1])
            if not ('"name": "prev"' in a0 and '"name": "GetEnd"' in a0 and '"name": "GetBegin"' in a1 and '"name": "prev"' not in a1):
                raise E('MergeTo fast chain: IsLess arguments are not (last of a set, first of a set)')
            c = '(CLessLastFirst %s %s)' % (side(args[0]), side(args[1]))
        else:
            raise E('MergeTo fast chain: unknown condition %s' % nm)
        body = th.get('inner', []) if th.get('kind') == 'CompoundStmt' else [th]
        if len(body) != 1: raise E('MergeTo fast chain: branch body is not one statement')
        asg = strip(body[0])
        if not (asg.get('kind') == 'BinaryOperator' and asg.get('opcode') == '=' and '"name": "rootNode"' in json.dumps(asg['inner'][0])):
            raise E('MergeTo fast chain: branch body is not `rootNode = ...`')
        call = strip(asg['inner'][1])
        if callee(call) != 'pvMergeFast' or len(call['inner']) != 3: raise E('MergeTo fast chain: not a pvMergeFast call')
        branches.append('(%s, (%s, %s))' % (c, side(call['inner'][1]), side(call['inner'][2])))
        st = el
    # ---- 2. pvIsOrdered(const TreeSet&, const TreeSet&) ----
    ds2 = [d for d in cx.method_decls(spec, 'pvIsOrdered') if '"name": "treeSet1"' in json.dumps(d)]
    if len(ds2) != 1: raise E('pvIsOrdered(const TreeSet&, const TreeSet&) not found')
    rets = []
    def find_ret(n):
        if not isinstance(n, dict): return
        if n.get('kind') == 'ReturnStmt': rets.append(n)
        for x in n.get('inner', []) or []: find_ret(x)
    find_ret(ds2[0])
    if len(rets) != 1: raise E('pvIsOrdered(sets): not exactly one return')
    rc = strip(rets[0]['inner'][0])
    if callee(rc) != 'pvIsOrdered' or len(rc['inner']) != 3: raise E('pvIsOrdered(sets) does not return pvIsOrdered(iter, iter)')
    def pos(a, setname):
        s = json.dumps(a)
        if ('"name": "%s"' % setname) not in s: raise E('pvIsOrdered(sets): argument does not use %s' % setname)
        if '"name": "prev"' in s and '"name": "GetEnd"' in s and '"name": "GetBegin"' not in s: return 'PLast'
        if '"name": "GetBegin"' in s and '"name": "prev"' not in s and '"name": "GetEnd"' not in s: return 'PFirst'
        raise E('pvIsOrdered(sets): argument is neither the last nor the first item')
    reads = '(%s, %s)' % (pos(rc['inner'][1], 'treeSet1'), pos(rc['inner'][2], 'treeSet2'))
    # ---- 3. the root-collapse loop of pvRebalance(Node*, Node*, bool) ----
    ds3 = [d for d in cx.method_decls(spec, 'pvRebalance') if '"name": "fast"' in json.dumps(d)]
    if len(ds3) != 1: raise E('pvRebalance(node, savedNode, fast) not found')
    body3 = [x for x in ds3[0]['inner'] if x.get('kind') == 'CompoundStmt'][0]
    loops = [x for x in body3['inner'] if x.get('kind') == 'WhileStmt']
    if not loops or '"name": "mRootNode"' not in json.dumps(loops[0]['inner'][0]): raise E('root-collapse loop not found')
    lb = loops[0]['inner'][1]
    sts = lb.get('inner', []) if lb.get('kind') == 'CompoundStmt' else [lb]
    def var(n):
        n = strip(n)
        if n.get('kind') == 'MemberExpr' and n.get('name') == 'mRootNode': return 'VRoot'
        if n.get('kind') == 'DeclRefExpr':
            nm = n['referencedDecl']['name']
            if nm == 'node': return 'VNode'
            if nm == 'rootNode': return 'VLocal'
        raise E('collapse loop: unknown pointer variable')
    def pexpr(n):
        n = strip(n)
        if n.get('kind') in ('CXXMemberCallExpr', 'CallExpr'):
            nm = callee(n); obj = strip(n['inner'][0])
            base = obj['inner'][0] if obj.get('kind') == 'MemberExpr' and obj.get('inner') else None
            if nm == 'GetChild' and base is not None and json.dumps(strip(n['inner'][1])).count('"value": "0"') == 1: return '(EChild0 %s)' % pexpr(base)
            if nm == 'GetParent' and base is not None: return '(EParent %s)' % pexpr(base)
            raise E('collapse loop: unknown pointer call %s' % nm)
        return '(EVar %s)' % var(n)
    out = []
    for st in sts:
        if cx.is_assert_stmt(st): continue
        s0 = strip(st)
        k = s0.get('kind')
        if k == 'DeclStmt':
            v = [x for x in s0['inner'] if x.get('kind') == 'VarDecl'][0]
            if v['name'] != 'rootNode': raise E('collapse loop: unexpected local %s' % v['name'])
            out.append('SLocal %s' % pexpr([x for x in v['inner'] if isinstance(x, dict)][0])); continue
        if k == 'BinaryOperator' and s0.get('opcode') == '=':
            out.append('SAssign %s %s' % (var(s0['inner'][0]), pexpr(s0['inner'][1]))); continue
        if k == 'IfStmt':
            c = strip(s0['inner'][0]); th = strip(s0['inner'][1])
            if th.get('kind') == 'CompoundStmt' and len(th['inner']) == 1: th = strip(th['inner'][0])
            if not (c.get('kind') == 'BinaryOperator' and c.get('opcode') == '==' and th.get('kind') == 'BinaryOperator' and th.get('opcode') == '=' and len(s0['inner']) == 2):
                raise E('collapse loop: unexpected if')
            out.append('SIfEq %s %s (SAssign %s %s)' % (var(c['inner'][0]), var(c['inner'][1]), var(th['inner'][0]), pexpr(th['inner'][1]))); continue
        if k in ('CXXMemberCallExpr', 'CallExpr'):
            nm = callee(s0); obj = strip(s0['inner'][0]); base = obj['inner'][0]
            if nm == 'Destroy': out.append('SDestroy %s' % pexpr(base)); continue
            if nm == 'SetParent': out.append('SSetParentNull %s' % pexpr(base)); continue
        raise E('collapse loop: unexpected statement %s' % k)
    # the climbing loop reads node->GetParent() first
    climbs = []
    def find_gp(n):
        if not isinstance(n, dict): return
        if n.get('kind') == 'VarDecl' and n.get('name') == 'parentNode': climbs.append(n)
        for x in n.get('inner', []) or []: find_gp(x)
    find_gp(body3)
    if len(climbs) != 1: raise E('climbing loop: parentNode declaration not found once')
    climb = pexpr([x for x in climbs[0]['inner'] if isinstance(x, dict)][0])
    # the climbing loop's stop rule: `bool stop = !pvRebalance(parentNode, index + 1, savedNode) && !pvRebalance(parentNode, index, savedNode) && fast;`
    stops = []
    def find_stop(n):
        if not isinstance(n, dict): return
        if n.get('kind') == 'VarDecl' and n.get('name') == 'stop': stops.append(n)
        for x in n.get('inner', []) or []: find_stop(x)
    find_stop(body3)
    if len(stops) != 1: raise E('climbing loop: declaration of `stop` not found once')
    def bexp(n):
        n = strip(n)
        k = n.get('kind')
        if k == 'BinaryOperator' and n.get('opcode') == '&&': return '(BAnd %s %s)' % (bexp(n['inner'][0]), bexp(n['inner'][1]))
        if k == 'UnaryOperator' and n.get('opcode') == '!': return '(BNot %s)' % bexp(n['inner'][0])
        if k == 'DeclRefExpr' and n['referencedDecl']['name'] == 'fast': return 'BFast'
        if k in ('CXXMemberCallExpr', 'CallExpr') and callee(n) == 'pvRebalance' and len(n['inner']) == 4:
            a0, a1, a2 = [strip(x) for x in n['inner'][1:4]]
            if not (a0.get('kind') == 'DeclRefExpr' and a0['referencedDecl']['name'] == 'parentNode' and a2.get('kind') == 'DeclRefExpr' and a2['referencedDecl']['name'] == 'savedNode'):
                raise E('climbing loop: pvRebalance is not called with (parentNode, .., savedNode)')
            if a1.get('kind') == 'DeclRefExpr' and a1['referencedDecl']['name'] == 'index': return '(BReb 0)'
            if a1.get('kind') == 'BinaryOperator' and a1.get('opcode') == '+':
                l_, r_ = strip(a1['inner'][0]), strip(a1['inner'][1])
                if l_.get('kind') == 'DeclRefExpr' and l_['referencedDecl']['name'] == 'index' and r_.get('kind') == 'IntegerLiteral':
                    return '(BReb %d)' % int(r_['value'])
            raise E('climbing loop: unexpected child index in a pvRebalance call')
        raise E('climbing loop: unexpected term %s in the stop rule' % k)
    stop_rule = bexp([x for x in stops[0]['inner'] if isinstance(x, dict)][0])
    # shape of the rest of the loop body: index = parentNode->GetChildIndex(node); ... if (stop) break; node = parentNode;
    jb = json.dumps(body3)
    if '"name": "GetChildIndex"' not in jb: raise E('climbing loop: index is not parentNode->GetChildIndex(node)')
    return ('(* GENERATED by props/C02/astfacts.py from the clang AST of TreeSet.h (' + os.path.basename(tu) + ') -- do not edit *)\n'
            'From Coq Require Import List.\nFrom C02 Require Import GenPrimsC02.\nImport ListNotations.\n\n'
            '(* TreeSet::MergeTo(TreeSet& dstTreeSet): the if / else-if chain after `Node* rootNode = nullptr;` -- condition and the\n'
            '   (tree1, tree2) arguments of the pvMergeFast call it guards, in source order *)\n'
            'Definition mergeto_fast_branches : list (fcond * (side * side)) :=\n  [%s].\n\n'
            '(* pvIsOrdered(const TreeSet& treeSet1, const TreeSet& treeSet2) = pvIsOrdered(<this item of treeSet1>, <this item of treeSet2>) *)\n'
            'Definition sets_ordered_reads : side_pos * side_pos := %s.\n\n'
            '(* pvRebalance(Node* node, Node* savedNode, bool fast): body of `while (mRootNode->GetCount() == 0 && !mRootNode->IsLeaf())` *)\n'
            'Definition collapse_body : list cstmt :=\n  [%s].\n\n'
            '(* ... and the pointer the climbing loop dereferences first: `Node* parentNode = <this>;` *)\n'
            'Definition climb_reads : pexpr := %s.\n\n'
            '(* ... and its stop rule `bool stop = <this>;` (BReb k = pvRebalance(parentNode, index + k, savedNode); C++ && short-circuits) *)\n'
            'Definition climb_stop : bexp := %s.\n') % (';\n   '.join(branches), reads, ';\n   '.join(out), climb, stop_rule)
