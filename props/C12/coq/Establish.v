(* C12 review-fix round: establishing theorems for the hypotheses of the table-level theorems.
   Uniq / PUniq / OUniq (no key stored twice) hold for the empty table and are preserved by inserting a key that is not present
   (HashSet::Insert only adds absent keys); hence Good / PGood / OGood hold for (a table filled by insertions of distinct keys, a
   fresh empty table) and gens_ok / gens_inv / pgens_ok / pgens_inv hold for the one-generation chain of such a table. *)
From Coq Require Import ZArith Bool List Lia.
From MomoCommon Require Import GenPrelude.
From C12 Require Import Bits Known TableO2 TableO2_Proofs TableP4 TableP4_Proofs TableOne TableOne_Proofs GensFind P4_Bucket.
Import ListNotations.
Local Open Scope Z_scope.

Section EstO2.
Variable hash : Z -> Z.
Hypothesis hash_range : forall k, 0 <= hash k < 2 ^ 64.

Lemma empty_not_present L k : ~ Present L empty_table k.
Proof. intros (b & s & _ & Ho & _). unfold occ, empty_table, empty_bucket, cnt in Ho. cbn in Ho. lia. Qed.

Lemma uniq_empty L : Uniq L empty_table.
Proof. intros k b s b' s' (Hb & Ho & Hk) _. exfalso. apply (empty_not_present L k). exists b, s. auto. Qed.

Lemma add_uniq L t key : 0 <= L <= 63 -> Tinv hash L t -> Uniq L t -> ~ Present L t key ->
  match add_nogrow t L (hash key) key with
  | Ok t' => Tinv hash L t' /\ Uniq L t' /\ (forall k, Present L t' k -> Present L t k \/ k = key)
  | Exn => True
  | _ => False
  end.
Proof.
  intros HL Ht Hu Hn.
  pose proof (add_nogrow_spec hash L t (hash key) key HL Ht (hash_range key) eq_refl eq_refl ltac:(intros; reflexivity)) as Ha.
  destruct (add_nogrow t L (hash key) key) as [t1| | |]; try exact Ha.
  destruct Ha as (Ht1 & _ & _ & (b0 & s0 & _ & Hat)). split; [exact Ht1|]. split.
  - intros k b s b' s' H1 H2. apply Hat in H1. apply Hat in H2.
    destruct H1 as [H1|(-> & -> & -> & _)], H2 as [H2|(E & -> & -> & _)].
    + exact (Hu k b s b' s' H1 H2).
    + exfalso. apply Hn. subst k. destruct H1 as (Hb & Ho & Hk). exists b, s. auto.
    + exfalso. apply Hn. destruct H2 as (Hb & Ho & Hk). exists b', s'. auto.
    + split; reflexivity.
  - intros k (b & s & Hb & Ho & Hk). assert (A : At L t1 k b s) by (split; [exact Hb|split; assumption]).
    apply Hat in A. destruct A as [(Hb1 & Ho1 & Hk1)|(-> & _)]; [left; exists b, s; auto|right; reflexivity].
Qed.

Lemma insert_all_uniq L : 0 <= L <= 63 -> forall keys t, Tinv hash L t -> Uniq L t -> NoDup keys -> (forall k, In k keys -> ~ Present L t k) ->
  match insert_all hash t L keys with
  | Ok t' => Tinv hash L t' /\ Uniq L t' /\ (forall k, Present L t' k -> Present L t k \/ In k keys)
  | Exn => True
  | _ => False
  end.
Proof.
  intros HL. induction keys as [|k r IH]; intros t Ht Hu Hnd Hnp; cbn [insert_all].
  - split; [assumption|]. split; [assumption|]. intros k Hk. left. exact Hk.
  - inversion Hnd as [|x xs Hnin Hnd']; subst.
    pose proof (add_uniq L t k HL Ht Hu (Hnp k (or_introl eq_refl))) as Ha.
    destruct (add_nogrow t L (hash k) k) as [t1| | |]; try exact Ha.
    destruct Ha as (Ht1 & Hu1 & Hp1).
    assert (Hnp1 : forall k0, In k0 r -> ~ Present L t1 k0).
    { intros k0 Hin Hp. destruct (Hp1 k0 Hp) as [Hold| ->]; [exact (Hnp k0 (or_intror Hin) Hold)|exact (Hnin Hin)]. }
    specialize (IH t1 Ht1 Hu1 Hnd' Hnp1).
    destruct (insert_all hash t1 L r) as [t2| | |]; try exact IH.
    destruct IH as (Ht2 & Hu2 & Hp2). split; [assumption|]. split; [assumption|].
    intros k0 Hk0. destruct (Hp2 k0 Hk0) as [H1|H1]; [|right; right; exact H1].
    destruct (Hp1 k0 H1) as [H0| ->]; [left; exact H0|right; left; reflexivity].
Qed.

Lemma good_fresh L newL told : Tinv hash L told -> Uniq L told -> Good hash L newL told empty_table.
Proof.
  intros Ht Hu. split; [exact Ht|]. split; [apply empty_inv|]. split; [exact Hu|]. split; [apply uniq_empty|].
  intros k [_ Hp]. exact (empty_not_present newL k Hp).
Qed.

(* a table filled by insertions of distinct keys, next to a fresh table: all hypotheses of the table-level theorems hold *)
Theorem o2_hypotheses_established L newL keys : 0 <= L -> L < newL <= 63 -> NoDup keys ->
  match insert_all hash empty_table L keys with
  | Ok t => Good hash L newL t empty_table /\ gens_ok hash newL [(t, L)] /\ gens_inv hash [(t, L)]
  | Exn => True
  | _ => False
  end.
Proof.
  intros HL HnL Hnd.
  pose proof (insert_all_uniq L ltac:(lia) keys empty_table (empty_inv hash L) (uniq_empty L) Hnd (fun k _ => empty_not_present L k)) as Hi.
  destruct (insert_all hash empty_table L keys) as [t| | |]; try exact Hi.
  destruct Hi as (Ht & Hu & _). split; [apply good_fresh; assumption|]. split.
  - constructor; [|constructor]. cbn [fst snd]. split; [lia|]. split; [lia|exact Ht].
  - constructor; [|constructor]. cbn [fst snd]. split; [lia|exact Ht].
Qed.
End EstO2.

Section EstP4.
Variables (H mm : Z).
Variable hash : Z -> Z.
Hypothesis HH : 4 <= H <= 8.
Hypothesis Hmm : 1 <= mm <= 4.
Hypothesis hash_range : forall k, 0 <= hash k < 2 ^ 64.

Lemma pempty_cnt b : pcnt (pempty_table H mm b) = 0.
Proof.
  unfold pempty_table, pempty_bucket, pcnt. cbn [ps].
  apply (P4_Bucket.p4_count_inv H _ 0 (fun _ => 0) (fun _ => 0)); [lia|apply P4_Bucket.p4_inv_empty; lia].
Qed.

Lemma pempty_not_present L k : ~ PPresent L (pempty_table H mm) k.
Proof. intros (b & i & _ & Hi & _). rewrite pempty_cnt in Hi. lia. Qed.

Lemma puniq_empty L : PUniq L (pempty_table H mm).
Proof. intros k b s b' s' (Hb & Ho & Hk) _. exfalso. apply (pempty_not_present L k). exists b, s. auto. Qed.

Lemma padd_uniq L t key : 0 <= L <= 63 -> PTinv H hash L t -> PUniq L t -> ~ PPresent L t key ->
  match padd_nogrow H t L (hash key) key with
  | Ok t' => PTinv H hash L t' /\ PUniq L t' /\ (forall k, PPresent L t' k -> PPresent L t k \/ k = key)
  | Exn => True
  | _ => False
  end.
Proof.
  intros HL Ht Hu Hn.
  pose proof (padd_nogrow_spec H hash HH L t (hash key) key HL Ht (hash_range key) eq_refl eq_refl ltac:(intros; reflexivity)) as Ha.
  destruct (padd_nogrow H t L (hash key) key) as [t1| | |]; try exact Ha.
  destruct Ha as (Ht1 & _ & _ & (b0 & s0 & _ & Hat)). split; [exact Ht1|]. split.
  - intros k b s b' s' H1 H2. apply Hat in H1. apply Hat in H2.
    destruct H1 as [H1|(-> & -> & -> & _)], H2 as [H2|(E & -> & -> & _)].
    + exact (Hu k b s b' s' H1 H2).
    + exfalso. apply Hn. subst k. destruct H1 as (Hb & Ho & Hk). exists b, s. auto.
    + exfalso. apply Hn. destruct H2 as (Hb & Ho & Hk). exists b', s'. auto.
    + split; reflexivity.
  - intros k (b & s & Hb & Ho & Hk). assert (A : PAt L t1 k b s) by (split; [exact Hb|split; assumption]).
    apply Hat in A. destruct A as [(Hb1 & Ho1 & Hk1)|(-> & _)]; [left; exists b, s; auto|right; reflexivity].
Qed.

Lemma pinsert_all_uniq L : 0 <= L <= 63 -> forall keys t, PTinv H hash L t -> PUniq L t -> NoDup keys -> (forall k, In k keys -> ~ PPresent L t k) ->
  match pinsert_all H hash t L keys with
  | Ok t' => PTinv H hash L t' /\ PUniq L t' /\ (forall k, PPresent L t' k -> PPresent L t k \/ In k keys)
  | Exn => True
  | _ => False
  end.
Proof.
  intros HL. induction keys as [|k r IH]; intros t Ht Hu Hnd Hnp; cbn [pinsert_all].
  - split; [assumption|]. split; [assumption|]. intros k Hk. left. exact Hk.
  - inversion Hnd as [|x xs Hnin Hnd']; subst.
    pose proof (padd_uniq L t k HL Ht Hu (Hnp k (or_introl eq_refl))) as Ha.
    destruct (padd_nogrow H t L (hash k) k) as [t1| | |]; try exact Ha.
    destruct Ha as (Ht1 & Hu1 & Hp1).
    assert (Hnp1 : forall k0, In k0 r -> ~ PPresent L t1 k0).
    { intros k0 Hin Hp. destruct (Hp1 k0 Hp) as [Hold| ->]; [exact (Hnp k0 (or_intror Hin) Hold)|exact (Hnin Hin)]. }
    specialize (IH t1 Ht1 Hu1 Hnd' Hnp1).
    destruct (pinsert_all H hash t1 L r) as [t2| | |]; try exact IH.
    destruct IH as (Ht2 & Hu2 & Hp2). split; [assumption|]. split; [assumption|].
    intros k0 Hk0. destruct (Hp2 k0 Hk0) as [H1|H1]; [|right; right; exact H1].
    destruct (Hp1 k0 H1) as [H0| ->]; [left; exact H0|right; left; reflexivity].
Qed.

Lemma pgood_fresh L newL told : PTinv H hash L told -> PUniq L told -> PGood H hash L newL told (pempty_table H mm).
Proof.
  intros Ht Hu. split; [exact Ht|]. split; [apply pempty_inv; assumption|]. split; [exact Hu|]. split; [apply puniq_empty|].
  intros k [_ Hp]. exact (pempty_not_present newL k Hp).
Qed.

Theorem p4_hypotheses_established L newL keys : 0 <= L -> L < newL <= 63 -> NoDup keys ->
  match pinsert_all H hash (pempty_table H mm) L keys with
  | Ok t => PGood H hash L newL t (pempty_table H mm) /\ pgens_ok H hash newL [(t, L)] /\ pgens_inv H hash [(t, L)]
  | Exn => True
  | _ => False
  end.
Proof.
  intros HL HnL Hnd.
  pose proof (pinsert_all_uniq L ltac:(lia) keys (pempty_table H mm) (pempty_inv H mm hash HH Hmm L) (puniq_empty L) Hnd (fun k _ => pempty_not_present L k)) as Hi.
  destruct (pinsert_all H hash (pempty_table H mm) L keys) as [t| | |]; try exact Hi.
  destruct Hi as (Ht & Hu & _). split; [apply pgood_fresh; assumption|]. split.
  - constructor; [|constructor]. cbn [fst snd]. split; [lia|]. split; [lia|exact Ht].
  - constructor; [|constructor]. cbn [fst snd]. split; [lia|exact Ht].
Qed.
End EstP4.

Section EstOne.
Variable hash : Z -> Z.

Lemma oempty_not_present L k : ~ OPresent L oempty_table k.
Proof. intros (b & _ & Hf & _). discriminate. Qed.

Lemma ouniq_empty L : OUniq L oempty_table.
Proof. intros k b b' (_ & Hf & _) _. discriminate. Qed.

Lemma oadd_uniq L t key : 0 <= L <= 63 -> OTinv hash L t -> OUniq L t -> ~ OPresent L t key ->
  match oadd_nogrow t L (hash key) key with
  | Ok t' => OTinv hash L t' /\ OUniq L t' /\ (forall k, OPresent L t' k -> OPresent L t k \/ k = key)
  | Exn => True
  | _ => False
  end.
Proof.
  intros HL Ht Hu Hn.
  pose proof (oadd_nogrow_spec hash L t (hash key) key HL Ht eq_refl eq_refl) as Ha.
  destruct (oadd_nogrow t L (hash key) key) as [t1| | |]; try exact Ha.
  destruct Ha as (Ht1 & _ & _ & _ & (b0 & _ & Hat)). split; [exact Ht1|]. split.
  - intros k b b' H1 H2. apply Hat in H1. apply Hat in H2.
    destruct H1 as [H1|(-> & -> & _)], H2 as [H2|(E & -> & _)].
    + exact (Hu k b b' H1 H2).
    + exfalso. apply Hn. subst k. destruct H1 as (Hb & Ho & Hk). exists b. auto.
    + exfalso. apply Hn. destruct H2 as (Hb & Ho & Hk). exists b'. auto.
    + reflexivity.
  - intros k (b & Hb & Ho & Hk). assert (A : OAt L t1 k b) by (split; [exact Hb|split; assumption]).
    apply Hat in A. destruct A as [(Hb1 & Ho1 & Hk1)|(-> & _)]; [left; exists b; auto|right; reflexivity].
Qed.

Lemma oinsert_all_uniq L : 0 <= L <= 63 -> forall keys t, OTinv hash L t -> OUniq L t -> NoDup keys -> (forall k, In k keys -> ~ OPresent L t k) ->
  match oinsert_all hash t L keys with
  | Ok t' => OTinv hash L t' /\ OUniq L t' /\ (forall k, OPresent L t' k -> OPresent L t k \/ In k keys)
  | Exn => True
  | _ => False
  end.
Proof.
  intros HL. induction keys as [|k r IH]; intros t Ht Hu Hnd Hnp; cbn [oinsert_all].
  - split; [assumption|]. split; [assumption|]. intros k Hk. left. exact Hk.
  - inversion Hnd as [|x xs Hnin Hnd']; subst.
    pose proof (oadd_uniq L t k HL Ht Hu (Hnp k (or_introl eq_refl))) as Ha.
    destruct (oadd_nogrow t L (hash k) k) as [t1| | |]; try exact Ha.
    destruct Ha as (Ht1 & Hu1 & Hp1).
    assert (Hnp1 : forall k0, In k0 r -> ~ OPresent L t1 k0).
    { intros k0 Hin Hp. destruct (Hp1 k0 Hp) as [Hold| ->]; [exact (Hnp k0 (or_intror Hin) Hold)|exact (Hnin Hin)]. }
    specialize (IH t1 Ht1 Hu1 Hnd' Hnp1).
    destruct (oinsert_all hash t1 L r) as [t2| | |]; try exact IH.
    destruct IH as (Ht2 & Hu2 & Hp2). split; [assumption|]. split; [assumption|].
    intros k0 Hk0. destruct (Hp2 k0 Hk0) as [H1|H1]; [|right; right; exact H1].
    destruct (Hp1 k0 H1) as [H0| ->]; [left; exact H0|right; left; reflexivity].
Qed.

Theorem one_hypotheses_established L newL keys : 0 <= L <= 63 -> NoDup keys ->
  match oinsert_all hash oempty_table L keys with
  | Ok t => OGood hash L newL t oempty_table
  | Exn => True
  | _ => False
  end.
Proof.
  intros HL Hnd.
  pose proof (oinsert_all_uniq L HL keys oempty_table (oempty_inv hash L) (ouniq_empty L) Hnd (fun k _ => oempty_not_present L k)) as Hi.
  destruct (oinsert_all hash oempty_table L keys) as [t| | |]; try exact Hi.
  destruct Hi as (Ht & Hu & _). split; [exact Ht|]. split; [apply oempty_inv|]. split; [exact Hu|]. split; [apply ouniq_empty|].
  intros k [_ Hp]. exact (oempty_not_present newL k Hp).
Qed.
End EstOne.

(* ---- concrete witnesses (vm_compute): tables of 8 keys filled by insertion migrate into a larger fresh table WITHOUT "table full"
   (the `Exn => True` escape of the table-level theorems is not taken), for every bucket type and through the GENERATED loops ---- *)
From C12 Require Import HSReloc_Refine.

Lemma p4_table_nonvacuous :
  match pinsert_all 4 demo_hash (pempty_table 4 2) 2 [1; 2; 3; 4; 5; 6; 7; 8] with
  | Ok t => match pmigrate 4 2 demo_hash t 2 5 with Ok _ => true | _ => false end
  | _ => false
  end = true.
Proof. vm_compute. reflexivity. Qed.

Lemma one_table_nonvacuous :
  match oinsert_all demo_hash oempty_table 4 [1; 2; 3; 4; 5; 6; 7; 8] with
  | Ok t => match omigrate demo_hash t 4 6 with Ok _ => true | _ => false end
  | _ => false
  end = true.
Proof. vm_compute. reflexivity. Qed.

Lemma gen_loops_nonvacuous :
  match insert_all demo_hash empty_table 2 [1; 2; 3; 4; 5; 6; 7; 8], pinsert_all 4 demo_hash (pempty_table 4 2) 2 [1; 2; 3; 4; 5; 6; 7; 8] with
  | Ok t, Ok pt => match o2_gen_grow_chain demo_hash t 2 [3; 5; 9], p4_gen_grow_chain 4 2 demo_hash pt 2 [4; 7] with
                   | Ok _, Ok _ => true
                   | _, _ => false
                   end
  | _, _ => false
  end = true.
Proof. vm_compute. reflexivity. Qed.
