(* C14 round 8 -- generated move constructors end to end (the member initialiser mCrew(std::move(x.mCrew)) follows the crew's own
   generated move constructor), move assignment composed from generated pieces according to the generated shape facts,
   HashMultiMap::Swap, and the stdish wrappers' decision rules (Gen_StdishDecisions.v) against the allocator-requirements table. *)
From Coq Require Import ZArith Bool List String Lia.
From MomoCommon Require Import GenPrelude.
From C14 Require Import PropagationModel Model Proofs GenProofs GenProofs2.
From C14 Require Gen_SetCrew Gen_SetCrew2 Gen_TreeSet Gen_HashSet Gen_DataTable Gen_TreeSet2 Gen_HashSet2 Gen_DataTable2
                 Gen_TreeSet3 Gen_HashSet3 Gen_TableCrew Gen_DataTable3 Gen_HashMultiMap2 Gen_AssignShapes Gen_StdishDecisions.
Import ListNotations.
Local Open Scope Z_scope.

(* ---------------------------------------------------------------- move construction, generated end to end *)
(* the new object gets every field of the source; the source is left with a null crew and null / zero storage fields *)
Theorem gen_move_ctors :
  (forall c n r p c' n' r' p', Gen_TreeSet3.MoveCtor c n r p c' n' r' p' = (c', n', r', p', 0, 0, 0, 0)) /\
  (forall c n k b c' n' k' b', Gen_HashSet3.MoveCtor c n k b c' n' k' b' = (c', n', k', b', 0, 0, 0, 0)) /\
  (forall mv c r p i c' r' p' i', Gen_DataTable3.MoveCtor mv c r p i c' r' p' i' = (c', r', p', i', 0, mv r', mv p', mv i')) /\
  (forall a b, Gen_TableCrew.Swap a b = (b, a)) /\ (forall junk s, Gen_TableCrew.MoveCtor junk s = (s, 0)).
Proof. repeat split. Qed.

(* a0dc6a6 / c9f565a as a theorem over GENERATED code: move-construct from x, then x.Clear() (and x's destructor body) -- the
   generated Clear / pvDestroy applied to the fields the generated move constructor leaves in the source, with crew_null
   computed by the generated pvIsNull / IsNull -- returns normally.  For every value of every field. *)
Theorem gen_moved_from_then_clear :
  (forall c n r p c' n' r' p',
     let '(_, _, _, _, sc, sn, sr, sp) := Gen_TreeSet3.MoveCtor c n r p c' n' r' p' in
     Gen_TreeSet.Clear (Gen_SetCrew.pvIsNull sc) sn sr sp = GenPrelude.Ok (tt, sn, sr, sp) /\
     Gen_TreeSet.pvDestroy (Gen_SetCrew.pvIsNull sc) sn sr sp = GenPrelude.Ok tt) /\
  (forall nb c n k b c' n' k' b' shrink,
     let '(_, _, _, _, sc, sn, sk, sb) := Gen_HashSet3.MoveCtor c n k b c' n' k' b' in
     Gen_HashSet.Clear (Gen_SetCrew.pvIsNull sc) nb sn sk sb shrink = GenPrelude.Ok (tt, sn, sk, sb)) /\
  (forall mv c r p i c' r' p' i',
     let '(_, _, _, _, sc, _, _, _) := Gen_DataTable3.MoveCtor mv c r p i c' r' p' i' in
     Gen_DataTable.Clear (Gen_TableCrew.IsNull sc 0) = GenPrelude.Ok tt).
Proof. repeat split. Qed.

(* move assignment: the operators' bodies are `X(std::move(x)).Swap( *this); return *this;` (generated shape facts) ... *)
Definition move_assign_expected : list string := ["temp(move).Swap(*this)"; "return *this"]%string.
Definition copy_assign_expected : list string := ["if this != &x: temp(copy).Swap(*this)"; "return *this"]%string.
Theorem gen_assign_shapes :
  Gen_AssignShapes.tree_move_assign_shape = move_assign_expected /\ Gen_AssignShapes.hash_move_assign_shape = move_assign_expected /\
  Gen_AssignShapes.multi_move_assign_shape = move_assign_expected /\ Gen_AssignShapes.table_move_assign_shape = move_assign_expected /\
  Gen_AssignShapes.tree_copy_assign_shape = copy_assign_expected /\ Gen_AssignShapes.hash_copy_assign_shape = copy_assign_expected /\
  Gen_AssignShapes.multi_copy_assign_shape = copy_assign_expected /\ Gen_AssignShapes.table_copy_assign_shape = copy_assign_expected.
Proof. repeat split. Qed.

(* ... so move assignment = generated MoveCtor into a temporary, generated Swap of the temporary with *this, destruction of the
   temporary (generated pvDestroy on the old *this fields) *)
Definition tree_move_assign (this src : Z * Z * Z * Z) :=
  let '(tc, tn, tr, tp) := this in let '(sc, sn, sr, sp) := src in
  let '(mc, mn, mr, mp, sc1, sn1, sr1, sp1) := Gen_TreeSet3.MoveCtor 0 0 0 0 sc sn sr sp in         (* temporary <- x *)
  let '(mc2, mn2, mr2, mp2, tc2, tn2, tr2, tp2) := Gen_TreeSet2.Swap mc mn mr mp tc tn tr tp in      (* temporary.Swap( *this) *)
  (Gen_TreeSet.pvDestroy (Gen_SetCrew.pvIsNull mc2) mn2 mr2 mp2, (tc2, tn2, tr2, tp2), (sc1, sn1, sr1, sp1)).

Theorem gen_tree_move_assign :
  forall tc tn tr tp sc sn sr sp,
    let '(destroyed, this', src') := tree_move_assign (tc, tn, tr, tp) (sc, sn, sr, sp) in
    this' = (sc, sn, sr, sp) /\ src' = (0, 0, 0, 0) /\
    (* the old contents of *this are destroyed through the old crew: fine whenever *this was consistent (live crew, or a
       moved-from object without storage) *)
    ((tc <> 0 \/ (tr = 0 /\ tp = 0)) -> destroyed = GenPrelude.Ok tt) /\
    (* and afterwards x.Clear() is a no-op *)
    (let '(c, n, r, p) := src' in Gen_TreeSet.Clear (Gen_SetCrew.pvIsNull c) n r p = GenPrelude.Ok (tt, n, r, p)).
Proof.
  intros. cbv beta iota zeta delta [tree_move_assign Gen_TreeSet3.MoveCtor Gen_SetCrew2.MoveCtor Gen_TreeSet2.Swap]. repeat split; try reflexivity.
  intros H. unfold Gen_TreeSet.pvDestroy, Gen_SetCrew.pvIsNull.
  destruct (Z.eqb_spec tc 0) as [E|E]; cbn [negb andb orb].
  - destruct H as [H|[-> ->]]; [contradiction|reflexivity].
  - destruct (negb (tr =? 0)), (negb (tp =? 0)); reflexivity.
Qed.

(* refinement: the hand model's cc_move_ctor on the abstracted fields *)
Theorem cc_move_ctor_refines_generated :
  forall src junk1 junk2 junk3 junk4,
    let '(d, s') := cc_move_ctor src in
    Gen_TreeSet3.MoveCtor junk1 junk2 junk3 junk4 (crew_ptr src) (count2 src) (storage2 src) (storage2 src)
      = (crew_ptr d, count2 d, storage2 d, storage2 d, crew_ptr s', count2 s', storage2 s', storage2 s').
Proof. intros. reflexivity. Qed.

(* ---------------------------------------------------------------- HashMultiMap::Swap *)
Theorem gen_multi_swap :
  forall h n v h' n' v', Gen_HashMultiMap2.Swap h n v h' n' v' = (h', n', v', h, n, v).
Proof. reflexivity. Qed.

(* ---------------------------------------------------------------- stdish decision rules *)
(* the six wrappers share one set of decision rules (same-code lemmas, closed by reflexivity) ... *)
Theorem stdish_rules_same_code :
  (forall tr, Gen_StdishDecisions.us_move_propagate tr = Gen_StdishDecisions.um_move_propagate tr /\
              Gen_StdishDecisions.umm_move_propagate tr = Gen_StdishDecisions.um_move_propagate tr /\
              Gen_StdishDecisions.m_move_propagate tr = Gen_StdishDecisions.um_move_propagate tr /\
              Gen_StdishDecisions.s_move_propagate tr = Gen_StdishDecisions.um_move_propagate tr /\
              Gen_StdishDecisions.v_move_propagate tr = Gen_StdishDecisions.um_move_propagate tr) /\
  (forall tr, Gen_StdishDecisions.us_copy_propagate tr = Gen_StdishDecisions.um_copy_propagate tr /\
              Gen_StdishDecisions.umm_copy_propagate tr = Gen_StdishDecisions.um_copy_propagate tr /\
              Gen_StdishDecisions.m_copy_propagate tr = Gen_StdishDecisions.um_copy_propagate tr /\
              Gen_StdishDecisions.s_copy_propagate tr = Gen_StdishDecisions.um_copy_propagate tr /\
              Gen_StdishDecisions.v_copy_propagate tr = Gen_StdishDecisions.um_copy_propagate tr) /\
  (forall tr eq, Gen_StdishDecisions.us_swap_assert tr eq = Gen_StdishDecisions.um_swap_assert tr eq /\
              Gen_StdishDecisions.umm_swap_assert tr eq = Gen_StdishDecisions.um_swap_assert tr eq /\
              Gen_StdishDecisions.m_swap_assert tr eq = Gen_StdishDecisions.um_swap_assert tr eq /\
              Gen_StdishDecisions.s_swap_assert tr eq = Gen_StdishDecisions.um_swap_assert tr eq /\
              Gen_StdishDecisions.v_swap_assert tr eq = Gen_StdishDecisions.um_swap_assert tr eq) /\
  (forall p, Gen_StdishDecisions.us_move_alloc_from_right p = p /\ Gen_StdishDecisions.umm_move_alloc_from_right p = p /\
             Gen_StdishDecisions.m_move_alloc_from_right p = p /\ Gen_StdishDecisions.s_move_alloc_from_right p = p /\
             Gen_StdishDecisions.v_move_alloc_from_right p = p /\ Gen_StdishDecisions.um_move_alloc_from_right p = p /\
             Gen_StdishDecisions.us_copy_alloc_from_right p = p /\ Gen_StdishDecisions.umm_copy_alloc_from_right p = p /\
             Gen_StdishDecisions.m_copy_alloc_from_right p = p /\ Gen_StdishDecisions.s_copy_alloc_from_right p = p /\
             Gen_StdishDecisions.v_copy_alloc_from_right p = p /\ Gen_StdishDecisions.um_copy_alloc_from_right p = p) /\
  (Gen_StdishDecisions.um_steal_when_equal = true /\ Gen_StdishDecisions.us_steal_when_equal = true /\
   Gen_StdishDecisions.umm_steal_when_equal = true /\ Gen_StdishDecisions.m_steal_when_equal = true /\
   Gen_StdishDecisions.s_steal_when_equal = true /\ Gen_StdishDecisions.v_steal_when_equal = true) /\
  (Gen_StdishDecisions.um_move_self_guard = true /\ Gen_StdishDecisions.um_copy_self_guard = true /\
   Gen_StdishDecisions.s_move_self_guard = true /\ Gen_StdishDecisions.s_copy_self_guard = true /\
   Gen_StdishDecisions.v_move_self_guard = true /\ Gen_StdishDecisions.v_copy_self_guard = true).
Proof. repeat split. Qed.

(* ... which are the decision functions of PropagationModel.v (the hand model the container-level theorems use) *)
Theorem stdish_rules_are_the_model :
  (forall tr, Gen_StdishDecisions.um_move_propagate tr = w_propagate_move tr) /\
  (forall tr, Gen_StdishDecisions.um_copy_propagate tr = w_propagate_copy tr) /\
  (forall tr a b, Gen_StdishDecisions.um_swap_assert tr (alloc_eq tr a b) = w_swap_assert_holds tr a b) /\
  (forall tr, negb (Gen_StdishDecisions.um_swap_assert tr false) = w_swap_evaluates_allocators tr).
Proof. repeat split. intros tr. unfold Gen_StdishDecisions.um_swap_assert, w_swap_evaluates_allocators. rewrite orb_false_r. reflexivity. Qed.

(* the allocator the target ends up with / element-wise or not, computed from the GENERATED rules *)
Definition gen_target_alloc_move (tr : traits) (s t : mgr) : mgr :=
  let alloc := if Gen_StdishDecisions.um_move_alloc_from_right (Gen_StdishDecisions.um_move_propagate tr) then s else t in
  if Bool.eqb (alloc_eq tr s alloc) Gen_StdishDecisions.um_steal_when_equal then s else alloc.
Definition gen_elementwise_move (tr : traits) (s t : mgr) : bool :=
  let alloc := if Gen_StdishDecisions.um_move_alloc_from_right (Gen_StdishDecisions.um_move_propagate tr) then s else t in
  negb (Bool.eqb (alloc_eq tr s alloc) Gen_StdishDecisions.um_steal_when_equal).
Definition gen_target_alloc_copy (tr : traits) (s t : mgr) : mgr :=
  if Gen_StdishDecisions.um_copy_alloc_from_right (Gen_StdishDecisions.um_copy_propagate tr) then s else t.

(* = the allocator-requirements table of the standard, for every stateful allocator type and every pair of ids *)
Theorem gen_stdish_rules_follow_std_table :
  forall tr s t, is_empty tr = false ->
    gen_target_alloc_move tr s t = std_target_alloc tr OpMoveAssign s t /\
    gen_elementwise_move tr s t = std_elementwise tr OpMoveAssign s t /\
    gen_target_alloc_copy tr s t = std_target_alloc tr OpCopyAssign s t /\
    (forall eq, Gen_StdishDecisions.um_swap_assert tr eq = (pocs tr || eq)) /\
    (Gen_StdishDecisions.um_swap_assert tr (Z.eqb s t) = std_defined tr OpSwap s t).
Proof.
  intros tr s t He.
  destruct (propagation_table_stateful tr OpMoveAssign s t He eq_refl) as (T1 & _ & E1).
  destruct (propagation_table_stateful tr OpCopyAssign s t He eq_refl) as (T2 & _ & _).
  repeat split; try reflexivity.
  - rewrite <- T1. unfold gen_target_alloc_move, code_target_alloc, w_steal, w_propagate_move,
      Gen_StdishDecisions.um_move_alloc_from_right, Gen_StdishDecisions.um_move_propagate, Gen_StdishDecisions.um_steal_when_equal.
    destruct (alloc_eq tr s (if is_empty tr || pocma tr then s else t)); reflexivity.
  - rewrite <- E1. unfold gen_elementwise_move, code_elementwise, w_steal, w_propagate_move,
      Gen_StdishDecisions.um_move_alloc_from_right, Gen_StdishDecisions.um_move_propagate, Gen_StdishDecisions.um_steal_when_equal.
    destruct (alloc_eq tr s (if is_empty tr || pocma tr then s else t)); reflexivity.
  - rewrite <- T2. reflexivity.
Qed.

(* the two KNOWN FINDINGS live exactly in these rules.  D12: unless POCS, the swap assertion's value depends on
   get_allocator() of both operands (it is evaluated), which a moved-from operand cannot answer.  D13: unless the allocator
   propagates (or is empty), the allocator is taken from *this, which a moved-from target cannot answer. *)
Theorem gen_D12_refuted :
  forall tr c w, pocs tr = false ->
    (Gen_StdishDecisions.um_swap_assert tr true <> Gen_StdishDecisions.um_swap_assert tr false) /\
    w_swap tr MovedFrom c w = NullCrew.
Proof.
  intros tr c w H. split.
  - unfold Gen_StdishDecisions.um_swap_assert. rewrite H. cbn [orb]. discriminate.
  - apply D12_refuted. exact H.
Qed.
Theorem gen_D13_refuted :
  forall wk tr c w,
    (Gen_StdishDecisions.um_move_alloc_from_right (Gen_StdishDecisions.um_move_propagate tr) = false ->
       w_move_assign wk tr MovedFrom c w = NullCrew) /\
    (Gen_StdishDecisions.um_copy_alloc_from_right (Gen_StdishDecisions.um_copy_propagate tr) = false ->
       w_copy_assign wk tr MovedFrom c w = NullCrew).
Proof. intros wk tr c w. exact (D13_refuted wk tr c w). Qed.
Example gen_known_findings_witnesses :
  (* std::allocator: POCS = false -> D12;  kit::StdAlloc<.,false,false,false>: D13 for both assignments *)
  Gen_StdishDecisions.um_swap_assert (mkTraits false true false true true) false = false /\
  Gen_StdishDecisions.um_move_alloc_from_right (Gen_StdishDecisions.um_move_propagate (mkTraits false false false true false)) = false /\
  Gen_StdishDecisions.um_copy_alloc_from_right (Gen_StdishDecisions.um_copy_propagate (mkTraits false false false true false)) = false /\
  (* ... and a fully propagating stateful allocator is free of both *)
  Gen_StdishDecisions.um_swap_assert (mkTraits true true true true false) false = true /\
  Gen_StdishDecisions.um_move_alloc_from_right (Gen_StdishDecisions.um_move_propagate (mkTraits true true true true false)) = true.
Proof. vm_compute. repeat split. Qed.
