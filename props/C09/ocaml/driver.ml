(* C09 model driver: one case per line, one result line per case; same formats as harness.cpp.
   T-gen validation:  ceil cbs chk ar gb gi pos nb1 nbuf       (generated Gallina, extracted)
   list surgery:      fabmg fabmv fabdel, mg <list d> / <list s>   (hand L1 model PoolLinks, extracted) *)
open Zutil
open GenPrelude
let zs = z_of_string
let sz = string_of_z
let zi = z_of_int
let b2s b = if b then "1" else "0"
let sub a b = BinInt.Z.sub a b
let add a b = BinInt.Z.add a b
let oc_str f = function Ok x -> f x | Stuck -> "Stuck" | Fuel -> "Fuel" | Exn -> "Exn"

(* ---- lists <-> text:  "2 *1 3"  /  "-" ---- *)
let parse_list toks =
  let head = ref (zi 0) in
  let l = Stdlib.List.filter_map (fun t ->
    if t = "-" then None
    else if String.length t > 0 && t.[0] = '*' then begin
      let v = zs (String.sub t 1 (String.length t - 1)) in head := v; Some v end
    else Some (zs t)) toks in
  (l, !head)
let show_list h head fuel =
  match PoolLinks.list_of fuel h head with
  | None -> "BROKEN"
  | Some [] -> "-"
  | Some l -> String.concat " " (Stdlib.List.map (fun x -> (if int_of_z x = int_of_z head then "*" else "") ^ sz x) l)
let rec split_at_slash acc = function
  | [] -> (Stdlib.List.rev acc, [])
  | "/" :: r -> (Stdlib.List.rev acc, r)
  | x :: r -> split_at_slash (x :: acc) r
let range a b = let rec go i = if i > b then [] else zi i :: go (i + 1) in go a
let nth1 l k = Stdlib.List.nth l (k - 1)

let merge l1 h1 l2 h2 =
  let fuel = nat_of_int (Stdlib.List.length l1 + Stdlib.List.length l2 + 3) in
  let h = PoolLinks.heap_of_lists l1 l2 in
  (* the GENERATED list surgery of MergeFrom (Gen_MemPoolMerge; = PoolLinks.merge_from by C09_generated_mergefrom_is_model) *)
  match Gen_MemPoolMerge.coq_MergeFrom fuel h1 h2 h.PoolLinks.hnext h.PoolLinks.hprev with
  | Ok ((((_, hd1), hd2), nx'), pv') ->
    let h' = { PoolLinks.hprev = pv'; PoolLinks.hnext = nx' } in
    show_list h' hd1 fuel ^ " / " ^ show_list h' hd2 fuel
  | Fuel -> "Fuel" | Stuck -> "Stuck" | Exn -> "Exn"

(* ---- tr: the concrete model PoolConc run on the same op script as the real pool; same trace format as harness.cpp ---- *)
let fnv1a (t : string) : int =
  let h = ref 2166136261 in
  String.iter (fun ch -> h := (!h lxor (Char.code ch)) land 0xFFFFFFFF; h := (!h * 16777619) land 0xFFFFFFFF) t; !h
let zlist l = String.concat "," (Stdlib.List.map sz l)
let blks l = String.concat "," (Stdlib.List.map (fun (b, j) -> sz b ^ "." ^ sz j) l)
let state_of (w : PoolConc.cworld) (p : bool) : string =
  let x = PoolConc.getp w p in
  let bufs = x.PoolConc.lfull @ x.PoolConc.lfree in
  "F:" ^ zlist x.PoolConc.lfull ^ " H:" ^ zlist x.PoolConc.lfree ^ " B:" ^
  String.concat "" (Stdlib.List.map (fun b -> sz b ^ "=" ^ sz (w.PoolConc.fc b) ^ "[" ^ zlist (PoolConc.chain_of w b) ^ "]") bufs) ^
  " K:" ^ blks x.PoolConc.cache ^ " n=" ^ sz x.PoolConc.acount
let blk_eq (a, b) (c, d) = int_of_z a = int_of_z c && int_of_z b = int_of_z d
let rec remove_nth k = function [] -> [] | x :: t -> if k = 0 then t else x :: remove_nth (k - 1) t
(* the GENERATED pvNewBlock (Gen_MemPoolBlk, address-keyed maps) against the hand model PoolConc.pvNewBlock on the current world:
   buffer id k lives at address k * 2^24, block (k, j) at the generated pvGetBlock(address, j); the cells of the buffer a request would
   create are pre-initialised as PoolConc.new_buffer initialises them.  Compared: returned block, new head, BufferBytes of the buffer
   the block was taken from, and "a refused request returns None exactly when the model asks the manager". *)
let gen_newblock_agrees c b al (w : PoolConc.cworld) p : bool =
  let scale = zs "16777216" in
  let adr id = BinInt.Z.mul id scale in
  let ida a = BinInt.Z.div a scale in
  let (watt, nbid) = PoolConc.new_buffer c w in
  let lf = (PoolConc.getp w p).PoolConc.lfree in
  let rec succ id = function a :: ((n :: _) as t) -> if int_of_z a = int_of_z id then n else succ id t | _ -> zi 0 in
  let bbf a = watt.PoolConc.fb (ida a) and bbc a = watt.PoolConc.fc (ida a) in
  let nextb a = adr (succ (ida a) lf) in
  let nfi a = let k = ida a in let j = BinInt.Z.div (sub (sub a (adr k)) al) b in watt.PoolConc.nx k j in
  let run fails = Gen_MemPoolBlk.pvNewBlock (adr nbid) b al (adr (PoolConc.hd0 lf)) bbf bbc nextb (fun _ -> zi 0) nfi fails in
  let (w2, (rb, ri)) = PoolConc.pvNewBlock c w p in
  let requested = int_of_z w2.PoolConc.fresh > int_of_z w.PoolConc.fresh in
  let eqz x y = BinInt.Z.eqb x y in
  (match run false with
   | Ok (((((Some blk, h'), bf'), bc'), _), _) ->
     eqz blk (Gen_MemPool.pvGetBlock b al (adr rb) ri) && eqz h' (adr (PoolConc.hd0 (PoolConc.getp w2 p).PoolConc.lfree))
     && eqz (bf' (adr rb)) (w2.PoolConc.fb rb) && eqz (bc' (adr rb)) (w2.PoolConc.fc rb)
   | _ -> false)
  && (match run true with
      | Ok (((((None, _), _), _), _), _) -> requested
      | Ok (((((Some _, _), _), _), _), _) -> not requested
      | _ -> false)

(* the GENERATED pvDeleteBlock(block, buffer, index) (Gen_MemPoolDel, incl. the generated pvMoveBufferToHead / pvDeleteBuffer it calls) against
   PoolConc.pvDeleteBlock on the current world: the pool's buffer list lfull ++ lfree as a prev/next heap over addresses k * 2^24.
   Compared: new head, which buffer (if any) went back to the manager, BufferBytes of the buffer, the index stored in the freed block,
   and the whole doubly linked list afterwards. *)
let gen_delblock_agrees c b al (w : PoolConc.cworld) p (bb, j) : bool =
  let scale = zs "16777216" in
  let adr id = BinInt.Z.mul id scale in
  let ida a = BinInt.Z.div a scale in
  let x = PoolConc.getp w p in
  let h = PoolLinks.heap_of_lists (x.PoolConc.lfull @ x.PoolConc.lfree) [] in
  let nx a = adr (h.PoolLinks.hnext (ida a)) and pv a = adr (h.PoolLinks.hprev (ida a)) in
  let bf a = w.PoolConc.fb (ida a) and bcn a = w.PoolConc.fc (ida a) in
  let blockaddr k i = Gen_MemPool.pvGetBlock b al (adr k) i in
  let nfi a = let k = ida a in w.PoolConc.nx k (BinInt.Z.div (sub (sub a (adr k)) al) b) in
  let w2 = PoolConc.pvDeleteBlock c w p (bb, j) in
  let eqz x y = BinInt.Z.eqb x y in
  match Gen_MemPoolDel.pvDeleteBlock3 c b al (adr (PoolConc.hd0 x.PoolConc.lfree)) (zi 0) bf bcn nx pv nfi (blockaddr bb j) (adr bb) j with
  | Ok (((((((_, hd'), del), bf'), bc'), nx'), pv'), nfi') ->
    let x2 = PoolConc.getp w2 p in
    let returned_now = Stdlib.List.length w2.PoolConc.returned > Stdlib.List.length w.PoolConc.returned in
    let l2 = x2.PoolConc.lfull @ x2.PoolConc.lfree in
    let rec links prev = function
      | [] -> true
      | a :: t -> eqz (pv' (adr a)) (adr prev) && eqz (nx' (adr a)) (adr (match t with [] -> zi 0 | n :: _ -> n)) && links a t in
    eqz hd' (adr (PoolConc.hd0 x2.PoolConc.lfree)) && eqz del (if returned_now then adr bb else zi 0)
    && (returned_now || (eqz (bf' (adr bb)) (w2.PoolConc.fb bb) && eqz (bc' (adr bb)) (w2.PoolConc.fc bb)))
    && eqz (nfi' (blockaddr bb j)) (w2.PoolConc.nx bb j) && links (zi 0) l2
  | _ -> false

let trace bc cf bs al res ops =
  if int_of_string bc = 1 then "n/a" else begin
    let c = zs bc and cfz = zs cf in
    let b = Gen_MemPoolConst.coq_CorrectBlockSize (zs bs) (zs al) c in
    let uc = Gen_MemPool.pvUseCache cfz b (zs al) in
    let w = ref PoolConc.empty_world in
    let live = [| []; [] |] in      (* (block, serial) in the harness's order *)
    let serial = ref 0 in
    let buf = Buffer.create 4096 in
    let fail_at = (match String.index_opt res '!' with
      | Some i -> Stdlib.List.filter_map (fun t -> if t = "" then None else Some (int_of_string t)) (String.split_on_char ',' (String.sub res (i + 1) (String.length res - i - 1)))
      | None -> []) in
    let attempt = ref 0 in
    let nops = Stdlib.List.length ops in
    Stdlib.List.iteri (fun i op ->
      let ret = ref "-" in
      let pi = if String.length op > 1 then Char.code op.[1] - 48 else 0 in let p = (pi = 1) in
      (match op.[0] with
       | 'a' ->
         let gen_ok = gen_newblock_agrees c b (zs al) !w p in
         let (w', bk) = PoolConc.coq_Allocate c uc !w p in
         (* a manager request happens iff a buffer was created (exactly one per Allocate for blockCount >= 2) *)
         let requested = int_of_z (w'.PoolConc.fresh) > int_of_z ((!w).PoolConc.fresh) in
         if requested then incr attempt;
         if requested && Stdlib.List.mem !attempt fail_at then ret := "!"      (* std::bad_alloc: the pool is left exactly as it was *)
         else begin
           w := w'; ret := sz (fst bk) ^ "." ^ sz (snd bk);
           live.(pi) <- live.(pi) @ [(bk, !serial)]; incr serial end;
         if not gen_ok then ret := !ret ^ "GEN!"     (* generated pvNewBlock and PoolConc.pvNewBlock disagree on this state *)
       | 'f' ->
         let n = Stdlib.List.length live.(pi) in
         if n > 0 then begin
           let k = int_of_string (String.sub op 3 (String.length op - 3)) in
           let k = if k >= 1000000000 then n - 1 else k mod n in
           let (bk, _) = Stdlib.List.nth live.(pi) k in
           live.(pi) <- remove_nth k live.(pi);
           if not (gen_delblock_agrees c b (zs al) !w p bk) then ret := "-GEN!";   (* generated pvDeleteBlock vs PoolConc.pvDeleteBlock on this state *)
           w := PoolConc.coq_Deallocate c cfz uc !w p bk end
       | 'i' ->
         let parts = String.split_on_char ':' op in
         let m = int_of_string (Stdlib.List.nth parts 1) and r = int_of_string (Stdlib.List.nth parts 2) in
         let m = if m = 0 then 1 else m in
         let all = live.(0) @ live.(1) in
         let f bk = (match Stdlib.List.find_opt (fun (b2, _) -> blk_eq b2 bk) all with Some (_, s) -> s mod m = r mod m | None -> false) in
         w := PoolConc.coq_DeallocateIf c uc !w p f;
         live.(pi) <- Stdlib.List.filter (fun (_, s) -> not (s mod m = r mod m)) live.(pi)
       | 'x' -> w := PoolConc.coq_DeallocateAll !w p; live.(pi) <- []
       | 's' -> w := PoolConc.coq_Swap !w; let t = live.(0) in live.(0) <- live.(1); live.(1) <- t
       | 'v' ->
         let d = pi and s = Char.code op.[2] - 48 in
         if live.(d) = [] then begin w := PoolConc.coq_MoveAssign !w (d = 1); live.(d) <- live.(s); live.(s) <- [] end
       | 'm' ->
         let d = pi and s = Char.code op.[2] - 48 in
         w := PoolConc.coq_MergeFrom c uc !w (d = 1);
         live.(d) <- live.(d) @ live.(s); live.(s) <- []
       | _ -> ());
      let st = "P0 " ^ state_of !w false ^ " P1 " ^ state_of !w true in
      Buffer.add_string buf (Printf.sprintf "%s#%08x " !ret (fnv1a st));
      if i = nops - 1 then Buffer.add_string buf ("| " ^ st)) ops;
    if nops = 0 then Buffer.add_string buf ("| P0 " ^ state_of !w false ^ " P1 " ^ state_of !w true);
    Buffer.contents buf end

let () = iter_lines (fun line ->
  match words line with
  | ["consts"] -> print_endline (sz Gen_MemPool.maxAllocAlignment ^ " 18446744073709551615 8")
  | ["ceil"; v; m] -> print_endline (sz (Gen_UIntMath.coq_Ceil (zs v) (zs m)))
  | ["cbs"; bs; al; bc] -> print_endline (sz (Gen_MemPoolConst.coq_CorrectBlockSize (zs bs) (zs al) (zs bc)))
  | ["dswap"; m; a; dm; da] ->
    let (((m', a'), dm'), da') = Gen_MemPoolData.coq_Swap (zs m) (zs a) (zs dm) (zs da) in
    print_endline (String.concat " " [sz m'; sz a'; sz dm'; sz da'])
  | ["gba"; bs; ma] -> print_endline (match Gen_MemPoolConst.coq_GetBlockAlignment (zs bs) (zs ma) with GenPrelude.Ok a -> sz a | _ -> "no-result")
  | ["gbp"; bs; ma; bc] ->
      (match Gen_MemPoolConst.coq_GetBlockAlignment (zs bs) (zs ma) with
       | GenPrelude.Ok a -> print_endline (ma ^ " " ^ bc ^ " " ^ sz a ^ " " ^ sz a ^ " " ^ sz (Gen_MemPoolConst.coq_CorrectBlockSize (zs bs) a (zs bc)))
       | _ -> print_endline "no-result")
  | ["chk"; bc; al] -> print_endline (b2s (Gen_MemPoolConst.coq_CheckBlockCount (zs bc)) ^ " " ^ b2s (Gen_MemPoolConst.coq_CheckBlockAlignment (zs al)))
  | ["ar"; bc; cf; b; a] ->
    let c = zs bc and cf = zs cf and b = zs b and a = zs a in
    Printf.printf "%s %s %s %s %s %s\n" (sz (Gen_MemPool.pvGetAlignmentAddend b a)) (sz (Gen_MemPool.pvGetBufferSize0 b a))
      (sz (Gen_MemPool.pvGetBufferSize1 b a)) (b2s (Gen_MemPool.pvIsBufferBytesNear b a)) (sz (Gen_MemPool.pvGetBufferSize c b a))
      (b2s (Gen_MemPool.pvUseCache cf b a))
  | ["gb"; _; _; b; a; buffer; index] -> print_endline (sz (Gen_MemPool.pvGetBlock (zs b) (zs a) (zs buffer) (zs index)))
  | ["gi"; bc; _; b; a; block] ->
    print_endline (oc_str (fun (i, buf) -> sz i ^ " " ^ sz buf) (Gen_MemPool.pvGetBlockIndex (zs bc) (zs b) (zs a) (zs block)))
  | ["pos"; bc; _; b; a; first] ->
    let c = zs bc and b = zs b and a = zs a and ld = (fun _ -> zs first) and buffer = zs "1000000" in
    let rel f = sz (sub (f c ld b a buffer) buffer) in
    Printf.printf "%s %s %s %s %s\n" (rel Gen_MemPool.pvGetBlocksEndPosition) (rel Gen_MemPool.pvGetBufferBytesPosition)
      (rel Gen_MemPool.pvGetPrevBufferPosition) (rel Gen_MemPool.pvGetNextBufferPosition) (rel Gen_MemPool.pvGetBeginOffsetPosition)
  | ["nb1"; _; _; b; a; begin0] ->
    let b = zs b and a = zs a and buffer = zs begin0 in
    print_endline (oc_str (fun ((block, pos), v) ->
        (* pvDeleteBlock1 reads the byte back: load_u8 = the stored value *)
        let (_, buf') = Gen_MemPool.pvDeleteBlock1 (fun p -> if int_of_z (sub p pos) = 0 then v else zi 42405) b a block in
        let size1 = Gen_MemPool.pvGetBufferSize1 b a in
        let inside = BinInt.Z.leb buffer block && BinInt.Z.leb (add (add block b) (zi 2)) (add buffer size1) in
        Printf.sprintf "%s %s %s %s %s" (sz (sub block buffer)) (sz v) (sz size1) (b2s inside) (b2s (int_of_z (sub buf' buffer) = 0)))
      (PoolLayout.new_block1_layout b a buffer))
  | ["al1"; _; _; b; a; begin0] ->
    let b = zs b and a = zs a and bg = zs begin0 in
    print_endline (oc_str (fun (block, size) ->
        let ld p = if int_of_z (sub p (add block b)) = 0 then sub block bg else zi 42405 in
        let (addr, size') = PoolLayout.dealloc1 ld b a block in
        let inside = BinInt.Z.leb bg block && BinInt.Z.leb (add block b) (add bg size) in
        Printf.sprintf "%s %s %s %s" (sz (sub block bg)) (sz size) (b2s inside) (b2s (int_of_z (sub addr bg) = 0 && int_of_z (sub size' size) = 0)))
      (PoolLayout.alloc1 b a bg))
  | ["nbuf"; bc; _; b; a; begin0] ->
    let c = zs bc and b = zs b and a = zs a and bg = zs begin0 in
    let z _ = zi 0 in let unset _ = zi 77 in
    (* the GENERATED pvNewBuffer as a whole (Gen_MemPoolNewBuf): buffer, first index, begin offset, BufferBytes, links, chain *)
    print_endline (oc_str (fun (((((((buffer, bf), bcn), nx), pv), nfi), fbi), bo) ->
        let first = fbi buffer and off = bo buffer in
        let fb = Gen_MemPool.pvGetBlock b a buffer first in
        let begin' = sub fb off in      (* pvDeleteBuffer line 649-650 *)
        let chain = String.concat "," (Stdlib.List.map (fun j -> sz (nfi (Gen_MemPool.pvGetBlock b a buffer (add first (zi j))))) (Stdlib.List.init (int_of_z c) (fun j -> j))) in
        Printf.sprintf "%s %s %s %s %s %s bb=%s,%s links=%s ch=%s" (sz (sub fb bg)) (sz off) (sz first) (sz (sub buffer bg)) (sz (Gen_MemPool.pvGetBufferSize c b a))
          (b2s (int_of_z (sub begin' bg) = 0)) (sz (bf buffer)) (sz (bcn buffer))
          (if int_of_z (nx buffer) = 0 && int_of_z (pv buffer) = 0 then "null" else "SET") chain)
      (Gen_MemPoolNewBuf.pvNewBuffer c b a z z unset unset z z z bg))
  | ["fabmg"; n1; h1; n2; h2] ->
    let n1 = int_of_string n1 and h1 = int_of_string h1 and n2 = int_of_string n2 and h2 = int_of_string h2 in
    let l1 = range 1 n1 and l2 = range (n1 + 1) (n1 + n2) in
    let hd1 = if h1 >= 1 && h1 <= n1 then nth1 l1 h1 else zi 0 and hd2 = if h2 >= 1 && h2 <= n2 then nth1 l2 h2 else zi 0 in
    print_endline (merge l1 hd1 l2 hd2)
  | ["fabmv"; n; h; k] ->
    let n = int_of_string n and h = int_of_string h and k = int_of_string k in
    let l = range 1 n in let fuel = nat_of_int (n + 3) in
    let hp = PoolLinks.heap_of_lists l [] in let z _ = zi 0 in
    (* the GENERATED pvMoveBufferToHead (= PoolLinks.move_to_head by C09_generated_movetohead_is_model) *)
    (match Gen_MemPoolDel.pvMoveBufferToHead (zi 8) (zi 8) (nth1 l h) (zi 0) z z hp.PoolLinks.hnext hp.PoolLinks.hprev z (nth1 l k) with
     | Ok (((_, hd), nx'), pv') -> print_endline (show_list { PoolLinks.hprev = pv'; PoolLinks.hnext = nx' } hd fuel)
     | _ -> print_endline "Stuck")
  | ["fabdel"; n; h; k] ->
    let n = int_of_string n and h = int_of_string h and k = int_of_string k in
    let l = range 1 n in let fuel = nat_of_int (n + 3) in
    let hp = PoolLinks.heap_of_lists l [] in let z _ = zi 0 in
    (* the GENERATED pvDeleteBuffer, list part (= PoolLinks.delete_buffer by C09_generated_deletebuffer_is_model) *)
    (match Gen_MemPoolDel.pvDeleteBuffer (zi 8) (zi 8) (nth1 l h) (zi 0) z z hp.PoolLinks.hnext hp.PoolLinks.hprev z (nth1 l k) with
     | Ok ((_, nx'), pv') -> print_endline (show_list { PoolLinks.hprev = pv'; PoolLinks.hnext = nx' } (nth1 l h) fuel)
     | _ -> print_endline "Stuck")
  | "tr" :: bc :: cf :: bs :: al :: _ :: res :: ops -> print_endline (trace bc cf bs al res ops)
  | cmd :: bc :: cf :: bs :: al :: _ :: res :: ops when String.length cmd > 3 && String.sub cmd 0 3 = "tr@" -> print_endline (trace bc cf bs al res ops)
  | ["u32gp"; bc; bs; _; h] ->
    let c = zs bc in let b = (let x = zs bs in if BinInt.Z.ltb x (zi 4) then zi 4 else x) in
    let big = zs "1099511627776" in
    let mB k = BinInt.Z.mul k big in let m0 _ = zi 0 in
    print_endline (oc_str (fun a -> Printf.sprintf "%s %s %s" (sz (BinInt.Z.div a big)) (sz (BinInt.Z.modulo a big))
                                     (sz (Gen_MemPoolUInt32.pvGetBufferSize c mB (zi 0) m0 (zi 0) (zi 0) b (zi 0))))
      (Gen_MemPoolUInt32.coq_GetRealPointer c mB (zi 0) m0 (zi 0) (zi 0) b (zi 0) (zs h)))
  | ["u32nb"; bc; bs; maxt; nbuf] ->
    let c = zs bc in let b = (let x = zs bs in if BinInt.Z.ltb x (zi 4) then zi 4 else x) in
    let mM = BinInt.Z.div (zs maxt) c in       (* constructor line 827 *)
    print_endline (oc_str (fun ((((_, _), _), _), head) -> sz head)
      (Gen_MemPoolUInt32.pvNewBuffer c (fun _ -> zi 0) (zs nbuf) (fun _ -> zi 0) (zi 0) mM b (zi 0) (zi 0)))
  | "u32tr" :: bc :: bs :: maxt :: ops ->
    (* the GENERATED Allocate / Deallocate / DeallocateAll run on (mBuffers, count, memory cells, mBlockHead, mAllocCount); the buffer
       addresses are the driver's own (disjoint) ones - the comparison is on handles, mBlockHead, counts and the free-list order *)
    let c = zs bc in let b = (let x = zs bs in if BinInt.Z.ltb x (zi 4) then zi 4 else x) in
    let mM = BinInt.Z.div (zs maxt) c in
    let big = zs "1099511627776" in
    let st = ref ((fun _ -> zi 0), zi 0, (fun _ -> zi 0), Gen_MemPoolUInt32.nullPtr, zi 0) in
    let fresh = ref 1 in let live = ref [] in
    let out = Buffer.create 256 in
    let token ret =
      let (mb, n, mem, head, cnt) = !st in
      let limit = int_of_z (BinInt.Z.mul n c) in
      let rec walk h len hash =
        if BinInt.Z.eqb h Gen_MemPoolUInt32.nullPtr then Printf.sprintf "%d#%d" len hash
        else if len >= limit then "CYCLE"
        else match Gen_MemPoolUInt32.coq_GetRealPointer c mb n mem head mM b cnt h with
          | Ok a -> walk (PoolU32Prims.load32 mem a) (len + 1) ((((hash * 16777619) land 0xFFFFFFFF) lxor (int_of_z h)) land 0xFFFFFFFF)
          | _ -> "STUCK" in
      Buffer.add_string out (Printf.sprintf "%s/%s/%s/%s/%s " ret (sz head) (sz n) (sz cnt) (walk head 0 2166136261)) in
    Stdlib.List.iter (fun o ->
      let (mb, n, mem, head, cnt) = !st in
      if o = "a" then begin
        let nb = BinInt.Z.mul (zi !fresh) big in
        match Gen_MemPoolUInt32.coq_Allocate c mb n mem head mM b cnt nb with
        | Ok (((((blk, mb'), n'), mem'), head'), cnt') ->
          if BinInt.Z.gtb n' n then incr fresh;
          (* the user now owns the block and overwrites the cell the pool used *)
          let mem'' = (match Gen_MemPoolUInt32.coq_GetRealPointer c mb' n' mem' head' mM b cnt' blk with
                       | Ok a -> PoolU32Prims.store32 mem' (zs "3735928559") a | _ -> mem') in
          st := (mb', n', mem'', head', cnt'); live := !live @ [blk]; token (sz blk)
        | Exn -> token "E"
        | Stuck -> token "Stuck" | Fuel -> token "Fuel"
      end else if String.length o > 2 && o.[0] = 'f' then begin
        if !live = [] then token "-" else begin
          let k = int_of_string (String.sub o 2 (String.length o - 2)) in
          let len = Stdlib.List.length !live in
          let k = if k >= 1000000000 then len - 1 else k mod len in
          let h = Stdlib.List.nth !live k in
          live := Stdlib.List.filteri (fun i _ -> i <> k) !live;
          match Gen_MemPoolUInt32.coq_Deallocate c mb n mem head mM b cnt h with
          | Ok ((((_, n'), mem'), head'), cnt') -> st := (mb, n', mem', head', cnt'); token "-"
          | _ -> token "Stuck"
        end
      end else if o = "x" then begin
        let ((n', head'), cnt') = Gen_MemPoolUInt32.coq_DeallocateAll c mb n mem head mM b cnt in
        st := (mb, n', mem, head', cnt'); live := []; token "-"
      end else token "-") ops;
    print_endline (String.trim (Buffer.contents out))
  | ["ctor"; bc; bs; al] ->
    let c = zs bc and a = zs al in
    let b = Gen_MemPoolConst.coq_CorrectBlockSize (zs bs) a c in
    (match Gen_MemPool.pvCheckParams c b a with      (* the GENERATED constructor check: Ok / Exn = std::length_error / Stuck = MOMO_CHECK assertion *)
     | Ok _ -> print_endline "ok" | Exn -> print_endline "length_error" | Stuck -> print_endline "Stuck" | Fuel -> print_endline "Fuel")
  | "mg" :: rest ->
    let (a, b) = split_at_slash [] rest in
    let (l1, h1) = parse_list a and (l2, h2) = parse_list b in
    print_endline (merge l1 h1 l2 h2)
  | _ -> print_endline "?")
