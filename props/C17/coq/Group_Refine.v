(* C17: the GENERATED HashSorter::pvGroup (Gen_Group.v, regenerated from HashSorter.h on every run; items = item handle at each
   position, permuted by iterSwapper) follows the hand model's grp_outer / grp_inner (SorterSort.v): whenever the hand model
   returns Ok l', the generated loops return Ok with the items of l'.  With Sort_Proofs.pvGroup_spec: the generated pvGroup is
   total, rearranges only its range, and leaves equal items contiguous. *)
From Coq Require Import ZArith Bool List Lia.
From MomoCommon Require Import GenPrelude.
From C17 Require Import SorterSearch SorterSort Sort_Proofs SelPrims Gen_Group.
Local Open Scope Z_scope.

Lemma itm_swap l i j k : 0 <= i < alen l -> 0 <= j < alen l -> 0 <= k ->
  itm (swap l i j) k = if k =? j then itm l i else if k =? i then itm l j else itm l k.
Proof. intros. unfold itm. rewrite get_swap by lia. destruct (k =? j); [|destruct (k =? i)]; reflexivity. Qed.

Section GroupRefine.
  Variable sw : arr -> Z -> Z -> arr.
  Hypothesis Hsw : forall l i j, sw l i j = swap l i j.
  Variable eqf : Z -> Z -> bool.
  Variable q cnt begin : Z.
  Hypothesis Hq : 0 <= q.
  Hypothesis Hcnt : 0 <= cnt < 2 ^ 62.
  Variable loop_fuel : nat.

  Definition RelI (l : arr) (items : Z -> Z) : Prop := forall k, 0 <= k -> items k = itm l (q + k).

  Lemma swp_inv' l i j l' : swp sw l i j = Ok l' -> l' = swap l i j /\ 0 <= i < alen l /\ 0 <= j < alen l.
  Proof.
    unfold swp, inr. intros H. destruct ((0 <=? i) && (i <? alen l) && ((0 <=? j) && (j <? alen l))) eqn:B; [|discriminate].
    inversion H. rewrite Hsw. apply andb_true_iff in B. destruct B as [B1 B2].
    apply andb_true_iff in B1. apply andb_true_iff in B2. destruct B1 as [A1 A2]. destruct B2 as [A3 A4].
    apply Z.leb_le in A1. apply Z.ltb_lt in A2. apply Z.leb_le in A3. apply Z.ltb_lt in A4. repeat split; lia.
  Qed.

  Lemma inner_follows : forall n f i j l items i' l', j + Z.of_nat n = cnt -> 1 <= i -> i < j -> (n < f)%nat -> RelI l items ->
    grp_inner sw eqf n q i j l = Ok (i', l') ->
    exists items' j', pvGroup_loop1 eqf f begin cnt i items j = Ok (i', items', j') /\ RelI l' items' /\ i <= i' <= cnt.
  Proof.
    induction n as [|n IH]; intros f i j l items i' l' Hn Hi Hij Hf HR Hh.
    - simpl in Hn. cbn [grp_inner] in Hh. inversion Hh; subst i' l'. destruct f as [|f]; [lia|]. rewrite pvGroup_loop1_eq.
      destruct (Z.ltb_spec j cnt); [lia|]. do 2 eexists. split; [reflexivity|]. split; [exact HR|lia].
    - rewrite Nat2Z.inj_succ in Hn. cbn [grp_inner] in Hh. destruct f as [|f]; [lia|]. rewrite pvGroup_loop1_eq.
      destruct (Z.ltb_spec j cnt); [|lia]. rewrite (wrapU_small 64 (i - 1)), (wrapU_small 64 (j + 1)) by lia.
      rewrite (HR (i - 1)), (HR j) by lia. replace (q + (i - 1)) with (q + (i - 1)) in Hh by lia.
      destruct (eqf (itm l (q + (i - 1))) (itm l (q + j))).
      + destruct (swp sw l (q + i) (q + j)) as [l1| | |] eqn:Es; try discriminate. cbn [bind] in Hh.
        destruct (swp_inv' _ _ _ _ Es) as (-> & B1 & B2). rewrite (wrapU_small 64 (i + 1)) by lia.
        destruct (IH f (i + 1) (j + 1) (swap l (q + i) (q + j)) (swapf items i j) i' l') as (it' & j' & E1 & E2 & E3); try lia; auto.
        * intros k Hk. rewrite swapf_spec, itm_swap by lia. rewrite (HR i), (HR j), (HR k) by lia.
          destruct (Z.eqb_spec k j); destruct (Z.eqb_spec (q + k) (q + j)); try lia.
          destruct (Z.eqb_spec k i); destruct (Z.eqb_spec (q + k) (q + i)); try lia.
        * exists it', j'. split; [exact E1|]. split; [exact E2|lia].
      + apply (IH f i (j + 1) l items i' l'); try lia; auto.
  Qed.

  Lemma outer_follows : forall F f1 i l items l', (F <= f1)%nat -> (Z.to_nat cnt < loop_fuel)%nat -> 1 <= i -> RelI l items ->
    grp_outer sw eqf F q cnt i l = Ok l' ->
    exists i' items', pvGroup_loop0 eqf loop_fuel f1 begin cnt i items = Ok (i', items') /\ RelI l' items'.
  Proof.
    induction F as [|F IH]; intros f1 i l items l' Hf Hlf Hi HR Hh; [simpl in Hh; discriminate|].
    destruct f1 as [|f1]; [lia|]. cbn [grp_outer] in Hh. rewrite pvGroup_loop0_eq.
    destruct (Z.ltb_spec i cnt) as [Hlt|Hge].
    2:{ inversion Hh; subst l'. do 2 eexists. split; [reflexivity|exact HR]. }
    rewrite (wrapU_small 64 (i - 1)) by lia. rewrite (HR (i - 1)), (HR i) by lia.
    destruct (eqf (itm l (q + (i - 1))) (itm l (q + i))).
    - rewrite (wrapU_small 64 (i + 1)) by lia. apply (IH f1 (i + 1) l items l'); try lia; auto.
    - cbv zeta. rewrite (wrapU_small 64 (i + 1)) by lia. unfold fuel_of_pvGroup.
      destruct (grp_inner sw eqf (Z.to_nat (cnt - (i + 1))) q i (i + 1) l) as [[i1 l1]| | |] eqn:Ei; try discriminate.
      cbn [bind fst snd] in Hh.
      destruct (inner_follows (Z.to_nat (cnt - (i + 1))) loop_fuel i (i + 1) l items i1 l1) as (it1 & j1 & E1 & E2 & E3); try lia; auto.
      rewrite E1. rewrite (wrapU_small 64 (i1 + 1)) by lia.
      apply (IH f1 (i1 + 1) l1 it1 l'); try lia; auto.
  Qed.

  (* the GENERATED pvGroup on [q, q+cnt) of any array: total, rearranges only that range, equal items contiguous afterwards *)
  Theorem gen_pvGroup_spec (eqf_refl : forall a, eqf a a = true) (eqf_sym : forall a b, eqf a b = true -> eqf b a = true)
      (eqf_trans : forall a b c, eqf a b = true -> eqf b c = true -> eqf a c = true) l :
    q + cnt <= alen l -> (Z.to_nat cnt + 1 < loop_fuel)%nat ->
    exists items' l', pvGroup eqf loop_fuel (fun k => itm l (q + k)) begin cnt = Ok (tt, items') /\
      SorterSort.pvGroup sw eqf l q cnt = Ok l' /\ (forall k, 0 <= k -> items' k = itm l' (q + k)) /\
      relR q (q + cnt) l l' /\ contigL eqf l' q (q + cnt).
  Proof.
    intros Hl Hf. destruct (pvGroup_spec sw Hsw eqf eqf_refl eqf_sym eqf_trans l q cnt Hq ltac:(lia) Hl) as (l' & E & Rl & C).
    assert (E' := E). unfold SorterSort.pvGroup in E'.
    destruct (outer_follows (S (Z.to_nat cnt)) loop_fuel 1 l (fun k => itm l (q + k)) l') as (i' & it' & G1 & G2); try lia; auto.
    { intros k Hk. reflexivity. }
    exists it', l'. split; [|split; [exact E|split; [exact G2|split; [exact Rl|exact C]]]].
    unfold Gen_Group.pvGroup. cbv zeta. unfold fuel_of_pvGroup. rewrite G1. reflexivity.
  Qed.
End GroupRefine.
