(* C07 / L0 proofs: unique indexes are never violated by any history; refused operations are the identity
   and report a genuine witness. *)
From Coq Require Import List ZArith Lia Bool Arith PeanoNat Permutation.
From C07 Require Import TableSpec.
Import ListNotations.

Definition keys (cols : list nat) (rs : list row) : list (list Z) := map (proj cols) rs.
Definition inv (t : table) : Prop := Forall (fun cols => NoDup (keys cols (rows t))) (uniq t).

(* ---------------------------------------------------------------- list surgery *)

Lemma set_nth_perm {A} (x : A) l n : n < length l -> Permutation (set_nth n x l) (x :: remove_nth n l).
Proof.
  revert n; induction l as [|y l IH]; intros n H; simpl in *; [lia|].
  destruct n as [|n]; simpl; [reflexivity|].
  etransitivity; [apply perm_skip, IH; lia|]. apply perm_swap.
Qed.

Lemma set_nth_length {A} (x : A) l n : length (set_nth n x l) = length l.
Proof. revert n; induction l as [|y l IH]; intros [|n]; simpl; auto. Qed.

Lemma set_nth_app_l {A} (x : A) l1 l2 n : n < length l1 -> set_nth n x (l1 ++ l2) = set_nth n x l1 ++ l2.
Proof.
  revert n; induction l1 as [|y l1 IH]; intros n H; simpl in *; [lia|].
  destruct n; simpl; [reflexivity|]. rewrite IH by lia. reflexivity.
Qed.

Lemma remove_nth_app_l {A} (l1 l2 : list A) n : n < length l1 -> remove_nth n (l1 ++ l2) = remove_nth n l1 ++ l2.
Proof.
  revert n; induction l1 as [|y l1 IH]; intros n H; simpl in *; [lia|].
  destruct n; simpl; [reflexivity|]. rewrite IH by lia. reflexivity.
Qed.

Lemma remove_nth_app_last {A} (l1 : list A) x : remove_nth (length l1) (l1 ++ [x]) = l1.
Proof. induction l1 as [|y l1 IH]; simpl; [reflexivity|]. rewrite IH. reflexivity. Qed.

Lemma remove_nth_In {A} (l : list A) n x : In x (remove_nth n l) -> In x l.
Proof.
  revert n; induction l as [|y l IH]; intros n H; simpl in *; [destruct n; exact H|].
  destruct n; simpl in H; [right; exact H|]. destruct H as [H|H]; [left; exact H|right; eapply IH; exact H].
Qed.

Lemma remove_nth_NoDup {A} (l : list A) n : NoDup l -> NoDup (remove_nth n l).
Proof.
  revert n; induction l as [|y l IH]; intros n H; [destruct n; exact H|].
  inversion H; subst. destruct n; simpl; [assumption|].
  constructor; [intro Hin; apply remove_nth_In in Hin; contradiction|apply IH; assumption].
Qed.

Lemma remove_nth_map {A B} (f : A -> B) l n : map f (remove_nth n l) = remove_nth n (map f l).
Proof. revert n; induction l as [|y l IH]; intros [|n]; simpl; auto. rewrite IH. reflexivity. Qed.

Lemma remove_unordered_perm {A} (l : list A) n : n < length l -> Permutation (remove_unordered n l) (remove_nth n l).
Proof.
  intros H. unfold remove_unordered.
  destruct l as [|a l0] using rev_ind; [simpl in H; lia|]. clear IHl0.
  rewrite rev_unit. rewrite app_length in *. change (length [a]) with 1 in *.
  destruct (Nat.eqb_spec (S n) (length l0 + 1)) as [E|E].
  - rewrite removelast_last. assert (n = length l0) by lia. subst n. rewrite remove_nth_app_last. reflexivity.
  - assert (Hn : n < length l0) by lia.
    rewrite set_nth_app_l by exact Hn. rewrite removelast_last.
    rewrite remove_nth_app_l by exact Hn.
    etransitivity; [apply set_nth_perm; exact Hn|]. apply Permutation_cons_append.
Qed.

Lemma insert_at_perm {A} (x : A) l n : Permutation (insert_at n x l) (x :: l).
Proof.
  unfold insert_at. symmetry. etransitivity; [|apply Permutation_middle].
  rewrite firstn_skipn. reflexivity.
Qed.

(* ---------------------------------------------------------------- find_key / find_conflict *)

Lemma find_key_none cols k rs i skip :
  find_key cols k rs i skip = None ->
  forall n r, nth_error rs n = Some r -> skipped skip (i + n) = false -> proj cols r <> k.
Proof.
  revert i; induction rs as [|r0 rs IH]; intros i H n r Hn Hs; [destruct n; discriminate|].
  simpl in H.
  destruct (negb (skipped skip i) && zlist_eqb (proj cols r0) k) eqn:E; [discriminate|].
  destruct n as [|n]; simpl in Hn.
  - inversion Hn; subst. rewrite Nat.add_0_r in Hs. rewrite Hs in E. simpl in E.
    intro Hk. apply zlist_eqb_eq in Hk. congruence.
  - eapply IH; [exact H|exact Hn|]. replace (S i + n) with (i + S n) by lia. exact Hs.
Qed.

Lemma find_key_some cols k rs i skip m :
  find_key cols k rs i skip = Some m ->
  exists n r, m = i + n /\ nth_error rs n = Some r /\ proj cols r = k /\ skipped skip m = false.
Proof.
  revert i; induction rs as [|r0 rs IH]; intros i H; [discriminate|]. simpl in H.
  destruct (negb (skipped skip i) && zlist_eqb (proj cols r0) k) eqn:E.
  - inversion H; subst. apply andb_true_iff in E as [E1 E2]. apply zlist_eqb_eq in E2.
    exists 0, r0. rewrite Nat.add_0_r. repeat split; auto. apply negb_true_iff in E1; exact E1.
  - apply IH in H as (n & r & -> & Hn & Hk & Hs). exists (S n), r. repeat split; auto. lia.
Qed.

Lemma find_conflict_none us j rs r skip :
  find_conflict us j rs r skip = None -> Forall (fun cols => find_key cols (proj cols r) rs 0 skip = None) us.
Proof.
  revert j; induction us as [|cols us IH]; intros j H; [constructor|]. simpl in H.
  destruct (find_key cols (proj cols r) rs 0 skip) eqn:E; [discriminate|].
  constructor; [exact E|eapply IH; exact H].
Qed.

Lemma find_conflict_some us j0 rs r skip n j :
  find_conflict us j0 rs r skip = Some (n, j) ->
  exists d cols, j = j0 + d /\ nth_error us d = Some cols /\ find_key cols (proj cols r) rs 0 skip = Some n /\
    (forall d' cols', d' < d -> nth_error us d' = Some cols' -> find_key cols' (proj cols' r) rs 0 skip = None).
Proof.
  revert j0; induction us as [|cols us IH]; intros j0 H; [discriminate|]. simpl in H.
  destruct (find_key cols (proj cols r) rs 0 skip) eqn:E.
  - inversion H; subst. exists 0, cols. rewrite Nat.add_0_r. repeat split; auto. intros; lia.
  - apply IH in H as (d & c & -> & Hd & Hf & Hm). exists (S d), c. repeat split; auto; [lia|].
    intros [|d'] cols' Hlt Hn'; simpl in Hn'; [inversion Hn'; subst; exact E|]. eapply Hm; [|exact Hn']. lia.
Qed.

Lemma not_in_keys_none cols rs r :
  find_key cols (proj cols r) rs 0 None = None -> ~ In (proj cols r) (keys cols rs).
Proof.
  intros H Hin. unfold keys in Hin. apply in_map_iff in Hin as (r' & Hk & Hr').
  apply In_nth_error in Hr' as (n & Hn). eapply find_key_none in H; [|exact Hn|reflexivity]. contradiction.
Qed.

Lemma nth_error_remove_nth {A} (l : list A) n m x :
  nth_error (remove_nth n l) m = Some x -> nth_error l (if m <? n then m else S m) = Some x.
Proof.
  revert n m; induction l as [|y l IH]; intros n m H; [destruct n, m; discriminate|].
  destruct n as [|n]; simpl in H.
  - replace (m <? 0) with false by (symmetry; apply Nat.ltb_ge; lia). exact H.
  - destruct m as [|m]; simpl in *; [exact H|]. apply IH in H.
    change (S m <? S n) with (m <? n). destruct (m <? n); exact H.
Qed.

Lemma not_in_keys_skip cols rs r n :
  find_key cols (proj cols r) rs 0 (Some n) = None -> ~ In (proj cols r) (keys cols (remove_nth n rs)).
Proof.
  intros H Hin. unfold keys in Hin. apply in_map_iff in Hin as (r' & Hk & Hr').
  apply In_nth_error in Hr' as (m & Hm). apply nth_error_remove_nth in Hm.
  eapply find_key_none in H; [|exact Hm|]; [contradiction|].
  simpl. destruct (Nat.ltb_spec m n); apply Nat.eqb_neq; lia.
Qed.

(* ---------------------------------------------------------------- NoDup preservation *)

Lemma keys_perm cols rs rs' : Permutation rs rs' -> NoDup (keys cols rs') -> NoDup (keys cols rs).
Proof. intros P H. eapply Permutation_NoDup; [|exact H]. apply Permutation_map. symmetry; exact P. Qed.

Lemma keys_remove_nth cols rs n : NoDup (keys cols rs) -> NoDup (keys cols (remove_nth n rs)).
Proof. unfold keys. rewrite remove_nth_map. apply remove_nth_NoDup. Qed.

Lemma keys_filter cols f rs : NoDup (keys cols rs) -> NoDup (keys cols (filter f rs)).
Proof.
  unfold keys. induction rs as [|r rs IH]; simpl; intros H; [constructor|]. inversion H; subst.
  destruct (f r); simpl; [constructor|]; auto.
  intro Hin. apply H2. apply in_map_iff in Hin as (x & Hx & Hin). apply filter_In in Hin as [Hin _].
  apply in_map_iff. exists x. auto.
Qed.

Lemma NoDup_app_r {A} (l1 l2 : list A) : NoDup (l1 ++ l2) -> NoDup l2.
Proof. induction l1 as [|x l1 IH]; simpl; intros H; [exact H|]. inversion H; auto. Qed.

Lemma keys_app_sub cols l1 l2 l3 : NoDup (keys cols (l1 ++ l2 ++ l3)) -> NoDup (keys cols (l1 ++ l3)).
Proof.
  unfold keys. rewrite !map_app. intros H.
  induction (map (proj cols) l1) as [|k ks IH]; simpl in *.
  - eapply NoDup_app_r; exact H.
  - inversion H; subst. constructor; [|apply IH; assumption].
    intro Hin. apply H2. apply in_app_iff in Hin as [Hin|Hin]; apply in_app_iff; [left; assumption|].
    right. apply in_app_iff. right. assumption.
Qed.

Lemma skipn_add {A} (l : list A) n k : skipn (n + k) l = skipn k (skipn n l).
Proof. revert l; induction n as [|n IH]; intros l; simpl; [reflexivity|]. destruct l; [destruct k; reflexivity|apply IH]. Qed.

Lemma keys_range cols rs n k : NoDup (keys cols rs) -> NoDup (keys cols (firstn n rs ++ skipn (n + k) rs)).
Proof.
  intros H. apply keys_app_sub with (l2 := firstn k (skipn n rs)).
  rewrite skipn_add.
  rewrite (firstn_skipn k (skipn n rs)). rewrite firstn_skipn. exact H.
Qed.

Lemma dedup_spec seen ns : NoDup (dedup seen ns) /\ forall n, In n (dedup seen ns) -> In n ns /\ ~ In n seen.
Proof.
  revert seen; induction ns as [|n ns IH]; intros seen; simpl; [split; [constructor|intros ? []]|].
  destruct (existsb (Nat.eqb n) seen) eqn:E.
  - destruct (IH seen) as [H1 H2]. split; [exact H1|]. intros m Hm. apply H2 in Hm as [? ?]. auto.
  - destruct (IH (n :: seen)) as [H1 H2]. split.
    + constructor; [|exact H1]. intro Hin. apply H2 in Hin as [_ Hn]. apply Hn. left; reflexivity.
    + intros m [->|Hm].
      * split; [left; reflexivity|]. intro Hin.
        assert (existsb (Nat.eqb m) seen = true) by (apply existsb_exists; exists m; split; [assumption|apply Nat.eqb_refl]).
        congruence.
      * apply H2 in Hm as [? Hns]. split; [right; assumption|]. intro; apply Hns; right; assumption.
Qed.

Lemma NoDup_map_nth {A} (l : list A) d ns :
  NoDup l -> NoDup ns -> (forall n, In n ns -> n < length l) -> NoDup (map (fun n => nth n l d) ns).
Proof.
  intros Hl Hns Hlt. induction ns as [|a ns IH]; simpl; [constructor|]. inversion Hns; subst.
  constructor; [|apply IH; [assumption|intros; apply Hlt; right; assumption]].
  intro Hin. apply in_map_iff in Hin as (m & Hm & Hin).
  assert (m = a).
  { eapply (proj1 (NoDup_nth l d)); [exact Hl|apply Hlt; right; exact Hin|apply Hlt; left; reflexivity|exact Hm]. }
  subst. contradiction.
Qed.

Lemma keys_assign cols rs ns :
  NoDup (keys cols rs) -> forallb (fun n => Nat.ltb n (length rs)) ns = true ->
  NoDup (keys cols (map (fun n => nth n rs []) (dedup [] ns))).
Proof.
  intros H Hall. unfold keys in *. rewrite map_map.
  destruct (dedup_spec [] ns) as [Hnd Hin].
  rewrite map_ext_in with (g := fun n => nth n (map (proj cols) rs) (proj cols [])).
  - apply NoDup_map_nth; [exact H|exact Hnd|]. intros n Hn. apply Hin in Hn as [Hn _].
    rewrite forallb_forall in Hall. apply Hall in Hn. apply Nat.ltb_lt in Hn. rewrite map_length. exact Hn.
  - intros n _. rewrite map_nth. reflexivity.
Qed.

Lemma first_dup_none cols seen rs i :
  first_dup cols seen rs i = None -> NoDup (keys cols rs) /\ forall k, In k (keys cols rs) -> ~ In k seen.
Proof.
  revert seen i; induction rs as [|r rs IH]; intros seen i H; simpl in *; [split; [constructor|intros ? []]|].
  destruct (existsb (zlist_eqb (proj cols r)) seen) eqn:E; [discriminate|].
  apply IH in H as [H1 H2]. split.
  - constructor; [|exact H1]. intro Hin. apply H2 in Hin. apply Hin. left; reflexivity.
  - intros k [<-|Hk].
    + intro Hin. assert (existsb (zlist_eqb (proj cols r)) seen = true); [|congruence].
      apply existsb_exists. exists (proj cols r). split; [assumption|apply zlist_eqb_refl].
    + apply H2 in Hk. intro; apply Hk; right; assumption.
Qed.

(* ---------------------------------------------------------------- the invariant *)

Lemma inv_with_rows t rs' :
  (forall cols, In cols (uniq t) -> NoDup (keys cols (rows t)) -> NoDup (keys cols rs')) -> inv t -> inv (with_rows t rs').
Proof.
  unfold inv, with_rows; simpl. intros H Hi. rewrite Forall_forall in *. intros cols Hc. apply H; auto.
Qed.

Lemma try_put_inv t r skip rs' :
  inv t ->
  (forall cols, NoDup (keys cols (rows t)) -> find_key cols (proj cols r) (rows t) 0 skip = None -> NoDup (keys cols rs')) ->
  inv (fst (try_put t r skip rs')).
Proof.
  intros Hi H. unfold try_put. destruct (find_conflict (uniq t) 0 (rows t) r skip) as [[n j]|] eqn:E; simpl; [exact Hi|].
  apply find_conflict_none in E. unfold inv, with_rows in *; simpl. rewrite Forall_forall in *.
  intros cols Hc. apply H; auto.
Qed.

Lemma put_new_ok cols rs r rs' :
  Permutation rs' (r :: rs) -> NoDup (keys cols rs) -> find_key cols (proj cols r) rs 0 None = None -> NoDup (keys cols rs').
Proof.
  intros P Hn Hf. eapply keys_perm; [exact P|]. unfold keys; simpl. constructor; [|exact Hn].
  apply not_in_keys_none; exact Hf.
Qed.

Lemma put_update_ok cols rs r n :
  n < length rs -> NoDup (keys cols rs) -> find_key cols (proj cols r) rs 0 (Some n) = None ->
  NoDup (keys cols (set_nth n r rs)).
Proof.
  intros Hlt Hn Hf. eapply keys_perm; [apply set_nth_perm; exact Hlt|]. unfold keys; simpl. constructor.
  - apply not_in_keys_skip; exact Hf.
  - apply keys_remove_nth; exact Hn.
Qed.

Lemma removal_ok cols (keep : bool) rs n :
  n < length rs -> NoDup (keys cols rs) -> NoDup (keys cols (if keep then remove_nth n rs else remove_unordered n rs)).
Proof.
  intros Hlt H. destruct keep; [apply keys_remove_nth; exact H|].
  eapply keys_perm; [apply remove_unordered_perm; exact Hlt|]. apply keys_remove_nth; exact H.
Qed.

Theorem step_inv t o : inv t -> inv (fst (step t o)).
Proof.
  intros Hi. destruct o; simpl.
  - (* add *) apply try_put_inv; [exact Hi|]. intros cols Hn Hf. eapply put_new_ok; eauto.
    symmetry. apply Permutation_cons_append.
  - (* insert *) destruct (Nat.leb n (length (rows t))); [|exact Hi].
    apply try_put_inv; [exact Hi|]. intros cols Hn Hf. eapply put_new_ok; eauto. apply insert_at_perm.
  - (* update *) destruct (Nat.ltb_spec n (length (rows t))); [|exact Hi].
    apply try_put_inv; [exact Hi|]. intros cols Hn Hf. apply put_update_ok; auto.
  - (* update column *) destruct (nth_error (rows t) n) as [old|] eqn:E; [|exact Hi].
    destruct (Z.eqb v (getc old c)); [exact Hi|].
    assert (n < length (rows t)) by (apply nth_error_Some; congruence).
    apply try_put_inv; [exact Hi|]. intros cols Hn Hf. apply put_update_ok; auto.
  - (* remove *) destruct (Nat.ltb_spec n (length (rows t))); [|exact Hi]. simpl.
    apply inv_with_rows; [|exact Hi]. intros. apply removal_ok; auto.
  - (* remove range *) destruct (Nat.leb (n + k) (length (rows t))); [|exact Hi]. simpl.
    apply inv_with_rows; [|exact Hi]. intros. apply keys_range; auto.
  - (* remove by predicate *) apply inv_with_rows; [|exact Hi]. intros. apply keys_filter; auto.
  - (* extract *) destruct (nth_error (rows t) n) eqn:E; [|exact Hi]. simpl.
    assert (n < length (rows t)) by (apply nth_error_Some; congruence).
    apply inv_with_rows; [|exact Hi]. intros. apply removal_ok; auto.
  - (* assign *) destruct (forallb (fun n => Nat.ltb n (length (rows t))) ns) eqn:E; [|exact Hi]. simpl.
    apply inv_with_rows; [|exact Hi]. intros. apply keys_assign; auto.
  - (* clear *) apply inv_with_rows; [|exact Hi]. intros. constructor.
  - exact Hi.
  - (* copy with filter *) apply inv_with_rows; [|exact Hi]. intros. apply keys_filter; auto.
  - (* add unique index *) destruct (existsb (natlist_eqb cols) (uniq t)); [exact Hi|].
    destruct (first_dup cols [] (rows t) 0) eqn:E; [exact Hi|]. simpl.
    apply first_dup_none in E as [E _]. unfold inv in *; simpl. apply Forall_app. split; [exact Hi|].
    constructor; [exact E|constructor].
  - destruct (existsb (natlist_eqb cols) (multi t)); exact Hi.
  - constructor.
  - exact Hi.
Qed.

Theorem run_inv ops : forall t, inv t -> inv (run t ops).
Proof.
  induction ops as [|o ops IH]; intros t Hi; simpl; [exact Hi|]. apply IH. apply step_inv. exact Hi.
Qed.

Theorem unique_never_violated ops :
  Forall (fun cols => NoDup (map (proj cols) (rows (run empty_table ops)))) (uniq (run empty_table ops)).
Proof. apply (run_inv ops empty_table). constructor. Qed.

(* ---------------------------------------------------------------- refused operations *)

Definition refused (res : result) : Prop :=
  match res with RConflict _ _ | RDup _ | RInvalid => True | _ => False end.

Theorem refused_op_is_identity t o : refused (snd (step t o)) -> fst (step t o) = t.
Proof.
  destruct o; simpl; unfold try_put;
    repeat match goal with
           | |- context [match ?x with _ => _ end] => destruct x eqn:?; simpl
           end; auto; try contradiction.
Qed.

Lemma try_put_conflict t r skip rs' t' n j :
  try_put t r skip rs' = (t', RConflict n j) ->
  exists cols r', nth_error (uniq t) j = Some cols /\ nth_error (rows t) n = Some r' /\
    proj cols r' = proj cols r /\ skip <> Some n /\
    (forall j' cols', j' < j -> nth_error (uniq t) j' = Some cols' ->
       find_key cols' (proj cols' r) (rows t) 0 skip = None).
Proof.
  unfold try_put. destruct (find_conflict (uniq t) 0 (rows t) r skip) as [[n0 j0]|] eqn:E; [|discriminate].
  intros H; inversion H; subst. apply find_conflict_some in E as (d & cols & -> & Hd & Hf & Hmin).
  apply find_key_some in Hf as (m & r' & -> & Hm & Hk & Hs). simpl in *.
  exists cols, r'. repeat split; auto.
  intros ->. simpl in Hs. rewrite Nat.eqb_refl in Hs. discriminate.
Qed.

(* A refusal names a row of the unchanged table that really collides with the row the operation tried
   to store, on the reported unique index, and that row is not the one being replaced; the reported
   index is the first one (creation order) with a collision. *)
Theorem conflict_row_is_witness t o t' n j :
  step t o = (t', RConflict n j) ->
  exists r skip cols r',
    op_row t o = Some (r, skip) /\ nth_error (uniq t) j = Some cols /\ nth_error (rows t) n = Some r' /\
    proj cols r' = proj cols r /\ skip <> Some n /\
    (forall j' cols', j' < j -> nth_error (uniq t) j' = Some cols' ->
       find_key cols' (proj cols' r) (rows t) 0 skip = None).
Proof.
  destruct o; simpl; intros H;
    repeat match type of H with
           | context [match ?x with _ => _ end] => destruct x eqn:?; simpl in H
           end; try discriminate;
    try (apply try_put_conflict in H as (cols & r' & ?); do 4 eexists; split; [reflexivity|eassumption]).
Qed.

(* completeness of the refusal test: an accepted put means no other row collides on any unique index *)
Theorem accepted_means_no_collision t r skip rs' t' :
  try_put t r skip rs' = (t', ROk) ->
  forall cols n r', In cols (uniq t) -> nth_error (rows t) n = Some r' -> skip <> Some n -> proj cols r' <> proj cols r.
Proof.
  unfold try_put. destruct (find_conflict (uniq t) 0 (rows t) r skip) as [[n0 j0]|] eqn:E; [discriminate|].
  intros _ cols n r' Hc Hn Hs. apply find_conflict_none in E. rewrite Forall_forall in E. specialize (E _ Hc).
  eapply find_key_none in E; [exact E|exact Hn|]. simpl. destruct skip as [s|]; simpl; [|reflexivity].
  apply Nat.eqb_neq. congruence.
Qed.

(* non-vacuity: a refusal really happens *)
Example refusal_happens :
  let t := run empty_table [OAddUnique [0]; OAdd [1; 5]%Z; OAdd [2; 5]%Z] in
  step t (OAdd [1; 7]%Z) = (t, RConflict 0 0).
Proof. reflexivity. Qed.
