(* C07: the refusal verdict of the L1 protocol agrees with the L0 specification.
   For an index state consistent with the table rows rs (contents ct, L0 rows = map ct rs, unique indexes = the column
   lists of the unique hashes in order), DataIndexes::AddRaw / UpdateRaw(old,new) refuse exactly when
   TableSpec.find_conflict does, naming the same row (by position) and the same unique-index number - for every entry
   order, visibility relation and failure step (a throw before the refusing hash is the only other outcome). *)
From Coq Require Import List ZArith Lia Bool Arith PeanoNat Permutation.
From C07 Require Import TableSpec TableProofs MultiHash MultiHashProofs SegProofs IndexModel IndexProofs AtomicProofs RefineProofs ConsProofs ReachProofs.
Import ListNotations.

Lemma fk_none ct cols k skip : forall rs i, (forall x, In x rs -> keyc ct cols x <> k) -> find_key cols k (map ct rs) i skip = None.
Proof.
  induction rs as [|y rs IH]; intros i H; simpl; [reflexivity|].
  replace (zlist_eqb (proj cols (ct y)) k) with false.
  - rewrite andb_false_r. apply IH. intros x Hx. apply H. right. exact Hx.
  - symmetry. destruct (zlist_eqb (proj cols (ct y)) k) eqn:E; [|reflexivity]. apply zlist_eqb_eq in E. exfalso. apply (H y (or_introl eq_refl)). exact E.
Qed.

Lemma key_unique_in ct cols rs x y : NoDup (map (keyc ct cols) (x :: rs)) -> In y rs -> keyc ct cols y <> keyc ct cols x.
Proof. intros Hn Hy E. simpl in Hn. inversion Hn; subst. apply H1. rewrite <- E. apply in_map. exact Hy. Qed.

Lemma fk_unique ct cols k : forall rs i n x,
  NoDup (map (keyc ct cols) rs) -> nth_error rs n = Some x -> keyc ct cols x = k ->
  find_key cols k (map ct rs) i None = Some (i + n).
Proof.
  induction rs as [|y rs IH]; intros i n x Hn Hx Hk; [destruct n; discriminate|]. simpl.
  destruct n as [|n]; simpl in Hx.
  - injection Hx as Exy; rewrite Exy in *. unfold keyc in Hk. rewrite Hk, zlist_eqb_refl. simpl. rewrite Nat.add_0_r. reflexivity.
  - assert (Hy : keyc ct cols y <> k).
    { rewrite <- Hk. intros E. apply (key_unique_in ct cols rs y x Hn); [eapply nth_error_In; exact Hx|symmetry; exact E]. }
    replace (zlist_eqb (proj cols (ct y)) k) with false.
    + simpl. simpl in Hn. apply NoDup_cons_iff in Hn as [_ Hn2]. rewrite (IH (S i) n x Hn2 Hx Hk). f_equal. lia.
    + symmetry. destruct (zlist_eqb (proj cols (ct y)) k) eqn:E; [|reflexivity]. apply zlist_eqb_eq in E. contradiction.
Qed.

Lemma fk_unique_skip ct cols k sk : forall rs i n x,
  NoDup (map (keyc ct cols) rs) -> nth_error rs n = Some x -> keyc ct cols x = k ->
  find_key cols k (map ct rs) i (Some sk) = if Nat.eqb sk (i + n) then None else Some (i + n).
Proof.
  induction rs as [|y rs IH]; intros i n x Hn Hx Hk; [destruct n; discriminate|]. simpl.
  destruct n as [|n]; simpl in Hx.
  - injection Hx as Exy; rewrite Exy in *. rewrite Nat.add_0_r. unfold keyc in Hk. rewrite Hk, zlist_eqb_refl.
    destruct (Nat.eqb sk i) eqn:E; simpl; [|reflexivity].
    apply fk_none. intros z Hz. rewrite <- Hk. apply (key_unique_in ct cols rs x z Hn Hz).
  - assert (Hy : keyc ct cols y <> k).
    { rewrite <- Hk. intros E. apply (key_unique_in ct cols rs y x Hn); [eapply nth_error_In; exact Hx|symmetry; exact E]. }
    replace (zlist_eqb (proj cols (ct y)) k) with false.
    + rewrite andb_false_r. simpl in Hn. apply NoDup_cons_iff in Hn as [_ Hn2]. rewrite (IH (S i) n x Hn2 Hx Hk). replace (S i + n) with (i + S n) by lia. reflexivity.
    + symmetry. destruct (zlist_eqb (proj cols (ct y)) k) eqn:E; [|reflexivity]. apply zlist_eqb_eq in E. contradiction.
Qed.

Lemma u_cons_keys_nodup ct rs u : u_cons ct rs u -> NoDup (map (keyc ct (ucols u)) rs).
Proof.
  intros [(_ & _ & _ & Hk & _) Hp]. eapply Permutation_NoDup; [apply Permutation_map; exact Hp|]. rewrite map_map. exact Hk.
Qed.

(* what a lookup in a consistent unique hash says about the table rows *)
Lemma u_find_vs_find_key R ct rs u k :
  (forall s, R s s = true) -> u_cons ct rs u ->
  match u_find R ct u k with
  | Some e => exists n, nth_error rs n = Some (eraw e) /\ keyc ct (ucols u) (eraw e) = k /\
                        find_key (ucols u) k (map ct rs) 0 None = Some n
  | None => forall x, In x rs -> keyc ct (ucols u) x <> k
  end.
Proof.
  intros HR Hc. pose proof Hc as [Hi Hp]. pose proof Hi as (_ & _ & _ & Hk & Hs). rewrite Forall_forall in Hs.
  destruct (u_find R ct u k) as [e|] eqn:E.
  - unfold u_find in E. apply find_some in E as [Hin Hpe]. apply andb_true_iff in Hpe as [_ Hpe]. apply zlist_eqb_eq in Hpe.
    assert (Hers : In (eraw e) rs) by (apply (Permutation_in _ Hp); apply in_map; exact Hin).
    apply In_nth_error in Hers as (n & Hn). exists n. split; [exact Hn|]. split; [exact Hpe|].
    apply (fk_unique ct (ucols u) k rs 0 n (eraw e) (u_cons_keys_nodup ct rs u Hc) Hn Hpe).
  - intros x Hx Ek. apply (Permutation_in _ (Permutation_sym Hp)) in Hx. apply in_map_iff in Hx as (e & <- & He).
    unfold u_find in E. eapply find_none in E; [|exact He]. simpl in E. rewrite (Hs e He), Ek, HR, zlist_eqb_refl in E. discriminate.
Qed.

Section Agree.
  Variables (ord : nat -> nat) (R : list Z -> list Z -> bool) (ct : Z -> row) (rs : list Z) (fl : option nat).
  Hypothesis HR : forall k, R k k = true.
  Hypothesis Hnd : NoDup rs.

  (* ---------------------------------------------------------------- AddRaw *)
  Variable raw : Z.
  Hypothesis Hraw : ~ In raw rs.

  Lemma add_phase_agrees : forall hs j step tag,
    Forall (u_cons ct rs) hs ->
    match snd (fst (u_phase (fun u t => u_add ord R ct u raw None t) (fun r => negb (Z.eqb r raw)) (fun _ => true) fl hs j step tag)) with
    | Some (Refused r j') => exists n, find_conflict (map ucols hs) j (map ct rs) (ct raw) None = Some (n, j') /\ nth_error rs n = Some r
    | Some Accepted => False
    | Some Thrown => True
    | None => find_conflict (map ucols hs) j (map ct rs) (ct raw) None = None
    end.
  Proof.
    induction hs as [|u hs IH]; intros j step tag Hall; cbn [u_phase map find_conflict fst snd negb]; [reflexivity|].
    inversion Hall as [|? ? Hc Hall']; subst.
    destruct (hits fl step); cbn [fst snd]; [exact I|].
    pose proof (u_find_vs_find_key R ct rs u (keyc ct (ucols u) raw) HR Hc) as Hf.
    unfold u_add. change (proj (ucols u) (ct raw)) with (keyc ct (ucols u) raw).
    destruct (u_find R ct u (keyc ct (ucols u) raw)) as [e|].
    - destruct Hf as (n & Hn & _ & Hfk). cbn [fst snd].
      assert (Hne : Z.eqb (eraw e) raw = false).
      { apply Z.eqb_neq. intros E. apply Hraw. rewrite <- E. eapply nth_error_In. exact Hn. }
      rewrite Hne. cbn [negb fst snd]. rewrite Hfk. exists n. split; [reflexivity|exact Hn].
    - cbn [fst snd]. rewrite Z.eqb_refl. cbn [negb]. rewrite (fk_none ct (ucols u) _ None rs 0 Hf).
      specialize (IH (S j) (S step) tag Hall').
      destruct (u_phase _ _ _ fl hs (S j) (S step) tag) as [[hs2 v2] s2]. cbn [fst snd] in *. exact IH.
  Qed.

  Theorem add_raw_refusal_agrees s :
    Forall (u_cons ct rs) (uhs s) ->
    match snd (add_raw ord R ct fl s raw) with
    | Refused r j => exists n, find_conflict (map ucols (uhs s)) 0 (map ct rs) (ct raw) None = Some (n, j) /\ nth_error rs n = Some r
    | Accepted => find_conflict (map ucols (uhs s)) 0 (map ct rs) (ct raw) None = None
    | Thrown => True
    end.
  Proof.
    intros Hu. unfold add_raw.
    pose proof (add_phase_agrees (uhs s) 0 0 (ntag s) Hu) as H.
    destruct (u_phase _ _ _ fl (uhs s) 0 0 (ntag s)) as [[us1 v1] st1]. cbn [fst snd] in H.
    destruct v1 as [o|].
    - unfold finish. cbn [snd]. destruct o; [contradiction|exact H|exact I].
    - pose proof (m_phase_verdict (fun m t => m_add ord R ct m raw t) (fun _ => true) fl (mhs s) 0 st1 (ntag s + length (uhs s))) as Hv.
      destruct (m_phase _ _ fl (mhs s) 0 st1 (ntag s + length (uhs s))) as [[ms1 v2] st2]. cbn [fst snd] in Hv.
      destruct Hv as [-> | ->]; unfold finish; cbn [snd]; [exact H|exact I].
  Qed.

  (* ---------------------------------------------------------------- UpdateRaw(old, new) : raw plays the new row *)
  Variables (old : Z) (nold : nat).
  Hypothesis Hold : nth_error rs nold = Some old.

  Lemma update_phase_agrees : forall hs j step tag,
    Forall (u_cons ct rs) hs ->
    match snd (fst (u_phase (fun u t => let '(u', r) := u_add ord R ct u raw (Some old) t in
                                        (if Z.eqb r raw then u_prepare_remove true R ct u' old else u', r))
                            (fun r => negb (Z.eqb r raw) && negb (Z.eqb r old)) (fun _ => true) fl hs j step tag)) with
    | Some (Refused r j') => exists n, find_conflict (map ucols hs) j (map ct rs) (ct raw) (Some nold) = Some (n, j') /\
                                       nth_error rs n = Some r /\ n <> nold
    | Some Accepted => False
    | Some Thrown => True
    | None => find_conflict (map ucols hs) j (map ct rs) (ct raw) (Some nold) = None
    end.
  Proof.
    induction hs as [|u hs IH]; intros j step tag Hall; cbn [u_phase map find_conflict fst snd negb]; [reflexivity|].
    inversion Hall as [|? ? Hc Hall']; subst.
    destruct (hits fl step); cbn [fst snd]; [exact I|].
    pose proof (u_find_vs_find_key R ct rs u (keyc ct (ucols u) raw) HR Hc) as Hf.
    unfold u_add. change (proj (ucols u) (ct raw)) with (keyc ct (ucols u) raw).
    destruct (u_find R ct u (keyc ct (ucols u) raw)) as [e|].
    - destruct Hf as (n & Hn & Hke & _).
      assert (Hne : Z.eqb (eraw e) raw = false).
      { apply Z.eqb_neq. intros E. apply Hraw. rewrite <- E. eapply nth_error_In. exact Hn. }
      pose proof (fk_unique_skip ct (ucols u) (keyc ct (ucols u) raw) nold rs 0 n (eraw e) (u_cons_keys_nodup ct rs u Hc) Hn Hke) as Hfk.
      cbn [Nat.add] in Hfk.
      destruct (Z.eqb_spec (eraw e) old) as [Eo|Eo].
      + (* the row itself: not a conflict *)
        assert (n = nold) by (eapply (proj1 (NoDup_nth_error rs) Hnd); [apply nth_error_Some; congruence|rewrite Hn, Hold, Eo; reflexivity]).
        subst n. rewrite Nat.eqb_refl in Hfk. cbn [fst snd]. rewrite Eo. replace (Z.eqb old raw) with false by (rewrite <- Eo; symmetry; exact Hne).
        cbn [fst snd negb andb]. try rewrite Z.eqb_refl. cbn [fst snd negb andb]. rewrite Hfk.
        specialize (IH (S j) (S step) tag Hall').
        destruct (u_phase _ _ _ fl hs (S j) (S step) tag) as [[hs2 v2] s2]. cbn [fst snd] in *. exact IH.
      + assert (Hnn : n <> nold) by (intros ->; rewrite Hold in Hn; inversion Hn; congruence).
        replace (Nat.eqb nold n) with false in Hfk by (symmetry; apply Nat.eqb_neq; auto).
        cbn [fst snd]. rewrite Hne. cbn [fst snd negb andb].
        replace (Z.eqb (eraw e) old) with false by (symmetry; apply Z.eqb_neq; exact Eo). cbn [negb andb]. rewrite Hfk.
        exists n. repeat split; auto.
    - cbn [fst snd]. rewrite Z.eqb_refl. cbn [fst snd negb andb]. rewrite (fk_none ct (ucols u) _ (Some nold) rs 0 Hf).
      specialize (IH (S j) (S step) tag Hall').
      destruct (u_phase _ _ _ fl hs (S j) (S step) tag) as [[hs2 v2] s2]. cbn [fst snd] in *. exact IH.
  Qed.

  Theorem update_raw_refusal_agrees s :
    Forall (u_cons ct rs) (uhs s) ->
    match snd (update_raw true true ord R ct fl s old raw) with
    | Refused r j => exists n, find_conflict (map ucols (uhs s)) 0 (map ct rs) (ct raw) (Some nold) = Some (n, j) /\
                               nth_error rs n = Some r /\ n <> nold
    | Accepted => find_conflict (map ucols (uhs s)) 0 (map ct rs) (ct raw) (Some nold) = None
    | Thrown => True
    end.
  Proof.
    intros Hu. unfold update_raw.
    pose proof (update_phase_agrees (uhs s) 0 0 (ntag s) Hu) as H.
    destruct (u_phase _ _ _ fl (uhs s) 0 0 (ntag s)) as [[us1 v1] st1]. cbn [fst snd] in H.
    destruct v1 as [o|].
    - unfold finish. cbn [snd]. destruct o; [contradiction|exact H|exact I].
    - pose proof (m_phase_verdict (fun m t => m_prepare_remove true R ct (m_add ord R ct m raw t) old) (fun _ => true) fl (mhs s) 0 st1 (ntag s + length (uhs s))) as Hv.
      destruct (m_phase _ _ fl (mhs s) 0 st1 (ntag s + length (uhs s))) as [[ms1 v2] st2]. cbn [fst snd] in Hv.
      destruct Hv as [-> | ->]; unfold finish; cbn [snd]; [exact H|exact I].
  Qed.
End Agree.

(* ---------------------------------------------------------------- the Thrown outcome needs an injected failure
   (complements the refusal-agreement theorems, whose Thrown branch is `True`: with the empty failure schedule the two-phase
   operations never throw; what a throw leaves behind is the subject of the atomicity theorems) *)
Lemma u_phase_none_not_thrown f bad applies : forall hs j step tag,
  snd (fst (u_phase f bad applies None hs j step tag)) <> Some Thrown.
Proof.
  induction hs as [|u hs IH]; intros j step tag; cbn [u_phase]; [discriminate|].
  destruct (negb (applies u)).
  - specialize (IH (S j) step tag). destruct (u_phase f bad applies None hs (S j) step tag) as [[a b] c]. exact IH.
  - change (hits None step) with false. cbn iota. destruct (f u (tag + j)) as [u' r]. destruct (bad r); [discriminate|].
    specialize (IH (S j) (S step) tag). destruct (u_phase f bad applies None hs (S j) (S step) tag) as [[a b] c]. exact IH.
Qed.

Lemma m_phase_none_verdict f applies : forall ms j step tag, snd (fst (m_phase f applies None ms j step tag)) = None.
Proof.
  induction ms as [|m ms IH]; intros j step tag; cbn [m_phase]; [reflexivity|].
  destruct (negb (applies m)).
  - specialize (IH (S j) step tag). destruct (m_phase f applies None ms (S j) step tag) as [[a b] c]. exact IH.
  - change (hits None step) with false. cbn iota.
    specialize (IH (S j) (S step) tag). destruct (m_phase f applies None ms (S j) (S step) tag) as [[a b] c]. exact IH.
Qed.

Theorem no_failure_no_throw fixu fixm ord R ct s :
  (forall raw, snd (add_raw ord R ct None s raw) <> Thrown) /\
  (forall old new, snd (update_raw fixu fixm ord R ct None s old new) <> Thrown) /\
  (forall raw c v, snd (fst (update_col fixu fixm ord R ct None s raw c v)) <> Thrown) /\
  (forall raw, snd (remove_raw fixu fixm R ct None s raw) = Accepted).
Proof.
  split; [|split; [|split]].
  - intros raw. unfold add_raw.
    match goal with |- context [u_phase ?f ?b ?a None (uhs s) 0 0 (ntag s)] =>
      pose proof (u_phase_none_not_thrown f b a (uhs s) 0 0 (ntag s)) as Hu; destruct (u_phase f b a None (uhs s) 0 0 (ntag s)) as [[us1 [o|]] st1] end.
    + cbn [fst snd] in *. unfold finish. cbn [fst snd]. intros E. apply Hu. rewrite E. reflexivity.
    + match goal with |- context [m_phase ?f ?a None (mhs s) 0 st1 ?tg] =>
        pose proof (m_phase_none_verdict f a (mhs s) 0 st1 tg) as Hm; destruct (m_phase f a None (mhs s) 0 st1 tg) as [[ms1 v2] st2] end.
      cbn [fst snd] in Hm. subst v2. discriminate.
  - intros old new. unfold update_raw.
    match goal with |- context [u_phase ?f ?b ?a None (uhs s) 0 0 (ntag s)] =>
      pose proof (u_phase_none_not_thrown f b a (uhs s) 0 0 (ntag s)) as Hu; destruct (u_phase f b a None (uhs s) 0 0 (ntag s)) as [[us1 [o|]] st1] end.
    + cbn [fst snd] in *. unfold finish. cbn [fst snd]. intros E. apply Hu. rewrite E. reflexivity.
    + match goal with |- context [m_phase ?f ?a None (mhs s) 0 st1 ?tg] =>
        pose proof (m_phase_none_verdict f a (mhs s) 0 st1 tg) as Hm; destruct (m_phase f a None (mhs s) 0 st1 tg) as [[ms1 v2] st2] end.
      cbn [fst snd] in Hm. subst v2. discriminate.
  - intros raw c v. unfold update_col. destruct (Z.eqb v (getc (ct raw) c)); [discriminate|].
    match goal with |- context [u_phase ?f ?b ?a None (uhs s) 0 0 (ntag s)] =>
      pose proof (u_phase_none_not_thrown f b a (uhs s) 0 0 (ntag s)) as Hu; destruct (u_phase f b a None (uhs s) 0 0 (ntag s)) as [[us1 [o|]] st1] end.
    + cbn [fst snd] in *. unfold finish. cbn [fst snd]. intros E. apply Hu. rewrite E. reflexivity.
    + match goal with |- context [m_phase ?f ?a None (mhs s) 0 st1 ?tg] =>
        pose proof (m_phase_none_verdict f a (mhs s) 0 st1 tg) as Hm; destruct (m_phase f a None (mhs s) 0 st1 tg) as [[ms1 v2] st2] end.
      cbn [fst snd] in Hm. subst v2. change (hits None st2) with false. cbn iota. discriminate.
  - intros raw. reflexivity.
Qed.
