(* Property C15 -- theorems only (each closed by `exact`, followed by Print Assumptions).
   Model: Version.v (containers = crew/version/contents/capacity info, handles = keeper + position, one `step` per
   entry point of HashSet/HashMap (KHash) and TreeSet/TreeMap (KTree) doing the MOMO_CHECKs and IncVersion calls of
   the source in source order).  The model is run against the real containers on every check (T-cor), and its
   classification of entry points is checked against Gen_VersionTable.v, regenerated from the clang AST. *)
From Coq Require Import ZArith List Bool String.
From C15 Require Import Gen_VersionTable Version VersionProofs TableCheck PreFix.
From C15 Require Arr MultiMap MultiMapProofs Table TableProofs.
From MomoCommon Require Import GenPrelude.
From C15 Require Gen_VersionKeeper Gen_ArrayIndexIterator Gen_ArrayShifter Gen_ArrayGuards Gen_MultiMapGuards Gen_SelectionGuards
  Gen_TableGuards Gen_TreeIterator Gen_SegmentedArrayGuards Gen_DataRawIterator Gen_MultiHashIterator GuardProofs.
Import ListNotations.

(* A handle (iterator / position) whose version snapshot differs from the current version of the container it was
   taken from is rejected -- std::invalid_argument -- by every use: read, ++, --, Add at it, Remove, Extract,
   ResetKey, CheckIterator, range removal from/to it; and the rejected call changes nothing. *)
Theorem C15_stale_rejected :
  forall k s i o, reachable k s -> stale s (hs s i) -> uses k i o -> step k s o = (s, Rej).
Proof. exact VersionProofs.stale_rejected_reachable. Qed.
Print Assumptions C15_stale_rejected.

(* For every history: if an operation changes the version of the container a handle belongs to (every structural
   modification does, see C15_all_mutators_bump), then after ANY further operations (not re-assigning the handle)
   every use of the handle is rejected and leaves the state unchanged. *)
Theorem C15_stale_rejected_for_every_history :
  forall k s o ops i cr u,
    reachable k s -> hcrew (hs s i) = Some cr -> writes o i = false ->
    ver_of_crew (fst (step k s o)) cr <> ver_of_crew s cr ->
    Forall (fun o => writes o i = false) ops -> uses k i u ->
    let s' := run k (fst (step k s o)) ops in step k s' u = (s', Rej).
Proof. exact VersionProofs.stale_rejected_history. Qed.
Print Assumptions C15_stale_rejected_for_every_history.

(* A handle to an element whose snapshot is current still points at an element of its container; reading it,
   CheckIterator, ResetKey (equivalent key), ++ and Remove through it are accepted (Remove bumps the version by one). *)
Theorem C15_fresh_accepted :
  forall k s c i key,
    reachable k s -> hcrew (hs s i) = Some (crew (getc s c)) -> hsnap (hs s i) = ver (getc s c) -> hpos (hs s i) = PElem key ->
    In key (keys (getc s c)) /\
    step k s (ODeref i) = (s, Acc (Some key)) /\
    step k s (OChk c i false) = (s, Acc None) /\
    step k s (OResetKey c i key) = (s, Acc None) /\
    snd (step k s (OInc i)) = Acc None /\
    (cap (getc s c) <> None -> exists s', step k s (ORemoveAt c i) = (s', Acc (Some key)) /\ ver (getc s' c) = S (ver (getc s c))).
Proof. exact VersionProofs.fresh_accepted_reachable. Qed.
Print Assumptions C15_fresh_accepted.

(* Handles obtained after the last modification are never rejected: after any number of non-modifying operations
   (Find, begin/end, bounds, reads and ++/-- of other handles, CheckIterator, ResetKey, GetCount, ContainsKey) ... *)
Theorem C15_fresh_accepted_after_queries :
  forall k s c i key ops,
    reachable k s -> hcrew (hs s i) = Some (crew (getc s c)) -> hsnap (hs s i) = ver (getc s c) -> hpos (hs s i) = PElem key ->
    Forall (fun o => nonmod o = true) ops -> Forall (fun o => writes o i = false) ops ->
    let s' := run k s ops in step k s' (ODeref i) = (s', Acc (Some key)) /\ In key (keys (getc s' c)).
Proof. exact VersionProofs.fresh_accepted_after_queries. Qed.
Print Assumptions C15_fresh_accepted_after_queries.

(* ... and after ANY operations that left the container's version unchanged (Insert of a present key, Remove of an
   absent key, Reserve within the capacity, Clear of a table without buckets, rejected calls, calls on the other
   container). *)
Theorem C15_fresh_accepted_if_version_unchanged :
  forall k s c i key ops,
    reachable k s -> hcrew (hs s i) = Some (crew (getc s c)) -> hsnap (hs s i) = ver (getc s c) -> hpos (hs s i) = PElem key ->
    Forall (fun o => writes o i = false) ops ->
    let s' := run k s ops in
    crew (getc s' c) = crew (getc s c) -> ver (getc s' c) = ver (getc s c) ->
    step k s' (ODeref i) = (s', Acc (Some key)) /\ In key (keys (getc s' c)).
Proof. exact VersionProofs.fresh_accepted_if_version_unchanged. Qed.
Print Assumptions C15_fresh_accepted_if_version_unchanged.

(* The operations the model treats as non-modifying change neither container (contents, version, capacity). *)
Theorem C15_nonmodifying_keeps_containers :
  forall k s o, nonmod o = true -> w0 (fst (step k s o)) = w0 s /\ w1 (fst (step k s o)) = w1 s.
Proof. exact VersionProofs.nonmodifying_keeps_containers. Qed.
Print Assumptions C15_nonmodifying_keeps_containers.

(* A rejected call leaves contents, versions, capacity and all handles unchanged (every kind, state, entry point). *)
Theorem C15_rejected_call_is_identity :
  forall k s o s', step k s o = (s', Rej) -> s' = s.
Proof. exact VersionProofs.rejected_call_is_identity. Qed.
Print Assumptions C15_rejected_call_is_identity.

(* Version counters never decrease along any history without assignments (an assignment destroys the destination's version cell:
   see the C15_*_assign_* theorems). *)
Theorem C15_versions_monotone :
  forall k s ops cr v, reachable k s -> Forall (fun o => is_assign o = false) ops -> ver_of_crew s cr = Some v ->
    exists v', ver_of_crew (run k s ops) cr = Some v' /\ (v <= v')%nat.
Proof. exact VersionProofs.versions_monotone. Qed.
Print Assumptions C15_versions_monotone.

(* The empty (default-constructed) iterator -- HashSet::GetEnd(), Find/GetEnd on a rootless tree -- is rejected
   wherever an element is required. *)
Theorem C15_null_handle_rejected :
  forall k s i o, hcrew (hs s i) = None -> needs_elem k i o -> step k s o = (s, Rej).
Proof. exact VersionProofs.null_handle_rejected. Qed.
Print Assumptions C15_null_handle_rejected.

(* The end iterator of a tree / the empty position of a hash table is rejected by read, ++, Remove, Extract, ResetKey
   even when its version is current. *)
Theorem C15_end_position_rejected :
  forall k s i o,
    hpos (hs s i) = PEnd \/ (k = KHash /\ exists g, hpos (hs s i) = PGap g) ->
    (o = ODeref i \/ o = OInc i \/ (exists c, o = ORemoveAt c i) \/ (exists c, o = OExtract c i) \/ (exists c key, o = OResetKey c i key)) ->
    step k s o = (s, Rej).
Proof. exact VersionProofs.end_position_rejected. Qed.
Print Assumptions C15_end_position_rejected.

(* An iterator of another container is rejected by Add, Remove, Extract, ResetKey, CheckIterator, range removal. *)
Theorem C15_foreign_handle_rejected :
  forall k s c i o,
    reachable k s -> hcrew (hs s i) = Some (crew (getc s (negb c))) ->
    (exists key, o = OAddAt c i key) \/ o = ORemoveAt c i \/ o = OExtract c i \/ (exists key, o = OResetKey c i key) \/
    (exists a, o = OChk c i a) \/ (k = KTree /\ exists j, o = ORemoveRange c i j \/ o = ORemoveRange c j i) ->
    step k s o = (s, Rej).
Proof. exact VersionProofs.foreign_handle_rejected_reachable. Qed.
Print Assumptions C15_foreign_handle_rejected.

(* Every public member function of HashSet/TreeSet/HashMap/TreeMap/HashMultiMap that the model classifies as
   structurally modifying reaches, in the CURRENT source (table regenerated from the clang AST on every run), a bump of
   each version cell the model says it advances. *)
Theorem C15_all_mutators_bump : forallb TableCheck.mutator_bumps version_table = true.
Proof. exact TableCheck.all_mutators_bump_holds. Qed.
Print Assumptions C15_all_mutators_bump.

(* ... and conversely: const members and the members the model treats as non-modifying (Find, ResetKey, Swap, ...)
   reach no version bump in any instantiation, and every public non-const member is classified by the model. *)
Theorem C15_table_matches_model : forallb TableCheck.row_ok version_table = true.
Proof. exact TableCheck.table_matches_model_holds. Qed.
Print Assumptions C15_table_matches_model.

(* Path-sensitive static pass over the current source of HashSet, TreeSet, HashMap, TreeMap, HashMultiMap and DataTable: no public
   member function has a normal return that is reached after a structural write of a version cell (own structural fields, a
   mutating call on the nested container, mRaws / raw destruction for DataTable) without the bump of that cell on that path. *)
Theorem C15_no_structural_write_without_bump : version_leaks = [].
Proof. exact TableCheck.no_structural_write_without_bump_holds. Qed.
Print Assumptions C15_no_structural_write_without_bump.

(* non-vacuity: a concrete reachable history with a stale, a fresh, an end and a foreign handle *)
Theorem C15_witness_history :
  let ops := [OInsMany false 10 5; OInsMany true 100 3; OFind false 12 1; OFind false 13 2; OEnd false 3; OFind true 100 4;
              OInsert false 99 5] in
  snd (run_out KTree init (ops ++ [ODeref 1; ODeref 5; ODeref 3; OResetKey false 4 100; OChk false 5 false]))
  = [Acc None; Acc None; Acc (Some 1%Z); Acc (Some 1%Z); Acc None; Acc (Some 1%Z); Acc (Some 1%Z);
     Rej; Acc (Some 99%Z); Rej; Rej; Acc None].
Proof. exact VersionProofs.witness_history. Qed.
Print Assumptions C15_witness_history.

(* The pre-fix shape of TreeSetConstIterator::operator++ (leaf nodes did not check index < count; /repo commit ed8da09):
   "an iterator that ++ accepted and Remove/ResetKey then accepts lies inside its node" is refuted for it
   (++end on a 2-item leaf root gives index 3, which passes `iter != GetEnd()`), and holds for the fixed code. *)
Theorem C15_prefix_tree_increment_refuted :
  ~ (forall leaf count idx i', idx <= count -> inc_prefix leaf count idx = Some i' ->
       remove_checks_pass count i' = true -> i' < count).
Proof. exact PreFix.prefix_tree_increment_refuted. Qed.
Print Assumptions C15_prefix_tree_increment_refuted.

Theorem C15_fixed_tree_increment_safe :
  forall leaf count idx i', idx <= count -> inc_fixed leaf count idx = Some i' ->
    remove_checks_pass count i' = true -> i' < count.
Proof. exact PreFix.fixed_tree_increment_safe. Qed.
Print Assumptions C15_fixed_tree_increment_safe.

(* ================= Array with index iterators (external / internal capacity) and SegmentedArray (Arr.v) =================
   Arrays keep no version.  For EVERY history: an index iterator of this array is accepted by * / -> exactly when its
   index is below the CURRENT count (so "invalidated" = the array shrank to or below the index; growing back re-validates
   it), and it then reads the element at that index. *)
Theorem C15_arr_iterator_valid_iff_index_below_count :
  forall s slot ops,
    Arr.aid (Arr.ahs s slot) = Some 0%nat -> Forall (fun o => Arr.awrites o slot = false) ops ->
    let s' := Arr.arun s ops in let i := Arr.aidx (Arr.ahs s slot) in
    ((0 <= i < Arr.cnt s')%Z -> Arr.astep s' (Arr.ADeref slot) = (s', Arr.AAcc (Some (Arr.nthz (Arr.items s') i)))) /\
    (~ (0 <= i < Arr.cnt s')%Z -> Arr.astep s' (Arr.ADeref slot) = (s', Arr.ARej)).
Proof. exact Arr.arr_iterator_valid_iff_index_below_count. Qed.
Print Assumptions C15_arr_iterator_valid_iff_index_below_count.

(* dereferencing the end iterator is rejected (fix 813fdb2) *)
Theorem C15_arr_end_deref_rejected :
  forall s slot, Arr.astep (fst (Arr.astep s (Arr.AEnd slot))) (Arr.ADeref slot) = (fst (Arr.astep s (Arr.AEnd slot)), Arr.ARej).
Proof. exact Arr.arr_end_deref_rejected. Qed.
Print Assumptions C15_arr_end_deref_rejected.

(* iterator arithmetic leaving [0, count], operator[] out of range, Insert/Remove/RemoveBack out of range, the default
   iterator, and difference / comparison with an iterator of another array are rejected; a rejected call changes nothing *)
Theorem C15_arr_advance_out_of_range_rejected :
  forall s slot d, Arr.aid (Arr.ahs s slot) = Some 0%nat -> ~ (0 <= Arr.aidx (Arr.ahs s slot) + d <= Arr.cnt s)%Z ->
    Arr.astep s (Arr.AAdvance slot d) = (s, Arr.ARej).
Proof. exact Arr.arr_advance_out_of_range_rejected. Qed.
Print Assumptions C15_arr_advance_out_of_range_rejected.
Theorem C15_arr_index_out_of_range_rejected :
  forall s i, ~ (0 <= i < Arr.cnt s)%Z -> Arr.astep s (Arr.AIndex i) = (s, Arr.ARej).
Proof. exact Arr.arr_index_out_of_range_rejected. Qed.
Print Assumptions C15_arr_index_out_of_range_rejected.
Theorem C15_arr_bad_range_rejected :
  forall s i n v,
    (~ (0 <= i <= Arr.cnt s)%Z -> Arr.astep s (Arr.AInsert i v) = (s, Arr.ARej)) /\
    (~ (0 <= i /\ 0 <= n /\ i + n <= Arr.cnt s)%Z -> Arr.astep s (Arr.ARemove i n) = (s, Arr.ARej)) /\
    (~ (0 <= n <= Arr.cnt s)%Z -> Arr.astep s (Arr.ARemoveBack n) = (s, Arr.ARej)).
Proof. exact Arr.arr_bad_range_rejected. Qed.
Print Assumptions C15_arr_bad_range_rejected.
Theorem C15_arr_foreign_comparison_rejected :
  forall s s1 s2, Arr.aid (Arr.ahs s s1) = Some 0%nat -> Arr.aid (Arr.ahs s s2) <> Some 0%nat ->
    Arr.astep s (Arr.ADiff s1 s2) = (s, Arr.ARej) /\ Arr.astep s (Arr.ALess s1 s2) = (s, Arr.ARej).
Proof. exact Arr.arr_foreign_comparison_rejected. Qed.
Print Assumptions C15_arr_foreign_comparison_rejected.
Theorem C15_arr_rejected_call_is_identity :
  forall s o s', Arr.astep s o = (s', Arr.ARej) \/ Arr.astep s o = (s', Arr.AExn) -> s' = s.
Proof. exact Arr.arr_rejected_call_is_identity. Qed.
Print Assumptions C15_arr_rejected_call_is_identity.

(* ================= HashMultiMap (MultiMap.v): key version + valueVersion ================= *)
(* a key iterator taken before the key set changed is rejected by read, ++, Add(keyIter,..), Remove(keyIter,i),
   RemoveValues, RemoveKey, ResetKey, MakeIterator *)
Theorem C15_mm_stale_key_iterator_rejected :
  forall s i o, MultiMapProofs.key_stale s (MultiMap.mhs s i) -> MultiMap.kp (MultiMap.mhs s i) <> MultiMap.KUnk ->
    MultiMapProofs.kuses i o -> MultiMap.mstep s o = (s, MultiMap.MRej).
Proof. exact MultiMapProofs.mm_stale_key_iterator_rejected. Qed.
Print Assumptions C15_mm_stale_key_iterator_rejected.
(* a value (pair) iterator is rejected by read, ++, Remove, CheckIterator as soon as EITHER cell moved: valueVersion,
   or the key version through the key iterator it embeds (InsertKey bumps only that one: the f1f44c5 situation) *)
Theorem C15_mm_stale_value_iterator_rejected :
  forall s i o n,
    MultiMapProofs.value_stale s (MultiMap.mhs s i) \/ MultiMapProofs.key_stale s (MultiMap.mhs s i) ->
    MultiMap.vp (MultiMap.mhs s i) = MultiMap.VAt n -> MultiMapProofs.vuses i o -> MultiMap.mstep s o = (s, MultiMap.MRej).
Proof. exact MultiMapProofs.mm_stale_value_iterator_rejected. Qed.
Print Assumptions C15_mm_stale_value_iterator_rejected.
(* for every history from the empty multimap: a key iterator whose snapshot is current still points at a present key
   and reading it is accepted *)
Theorem C15_mm_fresh_key_iterator_accepted :
  forall ops i k, let s := MultiMap.mrun MultiMap.minit ops in
    MultiMap.kcid (MultiMap.mhs s i) = Some 0%nat -> MultiMap.ksnap (MultiMap.mhs s i) = MultiMap.kver s ->
    MultiMap.kp (MultiMap.mhs s i) = MultiMap.KElem k ->
    MultiMap.mstep s (MultiMap.MKDeref i) = (s, MultiMap.MAcc (Some k)) /\ In k (map fst (MultiMap.ents s)).
Proof. exact MultiMapProofs.mm_fresh_key_iterator_accepted. Qed.
Print Assumptions C15_mm_fresh_key_iterator_accepted.
(* the set of keys can change only together with the key version; both versions are monotone; rejected = identity *)
Theorem C15_mm_keys_change_bumps_key_version :
  forall s o, MultiMap.kver (fst (MultiMap.mstep s o)) = MultiMap.kver s ->
    map fst (MultiMap.ents (fst (MultiMap.mstep s o))) = map fst (MultiMap.ents s).
Proof. exact MultiMapProofs.mm_keys_change_bumps_key_version. Qed.
Print Assumptions C15_mm_keys_change_bumps_key_version.
(* Remove(keyIter, valueIndex) with valueIndex >= the key's value count (valueIndex = count is the boundary; index 0 on a key without
   values) is rejected and nothing changes; MakeIterator(keyIter, valueIndex) allows valueIndex = count and rejects anything larger. *)
Theorem C15_mm_value_index_out_of_range_rejected :
  forall s sk idx k vs,
    MultiMap.kderef s (MultiMap.mhs s sk) = Some (Some (k, vs)) ->
    ((List.length vs <= idx)%nat -> MultiMap.mstep s (MultiMap.MRemoveKI sk idx) = (s, MultiMap.MRej)) /\
    ((List.length vs < idx)%nat -> forall slot, MultiMap.kp (MultiMap.mhs s sk) <> MultiMap.KUnk ->
       MultiMap.mstep s (MultiMap.MMakeIt sk idx slot) = (s, MultiMap.MRej)).
Proof. exact MultiMapProofs.mm_value_index_out_of_range_rejected. Qed.
Print Assumptions C15_mm_value_index_out_of_range_rejected.
Theorem C15_mm_value_index_boundary :
  forall s sk k vs,
    MultiMap.kderef s (MultiMap.mhs s sk) = Some (Some (k, vs)) -> MultiMap.kcont s (MultiMap.mhs s sk) true = true -> vs <> [] ->
    MultiMap.mstep s (MultiMap.MRemoveKI sk (List.length vs)) = (s, MultiMap.MRej) /\
    snd (MultiMap.mstep s (MultiMap.MRemoveKI sk (List.length vs - 1))) = MultiMap.MAcc None /\
    MultiMap.vver (fst (MultiMap.mstep s (MultiMap.MRemoveKI sk (List.length vs - 1)))) = S (MultiMap.vver s).
Proof. exact MultiMapProofs.mm_value_index_boundary. Qed.
Print Assumptions C15_mm_value_index_boundary.

Theorem C15_mm_versions_monotone :
  forall ops s, (MultiMap.kver s <= MultiMap.kver (MultiMap.mrun s ops))%nat /\ (MultiMap.vver s <= MultiMap.vver (MultiMap.mrun s ops))%nat.
Proof. exact MultiMapProofs.mm_versions_monotone. Qed.
Print Assumptions C15_mm_versions_monotone.
Theorem C15_mm_rejected_call_is_identity :
  forall s o s', MultiMap.mstep s o = (s', MultiMap.MRej) -> s' = s.
Proof. exact MultiMapProofs.mm_rejected_call_is_identity. Qed.
Print Assumptions C15_mm_rejected_call_is_identity.

(* ================= DataTable row references and selections (Table.v): changeVersion + removeVersion ================= *)
Theorem C15_dt_stale_rejected :
  forall s i o, TableProofs.dt_stale s (Table.ths s i) ->
    (o = Table.TRead i \/ o = Table.TGetNumber i \/ o = Table.TRemoveRef i \/ exists v, o = Table.TUpdateRef i v) ->
    Table.tstep s o = (s, Table.TRej).
Proof. exact TableProofs.dt_stale_rejected. Qed.
Print Assumptions C15_dt_stale_rejected.
(* for every history from the empty table: a row reference (also one taken out of a selection) whose removeVersion
   snapshot is current -- rows may have been added, inserted, items updated since -- refers to a row of the table and
   reading it is accepted *)
Theorem C15_dt_fresh_reference_accepted :
  forall ops i id, let s := Table.trun Table.tinit ops in
    Table.ttid (Table.ths s i) = Some 0%nat -> Table.tsnap (Table.ths s i) = Table.rver s -> Table.tids (Table.ths s i) = [id] ->
    exists v, Table.tstep s (Table.TRead i) = (s, Table.TAcc (Some v)) /\ Table.find_id id (Table.rows s) = Some v.
Proof. exact TableProofs.dt_fresh_reference_accepted. Qed.
Print Assumptions C15_dt_fresh_reference_accepted.
Theorem C15_dt_rows_persist :
  forall s o id, Table.rver (fst (Table.tstep s o)) = Table.rver s -> In id (map fst (Table.rows s)) ->
    In id (map fst (Table.rows (fst (Table.tstep s o)))).
Proof. exact TableProofs.dt_rows_persist. Qed.
Print Assumptions C15_dt_rows_persist.
Theorem C15_dt_foreign_rejected :
  forall s i v, Table.ttid (Table.ths s i) <> Some 0%nat ->
    Table.tstep s (Table.TRemoveRef i) = (s, Table.TRej) /\ Table.tstep s (Table.TUpdateRef i v) = (s, Table.TRej).
Proof. exact TableProofs.dt_foreign_rejected. Qed.
Print Assumptions C15_dt_foreign_rejected.
Theorem C15_dt_out_of_range_rejected :
  forall s i slot v, (Table.tcount s <= i)%nat ->
    Table.tstep s (Table.TRef i slot) = (s, Table.TRej) /\ Table.tstep s (Table.TRemoveNum i) = (s, Table.TRej) /\
    Table.tstep s (Table.TUpdateNum i v) = (s, Table.TRej) /\ Table.tstep s (Table.TInsert (S i) v) = (s, Table.TRej).
Proof. exact TableProofs.dt_out_of_range_rejected. Qed.
Print Assumptions C15_dt_out_of_range_rejected.
Theorem C15_dt_versions_monotone :
  forall ops s, (Table.cver s <= Table.cver (Table.trun s ops))%nat /\ (Table.rver s <= Table.rver (Table.trun s ops))%nat.
Proof. exact TableProofs.dt_versions_monotone. Qed.
Print Assumptions C15_dt_versions_monotone.
Theorem C15_dt_rejected_call_is_identity :
  forall s o s', Table.tstep s o = (s', Table.TRej) -> s' = s.
Proof. exact TableProofs.dt_rejected_call_is_identity. Qed.
Print Assumptions C15_dt_rejected_call_is_identity.

(* ================= Round 4 ================= *)
(* HashMultiMap: for every history from the empty multimap, a value (pair) iterator whose two snapshots are current and which is
   positioned at a value still has its index inside the key's value array; reading it returns that value and ++ is accepted. *)
Theorem C15_mm_fresh_value_iterator_accepted :
  forall ops i k n, let s := MultiMap.mrun MultiMap.minit ops in
    MultiMap.kcid (MultiMap.mhs s i) = Some 0%nat -> MultiMap.vcid (MultiMap.mhs s i) = Some 0%nat ->
    MultiMap.ksnap (MultiMap.mhs s i) = MultiMap.kver s -> MultiMap.vsnap (MultiMap.mhs s i) = MultiMap.vver s ->
    MultiMap.kp (MultiMap.mhs s i) = MultiMap.KElem k -> MultiMap.vp (MultiMap.mhs s i) = MultiMap.VAt n ->
    exists vs, MultiMap.lookup k (MultiMap.ents s) = Some vs /\ (n < List.length vs)%nat /\
               MultiMap.mstep s (MultiMap.MVDeref i) = (s, MultiMap.MAcc (Some (nth n vs 0%Z))) /\
               snd (MultiMap.mstep s (MultiMap.MVInc i)) = MultiMap.MAcc None.
Proof. exact MultiMapProofs.mm_fresh_value_iterator_accepted. Qed.
Print Assumptions C15_mm_fresh_value_iterator_accepted.
Theorem C15_mm_contents_change_bumps :
  forall s o, MultiMap.kver (fst (MultiMap.mstep s o)) = MultiMap.kver s -> MultiMap.vver (fst (MultiMap.mstep s o)) = MultiMap.vver s ->
    MultiMap.ents (fst (MultiMap.mstep s o)) = MultiMap.ents s.
Proof. exact MultiMapProofs.mm_contents_change_bumps. Qed.
Print Assumptions C15_mm_contents_change_bumps.

(* THE EXACT ACCEPTED-SET OF THE CODE.  A handle to an element (not re-assigned meanwhile) is accepted by a read IF AND ONLY IF no
   version-bumping step ran since it was taken (steps_keep: every step of the history kept the version of its container), and is
   rejected iff some step bumped it.  The property's own reading ("accepted iff the container was not modified") is WEAKER on the
   accepting side: the three *_noop_*_invalidates theorems below exhibit entry points that change nothing and still bump. *)
Theorem C15_accepted_iff_no_bump :
  forall k s c i key ops,
    reachable k s -> hcrew (hs s i) = Some (crew (getc s c)) -> hsnap (hs s i) = ver (getc s c) -> hpos (hs s i) = PElem key ->
    Forall (fun o => writes o i = false) ops ->
    let s' := run k s ops in
    (step k s' (ODeref i) = (s', Acc (Some key)) <-> steps_keep k s ops (crew (getc s c))) /\
    (step k s' (ODeref i) = (s', Rej) <-> ~ steps_keep k s ops (crew (getc s c))).
Proof. exact VersionProofs.accepted_iff_no_bump. Qed.
Print Assumptions C15_accepted_iff_no_bump.
Theorem C15_dt_accepted_iff_remove_version_unchanged :
  forall ops i id, let s := Table.trun Table.tinit ops in
    Table.ttid (Table.ths s i) = Some 0%nat -> Table.tids (Table.ths s i) = [id] ->
    ((exists v, Table.tstep s (Table.TRead i) = (s, Table.TAcc (Some v))) <-> Table.tsnap (Table.ths s i) = Table.rver s) /\
    (Table.tstep s (Table.TRead i) = (s, Table.TRej) <-> Table.tsnap (Table.ths s i) <> Table.rver s).
Proof. exact TableProofs.dt_accepted_iff_remove_version_unchanged. Qed.
Print Assumptions C15_dt_accepted_iff_remove_version_unchanged.
Theorem C15_mm_value_iterator_accepted_iff_versions_unchanged :
  forall ops i k n, let s := MultiMap.mrun MultiMap.minit ops in
    MultiMap.kcid (MultiMap.mhs s i) = Some 0%nat -> MultiMap.vcid (MultiMap.mhs s i) = Some 0%nat ->
    MultiMap.kp (MultiMap.mhs s i) = MultiMap.KElem k -> MultiMap.vp (MultiMap.mhs s i) = MultiMap.VAt n ->
    ((exists v, MultiMap.mstep s (MultiMap.MVDeref i) = (s, MultiMap.MAcc (Some v))) <->
       (MultiMap.ksnap (MultiMap.mhs s i) = MultiMap.kver s /\ MultiMap.vsnap (MultiMap.mhs s i) = MultiMap.vver s)) /\
    (MultiMap.mstep s (MultiMap.MVDeref i) = (s, MultiMap.MRej) <->
       ~ (MultiMap.ksnap (MultiMap.mhs s i) = MultiMap.kver s /\ MultiMap.vsnap (MultiMap.mhs s i) = MultiMap.vver s)).
Proof. exact MultiMapProofs.mm_value_iterator_accepted_iff_versions_unchanged. Qed.
Print Assumptions C15_mm_value_iterator_accepted_iff_versions_unchanged.

(* Over-invalidation witnesses (the weaker reading "contents unchanged => still accepted" is refuted by the code): *)
Theorem C15_noop_clear_invalidates :
  let pre := [OInsert false 5 0; ORemoveKey false 5; OFind false 7 1] in
  keys (w0 (run KHash init pre)) = keys (w0 (run KHash init (pre ++ [OClear false false]))) /\
  snd (step KHash (run KHash init pre) (OAddAt false 1 7)) = Acc None /\
  snd (step KHash (run KHash init (pre ++ [OClear false false])) (OAddAt false 1 7)) = Rej.
Proof. exact VersionProofs.noop_clear_invalidates. Qed.
Print Assumptions C15_noop_clear_invalidates.
Theorem C15_dt_noop_remove_filter_invalidates :
  let pre := [Table.TAddRow 5; Table.TAddRow 6; Table.TRef 0 0] in
  Table.rows (Table.trun Table.tinit pre) = Table.rows (Table.trun Table.tinit (pre ++ [Table.TRemoveIf 1000003])) /\
  snd (Table.tstep (Table.trun Table.tinit pre) (Table.TRead 0)) = Table.TAcc (Some 5%Z) /\
  snd (Table.tstep (Table.trun Table.tinit (pre ++ [Table.TRemoveIf 1000003])) (Table.TRead 0)) = Table.TRej.
Proof. exact TableProofs.dt_noop_remove_filter_invalidates. Qed.
Print Assumptions C15_dt_noop_remove_filter_invalidates.
Theorem C15_mm_noop_remove_values_invalidates :
  let pre := [MultiMap.MInsertKey 1 0; MultiMap.MAdd 2 20 10; MultiMap.MFind 1 1; MultiMap.MFind 2 2; MultiMap.MMakeIt 2 0 11] in
  MultiMap.ents (MultiMap.mrun MultiMap.minit pre) = MultiMap.ents (MultiMap.mrun MultiMap.minit (pre ++ [MultiMap.MRemoveValues 1])) /\
  snd (MultiMap.mstep (MultiMap.mrun MultiMap.minit pre) (MultiMap.MVDeref 11)) = MultiMap.MAcc (Some 20%Z) /\
  snd (MultiMap.mstep (MultiMap.mrun MultiMap.minit (pre ++ [MultiMap.MRemoveValues 1])) (MultiMap.MVDeref 11)) = MultiMap.MRej.
Proof. exact MultiMapProofs.mm_noop_remove_values_invalidates. Qed.
Print Assumptions C15_mm_noop_remove_values_invalidates.

(* DataSelection handles (selections, selections of selections, sorted / reversed / trimmed selections keep the keeper they were
   created with): stale => Sort(column) rejected; stale and non-empty => iteration, selection-of-selection with a reading filter and
   table.Remove(sel.begin, sel.end) rejected, nothing changes; for every history a selection with a current snapshot contains only
   rows of the table and iterating it is accepted. *)
Theorem C15_dt_stale_selection_rejected :
  forall s i m slot, TableProofs.dt_stale s (Table.ths s i) -> Table.tissel (Table.ths s i) = true -> m <> 0%Z ->
    Table.tstep s (Table.TSelSort i) = (s, Table.TRej) /\
    (Table.tids (Table.ths s i) <> [] ->
       Table.tstep s (Table.TSelSum i) = (s, Table.TRej) /\ Table.tstep s (Table.TSelOfSel i m slot) = (s, Table.TRej) /\
       Table.tstep s (Table.TRemoveSel i) = (s, Table.TRej)).
Proof. exact TableProofs.dt_stale_selection_rejected. Qed.
Print Assumptions C15_dt_stale_selection_rejected.
Theorem C15_dt_fresh_selection_accepted :
  forall ops i, let s := Table.trun Table.tinit ops in
    Table.ttid (Table.ths s i) = Some 0%nat -> Table.tsnap (Table.ths s i) = Table.rver s -> Table.tissel (Table.ths s i) = true ->
    (forall id, In id (Table.tids (Table.ths s i)) -> In id (map fst (Table.rows s))) /\
    exists v, Table.tstep s (Table.TSelSum i) = (s, Table.TAcc (Some v)).
Proof. exact TableProofs.dt_fresh_selection_accepted. Qed.
Print Assumptions C15_dt_fresh_selection_accepted.

(* ================= Round 5: theorems about the REAL guard expressions (cxx2coq-regenerated from /repo on every run) =================
   Each Gen_* function is the prefix of the C++ function up to and including its MOMO_CHECKs, in exception mode (checkMode = 2);
   Exn = the exception is thrown BEFORE the first write of the function ("a rejected call never reaches a write"), arithmetic is the
   real 64-bit arithmetic. *)
(* ArrayShifter::Remove (Array::Remove, SegmentedArray::Remove) and DataSelection::Remove(index, count): accepted exactly when the
   MATHEMATICAL index + count is within the size, for all 64-bit arguments (no overflow hole; fix bcbf078) *)
Theorem C15_gen_remove_guard_exact :
  forall cnt index count, GuardProofs.U64 cnt -> GuardProofs.U64 index -> GuardProofs.U64 count ->
    Gen_ArrayShifter.Remove_guard cnt index count = if (index + count <=? cnt)%Z then Ok cnt else Exn.
Proof. exact GuardProofs.remove_guard_exact. Qed.
Print Assumptions C15_gen_remove_guard_exact.
Theorem C15_gen_selection_remove_guard_exact :
  forall cnt index count, GuardProofs.U64 cnt -> GuardProofs.U64 index -> GuardProofs.U64 count ->
    Gen_SelectionGuards.SelRemove_guard cnt index count = if (index + count <=? cnt)%Z then Ok tt else Exn.
Proof. exact GuardProofs.selection_remove_guard_exact. Qed.
Print Assumptions C15_gen_selection_remove_guard_exact.
(* Array::Insert(index, count, item): a count with size + count > SIZE_MAX is refused before anything is touched (fix c5d1be1) *)
Theorem C15_gen_insertn_guard_exact :
  forall cnt index count, GuardProofs.U64 cnt -> GuardProofs.U64 count ->
    Gen_ArrayGuards.InsertN_guard cnt index count = if (cnt + count <=? 2 ^ 64 - 1)%Z then Ok (cnt + count)%Z else Exn.
Proof. exact GuardProofs.insertn_guard_exact. Qed.
Print Assumptions C15_gen_insertn_guard_exact.
(* HashMultiMap::Remove(keyIter, valueIndex): valueIndex >= count (count itself included) is rejected *)
Theorem C15_gen_mm_remove_value_index_guard_exact :
  forall cnt i, Gen_MultiMapGuards.RemoveKI_guard cnt i = if (i <? cnt)%Z then Ok tt else Exn.
Proof. exact GuardProofs.mm_remove_value_index_guard_exact. Qed.
Print Assumptions C15_gen_mm_remove_value_index_guard_exact.
(* operator[] of Array, RemoveBack, DataTable row numbers (operator[], Update(rowNumber,row): <; Insert: <=), selection operator[] *)
Theorem C15_gen_index_guard_exact :
  forall cnt i, Gen_ArrayGuards.Index_guard cnt i = if (i <? cnt)%Z then Ok tt else Exn.
Proof. exact GuardProofs.index_guard_exact. Qed.
Print Assumptions C15_gen_index_guard_exact.
Theorem C15_gen_removeback_guard_exact :
  forall cnt n, Gen_ArrayGuards.RemoveBack_guard cnt n = if (n <=? cnt)%Z then Ok tt else Exn.
Proof. exact GuardProofs.removeback_guard_exact. Qed.
Print Assumptions C15_gen_removeback_guard_exact.
Theorem C15_gen_table_guards_exact :
  forall cnt i,
    Gen_TableGuards.Row_guard cnt i = (if (i <? cnt)%Z then Ok tt else Exn) /\
    Gen_TableGuards.TryUpdateNum_guard cnt i = (if (i <? cnt)%Z then Ok tt else Exn) /\
    Gen_TableGuards.TryInsert_guard cnt i = (if (i <=? cnt)%Z then Ok tt else Exn) /\
    Gen_SelectionGuards.SelIndex_guard cnt i = (if (i <? cnt)%Z then Ok tt else Exn).
Proof. exact GuardProofs.table_guards_exact. Qed.
Print Assumptions C15_gen_table_guards_exact.
(* ArrayIndexIterator::operator+= with the real size_t / ptrdiff_t conversions: accepted exactly when index + diff stays in [0, count];
   it is the only writer of mIndex and whatever it writes is in range (frame); operator-> needs an attached iterator below the count *)
Theorem C15_gen_arrit_advance_exact :
  forall (count_of : Z -> Z) mArray mIndex diff,
    mArray <> 0%Z -> (0 <= mIndex <= count_of mArray)%Z -> (count_of mArray < 2 ^ 63)%Z -> (- 2 ^ 63 <= diff < 2 ^ 63)%Z ->
    Gen_ArrayIndexIterator.op_add_assign count_of mArray mIndex diff =
      if ((0 <=? mIndex + diff) && (mIndex + diff <=? count_of mArray))%Z then Ok (tt, (mIndex + diff)%Z) else Exn.
Proof. exact GuardProofs.arrit_advance_exact. Qed.
Print Assumptions C15_gen_arrit_advance_exact.
Theorem C15_gen_arrit_advance_preserves_range :
  forall (count_of : Z -> Z) mArray mIndex diff i',
    mArray <> 0%Z -> Gen_ArrayIndexIterator.op_add_assign count_of mArray mIndex diff = Ok (tt, i') -> (0 <= i' <= count_of mArray)%Z.
Proof. exact GuardProofs.arrit_advance_preserves_range. Qed.
Print Assumptions C15_gen_arrit_advance_preserves_range.
Theorem C15_gen_arrit_deref_exact :
  forall (count_of : Z -> Z) mArray mIndex,
    Gen_ArrayIndexIterator.op_arrow count_of mArray mIndex = if (negb (mArray =? 0) && (mIndex <? count_of mArray))%Z then Ok tt else Exn.
Proof. exact GuardProofs.arrit_deref_exact. Qed.
Print Assumptions C15_gen_arrit_deref_exact.
(* refinement: the hand model's AAdvance (Arr.v) IS the generated operator+= for an iterator of the array *)
Theorem C15_arr_model_advance_is_generated :
  forall s slot d,
    Arr.aid (Arr.ahs s slot) = Some 0%nat -> (0 <= Arr.aidx (Arr.ahs s slot) <= Arr.cnt s)%Z -> (Arr.cnt s < 2 ^ 63)%Z -> (- 2 ^ 63 <= d < 2 ^ 63)%Z ->
    match Gen_ArrayIndexIterator.op_add_assign (fun _ => Arr.cnt s) 1%Z (Arr.aidx (Arr.ahs s slot)) d with
    | Ok (_, i') => Arr.astep s (Arr.AAdvance slot d) = (Arr.aset s slot (Arr.mkAH (Some 0%nat) i'), Arr.AAcc None)
    | Exn => Arr.astep s (Arr.AAdvance slot d) = (s, Arr.ARej)
    | _ => False
    end.
Proof. exact GuardProofs.arr_model_advance_is_generated. Qed.
Print Assumptions C15_arr_model_advance_is_generated.
(* TreeSetConstIterator::operator++ / operator->: accepted only with a node and an index BELOW the node's count, for leaf and internal
   nodes alike (fix ed8da09); both operators share one guard *)
Theorem C15_gen_tree_inc_guard_exact :
  forall (node_count : Z -> Z) mNode idx,
    Gen_TreeIterator.Inc_guard node_count mNode idx = if (negb (mNode =? 0) && (idx <? node_count mNode))%Z then Ok tt else Exn.
Proof. exact GuardProofs.tree_inc_guard_exact. Qed.
Print Assumptions C15_gen_tree_inc_guard_exact.
Theorem C15_gen_tree_inc_arrow_same_code : Gen_TreeIterator.Inc_guard = Gen_TreeIterator.Arrow_guard.
Proof. exact GuardProofs.tree_inc_arrow_same_code. Qed.
Print Assumptions C15_gen_tree_inc_arrow_same_code.
(* VersionKeeper::Check() and Check(version, allowEmpty) ARE the hand model's chk_self / chk_cont on the abstraction
   "the version cell of crew cr is at address cr + 1 and holds the crew's current version": so the model's "accepted handle is current"
   theorems are statements about the real comparison `mContainerVersion != nullptr && *mContainerVersion == mVersion` *)
Theorem C15_keeper_check_self_is_model :
  forall s h, Gen_VersionKeeper.Check_self (GuardProofs.mem_of s) (GuardProofs.ptr_of h) (Z.of_nat (hsnap h)) = if chk_self s h then Ok tt else Exn.
Proof. exact GuardProofs.keeper_check_self_is_model. Qed.
Print Assumptions C15_keeper_check_self_is_model.
Theorem C15_keeper_check_cont_is_model :
  forall s c h allowEmpty, Inv s ->
    Gen_VersionKeeper.Check_cont (GuardProofs.mem_of s) (GuardProofs.ptr_of h) (Z.of_nat (hsnap h)) (GuardProofs.addr (crew (getc s c))) allowEmpty =
      if chk_cont (getc s c) h allowEmpty then Ok tt else Exn.
Proof. exact GuardProofs.keeper_check_cont_is_model. Qed.
Print Assumptions C15_keeper_check_cont_is_model.
Theorem C15_keeper_checks_never_stuck :
  forall (mem : Z -> Z) p snap q allowEmpty,
    Gen_VersionKeeper.Check_self mem p snap <> Stuck /\ (q <> 0%Z -> Gen_VersionKeeper.Check_cont mem p snap q allowEmpty <> Stuck).
Proof. exact GuardProofs.keeper_checks_never_stuck. Qed.
Print Assumptions C15_keeper_checks_never_stuck.
(* same code: the selection's range guard is the shifter's; all "index < count" guards are one expression *)
Theorem C15_gen_selection_remove_same_guard :
  forall cnt index count,
    Gen_SelectionGuards.SelRemove_guard cnt index count =
      match Gen_ArrayShifter.Remove_guard cnt index count with Ok _ => Ok tt | Stuck => Stuck | Fuel => Fuel | Exn => Exn end.
Proof. exact GuardProofs.selection_remove_same_guard. Qed.
Print Assumptions C15_gen_selection_remove_same_guard.
Theorem C15_gen_index_guards_same_code :
  forall cnt i,
    Gen_ArrayGuards.Index_guard cnt i = Gen_TableGuards.Row_guard cnt i /\ Gen_TableGuards.Row_guard cnt i = Gen_TableGuards.TryUpdateNum_guard cnt i /\
    Gen_TableGuards.Row_guard cnt i = Gen_SelectionGuards.SelIndex_guard cnt i /\ Gen_TableGuards.Row_guard cnt i = Gen_MultiMapGuards.RemoveKI_guard cnt i.
Proof. exact GuardProofs.index_guards_same_code. Qed.
Print Assumptions C15_gen_index_guards_same_code.

(* ================= Grow round 2 ================= *)
(* Generated per-path facts (vtable.py PathPass over the clang AST of the current headers -> path_facts, one row per public member function
   instantiation of HashSet / TreeSet / HashMap / TreeMap / HashMultiMap / DataTable: the abstract states (cells structurally written,
   cells bumped) in which a NORMAL return is reachable):
   (1) on every path to a normal return every structurally written cell was bumped (an early return before IncVersion breaks this);
   (2) every member the model classifies as a mutator has a normal return on which all its cells were bumped;
   (3) const members and the model's non-modifying members write nothing and bump nothing on any path. *)
Theorem C15_all_return_paths_bump : forallb TableCheck.path_row_ok path_facts = true.
Proof. exact TableCheck.all_return_paths_bump_holds. Qed.
Print Assumptions C15_all_return_paths_bump.
Theorem C15_every_mutator_has_a_bumping_return : forallb TableCheck.path_row_mutates path_facts = true.
Proof. exact TableCheck.every_mutator_has_a_bumping_return_holds. Qed.
Print Assumptions C15_every_mutator_has_a_bumping_return.
Theorem C15_nonmutators_never_write_or_bump : forallb TableCheck.path_row_pure path_facts = true.
Proof. exact TableCheck.nonmutators_never_write_or_bump_holds. Qed.
Print Assumptions C15_nonmutators_never_write_or_bump.

(* SegmentedArray's own guard prefixes (pvGetItem = operator[], RemoveBack, Insert(index,count,item)), regenerated by cxx2coq *)
Theorem C15_gen_segmented_guards_exact :
  forall mCount x,
    Gen_SegmentedArrayGuards.SegIndex_guard mCount x = (if (x <? mCount)%Z then Ok tt else Exn) /\
    Gen_SegmentedArrayGuards.SegRemoveBack_guard mCount x = (if (x <=? mCount)%Z then Ok tt else Exn) /\
    (GuardProofs.U64 mCount -> GuardProofs.U64 x -> forall index,
       Gen_SegmentedArrayGuards.SegInsertN_guard mCount index x = if (mCount + x <=? 2 ^ 64 - 1)%Z then Ok tt else Exn).
Proof. exact GuardProofs.segmented_guards_exact. Qed.
Print Assumptions C15_gen_segmented_guards_exact.
Theorem C15_gen_segmented_index_same_code :
  forall c i, Gen_SegmentedArrayGuards.SegIndex_guard c i = Gen_ArrayGuards.Index_guard c i /\
              Gen_SegmentedArrayGuards.SegRemoveBack_guard c i = Gen_ArrayGuards.RemoveBack_guard c i.
Proof. exact GuardProofs.segmented_same_code. Qed.
Print Assumptions C15_gen_segmented_index_same_code.

(* Assignment in the hand model.  Move-assignment: afterwards the destination IS the source (same version cell, version, contents); every
   handle of the source is untouched and exactly as valid for the destination as it was for the source; the re-created source is empty with
   a fresh cell.  Copy-assignment: source and its handles untouched, the destination is a new container (fresh cell, version 0, same keys),
   to which the source's handles are foreign.  In both cases the handles into the destination's destroyed version cell are dropped
   (using them would be a use-after-free: outside the claim). *)
Theorem C15_move_assign_source_handles_follow :
  forall k s src i, Inv s -> hcrew (hs s i) = Some (crew (getc s src)) ->
    let s' := fst (step k s (OMoveAssign src)) in
    getc s' (negb src) = getc s src /\ hs s' i = hs s i /\ keys (getc s' src) = [] /\ crew (getc s' src) = newcrew s /\
    chk_self s' (hs s' i) = chk_self s (hs s i) /\ (forall a, chk_cont (getc s' (negb src)) (hs s' i) a = chk_cont (getc s src) (hs s i) a).
Proof. exact VersionProofs.move_assign_source_handles_follow. Qed.
Print Assumptions C15_move_assign_source_handles_follow.
Theorem C15_copy_assign_source_unchanged :
  forall k s src i a, Inv s -> hcrew (hs s i) = Some (crew (getc s src)) ->
    let s' := fst (step k s (OCopyAssign src)) in
    getc s' src = getc s src /\ hs s' i = hs s i /\ keys (getc s' (negb src)) = keys (getc s src) /\ ver (getc s' (negb src)) = 0%nat /\
    chk_cont (getc s' (negb src)) (hs s' i) a = false.
Proof. exact VersionProofs.copy_assign_source_unchanged. Qed.
Print Assumptions C15_copy_assign_source_unchanged.
Theorem C15_assign_target_handles_dropped :
  forall k s src i o, Inv s -> (o = OMoveAssign src \/ o = OCopyAssign src) -> hcrew (hs s i) = Some (crew (getc s (negb src))) ->
    hs (fst (step k s o)) i = hnull.
Proof. exact VersionProofs.assign_target_handles_dropped. Qed.
Print Assumptions C15_assign_target_handles_dropped.

(* ================= Grow round 3 ================= *)
(* fix f1f44c5 as a generated fact: from no client-visible operator of a handle class is a noexcept member reachable that calls a checked
   (may-throw) handle operation -- the exception-mode report can always reach the client *)
Theorem C15_no_noexcept_on_checked_paths : noexcept_checked_paths = [] /\ Nat.leb 10 client_operators_scanned = true.
Proof. exact TableCheck.no_noexcept_on_checked_paths_holds. Qed.
Print Assumptions C15_no_noexcept_on_checked_paths.
(* fix f5d4e4e as a generated fact: the range entry points check every row reference, the column sort / group / bounds of a selection check
   its keeper first *)
Theorem C15_stale_check_sites : forallb (fun r => snd r) stale_check_sites = true /\ Nat.leb 9 (List.length stale_check_sites) = true.
Proof. exact TableCheck.stale_check_sites_hold. Qed.
Print Assumptions C15_stale_check_sites.
(* DataRawIterator (iterators of a DataSelection): operator+= exact for every ptrdiff_t diff (modular 64-bit sum, fix e44962b), the same
   code as ArrayIndexIterator::operator+=; operator-> needs attached raws and an index below their count *)
Theorem C15_gen_rawit_advance_exact :
  forall (count_of : Z -> Z) idx diff raws,
    raws <> 0%Z -> (0 <= idx <= count_of raws)%Z -> (count_of raws < 2 ^ 63)%Z -> (- 2 ^ 63 <= diff < 2 ^ 63)%Z ->
    Gen_DataRawIterator.raw_add_assign idx count_of diff raws =
      if ((0 <=? idx + diff) && (idx + diff <=? count_of raws))%Z then Ok (idx + diff)%Z else Exn.
Proof. exact GuardProofs.rawit_advance_exact. Qed.
Print Assumptions C15_gen_rawit_advance_exact.
Theorem C15_gen_rawit_advance_same_code :
  forall (count_of : Z -> Z) idx diff raws,
    Gen_DataRawIterator.raw_add_assign idx count_of diff raws =
      match Gen_ArrayIndexIterator.op_add_assign count_of raws idx diff with Ok (_, i) => Ok i | Stuck => Stuck | Fuel => Fuel | Exn => Exn end.
Proof. exact GuardProofs.rawit_advance_same_code. Qed.
Print Assumptions C15_gen_rawit_advance_same_code.
Theorem C15_gen_rawit_deref_exact :
  forall (count_of : Z -> Z) idx raws,
    Gen_DataRawIterator.raw_arrow idx count_of raws = if (negb (raws =? 0) && (idx <? count_of raws))%Z then Ok tt else Exn.
Proof. exact GuardProofs.rawit_deref_exact. Qed.
Print Assumptions C15_gen_rawit_deref_exact.

(* ---------- grow round 4: DataTable index look-up handles (FindByMultiHash bounds) ---------- *)
(* generated code: DataRawMultiHashIterator::operator+= / operator-> (whole bodies; exception mode; real ptrdiff_t / size_t arithmetic) *)
Theorem C15_gen_multihash_advance_exact :
  forall r0 rb i cnt d, (0 <= i < 2 ^ 63)%Z -> (- 2 ^ 63 <= d < 2 ^ 63)%Z ->
    Gen_MultiHashIterator.mh_add_assign r0 rb i cnt d =
      if (d =? 0)%Z then Ok (tt, i) else if GuardProofs.mh_accepts r0 rb i cnt d then Ok (tt, (i + d)%Z) else Exn.
Proof. exact GuardProofs.mh_advance_exact. Qed.
Print Assumptions C15_gen_multihash_advance_exact.
Theorem C15_gen_multihash_advance_within_count :
  forall r0 rb i cnt d, (0 <= i <= cnt)%Z -> (- 2 ^ 63 <= d < 2 ^ 63)%Z -> d <> 0%Z -> (0 <= cnt < 2 ^ 63)%Z ->
    (rb = 0%Z <-> (cnt <= 1)%Z) -> (r0 = 0%Z <-> cnt = 0%Z) ->
    Gen_MultiHashIterator.mh_add_assign r0 rb i cnt d = if ((0 <=? i + d) && (i + d <=? cnt))%Z then Ok (tt, (i + d)%Z) else Exn.
Proof. exact GuardProofs.mh_advance_within_count. Qed.
Print Assumptions C15_gen_multihash_advance_within_count.
Theorem C15_gen_multihash_advance_frame :
  forall r0 rb i cnt d j, (0 <= i < 2 ^ 63)%Z -> (- 2 ^ 63 <= d < 2 ^ 63)%Z -> Gen_MultiHashIterator.mh_add_assign r0 rb i cnt d = Ok (tt, j) ->
    j = (i + d)%Z /\ (0 <= j)%Z /\ (d <> 0%Z -> r0 <> 0%Z /\ (j <= cnt)%Z) /\ (rb = 0%Z -> d <> 0%Z -> (j <= 1)%Z).
Proof. exact GuardProofs.mh_advance_frame. Qed.
Print Assumptions C15_gen_multihash_advance_frame.
Theorem C15_gen_multihash_deref_exact :
  forall r0 rb i cnt, (0 <= i < 2 ^ 63)%Z ->
    Gen_MultiHashIterator.mh_arrow r0 rb i cnt =
      if ((i <? cnt)%Z && (if (i >? 0)%Z then negb (rb =? 0)%Z else negb (r0 =? 0)%Z)) then Ok tt else Exn.
Proof. exact GuardProofs.mh_deref_exact. Qed.
Print Assumptions C15_gen_multihash_deref_exact.
(* the defect reported in this round (end / past-the-end iterator of FindByMultiHash bounds accepted) cannot come back unnoticed *)
Theorem C15_gen_multihash_end_rejected :
  forall r0 rb i cnt, (0 <= i < 2 ^ 63)%Z -> (cnt <= i)%Z -> Gen_MultiHashIterator.mh_arrow r0 rb i cnt = Exn.
Proof. exact GuardProofs.mh_end_rejected. Qed.
Print Assumptions C15_gen_multihash_end_rejected.
Theorem C15_gen_multihash_past_end_unreachable :
  forall r0 rb i cnt d, (0 <= i < 2 ^ 63)%Z -> (- 2 ^ 63 <= d < 2 ^ 63)%Z -> d <> 0%Z -> (cnt < i + d)%Z ->
    Gen_MultiHashIterator.mh_add_assign r0 rb i cnt d = Exn.
Proof. exact GuardProofs.mh_past_end_unreachable. Qed.
Print Assumptions C15_gen_multihash_past_end_unreachable.
(* hand model Table.v: exact accepted set of reads through index bounds, for every history *)
Theorem C15_dt_bounds_accepted_iff_change_version_unchanged :
  forall ops slot j, let s := Table.trun Table.tinit ops in
    Table.bok (Table.tbs s slot) = true -> (j < List.length (Table.bids (Table.tbs s slot)))%nat ->
    (Table.tstep s (Table.TBoundsAt slot j) = (s, Table.TAcc (Some (Table.bval (Table.tbs s slot)))) <->
       Table.bcsnap (Table.tbs s slot) = Table.cver s) /\
    (Table.bcsnap (Table.tbs s slot) <> Table.cver s ->
       Table.tstep s (Table.TBoundsAt slot j) = (s, Table.TRej) /\ Table.tstep s (Table.TBoundsSum slot) = (s, Table.TRej)).
Proof. exact TableProofs.dt_bounds_accepted_iff_change_version_unchanged. Qed.
Print Assumptions C15_dt_bounds_accepted_iff_change_version_unchanged.
Theorem C15_dt_current_bounds_rows_live :
  forall ops slot id, let s := Table.trun Table.tinit ops in
    Table.bok (Table.tbs s slot) = true -> Table.bcsnap (Table.tbs s slot) = Table.cver s ->
    In id (Table.bids (Table.tbs s slot)) -> In (id, Table.bval (Table.tbs s slot)) (Table.rows s).
Proof. exact TableProofs.dt_current_bounds_rows_live. Qed.
Print Assumptions C15_dt_current_bounds_rows_live.
Theorem C15_dt_bounds_out_of_range_rejected :
  forall s slot j, Table.bok (Table.tbs s slot) = true -> (List.length (Table.bids (Table.tbs s slot)) <= j)%nat ->
    Table.tstep s (Table.TBoundsAt slot j) = (s, Table.TRej).
Proof. exact TableProofs.dt_bounds_out_of_range_rejected. Qed.
Print Assumptions C15_dt_bounds_out_of_range_rejected.
Theorem C15_dt_addrow_invalidates_bounds_not_references :
  snd (Table.trun_out Table.tinit [Table.TAddRow 5; Table.TAddRow 5; Table.TFindMulti 5 20; Table.TRef 0 0; Table.TBoundsAt 20 1; Table.TAddRow 6;
                                   Table.TBoundsAt 20 1; Table.TBoundsSum 20; Table.TRead 0; Table.TBoundsCount 20]) =
  [Table.TAcc None; Table.TAcc None; Table.TAcc (Some 2%Z); Table.TAcc None; Table.TAcc (Some 5%Z); Table.TAcc None; Table.TRej; Table.TRej;
   Table.TAcc (Some 5%Z); Table.TAcc (Some 2%Z)].
Proof. exact TableProofs.dt_addrow_invalidates_bounds_not_references. Qed.
Print Assumptions C15_dt_addrow_invalidates_bounds_not_references.

(* ---------- review round: exports ---------- *)
(* ArrayShifter::InsertNogrow index guard (generated) *)
Theorem C15_gen_insert_nogrow_index_guard_exact :
  forall cnt index count, Gen_ArrayShifter.InsertNogrow_guard cnt index count = if (index <=? cnt)%Z then Ok cnt else Exn.
Proof. exact GuardProofs.insert_index_guard_exact. Qed.
Print Assumptions C15_gen_insert_nogrow_index_guard_exact.
(* the generated tables the vm_compute theorems range over are not trivially small *)
Theorem C15_path_facts_at_least_300 : Nat.leb 300 (List.length path_facts) = true.
Proof. exact TableCheck.path_facts_nonempty. Qed.
Print Assumptions C15_path_facts_at_least_300.
Theorem C15_mutator_rows_at_least_40 : Nat.leb 40 (List.length TableCheck.mutator_rows) = true.
Proof. exact TableCheck.mutator_rows_nonempty. Qed.
Print Assumptions C15_mutator_rows_at_least_40.
(* generated fact about the hand-set prefix cuts: nothing before a cut writes, only size / position queries and the keeper check are called *)
Theorem C15_guard_prefixes_write_free :
  forallb TableCheck.prefix_row_ok guard_prefix_facts = true /\ Nat.leb 19 (List.length guard_prefix_facts) = true.
Proof. exact TableCheck.guard_prefixes_write_free. Qed.
Print Assumptions C15_guard_prefixes_write_free.
(* set/map hand model: any change of the contents of a container comes with a change of its version (every reachable state, every
   history without assignments; the container is identified by its version cell `cr`) *)
Theorem C15_contents_change_bumps_version :
  forall k s ops cr v, reachable k s -> Forall (fun o => is_assign o = false) ops -> ver_of_crew s cr = Some v ->
    ver_of_crew (run k s ops) cr = Some v -> keys (owner (run k s ops) cr) = keys (owner s cr).
Proof. exact VersionProofs.contents_change_bumps_version. Qed.
Print Assumptions C15_contents_change_bumps_version.
(* `Inv` (hypothesis of C15_keeper_check_cont_is_model and of the three assignment theorems) holds in every reachable state *)
Theorem C15_inv_established :
  Inv init /\ (forall k s o, Inv s -> Inv (fst (step k s o))) /\ (forall k s, reachable k s -> Inv s).
Proof. exact VersionProofs.inv_established. Qed.
Print Assumptions C15_inv_established.

(* ---------- final round: HashMultiMap::MakeIterator(keyIter, valueIndex) bound under generated code ---------- *)
Theorem C15_gen_mm_make_iterator_guard_exact :
  forall cnt i, Gen_MultiMapGuards.MakeIt_guard cnt i = if (i <=? cnt)%Z then Ok tt else Exn.
Proof. exact GuardProofs.mm_make_iterator_guard_exact. Qed.
Print Assumptions C15_gen_mm_make_iterator_guard_exact.
Theorem C15_mm_model_makeit_is_generated :
  forall s sk idx slot k vs,
    (forall z, MultiMap.kp (MultiMap.mhs s sk) <> MultiMap.KGap z \/ idx <> O) -> MultiMap.kp (MultiMap.mhs s sk) <> MultiMap.KUnk ->
    MultiMap.kcont s (MultiMap.mhs s sk) true = true -> MultiMap.kderef s (MultiMap.mhs s sk) = Some (Some (k, vs)) ->
    snd (MultiMap.mstep s (MultiMap.MMakeIt sk idx slot)) =
      match Gen_MultiMapGuards.MakeIt_guard (Z.of_nat (List.length vs)) (Z.of_nat idx) with Ok _ => MultiMap.MAcc None | _ => MultiMap.MRej end.
Proof. exact GuardProofs.mm_model_makeit_is_generated. Qed.
Print Assumptions C15_mm_model_makeit_is_generated.

