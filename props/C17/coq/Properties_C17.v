(* Property C17 -- theorems only.  Each is closed by `exact <lemma>` and followed by Print Assumptions.
   Gen_Leaves.v (pvMultShift, pvGetStepCount, pvCompare) is regenerated from HashSorter.h on every run; the
   search functions are the hand model SorterSearch.v instantiated with those leaves (Instance.v), which is
   also what is extracted and run against the real C++. *)
From Coq Require Import ZArith List Bool.
From MomoCommon Require Import GenPrelude.
From C17 Require Gen_Leaves Leaves_Proofs SorterSearch SorterSort Search_Proofs Find_Proofs IsSorted_Proofs Sort_Proofs Radix_Proofs CodeGetter Checker Instance SelPrims Gen_SelSort SelSort_Proofs SelSort_Refine Gen_Radix Radix_Gen_Proofs Gen_RadixCount Radix_Count_Refine Gen_RadixCycle Radix_Cycle_Refine Gen_HsGuards HsGuards_Proofs Gen_FindHash FindHash_Refine Gen_Group Group_Refine Gen_Searches Searches_Refine Gen_GroupLambda GroupLambda_Proofs Gen_IsSorted IsSorted_Refine Gen_FindNext FindNext_Refine SearchGlue Gen_FindOther FindOther_Refine.
Import ListNotations.
Local Open Scope Z_scope.

(* pvMultShift(h, n) (the split 32x32-bit variant compiled on this target) never exceeds floor(h*n/2^64) and
   is therefore a valid index < n for every 64-bit h and every n > 0: the interpolation probe is in range. *)
Theorem C17_multshift_lt : forall h n, 0 <= h < 2 ^ 64 -> 0 < n < 2 ^ 64 ->
  0 <= Gen_Leaves.pvMultShift h n <= (h * n) / 2 ^ 64 /\ Gen_Leaves.pvMultShift h n < n.
Proof. exact Leaves_Proofs.multshift_lt. Qed.
Print Assumptions C17_multshift_lt.

(* the other two generated leaves: pvGetStepCount is in 0..3 (0 below 64 items: no interpolation jump), pvCompare is the sign of
   the comparison *)
Theorem C17_stepcount_range : forall n, 0 <= Gen_Leaves.pvGetStepCount n <= 3.
Proof. exact Leaves_Proofs.stepcount_range. Qed.
Print Assumptions C17_stepcount_range.

Theorem C17_stepcount_small : forall n, n < 64 -> Gen_Leaves.pvGetStepCount n = 0.
Proof. exact Leaves_Proofs.stepcount_small. Qed.
Print Assumptions C17_stepcount_small.

Theorem C17_compare_spec : forall a b,
  (a < b -> Gen_Leaves.pvCompare a b = -1) /\ (a = b -> Gen_Leaves.pvCompare a b = 0) /\ (b < a -> Gen_Leaves.pvCompare a b = 1).
Proof. exact Leaves_Proofs.compare_spec. Qed.
Print Assumptions C17_compare_spec.

(* it is an under-approximation, not the exact floor (documented, harmless: only a probe position) *)
Theorem C17_multshift_not_exact :
  exists h n, 0 <= h < 2 ^ 64 /\ 0 < n < 2 ^ 64 /\ Gen_Leaves.pvMultShift h n < (h * n) / 2 ^ 64.
Proof. exact Leaves_Proofs.multshift_not_exact. Qed.
Print Assumptions C17_multshift_not_exact.

(* pvBinarySearch / pvExponentialSearch over ANY comparer that is defined on [0,n): they terminate within
   the fuel, call the comparer only on [0,n) (otherwise the result would be Stuck), and return an index in
   [0,n]; found -> comparer is 0 there; for a sorted comparer not-found -> partition point. *)
Theorem C17_binary_search_spec : forall cmp c n, Search_Proofs.cmp_ok cmp c n -> 0 <= n < 2 ^ 62 ->
  exists k b, SorterSearch.pvBinarySearch cmp n = Ok (k, b) /\ Search_Proofs.sres c n k b.
Proof. exact Search_Proofs.pvBinarySearch_spec. Qed.
Print Assumptions C17_binary_search_spec.

Theorem C17_exponential_search_spec : forall cmp c n, Search_Proofs.cmp_ok cmp c n -> 0 <= n < 2 ^ 62 ->
  exists k b, SorterSearch.pvExponentialSearch cmp n = Ok (k, b) /\ Search_Proofs.sres c n k b.
Proof. exact Search_Proofs.pvExponentialSearch_spec. Qed.
Print Assumptions C17_exponential_search_spec.

(* pvFindHash on EVERY array (sorted or not, any count < 2^62 including 0) returns Ok: every hash it reads
   is at an index in [0,count) (rdh would give Stuck otherwise), it terminates, the result index is in
   [0,count]; found -> the index carries the hash; on a hash-sorted array not-found -> lower bound. *)
Theorem C17_findhash_spec : forall count hash qh,
  0 <= count < 2 ^ 62 -> (forall i, 0 <= i < count -> 0 <= hash i < 2 ^ 64) -> 0 <= qh < 2 ^ 64 ->
  exists k b, Instance.FindHash count hash qh = Ok (k, b) /\ Search_Proofs.fhres count hash qh k b.
Proof. exact Instance.FindHash_spec. Qed.
Print Assumptions C17_findhash_spec.

Theorem C17_findhash_found_iff : forall count hash qh k b,
  0 <= count < 2 ^ 62 -> (forall i, 0 <= i < count -> 0 <= hash i < 2 ^ 64) -> 0 <= qh < 2 ^ 64 ->
  Instance.FindHash count hash qh = Ok (k, b) -> Search_Proofs.sorted count hash ->
  (b = true <-> exists i, 0 <= i < count /\ hash i = qh).
Proof. exact Instance.FindHash_found_iff. Qed.
Print Assumptions C17_findhash_found_iff.

Theorem C17_findhash_empty : forall hash qh, Instance.FindHash 0 hash qh = Ok (0, false).
Proof. exact Instance.FindHash_empty. Qed.
Print Assumptions C17_findhash_empty.

(* IsSorted / IsSortedPrehashed return exactly the linear-scan predicate -- hash codes non-decreasing and,
   inside one hash run, equal items contiguous -- for EVERY array and every equivalence equalFunc, reading
   only indexes in [0,count) (result Ok, never Stuck), including the empty array (nothing is read). *)
Theorem C17_is_sorted_iff : forall count hash item eqf, 0 <= count -> Instance.equivalence eqf ->
  exists b, Instance.IsSorted count hash item eqf = Ok b /\
    (b = true <-> IsSorted_Proofs.sorted_spec count hash item eqf).
Proof. exact Instance.IsSorted_iff. Qed.
Print Assumptions C17_is_sorted_iff.

Theorem C17_is_sorted_empty : forall hash item eqf, Instance.IsSorted 0 hash item eqf = Ok true.
Proof. exact Instance.IsSorted_empty. Qed.
Print Assumptions C17_is_sorted_empty.

(* Find / FindPrehashed == linear scan, on every array on which IsSorted holds (any count < 2^62, any 64-bit
   hashes, any equivalence equalFunc whose equal items have equal hash codes): all reads in [0,count)
   (result Ok), found iff some item equals the searched one, and then the returned index holds one. *)
Theorem C17_find_eq_linear_scan : forall count hash item eqf qh qx,
  0 <= count < 2 ^ 62 -> (forall i, 0 <= i < count -> 0 <= hash i < 2 ^ 64) -> 0 <= qh < 2 ^ 64 ->
  Instance.equivalence eqf -> Instance.hash_consistent count hash item eqf qh qx ->
  Instance.IsSorted count hash item eqf = Ok true ->
  exists r b, Instance.Find count hash item eqf qh qx = Ok (r, b) /\ 0 <= r <= count /\
    (b = true -> r < count /\ eqf (item r) qx = true) /\
    (b = true <-> exists i, 0 <= i < count /\ eqf (item i) qx = true).
Proof. exact Instance.Find_eq_linear_scan. Qed.
Print Assumptions C17_find_eq_linear_scan.

(* GetBounds / GetBoundsPrehashed == linear scan: [b,e) is exactly the set of indexes whose item equals the
   searched one (empty range when absent). *)
Theorem C17_bounds_eq_linear_scan : forall count hash item eqf qh qx,
  0 <= count < 2 ^ 62 -> (forall i, 0 <= i < count -> 0 <= hash i < 2 ^ 64) -> 0 <= qh < 2 ^ 64 ->
  Instance.equivalence eqf -> Instance.hash_consistent count hash item eqf qh qx ->
  Instance.IsSorted count hash item eqf = Ok true ->
  exists b e, Instance.GetBounds count hash item eqf qh qx = Ok (b, e) /\ 0 <= b <= e /\ e <= count /\
    (forall i, 0 <= i < count -> (b <= i < e <-> eqf (item i) qx = true)).
Proof. exact Instance.GetBounds_eq_linear_scan. Qed.
Print Assumptions C17_bounds_eq_linear_scan.

Theorem C17_find_empty : forall hash item eqf qh qx, Instance.Find 0 hash item eqf qh qx = Ok (0, false).
Proof. exact Instance.Find_empty. Qed.
Print Assumptions C17_find_empty.

Theorem C17_bounds_empty : forall hash item eqf qh qx, Instance.GetBounds 0 hash item eqf qh qx = Ok (0, 0).
Proof. exact Instance.GetBounds_empty. Qed.
Print Assumptions C17_bounds_empty.

(* PARTIAL coverage of Sort: the sort algorithm (RadixSorter + pvGroup) is not modelled.  What is proved is
   the checker that is run on the REAL output of Sort/SortPrehashed on every run: if it accepts, the output
   is a permutation of the input (as (hash,item) pairs: the parallel hash array stayed in step) and
   satisfies the IsSorted predicate. *)
Theorem C17_sort_output_checker_sound_partial : forall inp out, Instance.check_sort_output inp out = true ->
  Permutation.Permutation inp out /\
  IsSorted_Proofs.sorted_spec (Instance.len out) (Instance.hash_of out) (Instance.item_of out) Z.eqb.
Proof. exact Instance.check_sort_output_sound. Qed.
Print Assumptions C17_sort_output_checker_sound_partial.

(* non-vacuity: a concrete arrangement with a hash collision satisfies the hypotheses, is found / bounded *)
Theorem C17_nonvacuous_sorted :
  Instance.IsSorted (Instance.len Instance.ex_arr) (Instance.hash_of Instance.ex_arr) (Instance.item_of Instance.ex_arr) Z.eqb = Ok true.
Proof. exact Instance.ex_sorted. Qed.
Print Assumptions C17_nonvacuous_sorted.

Theorem C17_nonvacuous_find :
  Instance.Find (Instance.len Instance.ex_arr) (Instance.hash_of Instance.ex_arr) (Instance.item_of Instance.ex_arr) Z.eqb 3 2 = Ok (2, true).
Proof. exact Instance.ex_find. Qed.
Print Assumptions C17_nonvacuous_find.

(* ---------------- the SORT half (model SorterSort.v; tied to the real code by swap trace + final arrangement) ---------------- *)

(* HashSorter::pvGroup on any sub-array, any equivalence equalFunc: terminates, every iterSwapper call is inside the
   sub-array, the result is a permutation that leaves everything outside the sub-array untouched (relR), and afterwards
   equal items are contiguous in the sub-array. *)
Theorem C17_group_makes_equal_contiguous : forall eqf l q cnt, Instance.equivalence eqf -> 0 <= q -> 0 <= cnt ->
  q + cnt <= SorterSort.alen l ->
  exists l', SorterSort.pvGroup SorterSort.swap eqf l q cnt = Ok l' /\ Sort_Proofs.relR q (q + cnt) l l' /\
    Sort_Proofs.contigL eqf l' q (q + cnt).
Proof. exact Instance.Group_makes_equal_contiguous. Qed.
Print Assumptions C17_group_makes_equal_contiguous.

(* RadixSorter::pvSelectionSort on any sub-array with any group callback that fulfils the callback contract: terminates,
   permutation of the sub-array only, codes non-decreasing, equal items contiguous inside every run of equal codes. *)
Theorem C17_selection_sort_perm_sorted : forall eqf grp l p cnt, Instance.equivalence eqf ->
  (forall l q c, 0 <= q -> 0 <= c -> q + c <= SorterSort.alen l ->
     exists l', grp l q c = Ok l' /\ Sort_Proofs.relR q (q + c) l l' /\ Sort_Proofs.contigL eqf l' q (q + c)) ->
  0 <= p -> 0 < cnt -> p + cnt <= SorterSort.alen l ->
  exists l', SorterSort.pvSelectionSort SorterSort.swap grp l p cnt = Ok l' /\ Sort_Proofs.relR p (p + cnt) l l' /\
    Sort_Proofs.sortedR l' p (p + cnt) /\ Sort_Proofs.groupedR eqf l' p (p + cnt).
Proof. exact Instance.SelectionSort_perm_sorted. Qed.
Print Assumptions C17_selection_sort_perm_sorted.

(* RadixSorter<R>::Sort for EVERY radix size R >= 1 (1..16 in the source), EVERY code width W, with HashSorter's group
   callback (g = true) or the empty one, on every array of W-bit codes: the model run is total (fuel suffices, no swap outside
   the array, MOMO_ASSERT(shift > 0) never fires, the cycle-leader loop always finds room in the target bucket), the output
   is a permutation of the input and codes are non-decreasing; with grouping equal items are contiguous inside code runs.
   The recursion lemma covers shifts that are not multiples of the radix size (final partial digit: nextShift = 0). *)
Theorem C17_radix_sort_perm_sorted : forall eqf R g W l, Instance.equivalence eqf -> 1 <= R -> 0 <= W ->
  Instance.codes_below W l ->
  exists l', SorterSort.RadixSortG SorterSort.swap eqf R g W l = Ok l' /\ Permutation.Permutation l l' /\
    SorterSort.alen l' = SorterSort.alen l /\ Sort_Proofs.sortedR l' 0 (SorterSort.alen l') /\
    (g = true -> Sort_Proofs.groupedR eqf l' 0 (SorterSort.alen l')).
Proof. exact Instance.RadixSort_perm_sorted. Qed.
Print Assumptions C17_radix_sort_perm_sorted.

(* HashSorter::Sort / SortPrehashed (RadixSorter<8>, 64-bit hash codes) at EVERY size: terminates, the output is a
   permutation of the (hash,item) pairs (hash array permuted identically) and IsSorted -- the function characterised by
   C17_is_sorted_iff -- returns true on it. *)
Theorem C17_hashsort_output_satisfies_is_sorted : forall eqf l, Instance.equivalence eqf -> Instance.codes_below 64 l ->
  exists l', Instance.HashSort eqf l = Ok l' /\ Permutation.Permutation l l' /\
    Instance.IsSorted (SorterSort.alen l') (SorterSort.code l') (SorterSort.itm l') eqf = Ok true.
Proof. exact Instance.HashSort_output_satisfies_is_sorted. Qed.
Print Assumptions C17_hashsort_output_satisfies_is_sorted.

(* non-vacuity: a radix-path run whose shifts (5, 2, 0 for R = 3, W = 8) are not multiples of the radix size *)
Theorem C17_radix_partial_digit_example :
  SorterSort.RadixSortG SorterSort.swap Z.eqb 3 true 8 [(201, 1); (7, 2); (201, 3); (64, 4); (201, 1); (6, 5); (255, 6)]
  = Ok [(6, 5); (7, 2); (64, 4); (201, 1); (201, 1); (201, 3); (255, 6)].
Proof. exact Instance.ex_radix_partial_digit. Qed.
Print Assumptions C17_radix_partial_digit_example.

(* RadixSorterCodeGetter for integral types (after c1e16df): the code of a signed W-bit value x is unsigned(x) xor 2^(W-1)
   = x + 2^(W-1): an order isomorphism onto [0, 2^W). *)
Theorem C17_signed_code_order_iso : forall W x y, 1 <= W -> - 2 ^ (W - 1) <= x < 2 ^ (W - 1) -> - 2 ^ (W - 1) <= y < 2 ^ (W - 1) ->
  (x <= y <-> CodeGetter.code_of_signed W x <= CodeGetter.code_of_signed W y) /\ 0 <= CodeGetter.code_of_signed W x < 2 ^ W.
Proof. exact CodeGetter.code_of_signed_order. Qed.
Print Assumptions C17_signed_code_order_iso.

(* RadixSorter<R>::Sort(begin, count) on an array of SIGNED W-bit integers (every R >= 1, every W >= 1): total, the output
   is a permutation and the VALUES (not just the codes) are in non-decreasing order. *)
Theorem C17_radix_sort_signed_values_sorted : forall R W vs, 1 <= R -> 1 <= W ->
  Forall (fun v => - 2 ^ (W - 1) <= v < 2 ^ (W - 1)) vs ->
  exists l', SorterSort.RadixSortG SorterSort.swap Z.eqb R false W (map (fun v => (CodeGetter.code_of_signed W v, v)) vs) = Ok l' /\
    Permutation.Permutation vs (map snd l') /\
    (forall a b, 0 <= a -> a <= b -> b < SorterSort.alen l' -> SorterSort.itm l' a <= SorterSort.itm l' b).
Proof. exact CodeGetter.RadixSort_signed_values_sorted. Qed.
Print Assumptions C17_radix_sort_signed_values_sorted.

(* About the GENERATED RadixSorter<8>::pvSelectionSort (Gen_SelSort.v, regenerated from RadixSorter.h on every run; codes =
   the local std::array cache, items = code of the item now at each position, (gpos,gcnt,gnum) = log of groupFunc calls):
   for 0 < count <= 32 (the size of the cache) it terminates without assertion, the cache is COHERENT with the items after
   the selection loop (every iterSwapper call is mirrored on the cache), the item codes end up non-decreasing, and the
   groupFunc calls are exactly the maximal runs of equal codes: consecutive from position 0, non-empty, constant code
   inside, different codes for adjacent calls, ending at count.  (A stale cache -- e.g. `codes[minIndex] = codes[i]`
   instead of the swap -- makes this proof fail.) *)
Theorem C17_gen_selection_sort_cache_coherent : forall begin count, 0 < count <= 32 -> forall codes items gpos gcnt,
  exists codes' items' gpos' gcnt' gnum',
    Gen_SelSort.pvSelectionSort codes items gpos gcnt 0 begin count = Ok (tt, codes', items', gpos', gcnt', gnum') /\
    SelSort_Proofs.coherent count codes' items' /\ SelSort_Proofs.sorted_upto items' count /\ 0 < gnum' /\
    SelSort_Proofs.log_ok items' gpos' gcnt' 0 gnum' /\ gpos' (gnum' - 1) + gcnt' (gnum' - 1) = count.
Proof. exact SelSort_Proofs.gen_selection_sort_spec. Qed.
Print Assumptions C17_gen_selection_sort_cache_coherent.

(* Refinement: started on the same array (items k = code of l at p+k, cache coherent), the GENERATED selection loop with its
   explicit cache and the hand model's sel_loop (which reads the codes from the array) stay in lockstep: both succeed and
   end with the same arrangement of codes.  This justifies the hand model's simplification by a theorem about the real code. *)
Theorem C17_generated_selection_loop_refines_model : forall sw, (forall l i j, sw l i j = SorterSort.swap l i j) ->
  forall begin p cnt, 0 <= p -> 0 < cnt <= 32 ->
  forall n fuel i l codes items, 0 <= i -> i + Z.of_nat n = cnt - 1 -> (n < fuel)%nat -> p + cnt <= SorterSort.alen l ->
    SelSort_Proofs.coherent cnt codes items -> SelSort_Refine.same_codes p cnt l items ->
    exists l' codes' i' items',
      SorterSort.sel_loop sw n p cnt i l = Ok l' /\
      Gen_SelSort.pvSelectionSort_loop1 fuel begin cnt codes i items = Ok (codes', i', items') /\
      SelSort_Refine.same_codes p cnt l' items' /\ SorterSort.alen l' = SorterSort.alen l.
Proof. exact SelSort_Refine.sel_loops_agree. Qed.
Print Assumptions C17_generated_selection_loop_refines_model.

(* ---- GENERATED small RadixSorter functions (Gen_Radix.v, regenerated from RadixSorter.h on every run) ---- *)

(* the generated integral code getter (int8/16/32/64) is the hand model code_of_signed, i.e. x + 2^(W-1) (c1e16df) ... *)
Theorem C17_gen_code_getter_refines_model : forall W v, W = 8 \/ W = 16 \/ W = 32 \/ W = 64 -> - 2 ^ (W - 1) <= v < 2 ^ (W - 1) ->
  Radix_Gen_Proofs.gen_code_signed W v = CodeGetter.code_of_signed W v /\ Radix_Gen_Proofs.gen_code_signed W v = v + 2 ^ (W - 1).
Proof. exact Radix_Gen_Proofs.gen_code_signed_refines. Qed.
Print Assumptions C17_gen_code_getter_refines_model.

(* ... hence an order isomorphism onto [0,2^W): C17_signed_code_order_iso restated about the GENERATED function *)
Theorem C17_gen_signed_code_order_iso : forall W x y, W = 8 \/ W = 16 \/ W = 32 \/ W = 64 ->
  - 2 ^ (W - 1) <= x < 2 ^ (W - 1) -> - 2 ^ (W - 1) <= y < 2 ^ (W - 1) ->
  (x <= y <-> Radix_Gen_Proofs.gen_code_signed W x <= Radix_Gen_Proofs.gen_code_signed W y) /\
  0 <= Radix_Gen_Proofs.gen_code_signed W x < 2 ^ W.
Proof. exact Radix_Gen_Proofs.gen_signed_code_order_iso. Qed.
Print Assumptions C17_gen_signed_code_order_iso.

Theorem C17_gen_unsigned_code_identity : forall W v, W = 8 \/ W = 16 \/ W = 32 \/ W = 64 -> 0 <= v < 2 ^ W ->
  Radix_Gen_Proofs.gen_code_unsigned W v = v.
Proof. exact Radix_Gen_Proofs.gen_code_unsigned_id. Qed.
Print Assumptions C17_gen_unsigned_code_identity.

(* generated pvGetRadix (64-bit and 8-bit code instantiations, radixSize symbolic) = the hand model's getRadix *)
Theorem C17_gen_pvGetRadix_refines_model : forall R code shift, 0 <= R < 64 -> 0 <= code < 2 ^ 64 -> 0 <= shift ->
  Gen_Radix.pvGetRadix_u64 R code shift = SorterSort.getRadix R code shift /\
  Gen_Radix.pvGetRadix_u8 R code shift = SorterSort.getRadix R code shift.
Proof. exact Radix_Gen_Proofs.gen_pvGetRadix_refines. Qed.
Print Assumptions C17_gen_pvGetRadix_refines_model.

(* the first shift computed by the generated Sort() (bb23c06) is max(W - R, 0) for every radix size: it never wraps, it is 0
   when the radix is at least as wide as the code, and it is the shift the proved model SorterSort.RadixSort starts with *)
Theorem C17_gen_first_shift_refines_model : forall R fs b c, 0 <= R ->
  Gen_Radix.Sort_first_shift_u64 R fs b c = Radix_Gen_Proofs.model_first_shift R 64 /\
  Gen_Radix.Sort_first_shift_u8 R fs b c = Radix_Gen_Proofs.model_first_shift R 8 /\
  (8 <= R -> Gen_Radix.Sort_first_shift_u8 R fs b c = 0).
Proof. exact Radix_Gen_Proofs.gen_first_shift_refines. Qed.
Print Assumptions C17_gen_first_shift_refines_model.

(* the GENERATED counting pass + prefix-sum loop of RadixSorter<8>::pvRadixSort (Gen_RadixCount.v; radixSize/radixCount
   symbolic, so for every R <= 16 with radixCount = 2^R) refines the hand model: same singleCode / singleRadix flags, the same
   bucket table as cnt_loop + psum_loop, and endIndexes[r] = number of items whose digit is <= r (prefix sums of the digit
   histogram = bucket ends).  No size_t addition in it wraps for count < 2^62. *)
Theorem C17_gen_counting_pass_refines_model : forall R, 0 <= R <= 16 -> forall l p cnt shift begin, 0 < cnt < 2 ^ 62 -> 0 <= shift ->
  forall items, (forall k, 0 <= k < cnt -> items k = SorterSort.code l (p + k)) ->
  forall fuel e0 b1 b2, (Z.to_nat (cnt + 2 ^ R) < fuel)%nat ->
    match SorterSort.cnt_loop R (Z.to_nat (cnt - 1)) l p shift 1 (SorterSort.code l p) (SorterSort.getRadix R (SorterSort.code l p) shift)
            (upd (fun _ => 0) (SorterSort.getRadix R (SorterSort.code l p) shift) 1) true true with
    | (eh, sch, srh) =>
      exists E, Gen_RadixCount.pvRadixSort_count R (2 ^ R) fuel e0 items b1 b2 begin cnt shift = Ok (tt, E, sch, srh) /\
        (forall r, E r = SorterSort.psum_loop (Z.to_nat (2 ^ R - 1)) 1 eh r) /\
        (forall r, 0 <= r < 2 ^ R -> E r = Radix_Proofs.psum (fun r' => Radix_Proofs.cz (fun k => Radix_Proofs.Dg R p shift l k =? r') 0 cnt) (Z.to_nat (r + 1)))
    end.
Proof. exact Radix_Count_Refine.gen_count_refines. Qed.
Print Assumptions C17_gen_counting_pass_refines_model.

(* ---- the GENERATED cycle-leader permutation (Gen_RadixCycle.v) ---- *)

(* refinement: the generated nested for/while loops follow the hand model's flattened perm_loop: whenever the hand loop
   returns Ok lf from a related state, the generated loop returns Ok with exactly the codes of lf *)
Theorem C17_gen_cycle_leader_refines_model : forall sw, (forall l i j, sw l i j = SorterSort.swap l i j) ->
  forall R, 0 <= R <= 16 -> forall p cnt shift begin, 0 <= p -> 0 <= shift ->
  forall ei, (forall r, 0 <= r < 2 ^ R -> ei r <= cnt) ->
  forall (loop_fuel n F f1 : nat) l bh bg items swa swb swn r lf,
    r + Z.of_nat n = 2 ^ R -> 0 <= r -> (n < f1)%nat -> (F <= loop_fuel)%nat ->
    SorterSort.perm_loop sw R F l p shift r ei bh = Ok lf -> Radix_Cycle_Refine.Rel p l items -> Radix_Cycle_Refine.Beq R bg bh ->
    (forall r', 0 <= r' < 2 ^ R -> 0 <= bh r') -> p + cnt <= SorterSort.alen l -> SorterSort.alen l < 2 ^ 62 ->
    exists bg' items' r' swa' swb' swn',
      Gen_RadixCycle.pvRadixSort_cycle_loop1 R (2 ^ R) loop_fuel f1 begin ei shift bg items r swa swb swn = Ok (bg', items', r', swa', swb', swn') /\
      Radix_Cycle_Refine.Rel p lf items'.
Proof. exact Radix_Cycle_Refine.outer_refines. Qed.
Print Assumptions C17_gen_cycle_leader_refines_model.

(* the GENERATED counting pass followed by the GENERATED cycle-leader function, on every array (count > 0, length < 2^62),
   every radix size R <= 16 and every shift: both terminate (the cycle-leader loop always finds room in the target bucket:
   the counting argument, now about generated code), the result is a rearrangement of the range only (relR: permutation,
   frame), and the buckets [S r, S (r+1)) given by the generated table E hold exactly the items with digit r. *)
Theorem C17_gen_count_then_cycle_total : forall sw, (forall l i j, sw l i j = SorterSort.swap l i j) ->
  forall R l p cnt shift begin fuel e0 b1 b2 bi0 swa swb swn,
  0 <= R <= 16 -> 0 <= p -> 0 < cnt -> 0 <= shift -> p + cnt <= SorterSort.alen l -> SorterSort.alen l < 2 ^ 62 ->
  (Z.to_nat (cnt + 2 ^ R) + 2 <= fuel)%nat ->
  exists E sc sr S bi' items' swa' swb' swn' l',
    Gen_RadixCount.pvRadixSort_count R (2 ^ R) fuel e0 (fun k => SorterSort.code l (p + k)) b1 b2 begin cnt shift = Ok (tt, E, sc, sr) /\
    Gen_RadixCycle.pvRadixSort_cycle R (2 ^ R) fuel E bi0 (fun k => SorterSort.code l (p + k)) swa swb swn begin shift = Ok (tt, bi', items', swa', swb', swn') /\
    Sort_Proofs.relR p (p + cnt) l l' /\ (forall k, 0 <= k -> items' k = SorterSort.code l' (p + k)) /\
    S 0 = 0 /\ S (2 ^ R) = cnt /\ (forall r, 0 <= r < 2 ^ R -> S r <= S (r + 1) /\ E r = S (r + 1)) /\
    (forall r, 0 <= r < 2 ^ R -> forall k, S r <= k < S (r + 1) -> SorterSort.getRadix R (items' k) shift = r).
Proof. exact Radix_Cycle_Refine.gen_count_then_cycle_total. Qed.
Print Assumptions C17_gen_count_then_cycle_total.

(* ---- the GENERATED entry guards of HashSorter::pvFindHash / pvIsSorted (fix 2715474) ---- *)
Theorem C17_gen_empty_sequence_guards : forall count,
  Gen_HsGuards.pvFindHash_returns_early count = (count =? 0) /\ Gen_HsGuards.pvFindHash_early_value = false /\
  Gen_HsGuards.pvIsSorted_returns_early count = (count =? 0) /\ Gen_HsGuards.pvIsSorted_early_value = true.
Proof. exact HsGuards_Proofs.gen_guards_spec. Qed.
Print Assumptions C17_gen_empty_sequence_guards.

Theorem C17_gen_empty_sequence_guards_refine_model : forall MS SC CMP count hash item eqf qh,
  (Gen_HsGuards.pvFindHash_returns_early count = true ->
     SorterSearch.pvFindHash MS SC CMP count hash qh = Ok (0, Gen_HsGuards.pvFindHash_early_value)) /\
  (Gen_HsGuards.pvIsSorted_returns_early count = true ->
     SorterSearch.pvIsSorted count hash item eqf = Ok Gen_HsGuards.pvIsSorted_early_value) /\
  (Gen_HsGuards.pvFindHash_returns_early 0 = true /\ Gen_HsGuards.pvIsSorted_returns_early 0 = true).
Proof. exact HsGuards_Proofs.gen_guards_refine_model. Qed.
Print Assumptions C17_gen_empty_sequence_guards_refine_model.

(* ---- the GENERATED interpolation loop of HashSorter::pvFindHash (Gen_FindHash.v; returns = exit codes) ---- *)

(* simulation: whenever the hand model's fh_loop returns Ok res, the generated loop (same fuel, same state) returns an exit
   code and loop state whose continuation -- the sub-search the source performs at that exit -- returns res *)
Theorem C17_gen_findhash_loop_refines_model : forall count begin qh hash, 0 < count < 2 ^ 62 ->
  forall f left right middle step res, 0 <= left <= count -> 0 <= step < 2 ^ 64 ->
    SorterSearch.fh_loop Gen_Leaves.pvMultShift Gen_Leaves.pvCompare count hash qh f left right middle step = Ok res ->
    exists code st, Gen_FindHash.pvFindHash_loop0 f begin count hash qh left middle right step = Ok (code, st) /\
      FindHash_Refine.continuation count qh hash code st = Ok res.
Proof. exact FindHash_Refine.gen_loop_simulates. Qed.
Print Assumptions C17_gen_findhash_loop_refines_model.

(* for EVERY array (sorted or not, count < 2^62 incl. 0): the generated pvFindHash has the empty-sequence guard, starts the
   loop with the generated pvMultShift / pvGetStepCount values, the loop terminates within 5 iterations with an exit whose
   continuation returns a result satisfying the pvFindHash specification (all reads in [0,count); found -> the index carries
   the hash; hash-sorted & not found -> lower bound), and that result is the hand model's FindHash result *)
Theorem C17_gen_findhash_total : forall count begin hash qh,
  0 <= count < 2 ^ 62 -> (forall i, 0 <= i < count -> 0 <= hash i < 2 ^ 64) -> 0 <= qh < 2 ^ 64 ->
  (count = 0 /\ Gen_FindHash.pvFindHash hash begin count qh = Ok 1 /\ Instance.FindHash count hash qh = Ok (0, false)) \/
  (0 < count /\ exists code st k b,
     Gen_FindHash.pvFindHash_loop0 5 begin count hash qh 0 (Gen_Leaves.pvMultShift qh count) count (Gen_Leaves.pvGetStepCount count) = Ok (code, st) /\
     Gen_FindHash.pvFindHash hash begin count qh = Ok (match code with Some c => c | None => 5 end) /\
     FindHash_Refine.continuation count qh hash code st = Ok (k, b) /\ Instance.FindHash count hash qh = Ok (k, b) /\
     Search_Proofs.fhres count hash qh k b).
Proof. exact FindHash_Refine.gen_findhash_total. Qed.
Print Assumptions C17_gen_findhash_total.

(* ---- the GENERATED HashSorter::pvGroup (Gen_Group.v) ---- *)
(* on the sub-array [q, q+cnt) of any array, for any equivalence equalFunc: the generated loops terminate, return exactly the
   items of the hand model's result l', which is a rearrangement of that range only (relR) in which equal items are contiguous *)
Theorem C17_gen_group_makes_equal_contiguous : forall sw, (forall l i j, sw l i j = SorterSort.swap l i j) ->
  forall eqf q cnt begin, 0 <= q -> 0 <= cnt < 2 ^ 62 -> forall loop_fuel,
  (forall a, eqf a a = true) -> (forall a b, eqf a b = true -> eqf b a = true) ->
  (forall a b c, eqf a b = true -> eqf b c = true -> eqf a c = true) ->
  forall l, q + cnt <= SorterSort.alen l -> (Z.to_nat cnt + 1 < loop_fuel)%nat ->
  exists items' l', Gen_Group.pvGroup eqf loop_fuel (fun k => SorterSort.itm l (q + k)) begin cnt = Ok (tt, items') /\
    SorterSort.pvGroup sw eqf l q cnt = Ok l' /\ (forall k, 0 <= k -> items' k = SorterSort.itm l' (q + k)) /\
    Sort_Proofs.relR q (q + cnt) l l' /\ Sort_Proofs.contigL eqf l' q (q + cnt).
Proof. exact Group_Refine.gen_pvGroup_spec. Qed.
Print Assumptions C17_gen_group_makes_equal_contiguous.

(* ---- the GENERATED pvBinarySearch / pvExponentialSearch (Gen_Searches.v; comparer on relative offsets, returns = exit codes) ---- *)
Theorem C17_gen_binary_search_refines_model : forall cmpO c, (forall i v, cmpO i = Ok v -> v = c i) ->
  forall begin f l r res, SorterSearch.bs_loop f cmpO l r = Ok res ->
    exists code st, Gen_Searches.pvBinarySearch_loop0 c f begin l r = Ok (code, st) /\ Searches_Refine.bs_result code st = res.
Proof. exact Searches_Refine.gen_bs_simulates. Qed.
Print Assumptions C17_gen_binary_search_refines_model.

Theorem C17_gen_exponential_search_refines_model : forall cmpO c, (forall i v, cmpO i = Ok v -> v = c i) ->
  forall begin cnt, cnt < 2 ^ 64 -> forall f lft i res, 0 <= i -> SorterSearch.es_loop f cmpO cnt lft i = Ok res ->
    exists code st, Gen_Searches.pvExponentialSearch_loop0 c f begin cnt i lft = Ok (code, st) /\
      Searches_Refine.es_continuation cmpO cnt code st = Ok res.
Proof. exact Searches_Refine.gen_es_simulates. Qed.
Print Assumptions C17_gen_exponential_search_refines_model.

(* the generated binary search, for every comparer defined on [0,n): terminates (fuel F+1 whenever n < 2^F) and its exit
   denotes a result satisfying the search specification *)
Theorem C17_gen_binary_search_spec : forall cmpO c n begin (F : nat), Search_Proofs.cmp_ok cmpO c n -> 0 <= n < 2 ^ 62 ->
  n < 2 ^ Z.of_nat F ->
  exists code st, Gen_Searches.pvBinarySearch_loop0 c (S F) begin 0 n = Ok (code, st) /\
    Search_Proofs.sres c n (fst (Searches_Refine.bs_result code st)) (snd (Searches_Refine.bs_result code st)).
Proof. exact Searches_Refine.gen_binary_search_spec. Qed.
Print Assumptions C17_gen_binary_search_spec.

(* ---- the GENERATED condition of HashSorter::pvSort's group callback ---- *)
Theorem C17_gen_group_lambda_refines_model : forall sw eqf l q c,
  SorterSort.hs_group sw eqf l q c =
  if Gen_GroupLambda.group_lambda_calls_pvGroup c then SorterSort.pvGroup sw eqf l q c else Ok l.
Proof. exact GroupLambda_Proofs.gen_group_lambda_refines_model. Qed.
Print Assumptions C17_gen_group_lambda_refines_model.

Theorem C17_gen_group_lambda_skips_only_trivial_runs : forall eqf l q c,
  Gen_GroupLambda.group_lambda_calls_pvGroup c = false -> Sort_Proofs.contigL eqf l q (q + c).
Proof. exact GroupLambda_Proofs.gen_group_lambda_skips_only_trivial_runs. Qed.
Print Assumptions C17_gen_group_lambda_skips_only_trivial_runs.

(* ---- the GENERATED HashSorter::pvIsSorted / pvIsGrouped (Gen_IsSorted.v) ---- *)
(* whenever the hand model returns Ok b (all its reads inside the array), the generated pvIsSorted returns Ok b *)
Theorem C17_gen_is_sorted_refines_model : forall count hash item eqf, 0 <= count < 2 ^ 62 ->
  forall loop_fuel, (Z.to_nat count + 2 <= loop_fuel)%nat ->
  forall b, SorterSearch.pvIsSorted count hash item eqf = Ok b ->
    Gen_IsSorted.pvIsSorted eqf loop_fuel item hash 0 count = Ok b.
Proof. exact IsSorted_Refine.gen_pvIsSorted_refines. Qed.
Print Assumptions C17_gen_is_sorted_refines_model.

(* C17_is_sorted_iff about the GENERATED function: for every array and every equivalence equalFunc it terminates and returns
   true exactly when hashes are non-decreasing and equal items are contiguous inside every hash run *)
Theorem C17_gen_is_sorted_iff : forall count hash item eqf loop_fuel, 0 <= count < 2 ^ 62 -> (Z.to_nat count + 2 <= loop_fuel)%nat ->
  (forall a, eqf a a = true) -> (forall a b, eqf a b = true -> eqf b a = true) ->
  (forall a b c, eqf a b = true -> eqf b c = true -> eqf a c = true) ->
  exists b, Gen_IsSorted.pvIsSorted eqf loop_fuel item hash 0 count = Ok b /\
    (b = true <-> IsSorted_Proofs.sorted_spec count hash item eqf).
Proof. exact IsSorted_Refine.gen_is_sorted_iff. Qed.
Print Assumptions C17_gen_is_sorted_iff.

(* ---- the GENERATED HashSorter::pvFindOther (Gen_FindOther.v: `return pvExponentialSearch(begin + 1, count - 1, cmp).iterator`,
   the searches being the GENERATED loops of Gen_Searches.v glued by SearchGlue.v) ---- *)
(* on a forward view (v k = p + k) of 0 < n < 2^62 items: whenever the hand model's pvFindOther returns Ok o, the generated function
   returns the iterator p + o, and o >= 1 *)
Theorem C17_gen_findother_refines_model : forall count item eqf v p n o, (forall k, v k = p + k) -> 0 < n < 2 ^ 62 ->
  SorterSearch.pvFindOther count item eqf v n = Ok o ->
  Gen_FindOther.pvFindOther eqf SorterSearch.log_fuel item p n = Ok (p + o) /\ 1 <= o.
Proof. exact FindOther_Refine.gen_findother_refines. Qed.
Print Assumptions C17_gen_findother_refines_model.

(* ---- the GENERATED HashSorter::pvFindNext (forward iterators; Gen_FindNext.v; returns = exit codes), with its pvFindOther
   parameter instantiated by the GENERATED pvFindOther (FindOther_Refine.gen_other = its Ok value) -- no premise left ---- *)
(* whenever the hand model's fn_loop on the forward view returns Ok (r, found), the generated loop exits at position begin + r with
   the exit code of `found` -- same group-by-group scan, same end-of-range test, same hash-run test, same equality test *)
Theorem C17_gen_findnext_refines_model : forall count hash item eqf qh qx idx cnt, 0 <= idx -> cnt < 2 ^ 62 ->
  forall f rel r b, 0 <= rel ->
    SorterSearch.fn_loop count hash item eqf qh qx f (SorterSearch.fwd idx) cnt rel = Ok (r, b) ->
    exists code,
      Gen_FindNext.pvFindNext_loop0 eqf (FindOther_Refine.gen_other eqf item) f idx cnt hash qx qh item (idx + rel) = Ok (code, idx + r) /\
      b = (match code with Some _ => true | None => false end) /\ rel < r.
Proof. exact FindOther_Refine.gen_findnext_closed. Qed.
Print Assumptions C17_gen_findnext_refines_model.
