(* C10 -- L2 model of the key/value pair mechanisms of maps exactly as coded in MapKeyValueTraits
   (MapUtility.h:215-475): Relocate, Replace (incl. pvReplaceUnsafe) and ReplaceRelocate, per (key category,
   value category); and on top of them MapExtractedPair / Map::Insert(ExtractedPair&&) and the map merge loop
   (HashMap::MergeTo and TreeMap::MergeTo run the set loops over key/value pair items, HashMap.h / TreeMap.h).
   A pair is (key object, value object); the map key of a pair is Merge.key of its key object. *)
From Coq Require Import ZArith Bool List Lia Permutation Arith.
From C10 Require Import Machine Merge.
Import ListNotations.
Local Open Scope Z_scope.

Notation pair := (Z * Z)%type (only parsing).
Definition pkey (p : Z * Z) : Z := key (fst p).
Definition phas_key (d : list (Z * Z)) (k : Z) : bool := existsb (fun y => Z.eqb (pkey y) k) d.

(* result of a pair mechanism that involves a second pair:
   POk ext mid'        success: the object now living at the new place, the new contents of mid
   PFail src' mid'     threw: what src and mid hold afterwards *)
Inductive pres := POk (ext mid' : Z * Z) | PFail (src' mid' : Z * Z).

(* MapKeyValueTraits::Relocate (pvRelocate, MapUtility.h:316-352).  Some = relocated pair, None = threw (source intact) *)
Definition p_relocate (kc vc : cat) (w : world) (p : Z * Z) : world * option (Z * Z) :=
  let (k, v) := p in
  if nothrow_reloc kc then
    (* ValueManager::Relocate; KeyManager::Relocate *)
    match relocate vc w v with
    | (w1, None) => (w1, None)
    | (w1, Some v') => match relocate kc w1 k with
                       | (w2, None) => (w2, None)              (* unreachable: kc is nothrow *)
                       | (w2, Some k') => (w2, Some (k', v')) end
    end
  else if nothrow_reloc vc then
    (* KeyManager::Relocate; ValueManager::Relocate *)
    match relocate kc w k with
    | (w1, None) => (w1, None)
    | (w1, Some k') => match relocate vc w1 v with
                       | (w2, None) => (w2, None)              (* unreachable: vc is nothrow *)
                       | (w2, Some v') => (w2, Some (k', v')) end
    end
  else
    (* Copy(srcKey, dstKey); try { Relocate(srcValue, dstValue) } catch (...) { Destroy(dstKey); throw; } Destroy(srcKey) *)
    match copy_ctor kc w k with
    | (w1, None) => (w1, None)
    | (w1, Some k') => match relocate vc w1 v with
                       | (w2, None) => (dtor w2 k', None)
                       | (w2, Some v') => (dtor w2 k, Some (k', v')) end
    end.

(* pvReplaceUnsafe (MapUtility.h:379-387, "basic exception safety"):
     dstValue = srcValue; dstKey = std::move(srcKey); Destroy(srcKey); Destroy(srcValue);
   Some d = new contents of dst; None + the contents dst is left with *)
Definition p_replace_unsafe (kc vc : cat) (w : world) (src dst : Z * Z) : world * (option (Z * Z)) * (Z * Z) :=
  let (ks, vs) := src in let (kd, vd) := dst in
  match copy_assign vc w vs vd with
  | (w1, None) => (w1, None, dst)
  | (w1, Some vd') =>
    match move_assign kc w1 ks kd with
    | (w2, None) => (w2, None, (kd, vd'))            (* the key assignment threw: dst keeps its key with src's value *)
    | (w2, Some (kd', ks')) => (dtor (dtor w2 ks') vs, Some (kd', vd'), (kd', vd'))
    end
  end.

(* MapKeyValueTraits::Replace (pvReplace, MapUtility.h:356-377): (result, contents of dst afterwards) *)
Definition p_replace (kc vc : cat) (w : world) (src dst : Z * Z) : world * (option (Z * Z)) * (Z * Z) :=
  let (ks, vs) := src in let (kd, vd) := dst in
  if nothrow_anyway kc then
    (* ValueManager::Replace; KeyManager::Replace *)
    match replace vc w vs vd with
    | (w1, None) => (w1, None, dst)
    | (w1, Some vd') => match replace kc w1 ks kd with
                        | (w2, None) => (w2, None, (kd, vd'))          (* unreachable *)
                        | (w2, Some kd') => (w2, Some (kd', vd'), (kd', vd')) end
    end
  else if nothrow_anyway vc then
    match replace kc w ks kd with
    | (w1, None) => (w1, None, dst)
    | (w1, Some kd') => match replace vc w1 vs vd with
                        | (w2, None) => (w2, None, (kd', vd))          (* unreachable *)
                        | (w2, Some vd') => (w2, Some (kd', vd'), (kd', vd')) end
    end
  else p_replace_unsafe kc vc w src dst.

(* MapKeyValueTraits::ReplaceRelocate (pvReplaceRelocate, MapUtility.h:391-475): mid is relocated to the new place and
   src takes mid's place.  (For the four categories "not nothrow-relocatable" implies "not nothrow-anyway-assignable",
   so the two mixed overloads at 412-450 are never selected.) *)
Definition p_replace_relocate (kc vc : cat) (w : world) (src mid : Z * Z) : world * pres :=
  let (ks, vs) := src in let (km, vm) := mid in
  if nothrow_reloc kc then
    (* ValueManager::ReplaceRelocate; KeyManager::ReplaceRelocate *)
    match replace_relocate vc w vs vm with
    | (w1, None) => (w1, PFail src mid)
    | (w1, Some (ev, mv)) => match replace_relocate kc w1 ks km with
                             | (w2, None) => (w2, PFail src (km, mv))   (* unreachable *)
                             | (w2, Some (ek, mk)) => (w2, POk (ek, ev) (mk, mv)) end
    end
  else if nothrow_reloc vc then
    match replace_relocate kc w ks km with
    | (w1, None) => (w1, PFail src mid)
    | (w1, Some (ek, mk)) => match replace_relocate vc w1 vs vm with
                             | (w2, None) => (w2, PFail src (mk, vm))   (* unreachable *)
                             | (w2, Some (ev, mv)) => (w2, POk (ek, ev) (mk, mv)) end
    end
  else
    (* Copy(midKey, dstKey); try { Copy(midValue, dstValue); try { pvReplaceUnsafe(src, mid) }
       catch (...) { Destroy(dstValue); throw; } } catch (...) { Destroy(dstKey); throw; } *)
    match copy_ctor kc w km with
    | (w1, None) => (w1, PFail src mid)
    | (w1, Some ek) =>
      match copy_ctor vc w1 vm with
      | (w2, None) => (dtor w2 ek, PFail src mid)
      | (w2, Some ev) =>
        match p_replace_unsafe kc vc w2 src mid with
        | (w3, None, mid') => (dtor (dtor w3 ev) ek, PFail src mid')
        | (w3, Some m, _) => (w3, POk (ek, ev) m)
        end
      end
    end.

(* the replacer of the nested set's pvExtract on pair items *)
Definition p_extract_reloc (kc vc : cat) (w : world) (x : Z * Z) (repl : option (Z * Z)) : world * pres :=
  match repl with
  | None => match p_relocate kc vc w x with
            | (w1, None) => (w1, PFail x x)
            | (w1, Some e) => (w1, POk e x) end
  | Some s => p_replace_relocate kc vc w s x
  end.

(* ---------------------------------------------------------------- MapExtractedPair on one bucket of pairs *)
Definition prepl_of (b : list (Z * Z)) (i : nat) : option (Z * Z) :=
  match rev (skipn (S i) b) with [] => None | l :: _ => Some l end.
Definition pbucket_remove (b : list (Z * Z)) (i : nat) : list (Z * Z) :=
  match rev (skipn (S i) b) with
  | [] => firstn i b
  | l :: rp => firstn i b ++ l :: rev rp
  end.
Definition pset_nth (b : list (Z * Z)) (i : nat) (x : Z * Z) : list (Z * Z) := firstn i b ++ x :: skipn (S i) b.

(* Map::Remove(iter, extPair): (bucket', holder', extracted?) *)
Definition pextract_at (kc vc : cat) (w : world) (b : list (Z * Z)) (i : nat)
  : world * list (Z * Z) * option (Z * Z) * bool :=
  match p_extract_reloc kc vc w (nth i b (0, 0)) (prepl_of b i) with
  | (w1, PFail _ x') => (w1, pset_nth b i x', None, false)
  | (w1, POk e _) => (w1, pbucket_remove b i, Some e, true)
  end.

(* Map::Insert(ExtractedPair&&) = nested set Insert(ExtractedItem&&) with the pair Relocate *)
Definition pinsert_holder (kc vc : cat) (w : world) (dst : list (Z * Z)) (h : option (Z * Z))
  : world * list (Z * Z) * option (Z * Z) * status :=
  match h with
  | None => (w, dst, None, Failed)
  | Some x =>
    match step_func w with
    | None => (fail_func w, dst, h, Failed)
    | Some w1 =>
      if phas_key dst (pkey x) then (w1, dst, h, Finished)
      else match step_alloc w1 with
           | None => (fail_alloc w1, dst, h, Failed)
           | Some w2 =>
             match p_relocate kc vc w2 x with
             | (w3, None) => (w3, dst, h, Failed)
             | (w3, Some e) => (w3, dst ++ [e], None, Finished)
             end
           end
    end
  end.

Definition pholder_clear (w : world) (h : option (Z * Z)) : world :=
  match h with None => w | Some (k, v) => dtor (dtor w k) v end.

(* ---------------------------------------------------------------- the merge loop over pair items (unique keys).
   The partner that takes the place of an extracted pair (last pair of its hash bucket / in-order predecessor in an
   internal tree node) is one of the pairs already visited and refused: an oracle picks which (None = no partner). *)
Record pstate := PS { p_kept : list (Z * Z); p_rest : list (Z * Z); p_dst : list (Z * Z); p_w : world;
                      p_stat : status; p_shape : list (option nat) }.
Definition pall (st : pstate) : list (Z * Z) := p_kept st ++ p_rest st ++ p_dst st.

Definition pop_shape (l : list (option nat)) : option nat * list (option nat) :=
  match l with [] => (None, []) | s :: t => (s, t) end.

Definition pstep (kc vc : cat) (st : pstate) : pstate :=
  match p_stat st with
  | Running =>
    match p_rest st with
    | [] => PS (p_kept st) [] (p_dst st) (p_w st) Finished (p_shape st)
    | x :: r =>
      match step_func (p_w st) with
      | None => PS (p_kept st) (p_rest st) (p_dst st) (fail_func (p_w st)) Failed (p_shape st)
      | Some w1 =>
        if phas_key (p_dst st) (pkey x) then PS (p_kept st ++ [x]) r (p_dst st) w1 Running (p_shape st)
        else
          match step_alloc w1 with
          | None => PS (p_kept st) (p_rest st) (p_dst st) (fail_alloc w1) Failed (p_shape st)
          | Some w2 =>
            let (sh, shs) := pop_shape (p_shape st) in
            let partner := match sh with None => None | Some j => nth_error (p_kept st) j end in
            match p_extract_reloc kc vc w2 x partner with
            | (w3, PFail _ x') => PS (p_kept st) (x' :: r) (p_dst st) w3 Failed shs
            | (w3, POk e _) => PS (p_kept st) r (p_dst st ++ [e]) w3 Running shs
            end
          end
      end
    end
  | _ => st
  end.

Definition pinit (src dst : list (Z * Z)) (w : world) (shape : list (option nat)) : pstate := PS [] src dst w Running shape.
Definition prun (kc vc : cat) (n : nat) (st : pstate) : pstate := Nat.iter n (pstep kc vc) st.
Definition pmerge (kc vc : cat) (src dst : list (Z * Z)) (w : world) (shape : list (option nat)) : pstate :=
  prun kc vc (S (length src)) (pinit src dst w shape).
