(* Property C03 -- theorems only.  Each is closed by `exact <lemma>` and followed by Print Assumptions. *)
From Coq Require Import ZArith Bool List.
From C03 Require Monitor Effects.
Import ListNotations.
Local Open Scope Z_scope.
Local Open Scope bool_scope.

(* The executable monitor that is run on the event log of the real containers accepts a trace if and only if
   the trace satisfies the declarative release discipline: for every block and every element object, its own
   history is a sequence of complete lifetimes  open(p) . use* . close(p)  -- i.e. every block is deallocated
   exactly once, after its allocation, with its allocation size and through a manager equal to the allocating
   one; no element is constructed on top of a live one; none is destroyed or used while dead; at the end no
   block and no element is live. *)
Theorem C03_monitor_sound : forall t, Monitor.accepts t = true -> Monitor.trace_ok t.
Proof. exact Monitor.monitor_sound. Qed.
Print Assumptions C03_monitor_sound.

Theorem C03_monitor_complete : forall t, Monitor.trace_ok t -> Monitor.accepts t = true.
Proof. exact Monitor.monitor_complete. Qed.
Print Assumptions C03_monitor_complete.

(* ---- L2 resource machine (Effects.v mirrors ObjectManager.h / Array.h / HashSet.h / TreeSet.h line by line).
   Reading guide: [st_is s f bs nb] = in state s the occupied cells (constructed, not yet destroyed element
   objects) are exactly the set f, the live blocks are exactly bs.  [post m s Qv Qe] = running m from s - whose
   failure schedule is arbitrary - never gets Stuck (no double destroy, no construction over a live element, no use
   of a dead one, no double free / wrong size / wrong manager), and ends normally in a state satisfying Qv or
   with a propagating exception in a state satisfying Qe. *)
From C03 Require EffectsProofs.
Import Effects EffectsProofs.

(* ObjectManager::RelocateExec, both relocation categories, every count, every schedule, every executor:
   on success the count source cells are destroyed, the count destination cells (and what the executor built)
   are live; on an exception the occupied cells are EXACTLY those before the call (every copy made so far has
   been destroyed again, no source has been destroyed); blocks untouched. *)
Theorem C03_relocate_exec_no_leak :
  forall c sr sb dr db n e s f bs nb,
    st_is s f bs nb -> reloc_pre f sr sb dr db n -> exec_ok f e ->
    (forall l, exec_add e l = true -> inrng dr db n l = false) ->
    post (om_relocate_exec c sr sb dr db n e) s
         (fun _ s' => st_is s' (fun l => negb (inrng sr sb n l) && (inrng dr db n l || exec_add e l || f l)) bs nb)
         (fun s' => st_is s' f bs nb).
Proof. exact EffectsProofs.om_relocate_exec_post. Qed.
Print Assumptions C03_relocate_exec_no_leak.

(* ObjectManager::Relocate(srcBegin, dstBegin, count): nothrow-move items are moved and destroyed one by one and
   nothing can throw; copy-only items go through RelocateCreate on the tail + a move-creator for the head. *)
Theorem C03_relocate_no_leak :
  forall c sr sb dr db n s f bs nb,
    st_is s f bs nb -> reloc_pre f sr sb dr db n ->
    post (om_relocate c sr sb dr db n) s
         (fun _ s' => st_is s' (fun l => negb (inrng sr sb n l) && (inrng dr db n l || f l)) bs nb)
         (fun s' => c = CPO /\ st_is s' f bs nb).
Proof. exact EffectsProofs.om_relocate_post. Qed.
Print Assumptions C03_relocate_no_leak.

Theorem C03_relocate_create_no_leak :
  forall c sr sb dr db n nd ns s f bs nb,
    st_is s f bs nb -> reloc_pre f sr sb dr db n -> f ns = true -> f nd = false -> inrng dr db n nd = false ->
    post (om_relocate_create c sr sb dr db n nd ns) s
         (fun _ s' => st_is s' (fun l => negb (inrng sr sb n l) && (inrng dr db n l || loc_eqb l nd || f l)) bs nb)
         (fun s' => st_is s' f bs nb).
Proof. exact EffectsProofs.om_relocate_create_post. Qed.
Print Assumptions C03_relocate_create_no_leak.

(* ObjectManager::MoveExec / CopyExec: the destination is live afterwards iff the call returned normally. *)
Theorem C03_move_exec_no_leak :
  forall c dst src e s f bs nb,
    st_is s f bs nb -> f src = true -> f dst = false -> exec_ok f e -> exec_add e dst = false ->
    post (om_move_exec c dst src e) s
         (fun _ s' => st_is s' (fun l => loc_eqb l dst || exec_add e l || f l) bs nb)
         (fun s' => st_is s' f bs nb).
Proof. exact EffectsProofs.om_move_exec_post. Qed.
Print Assumptions C03_move_exec_no_leak.

Theorem C03_copy_exec_no_leak :
  forall c dst src e s f bs nb,
    st_is s f bs nb -> f src = true -> f dst = false -> exec_ok f e -> exec_add e dst = false ->
    post (om_copy_exec c dst src e) s
         (fun _ s' => st_is s' (fun l => loc_eqb l dst || exec_add e l || f l) bs nb)
         (fun s' => st_is s' f bs nb).
Proof. exact EffectsProofs.om_copy_exec_post. Qed.
Print Assumptions C03_copy_exec_no_leak.

(* ObjectManager::Destroy(begin, count) on count live cells never destroys twice and leaves them all raw. *)
Theorem C03_destroy_range_exact :
  forall r n base s f bs nb,
    st_is s f bs nb -> (forall k, 0 <= k < Z.of_nat n -> f (r, base + k) = true) ->
    post (om_destroy_n r base n) s (fun _ s' => st_is s' (fun l => negb (inrng r base n l) && f l) bs nb) (fun _ => False).
Proof. exact EffectsProofs.om_destroy_n_post. Qed.
Print Assumptions C03_destroy_range_exact.

(* ---- Array<Item, MemManager>::Data (internalCapacity = 0).  [arr_world d ext s]: the world consists of exactly the array d
   (a_count d live items in its block, one block of a_cap d * sizeof(Item) bytes from manager mgr) plus non-heap cells ext. *)

(* Data::Reset with the items-creator of pvGrow / Shrink: both relocation categories, every schedule. On success the world is
   exactly the new array (old block freed, old cells raw); on an exception exactly the old array (new block freed). *)
Theorem C03_array_regrow_no_leak :
  forall c mgr isz d ext s capacity,
    arr_world mgr isz d ext s -> capacity <> O ->
    post (array_regrow c mgr isz d capacity) s
         (fun d' s' => arr_world mgr isz d' ext s' /\ a_count d' = a_count d /\ a_cap d' = capacity)
         (fun s' => arr_world mgr isz d ext s').
Proof. exact EffectsProofs.array_regrow_post. Qed.
Print Assumptions C03_array_regrow_no_leak.

(* Data::Reset with the items-creator of pvAddBackGrow(ItemCreator) (RelocateCreate) *)
Theorem C03_array_addback_grow_no_leak :
  forall c mgr isz d ext s capacity arg,
    arr_world mgr isz d ext s -> capacity <> O -> ext arg = true ->
    post (array_addback_grow c mgr isz d capacity arg) s
         (fun d' s' => arr_world mgr isz d' ext s' /\ a_count d' = S (a_count d) /\ a_cap d' = capacity)
         (fun s' => arr_world mgr isz d ext s').
Proof. exact EffectsProofs.array_addback_grow_post. Qed.
Print Assumptions C03_array_addback_grow_no_leak.

(* Array::AddBack(const Item&) with growth, BOTH paths of the tag dispatch (1059-1088): nothrow-relocatable items are copied
   into a stack buffer, the array grows (catch: destroy the stack copy), the buffer is relocated to the end; copy-only items go
   through RelocateCreate.  Every schedule: success = the array with one more item, exception = exactly the old array, and the
   stack buffer is raw again. *)
Theorem C03_array_addback_no_leak :
  forall c mgr isz d ext s capacity arg tmp,
    arr_world mgr isz d ext s -> capacity <> O -> ext arg = true -> ext tmp = false -> fst tmp < 0 ->
    post (array_addback c mgr isz d capacity arg tmp) s
         (fun d' s' => arr_world mgr isz d' ext s' /\ a_count d' = S (a_count d) /\ a_cap d' = capacity)
         (fun s' => arr_world mgr isz d ext s').
Proof. exact EffectsProofs.array_addback_post. Qed.
Print Assumptions C03_array_addback_no_leak.

(* ~Array: zero live cells of the array, zero blocks *)
Theorem C03_array_destroy_releases_everything :
  forall mgr isz d ext s,
    arr_world mgr isz d ext s ->
    post (array_destroy mgr isz d) s (fun _ s' => st_is s' ext [] (nextb s)) (fun _ => False).
Proof. exact EffectsProofs.array_destroy_post. Qed.
Print Assumptions C03_array_destroy_releases_everything.

(* closed forms (non-vacuous): a concrete array of count items, every schedule, every count and capacities *)
Theorem C03_array_regrow_then_destroy_any_schedule :
  forall c mgr isz count cap newcap sch,
    cap <> O -> newcap <> O ->
    let d := mkA 0 count cap in
    post (array_op_then_destroy mgr isz d (array_regrow c mgr isz d newcap)) (arr_init mgr isz count cap sch)
         (fun _ s' => st_is s' arg_only [] (nextb s')) (fun s' => st_is s' arg_only [] (nextb s')).
Proof. exact EffectsProofs.array_regrow_any_schedule. Qed.
Print Assumptions C03_array_regrow_then_destroy_any_schedule.

Theorem C03_array_addback_then_destroy_any_schedule :
  forall c mgr isz count cap newcap sch,
    cap <> O -> newcap <> O ->
    let d := mkA 0 count cap in
    post (array_op_then_destroy mgr isz d (array_addback_grow c mgr isz d newcap (-3, 0))) (arr_init mgr isz count cap sch)
         (fun _ s' => st_is s' arg_only [] (nextb s')) (fun s' => st_is s' arg_only [] (nextb s')).
Proof. exact EffectsProofs.array_addback_any_schedule. Qed.
Print Assumptions C03_array_addback_then_destroy_any_schedule.

(* ---- constructor catch blocks as they are after fix 806b9fe.  The copy constructors of HashSet and TreeSet DELEGATE, so
   when the body throws the destructor runs too.  For every schedule and every item count: the constructor body, its catch
   block (pvDestroy + nulling the pointers) and the destructor never destroy an item twice, never free a block twice, never
   touch a freed block, and leave exactly the state before the call (no block, no copied item). *)
Theorem C03_hashset_copy_ctor_no_leak :
  forall mgr bufsz parsz crewsz sr n s f bs,
    fresh_world s f bs -> (forall k, 0 <= k < Z.of_nat n -> f (sr, 0 + k) = true) ->
    post (hs_copy_then_destroy mgr bufsz parsz crewsz true sr n) s
         (fun _ s' => st_is s' f bs (nextb s')) (fun s' => st_is s' f bs (nextb s')).
Proof. exact EffectsProofs.hs_copy_then_destroy_post. Qed.
Print Assumptions C03_hashset_copy_ctor_no_leak.

Theorem C03_treeset_copy_ctor_no_leak :
  forall mgr crewsz nodesz tparsz sr n s f bs,
    fresh_world s f bs -> (forall k, 0 <= k < Z.of_nat n -> f (sr, 0 + k) = true) ->
    post (ts_copy_then_destroy mgr crewsz nodesz tparsz true sr n) s
         (fun _ s' => st_is s' f bs (nextb s')) (fun s' => st_is s' f bs (nextb s')).
Proof. exact EffectsProofs.ts_copy_then_destroy_post. Qed.
Print Assumptions C03_treeset_copy_ctor_no_leak.

Theorem C03_hashset_copy_ctor_any_schedule :
  forall mgr bufsz parsz crewsz (n : nat) (sch : list bool),
    post (hs_copy_then_destroy mgr bufsz parsz crewsz true (-1) n) (init_state (-1) (Z.of_nat n) sch)
         (fun _ s' => only_sources_left (Z.of_nat n) s') (fun s' => only_sources_left (Z.of_nat n) s').
Proof. exact EffectsProofs.hs_copy_any_schedule. Qed.
Print Assumptions C03_hashset_copy_ctor_any_schedule.

Theorem C03_treeset_copy_ctor_any_schedule :
  forall mgr crewsz nodesz tparsz (n : nat) (sch : list bool),
    post (ts_copy_then_destroy mgr crewsz nodesz tparsz true (-1) n) (init_state (-1) (Z.of_nat n) sch)
         (fun _ s' => only_sources_left (Z.of_nat n) s') (fun s' => only_sources_left (Z.of_nat n) s').
Proof. exact EffectsProofs.ts_copy_any_schedule. Qed.
Print Assumptions C03_treeset_copy_ctor_any_schedule.

(* the constructor shape BEFORE the fix is refuted: a schedule and a count for which the destructor after the failed
   delegating constructor destroys / frees twice (the machine is Stuck) - kept so that a regression has a named witness *)
Theorem C03_ctor_double_destroy_refuted :
  exists (sch : list bool) (n : nat),
    is_stuck (hs_copy_then_destroy 1 64 16 24 false (-1) n (init_state (-1) (Z.of_nat n) sch)) = true /\
    is_stuck (ts_copy_then_destroy 1 24 96 168 false (-1) n (init_state (-1) (Z.of_nat n) sch)) = true.
Proof. exact EffectsProofs.ctor_double_destroy_refuted. Qed.
Print Assumptions C03_ctor_double_destroy_refuted.

(* ================= part 2 (Effects2.v): crews, node params, row-building constructors ================= *)
From C03 Require Effects2 Effects2Proofs.
Import Effects2 Effects2Proofs.

(* Crew objects and the node params that point into them.  A set owns its crew block (traits + version + THE MemManager);
   its node params' pools allocate and free THROUGH the manager stored in a crew block.  Scenario, for every schedule and
   every k, m:  { TS dst; { TS src; src gets k nodes; src.MergeTo(dst) (dst empty, equal managers); } dst gets m nodes; }
   with all destructors.  With c7fda03 (Swap: crew, params and nodes travel together) no allocation or deallocation ever
   goes through a freed manager, every crew / params / node block is released exactly once by whichever set ends up owning
   it, and the blocks at the end are exactly those at the beginning. *)
Theorem C03_merge_into_empty_params_travel_with_crew :
  forall mgr crewsz parsz nodesz k m s f bs,
    st_is s f bs (nextb s) -> dlist bs (nextb s) ->
    post (merge_scn mgr crewsz parsz nodesz true k m) s
         (fun _ s' => st_is s' f bs (nextb s')) (fun s' => st_is s' f bs (nextb s')).
Proof. exact Effects2Proofs.merge_scn_post. Qed.
Print Assumptions C03_merge_into_empty_params_travel_with_crew.

(* the shape before c7fda03 (params swapped without the crew) is Stuck - a deallocation through a dead manager *)
Theorem C03_merge_params_without_crew_refuted :
  exists (k m : nat) (sch : list bool),
    is_stuck (merge_scn 1 24 168 450 false k m (init_state (-1) 0 sch)) = true /\
    is_stuck (merge_scn 1 24 168 450 true k m (init_state (-1) 0 sch)) = false.
Proof. exact Effects2Proofs.merge_params_without_crew_refuted. Qed.
Print Assumptions C03_merge_params_without_crew_refuted.

(* move construction: the crew is allocated once and released once, by the last owner; the moved-from set is null and
   releases nothing *)
Theorem C03_crew_moved_from_is_null_released_once :
  forall mgr crewsz parsz nodesz k s f bs,
    st_is s f bs (nextb s) -> dlist bs (nextb s) ->
    post (move_scn mgr crewsz parsz nodesz k) s
         (fun _ s' => st_is s' f bs (nextb s')) (fun s' => st_is s' f bs (nextb s')).
Proof. exact Effects2Proofs.move_scn_post. Qed.
Print Assumptions C03_crew_moved_from_is_null_released_once.

(* DataTable(const DataTable&) / selection constructors as fixed in 91ea186: crew, pvFill (pvImportRaw with its own
   roll-back, AddRaw with catch { pvDestroyRaw }), the outer catch { pvDestroyRaws(); mRaws.Clear(); } and ~DataTable of the
   delegating constructor: for every schedule, every number of rows, ANY number of items per row (colsf is an arbitrary function of the row index), nothing is destroyed or freed twice and the
   world ends exactly as it started. *)
Theorem C03_datatable_copy_ctor_no_leak :
  forall mgr rsz crewsz colsf haskey linkfail stride, 0 <= stride -> forall sr kr n s f bs,
    rows_world s f bs sr kr ->
    post (dt_copy_then_destroy mgr rsz crewsz colsf haskey linkfail stride true sr kr n) s
         (fun _ s' => st_is s' f bs (nextb s')) (fun s' => st_is s' f bs (nextb s')).
Proof. exact Effects2Proofs.dt_copy_then_destroy_post. Qed.
Print Assumptions C03_datatable_copy_ctor_no_leak.

Theorem C03_datatable_copy_ctor_any_schedule :
  forall mgr rsz crewsz colsf stride n sch,
    0 <= stride ->
    post (dt_copy_then_destroy mgr rsz crewsz colsf false true stride true (-1) (-2) n) (rows_init sch)
         (fun _ s' => back_to_start s') (fun s' => back_to_start s').
Proof. exact Effects2Proofs.dt_copy_any_schedule. Qed.
Print Assumptions C03_datatable_copy_ctor_any_schedule.

Theorem C03_datatable_fill_double_destroy_refuted :
  exists (n : nat) (sch : list bool),
    is_stuck (dt_copy_then_destroy 1 40 24 (fun _ => 2%nat) false true 2 false (-1) (-2) n (rows_init sch)) = true /\
    is_stuck (dt_copy_then_destroy 1 40 24 (fun _ => 2%nat) false true 2 true (-1) (-2) n (rows_init sch)) = false.
Proof. exact Effects2Proofs.dt_fill_double_destroy_refuted. Qed.
Print Assumptions C03_datatable_fill_double_destroy_refuted.

(* HashMultiMap(const HashMultiMap&, MemManager) as fixed in 84c9298 and HashMultiMap(initializer_list): both crews, per key the
   value array (built with roll-back), the insertion with catch { valueArray.Clear(); }, the outer catch
   { pvClearValueArrays(); mValueCrew.Destroy(); } and the destructor that follows with its IsNull guard *)
Theorem C03_hashmultimap_ctor_no_leak :
  forall mgr rsz crewsz colsf haskey linkfail stride, 0 <= stride -> forall sr kr n s f bs,
    rows_world s f bs sr kr ->
    post (hmm_ctor_then_destroy mgr rsz crewsz colsf haskey linkfail stride true sr kr n) s
         (fun _ s' => st_is s' f bs (nextb s')) (fun s' => st_is s' f bs (nextb s')).
Proof. exact Effects2Proofs.hmm_ctor_then_destroy_post. Qed.
Print Assumptions C03_hashmultimap_ctor_no_leak.

Theorem C03_hashmultimap_ctor_any_schedule :
  forall mgr rsz crewsz colsf stride n sch,
    0 <= stride ->
    post (hmm_ctor_then_destroy mgr rsz crewsz colsf true true stride true (-1) (-2) n) (rows_init sch)
         (fun _ s' => back_to_start s') (fun s' => back_to_start s').
Proof. exact Effects2Proofs.hmm_ctor_any_schedule. Qed.
Print Assumptions C03_hashmultimap_ctor_any_schedule.

(* without the IsNull guard the destructor after the failed delegating constructor would release the rows and the value
   crew a second time *)
Theorem C03_hashmultimap_dtor_without_guard_refuted :
  exists (n : nat) (sch : list bool),
    is_stuck (hmm_ctor_then_destroy 1 40 24 (fun i => Z.to_nat (1 + i)) true true 8 false (-1) (-2) n (rows_init sch)) = true /\
    is_stuck (hmm_ctor_then_destroy 1 40 24 (fun i => Z.to_nat (1 + i)) true true 8 true (-1) (-2) n (rows_init sch)) = false.
Proof. exact Effects2Proofs.hmm_dtor_without_guard_refuted. Qed.
Print Assumptions C03_hashmultimap_dtor_without_guard_refuted.

(* MemPool::MergeFrom at the resource level: two pools take a and b buffers from the memory manager, one is merged into the
   other (every buffer of the source is linked into the destination, as after 7f37c9f), both are destroyed: for every schedule
   and every a, b each buffer is returned exactly once, with its size, by whichever pool ends up owning it.  (The list
   surgery itself - prev/next links - is C09's PoolLinks theorem; this is its consequence for the blocks.) *)
Theorem C03_mempool_merge_buffers_returned_once :
  forall mgr bufsz a b s f bs,
    st_is s f bs (nextb s) -> dlist bs (nextb s) ->
    post (pools_scn mgr bufsz true a b) s (fun _ s' => st_is s' f bs (nextb s')) (fun s' => st_is s' f bs (nextb s')).
Proof. exact Effects2Proofs.pools_scn_post. Qed.
Print Assumptions C03_mempool_merge_buffers_returned_once.

(* the surgery before 7f37c9f orphans the source's full buffers: they are never returned *)
Theorem C03_mempool_merge_orphans_refuted :
  exists (a b : nat) (sch : list bool),
    (let '(_, s') := pools_scn 1 114 false a b (init_state (-1) 0 sch) in blocks s' <> []) /\
    (let '(_, s') := pools_scn 1 114 true a b (init_state (-1) 0 sch) in blocks s' = []).
Proof. exact Effects2Proofs.pools_merge_orphans_refuted. Qed.
Print Assumptions C03_mempool_merge_orphans_refuted.

(* ================= part 3 (Effects3.v): SegmentedArray range constructor, HashSet growth ================= *)
From C03 Require Effects3 Effects3Proofs.
Import Effects3 Effects3Proofs.

(* SegmentedArray(begin, end, memManager) (218-235): delegated-to constructor, AddBackCrt per item (a new segment whenever the
   current one is full; the capacity stays increased when the item creation throws), catch { pvDecCount(0); pvDecCapacity(0); },
   then ~SegmentedArray of the delegating constructor on the emptied object: for every schedule, every item count and ANY positive
   capacity per segment (segcapf is an arbitrary function of the segment index) every item is destroyed once, every segment returned once, nothing twice *)
Theorem C03_segmentedarray_range_ctor_no_leak :
  forall mgr segsz segcapf src kr n s f bs,
    (forall k, 0 < segcapf k)%nat -> rows_world s f bs src kr ->
    post (sa_ctor_then_destroy mgr segsz segcapf src n) s
         (fun _ s' => st_is s' f bs (nextb s')) (fun s' => st_is s' f bs (nextb s')).
Proof. exact Effects3Proofs.sa_ctor_then_destroy_post. Qed.
Print Assumptions C03_segmentedarray_range_ctor_no_leak.

Theorem C03_segmentedarray_range_ctor_any_schedule :
  forall mgr segsz segcapf n sch,
    (forall k, 0 < segcapf k)%nat ->
    post (sa_ctor_then_destroy mgr segsz segcapf (-1) n) (rows_init sch)
         (fun _ s' => back_to_start s') (fun s' => back_to_start s').
Proof. exact Effects3Proofs.sa_ctor_any_schedule. Qed.
Print Assumptions C03_segmentedarray_range_ctor_any_schedule.

(* HashSet growth and pvRelocateItems, resource accounting.  The table is the newest generation of buckets plus the older
   generations still linked behind it.  For ANY history of insertions (each with or without growth; a failed allocation of a
   new generation falls back to the existing one, Settings::overloadIfCannotGrow), for EVERY failure schedule - failed item
   copies, migrations interrupted by a throwing copy (swallowed by pvRelocateItems) and resumed by a later insertion - and for
   both item categories: the machine is never Stuck, so an old generation is returned only after it has been emptied and never
   twice, no item is destroyed twice or constructed over a live one; after ~HashSet the world is exactly as before. *)
Theorem C03_hashset_growth_migration_no_leak :
  forall c mgr gensz ops src kr s f bs,
    rows_world s f bs src kr ->
    post (hs_history c mgr gensz ops src) s (fun _ s' => st_is s' f bs (nextb s')) (fun s' => st_is s' f bs (nextb s')).
Proof. exact Effects3Proofs.hs_history_post. Qed.
Print Assumptions C03_hashset_growth_migration_no_leak.

Theorem C03_hashset_growth_any_history_any_schedule :
  forall c mgr gensz ops sch,
    post (hs_history c mgr gensz ops (-1)) (rows_init sch) (fun _ s' => back_to_start s') (fun s' => back_to_start s').
Proof. exact Effects3Proofs.hs_history_any_schedule. Qed.
Print Assumptions C03_hashset_growth_any_history_any_schedule.

(* ================= part 4 (Effects4.v): TreeSet::pvCopy on ARBITRARY trees; growth points from the capacity policy ========= *)
From C03 Require Effects4 Effects4Proofs.
Import Effects4 Effects4Proofs.

(* TreeSet::pvCopy / pvDestroy (TreeSet.h:1017-1062) on a source tree of ANY shape - any depth, every node with its own number
   of items and its own number of children - proved by mutual induction on the tree.  From any state in which the regions at
   and above the next block id are untouched: on success the copy's footprint (every node block, every item cell) is exactly
   added; on an exception - a failure at ANY node, at its allocation or at any of its items - every node and item built so far
   has been released exactly once and the state is exactly the one before the call.  Never Stuck. *)
Theorem C03_treeset_pvcopy_any_tree :
  forall mgr nodesz src t sb s f L nb,
    0 <= sb -> st_is s f L nb -> dlist L nb -> (forall l, nb <= fst l -> f l = false) -> (forall x, 0 <= x -> f (src, x) = true) ->
    match pv_copy mgr nodesz src t sb s with
    | (Val bt, s') => exists nb', nb <= nb' /\ st_is s' (fun l => bt_occ bt l || f l) (bt_blks mgr nodesz bt ++ L) nb' /\
                                  dlist (bt_blks mgr nodesz bt ++ L) nb' /\ Forall (fun x => nb <= x) (ids (bt_blks mgr nodesz bt))
    | (Exc, s') => exists nb', nb <= nb' /\ st_is s' f L nb'
    | (Stuck, _) => False
    end.
Proof. exact Effects4Proofs.pv_copy_ok. Qed.
Print Assumptions C03_treeset_pvcopy_any_tree.

(* pvDestroy(root) on any built tree releases exactly its footprint *)
Theorem C03_treeset_pvdestroy_any_tree :
  forall mgr nodesz bt s f L nb,
    st_is s (fun l => bt_occ bt l || f l) (bt_blks mgr nodesz bt ++ L) nb -> dlist (bt_blks mgr nodesz bt ++ L) nb ->
    (forall l, In (fst l) (ids (bt_blks mgr nodesz bt)) -> f l = false) ->
    post (pv_destroy mgr nodesz bt) s (fun _ s' => st_is s' f L nb /\ dlist L nb) (fun _ => False).
Proof. exact Effects4Proofs.pv_destroy_post. Qed.
Print Assumptions C03_treeset_pvdestroy_any_tree.

(* TreeSet(const TreeSet&, MemManager) as after 806b9fe on any tree, then the destructor: every schedule *)
Theorem C03_treeset_copy_ctor_any_tree_no_leak :
  forall mgr nodesz parsz crewsz src kr t s f bs,
    rows_world s f bs src kr ->
    post (tsn_copy_then_destroy mgr nodesz parsz crewsz true src t) s
         (fun _ s' => st_is s' f bs (nextb s')) (fun s' => st_is s' f bs (nextb s')).
Proof. exact Effects4Proofs.tsn_copy_then_destroy_post. Qed.
Print Assumptions C03_treeset_copy_ctor_any_tree_no_leak.

Theorem C03_treeset_copy_ctor_any_tree_any_schedule :
  forall mgr nodesz parsz crewsz t sch,
    post (tsn_copy_then_destroy mgr nodesz parsz crewsz true (-1) t) (rows_init sch)
         (fun _ s' => back_to_start s') (fun s' => back_to_start s').
Proof. exact Effects4Proofs.tsn_copy_any_tree_any_schedule. Qed.
Print Assumptions C03_treeset_copy_ctor_any_tree_any_schedule.

Theorem C03_treeset_copy_ctor_any_tree_double_destroy_refuted :
  exists (sch : list bool),
    is_stuck (tsn_copy_then_destroy 1 96 168 24 false (-1) sample_tree (rows_init sch)) = true /\
    is_stuck (tsn_copy_then_destroy 1 96 168 24 true (-1) sample_tree (rows_init sch)) = false.
Proof. exact Effects4Proofs.tsn_double_destroy_refuted. Qed.
Print Assumptions C03_treeset_copy_ctor_any_tree_double_destroy_refuted.

(* HashSet growth with the growth points DERIVED from the capacity policy (pvAdd grows iff !(mCount < mCapacity), mCapacity =
   capf(generation)), for any policy capf, any number of insertions, every schedule (failed insertions shift the growth points) *)
Theorem C03_hashset_growth_capacity_policy_no_leak :
  forall c mgr gensz capf n src kr s f bs,
    rows_world s f bs src kr ->
    post (hs_history_auto c mgr gensz capf n src) s (fun _ s' => st_is s' f bs (nextb s')) (fun s' => st_is s' f bs (nextb s')).
Proof. exact Effects3Proofs.hs_history_auto_post. Qed.
Print Assumptions C03_hashset_growth_capacity_policy_no_leak.

(* The FIRST insertion into a HashSet that has no bucket array (fresh, after Clear(true), ...): pvAddGrow creates the bucket array
   and the bucket params, adds the item, and on a failure destroys BOTH (Destroy(memManager, !hasBuckets)); with the destructor
   and the crew, for every schedule: never Stuck, every block returned exactly once *)
Theorem C03_hashset_first_insert_no_leak :
  forall mgr bufsz parsz crewsz src s f bs,
    st_is s f bs (nextb s) -> dlist bs (nextb s) -> (forall l, nextb s <= fst l -> f l = false) -> f src = true ->
    post (first_insert_scn mgr bufsz parsz crewsz true src) s
         (fun _ s' => st_is s' f bs (nextb s')) (fun s' => st_is s' f bs (nextb s')).
Proof. exact Effects4Proofs.first_insert_scn_post. Qed.
Print Assumptions C03_hashset_first_insert_no_leak.

(* the shape `Destroy(GetMemManager(), false)` orphans the params of a failed first insertion (leak witness) *)
Theorem C03_hashset_first_insert_params_orphaned_refuted :
  exists (sch : list bool),
    (let '(_, s') := first_insert_scn 1 64 16 24 false (-1, 0) (rows_init sch) in blocks s' <> []) /\
    (let '(_, s') := first_insert_scn 1 64 16 24 true (-1, 0) (rows_init sch) in blocks s' = []).
Proof. exact Effects4Proofs.first_insert_params_orphaned_refuted. Qed.
Print Assumptions C03_hashset_first_insert_params_orphaned_refuted.

(* ================= part 5 (Pointwise.v, Effects5.v): pointwise block accounting; SegmentedArray with its pointer array ====== *)
From C03 Require Pointwise Effects5 Effects5Proofs.
Import Pointwise Effects5 Effects5Proofs.

(* State summaries in which the live blocks are a FUNCTION id -> option (manager, size) ([st2]) instead of an exact list, so
   blocks may be returned in any order.  SegmentedArray owns its segments AND the Array<Segment*> pointer array mSegments;
   pvIncCapacity does mSegments.Reserve(segCount + 1) - which may allocate a bigger pointer array (and fail) and frees the old one
   while older segments are still live - then allocates the segment.  [sa2_inv st s nb]: the object st owns exactly its
   segments (each with its own item count) and its current pointer array, all distinct.
   AddBack with growth, n times, from any well-formed object, every schedule: the object stays well-formed. *)
Theorem C03_segmentedarray_addback_growth_with_pointer_array :
  forall mgr segsz psz segcapf pgrow f g0 nb0 src,
    (forall l, nb0 <= fst l -> f l = false) -> (forall b, nb0 <= b -> g0 b = None) -> (forall x, 0 <= x -> f (src, x) = true) ->
    forall n i st s nb, 0 <= i -> sa2_inv mgr segsz psz f g0 nb0 st s nb ->
    match sa2_fill mgr segsz psz segcapf pgrow src i n st s with
    | ((_, Stuck), _) => False
    | ((st', _), s') => exists nb', sa2_inv mgr segsz psz f g0 nb0 st' s' nb'
    end.
Proof. exact Effects5Proofs.sa2_addback_growth_post. Qed.
Print Assumptions C03_segmentedarray_addback_growth_with_pointer_array.

(* destruction: pvDecCount(0); pvDecCapacity(0) release every item and every segment exactly once, the pointer array stays ... *)
Theorem C03_segmentedarray_clear_segments :
  forall mgr segsz psz f g0 nb0,
    (forall l, nb0 <= fst l -> f l = false) -> (forall b, nb0 <= b -> g0 b = None) ->
    forall st s nb, sa2_inv mgr segsz psz f g0 nb0 st s nb ->
    post (sa2_clear_segs mgr segsz st) s (fun _ s' => sa2_inv mgr segsz psz f g0 nb0 (mkS [] None (s_ptr st)) s' nb) (fun _ => False).
Proof. exact Effects5Proofs.sa2_clear_segs_post. Qed.
Print Assumptions C03_segmentedarray_clear_segments.

(* ... and ~mSegments returns it: nothing of the object is left *)
Theorem C03_segmentedarray_pointer_array_released :
  forall mgr segsz psz f g0 nb0,
    (forall b, nb0 <= b -> g0 b = None) ->
    forall st s nb, sa2_inv mgr segsz psz f g0 nb0 st s nb -> s_olds st = [] -> s_cur st = None ->
    post (sa2_free_ptr mgr psz st) s (fun _ s' => st2 s' f g0 nb) (fun _ => False).
Proof. exact Effects5Proofs.sa2_free_ptr_post. Qed.
Print Assumptions C03_segmentedarray_pointer_array_released.

(* the range constructor with the pointer array, the catch block, ~SegmentedArray and ~mSegments: every schedule (segment
   allocations, POINTER ARRAY allocations, item copies), any segment capacities, any pointer-array growth policy *)
Theorem C03_segmentedarray_range_ctor_with_pointer_array_no_leak :
  forall mgr segsz psz segcapf pgrow src n s f g0,
    pw_world s f g0 src ->
    post (sa2_ctor_then_destroy mgr segsz psz segcapf pgrow src n) s
         (fun _ s' => st2 s' f g0 (nextb s')) (fun s' => st2 s' f g0 (nextb s')).
Proof. exact Effects5Proofs.sa2_ctor_then_destroy_post. Qed.
Print Assumptions C03_segmentedarray_range_ctor_with_pointer_array_no_leak.

Theorem C03_segmentedarray_with_pointer_array_any_schedule :
  forall mgr segsz psz segcapf pgrow n sch,
    post (sa2_ctor_then_destroy mgr segsz psz segcapf pgrow (-1) n) (rows_init sch)
         (fun _ s' => back_to_start s') (fun s' => back_to_start s').
Proof. exact Effects5Proofs.sa2_ctor_any_schedule. Qed.
Print Assumptions C03_segmentedarray_with_pointer_array_any_schedule.

(* ================= part 6 (Effects6.v): MemPool cache across MergeFrom, DataTable crew, allocator migration ================= *)
From C03 Require Effects6 Effects6Proofs.
Import Effects6 Effects6Proofs.

(* MemPool::MergeFrom with the free-block cache (blocks live inside buffers; freed blocks wait in the pool's cache): as it is -
   the SOURCE's cache is flushed before its buffers are spliced into the destination - the source afterwards holds no cached
   block, no free block and no buffer; every buffer it owned, hence every block of a moved buffer, belongs to the destination;
   every formerly cached or free block of the source is a free block of the destination; both pools stay well-formed
   ([pool_wf]: every cached / free block lies in a buffer the pool owns) *)
Theorem C03_mempool_merge_source_cache_flushed :
  forall dst src, pool_wf dst -> pool_wf src ->
    let '(dst', src') := pool_merge_from true dst src in
    p_cache src' = [] /\ p_free src' = [] /\ p_bufs src' = [] /\
    (forall b, In b (p_bufs src) -> In b (p_bufs dst')) /\ (forall b, In b (p_bufs dst) -> In b (p_bufs dst')) /\
    (forall blk, In blk (p_cache src ++ p_free src) -> In blk (p_free dst')) /\
    pool_wf dst' /\ pool_wf src'.
Proof. exact Effects6Proofs.merge_from_source_emptied. Qed.
Print Assumptions C03_mempool_merge_source_cache_flushed.

(* a well-formed pool only hands out blocks of buffers it owns *)
Theorem C03_mempool_allocate_from_owned_buffer :
  forall mgr bufsz bc p s, pool_wf p ->
    match pool_allocate mgr bufsz bc p s with
    | (((p', blk), Val _), _) => pool_wf p' /\ In (fst blk) (p_bufs p')
    | (((p', _), _), _) => pool_wf p'
    end.
Proof. exact Effects6Proofs.pool_allocate_wf. Qed.
Print Assumptions C03_mempool_allocate_from_owned_buffer.

(* seeded change C03/b (the DESTINATION's cache is flushed instead): the source keeps cached blocks of buffers it no longer owns *)
Theorem C03_mempool_merge_wrong_flush_refuted :
  exists dst src, pool_wf dst /\ pool_wf src /\ ~ pool_wf (snd (pool_merge_from false dst src)).
Proof. exact Effects6Proofs.merge_from_wrong_flush_refuted. Qed.
Print Assumptions C03_mempool_merge_wrong_flush_refuted.

(* ... and the scenario of that change executed on the machine: source frees blocks (cached), merge, source refilled, destination
   destroyed first, source reads its block: Stuck (use of a freed buffer) with the wrong flush, clean as it is *)
Theorem C03_mempool_merge_refill_use_after_free_refuted :
  exists (a : nat) (sch : list bool),
    is_stuck (merge_refill_scn 1 114 2 16 false a (init_state (-1) 0 sch)) = true /\
    (let '(o, s') := merge_refill_scn 1 114 2 16 true a (init_state (-1) 0 sch) in
     is_stuck (o, s') = false /\ blocks s' = []).
Proof. exact Effects6Proofs.merge_refill_use_after_free_refuted. Qed.
Print Assumptions C03_mempool_merge_refill_use_after_free_refuted.

(* DataTable crew lifecycle (Crew with the free-raw stack), single-threaded resource view: any history of NewRow / Add / Extract /
   ~Row (the raw is pushed on the crew's stack, not freed) / pvDeallocateFreeRaws, every schedule, then the rows still held die and
   ~DataTable: a raw disposed by a row object is reclaimed exactly once, by the owning table; the crew is released once.  The
   lock-free push / pop interleavings are C19's. *)
Theorem C03_datatable_crew_free_raws_reclaimed_once :
  forall mgr rsz crewsz ops s f g0,
    st2 s f g0 (nextb s) -> (forall b, nextb s <= b -> g0 b = None) ->
    post (dt_history mgr rsz crewsz ops) s (fun _ s' => st2 s' f g0 (nextb s')) (fun s' => st2 s' f g0 (nextb s')).
Proof. exact Effects6Proofs.dt_history_post. Qed.
Print Assumptions C03_datatable_crew_free_raws_reclaimed_once.

Theorem C03_datatable_crew_any_history_any_schedule :
  forall mgr rsz crewsz ops sch,
    post (dt_history mgr rsz crewsz ops) (init_state (-1) 0 sch) (fun _ s' => blocks s' = []) (fun s' => blocks s' = []).
Proof. exact Effects6Proofs.dt_history_any_schedule. Qed.
Print Assumptions C03_datatable_crew_any_history_any_schedule.

(* stdish containers under UNEQUAL allocators (element-wise migration): every element is move-constructed into storage taken from
   the TARGET's allocator B; on success the source releases its elements and its storage through ITS allocator A, on a failed
   allocation the partial target goes back through B; with both containers destroyed afterwards, for every schedule: never
   Stuck (in particular no block is ever returned through an allocator that did not allocate it), every source element is
   destroyed exactly once, and what is left is the rest of the world with the source's storage returned *)
Theorem C03_stdish_migration_unequal_allocators_no_leak :
  forall mgrA mgrB nsz f0 g0 nb0 srcs,
    (forall l, nb0 <= fst l -> f0 l = false) -> (forall b, nb0 <= b -> g0 b = None) ->
    (forall b, In b srcs -> b < nb0) -> NoDup srcs -> (forall b, In b srcs -> f0 (b, 0) = false) ->
    forall s nb, st2 s (wf_cells f0 srcs) (wg mgrA nsz g0 srcs) nb -> nb0 <= nb ->
    post (migrate_then_destroy mgrA mgrB nsz srcs) s
         (fun _ s' => exists nb', st2 s' f0 (wg_end g0 srcs) nb') (fun s' => exists nb', st2 s' f0 (wg_end g0 srcs) nb').
Proof. exact Effects6Proofs.migrate_then_destroy_post. Qed.
Print Assumptions C03_stdish_migration_unequal_allocators_no_leak.

(* returning the source's storage through the TARGET's allocator is Stuck (wrong manager) *)
Theorem C03_stdish_migration_wrong_allocator_refuted :
  is_stuck (migrate_wrong_allocator 2 16 [1; 0]
              (mkR (fun l => if Z.eqb (snd l) 0 && (Z.eqb (fst l) 0 || Z.eqb (fst l) 1) then Live 5 else Raw)
                   [(1, (1, 16)); (0, (1, 16))] [] 2 [])) = true.
Proof. exact Effects6Proofs.migrate_wrong_allocator_refuted. Qed.
Print Assumptions C03_stdish_migration_wrong_allocator_refuted.

(* stdish::vector(vector&&, allocator) with UNEQUAL allocators (contiguous migration) followed by both destructors: the target's
   storage is allocated and returned through B, the source's returned through A, all n source elements and all n target
   elements are destroyed exactly once; every schedule *)
Theorem C03_stdish_vector_migration_unequal_allocators_no_leak :
  forall mgrA mgrB isz sb n s f g nb,
    st2 s f g nb -> g sb = Some (mgrA, Z.of_nat n * isz) -> sb < nb -> g nb = None ->
    (forall k, 0 <= k < Z.of_nat n -> f (sb, 0 + k) = true) -> (forall l, fst l = nb -> f l = false) ->
    post (migrate_block_then_destroy mgrA mgrB isz sb n) s
         (fun _ s' => exists nb', st2 s' (fun l => negb (inrng sb 0 n l) && f l) (fun x => if Z.eqb sb x then None else g x) nb')
         (fun s' => exists nb', st2 s' (fun l => negb (inrng sb 0 n l) && f l) (fun x => if Z.eqb sb x then None else g x) nb').
Proof. exact Effects6Proofs.migrate_block_then_destroy_post. Qed.
Print Assumptions C03_stdish_vector_migration_unequal_allocators_no_leak.

(* ================================================================== part 7: TreeSet::Relocator bookkeeping during one insertion *)
From C03 Require Effects7 Effects7Proofs.
Import Effects7 Effects7Proofs.

(* ONE insertion that goes through TreeSet::Relocator (pvAddGrow / pvAddSplit): ANY script of mOldNodes.AddBack / CreateNode /
   AddSegment requests, ANY growth policy and element sizes of the four NestedArrayIntCap<4> arrays, ANY failure schedule (growing an
   array, creating a node, relocating the items).  CreateNode reserves the slot in mNewNodes BEFORE the node is created.  Never stuck;
   if the insertion throws, the memory manager's view is exactly the one before the insertion (every node created so far and every
   array block returned); if it succeeds, exactly the old nodes named by the script are gone, exactly the created nodes are new. *)
Theorem C03_treeset_relocator_insertion_no_leak :
  forall (mgr : Z) (esz : atag -> Z) (grow : nat -> nat) (f : loc -> bool) (g : bview) (nb0 : Z),
    (forall b, nb0 <= b -> g b = None) ->
    forall ops s nb,
    nb0 <= nb -> st2 s f g nb ->
    olds_ok mgr g nb0 (rev (olds_of (flat_map (expand true) ops))) ->
    post (insertion mgr esz grow true ops) s
         (fun _ s' => exists r nb', nb0 <= nb' /\ r_olds r = rev (olds_of (flat_map (expand true) ops)) /\ st2 s' f (done_view mgr g r) nb')
         (fun s' => exists nb', nb0 <= nb' /\ st2 s' f g nb').
Proof. exact Effects7Proofs.insertion_no_leak. Qed.
Print Assumptions C03_treeset_relocator_insertion_no_leak.

(* closed form: the insertion that takes a TreeNode<4, 1> tree from height 2 to 3 (5 new nodes: the 5th makes mNewNodes leave its
   internal storage), from a world holding exactly the two old nodes: every schedule *)
Theorem C03_treeset_relocator_height_increase_any_schedule :
  forall sch,
  match insertion 1 esz_std grow_dbl true h23_script (h23_state sch) with
  | (Stuck, _) => False
  | (Exc, s') => forall b, find_blk b (blocks s') = find_blk b (blocks (h23_state sch))
  | (Val _, s') => find_blk 0 (blocks s') = None /\ find_blk 1 (blocks s') = None
  end.
Proof. exact Effects7Proofs.h23_any_schedule. Qed.
Print Assumptions C03_treeset_relocator_height_increase_any_schedule.

Theorem C03_treeset_relocator_height_increase_success :
  let '(o, s') := insertion 1 esz_std grow_dbl true h23_script (h23_state []) in
  o = Val tt /\ map (fun e => snd (snd e)) (blocks s') = [96; 96; 96; 32; 32].
Proof. exact Effects7Proofs.h23_success_five_nodes. Qed.
Print Assumptions C03_treeset_relocator_height_increase_success.

(* seeded change (second wave, C03/b): `node = Node::Create(...); mNewNodes.AddBack(node)` - when the growth of mNewNodes fails, the
   5th node is recorded nowhere: one 96-byte block more than before stays live for ever; the real order leaves exactly the old nodes *)
Theorem C03_treeset_relocator_create_before_reserve_refuted :
  exists sch,
    (let '(o, s') := insertion 1 esz_std grow_dbl false h23_script (h23_state sch) in
     o = Exc /\ map (fun e => (fst e, snd (snd e))) (blocks s') = [(8, 96); (1, 96); (0, 48)]) /\
    (let '(o, s') := insertion 1 esz_std grow_dbl true h23_script (h23_state sch) in
     o = Exc /\ map (fun e => (fst e, snd (snd e))) (blocks s') = [(1, 96); (0, 48)]).
Proof. exact Effects7Proofs.create_before_reserve_refuted. Qed.
Print Assumptions C03_treeset_relocator_create_before_reserve_refuted.

(* ================================================================== part 8: the model instantiated at the facts read off the real code *)
(* Gen_C03Facts.v is written on every run by props/C03/astfacts.py from the clang AST of the CURRENT headers; GenTie.v gives the
   statement lists a meaning and uses it as the parameter of the hand model.  Reverting a fix makes these theorems unprovable. *)
From C03 Require GenPrimsC03 Gen_C03Facts GenTie.
Import GenPrimsC03 Gen_C03Facts GenTie.
From Coq Require Import String.
Local Open Scope string_scope.
Local Open Scope Z_scope.

(* 806b9fe: the catch blocks of the HashSet copy / initializer-list constructors as they are in the headers, followed by the
   destructor of the delegating constructor: every schedule, nothing released twice, nothing left *)
Theorem C03_gen_hashset_ctor_catch_no_leak :
  forall mgr bufsz parsz crewsz sr n s f bs,
    fresh_world s f bs -> (forall k, 0 <= k < Z.of_nat n -> f (sr, 0 + k) = true) ->
    post (hs_copy_then_destroy mgr bufsz parsz crewsz hashset_ctor_fixed sr n) s
         (fun _ s' => st_is s' f bs (nextb s')) (fun s' => st_is s' f bs (nextb s')).
Proof. exact GenTie.gen_hashset_ctor_no_leak. Qed.
Print Assumptions C03_gen_hashset_ctor_catch_no_leak.

Theorem C03_gen_treeset_ctor_catch_no_leak :
  forall mgr crewsz nodesz tparsz sr n s f bs,
    fresh_world s f bs -> (forall k, 0 <= k < Z.of_nat n -> f (sr, 0 + k) = true) ->
    post (ts_copy_then_destroy mgr crewsz nodesz tparsz treeset_ctor_fixed sr n) s
         (fun _ s' => st_is s' f bs (nextb s')) (fun s' => st_is s' f bs (nextb s')).
Proof. exact GenTie.gen_treeset_ctor_no_leak. Qed.
Print Assumptions C03_gen_treeset_ctor_catch_no_leak.

Theorem C03_gen_treeset_ctor_catch_any_tree_no_leak :
  forall mgr nodesz parsz crewsz src kr t s f bs,
    rows_world s f bs src kr ->
    post (tsn_copy_then_destroy mgr nodesz parsz crewsz treeset_ctor_fixed src t) s
         (fun _ s' => st_is s' f bs (nextb s')) (fun s' => st_is s' f bs (nextb s')).
Proof. exact GenTie.gen_treeset_ctor_any_tree_no_leak. Qed.
Print Assumptions C03_gen_treeset_ctor_catch_any_tree_no_leak.

(* 91ea186: the catch block of DataTable::pvFill as it is in the headers *)
Theorem C03_gen_datatable_fill_catch_no_leak :
  forall mgr rsz crewsz colsf haskey linkfail stride, 0 <= stride -> forall sr kr n s f bs,
    rows_world s f bs sr kr ->
    post (dt_copy_then_destroy mgr rsz crewsz colsf haskey linkfail stride datatable_fill_fixed sr kr n) s
         (fun _ s' => st_is s' f bs (nextb s')) (fun s' => st_is s' f bs (nextb s')).
Proof. exact GenTie.gen_datatable_fill_no_leak. Qed.
Print Assumptions C03_gen_datatable_fill_catch_no_leak.

(* 84c9298: one row of the HashMultiMap copy constructor as it is in the headers (value array, try Insert, catch Clear) *)
Theorem C03_gen_multimap_copy_row_no_leak :
  forall mgr rsz haskey linkfail cols sr sb kr i s f bs nb,
    0 <= i -> st_is s f bs nb -> dlist bs nb -> (forall l, fst l = nb -> f l = false) ->
    (forall k, 0 <= k < Z.of_nat cols -> f (sr, sb + 0 + k) = true) -> f (kr, i) = true ->
    post (hmm_insert_row mgr rsz haskey linkfail hmm_row_cleared cols sr sb kr i) s
         (fun row s' => row = nb /\ st_is s' (fun l => inrng nb 0 (cols + keyw haskey) l || f l) ((nb, (mgr, rsz)) :: bs) (nb + 1))
         (fun s' => exists nb', nb <= nb' /\ st_is s' f bs nb').
Proof. exact GenTie.gen_multimap_copy_row_no_leak. Qed.
Print Assumptions C03_gen_multimap_copy_row_no_leak.

Theorem C03_multimap_row_not_cleared_refuted :
  exists sch, let '(o, s') := hmm_insert_row 1 40 true true false 2 (-1) 0 (-2) 0 (rows_init sch) in
              o = Exc /\ blocks s' <> [].
Proof. exact GenTie.multimap_row_not_cleared_refuted. Qed.
Print Assumptions C03_multimap_row_not_cleared_refuted.

(* c7fda03: the `dstCount == 0` branch of TreeSet::MergeTo as it is in the headers: the node params travel with the crew *)
Theorem C03_gen_merge_into_empty_no_leak :
  forall mgr crewsz parsz nodesz k m s f bs,
    st_is s f bs (nextb s) -> dlist bs (nextb s) ->
    post (merge_scn mgr crewsz parsz nodesz mergeto_crew_travels k m) s
         (fun _ s' => st_is s' f bs (nextb s')) (fun s' => st_is s' f bs (nextb s')).
Proof. exact GenTie.gen_merge_into_empty_no_leak. Qed.
Print Assumptions C03_gen_merge_into_empty_no_leak.

(* 7f37c9f: the relinking statements of MemPool::MergeFrom as they are in the headers *)
Theorem C03_gen_mempool_merge_buffers_returned_once :
  forall mgr bufsz a b s f bs,
    st_is s f bs (nextb s) -> dlist bs (nextb s) ->
    post (pools_scn mgr bufsz merge_links_inserted a b) s (fun _ s' => st_is s' f bs (nextb s')) (fun s' => st_is s' f bs (nextb s')).
Proof. exact GenTie.gen_mempool_merge_buffers_returned_once. Qed.
Print Assumptions C03_gen_mempool_merge_buffers_returned_once.

(* seed 2-b: Relocator::CreateNode and ~Relocator as they are in the headers: any script, any growth policy, any schedule *)
Theorem C03_gen_relocator_insertion_no_leak :
  forall (mgr : Z) (esz : atag -> Z) (grow : nat -> nat) (f : loc -> bool) (g : bview) (nb0 : Z),
    (forall b, nb0 <= b -> g b = None) ->
    forall ops s nb,
    nb0 <= nb -> st2 s f g nb ->
    olds_ok mgr g nb0 (rev (olds_of (flat_map (expand true) ops))) ->
    post (insertion mgr esz grow relocator_good ops) s
         (fun _ s' => exists r nb', nb0 <= nb' /\ r_olds r = rev (olds_of (flat_map (expand true) ops)) /\ st2 s' f (done_view mgr g r) nb')
         (fun s' => exists nb', nb0 <= nb' /\ st2 s' f g nb').
Proof. exact GenTie.gen_relocator_insertion_no_leak. Qed.
Print Assumptions C03_gen_relocator_insertion_no_leak.

(* f8cb4ff: select_on_container_copy_construction with the noexcept flag and the body it has in the headers: copying a container never
   terminates; a failed allocation is an ordinary exception that leaves nothing behind *)
Theorem C03_gen_pool_allocator_copy_never_terminates :
  forall mgr poolsz s f g nb,
    st2 s f g nb -> g nb = None ->
    post (container_copy socc_noexcept socc_allocates mgr poolsz) s (fun _ s' => exists nb', st2 s' f g nb') (fun s' => exists nb', st2 s' f g nb').
Proof. exact GenTie.gen_pool_allocator_copy_never_terminates. Qed.
Print Assumptions C03_gen_pool_allocator_copy_never_terminates.

Theorem C03_noexcept_allocating_refuted :
  exists sch, fst (container_copy true true 1 64 (mkR (fun _ => Raw) [] sch 0 [])) = Stuck.
Proof. exact GenTie.noexcept_allocating_refuted. Qed.
Print Assumptions C03_noexcept_allocating_refuted.

(* fc18ee9: MemPool::Data::Swap as it is in the headers: after a table swap every pool still reaches its manager through a live crew *)
Theorem C03_gen_pool_swap_manager_pointers_follow :
  forall equal : bool,
  let '(o, s') := swap_scn data_swap_unconditional equal 1 24 512 (mkR (fun _ => Raw) [] [] 0 []) in
  o = Val tt /\ blocks s' = [].
Proof. exact GenTie.gen_pool_swap_manager_pointers_follow. Qed.
Print Assumptions C03_gen_pool_swap_manager_pointers_follow.

Theorem C03_pool_swap_skipping_equal_managers_refuted :
  fst (swap_scn false true 1 24 512 (mkR (fun _ => Raw) [] [] 0 [])) = Stuck.
Proof. exact GenTie.pool_swap_skipping_equal_managers_refuted. Qed.
Print Assumptions C03_pool_swap_skipping_equal_managers_refuted.

(* c72d55b: the root-collapse loop of TreeSet::pvRebalance as it is in the headers, then the first read of the climbing loop:
   no node is read after it was destroyed, whether `node` was the old root or its child *)
Theorem C03_gen_rebalance_collapse_no_use_after_free :
  (let '(o, s') := collapse_scn rebalance_collapse rebalance_climb_reads 0 collapse_state in o = Val tt /\ map fst (blocks s') = [1]) /\
  (let '(o, s') := collapse_scn rebalance_collapse rebalance_climb_reads 1 collapse_state in o = Val tt /\ map fst (blocks s') = [1]).
Proof. exact GenTie.gen_rebalance_collapse_no_use_after_free. Qed.
Print Assumptions C03_gen_rebalance_collapse_no_use_after_free.

Theorem C03_rebalance_collapse_old_refuted :
  fst (collapse_scn [SSet (PVar "mRootNode") (PChild0 (PVar "mRootNode")); SDestroyP (PParent (PVar "mRootNode")); SSetParentNull (PVar "mRootNode")]
                    [SLocal "parentNode" (PParent (PVar "node"))] 0 collapse_state) = Stuck.
Proof. exact GenTie.rebalance_collapse_old_refuted. Qed.
Print Assumptions C03_rebalance_collapse_old_refuted.

Theorem C03_generated_parameters :
  hashset_ctor_fixed = true /\ treeset_ctor_fixed = true /\ datatable_fill_fixed = true /\ hmm_row_cleared = true /\
  mergeto_crew_travels = true /\ merge_links_inserted = true /\ relocator_good = true /\ data_swap_unconditional = true /\
  socc_noexcept && socc_allocates = false.
Proof. exact GenTie.generated_parameters. Qed.
Print Assumptions C03_generated_parameters.

(* fc18ee9 on TRANSLATED code: MemPool::Data::Swap (Gen_MemPoolDataC03.v, tools/cxx2coq.py) exchanges the managers whatever their
   equality test answers, and the hand model's table swap takes its manager references from it *)
From C03 Require Gen_MemPoolDataC03 GenPoolSwap.
Theorem C03_gen_data_swap_exchanges_always :
  forall (m c m' c' : Z), Gen_MemPoolDataC03.Swap m c m' c' = (m', c', m, c).
Proof. exact GenPoolSwap.gen_data_swap_exchanges_always. Qed.
Print Assumptions C03_gen_data_swap_exchanges_always.

Theorem C03_table_swap_refines_generated :
  forall (equal : bool) (a b : tbl),
  let '(a', b') := tbl_swap true equal a b in
  let '(m, _, m', _) := Gen_MemPoolDataC03.Swap (t_mgrref a) 0 (t_mgrref b) 0 in
  t_mgrref a' = m /\ t_mgrref b' = m' /\ t_crew a' = t_crew b /\ t_crew b' = t_crew a.
Proof. exact GenPoolSwap.table_swap_refines_generated. Qed.
Print Assumptions C03_table_swap_refines_generated.

(* ================================================================== part 9: more TRANSLATED leaves (tools/cxx2coq.py), with refinements *)
From C03 Require Gen_RawC03 RawGenC03 GenRawTie Gen_HashSetC03 Gen_TreeSetC03 GenClear Gen_MemPoolMergeC03 GenMergeTie.

(* DataColumnList::pvCreateRaw (translated; proof copied from C18): after a failing item construction every record has been destroyed
   exactly as often as it was created - any number of columns, any record identities, any schedule *)
Theorem C03_gen_create_raw_failure_leaves_nothing :
  forall arr n P t c' d',
  0 <= n <= 65536 -> RawGenC03.first_fail P 0 (Z.to_nat n) = Some t ->
  Gen_RawC03.pvCreateRaw n arr 0 (fun _ => 0) (fun _ => 0) P = GenPrelude.Ok (false, Z.of_nat t, c', d') -> forall x, d' x = c' x.
Proof. exact GenRawTie.generated_create_raw_failure_leaves_nothing. Qed.
Print Assumptions C03_gen_create_raw_failure_leaves_nothing.

(* ... and the hand model's import_row agrees with it on (completed, items constructed, items destroyed): every column count <= 6,
   every position of the failure *)
Theorem C03_import_row_refines_generated_bounded :
  forallb (fun cols => forallb (fun k => GenRawTie.obs_eqb (GenRawTie.l2_obs cols k) (GenRawTie.gen_obs cols k)) (seq 0 (cols + 2))) (seq 0 7) = true.
Proof. exact GenRawTie.import_row_refines_generated_bounded. Qed.
Print Assumptions C03_import_row_refines_generated_bounded.

(* HashSet::Clear(true) / TreeSet::Clear (translated): every owning field is null afterwards and the destructor's pvDestroy executes
   no releasing call *)
Theorem C03_gen_hashset_clear_shrink_then_destroy :
  forall nextb cnt cap b : Z,
  match Gen_HashSetC03.Clear false nextb cnt cap b true with
  | GenPrelude.Ok (_, cnt', cap', b') => b' = 0 /\ (b <> 0 -> cnt' = 0 /\ cap' = 0) /\ Gen_HashSetC03.pvDestroy true cnt' cap' b' = GenPrelude.Ok tt
  | _ => False
  end.
Proof. exact GenClear.gen_hashset_clear_shrink_then_destroy. Qed.
Print Assumptions C03_gen_hashset_clear_shrink_then_destroy.

Theorem C03_gen_treeset_clear_then_destroy :
  forall cnt r p : Z,
  match Gen_TreeSetC03.Clear false cnt r p with
  | GenPrelude.Ok (_, cnt', r', p') => r' = 0 /\ p' = 0 /\ Gen_TreeSetC03.pvDestroy true cnt' r' p' = GenPrelude.Ok tt
  | _ => False
  end.
Proof. exact GenClear.gen_treeset_clear_then_destroy. Qed.
Print Assumptions C03_gen_treeset_clear_then_destroy.

(* pvDestroy (translated) releases iff the pointer is set: the meaning of PNull / PValid in GenTie.v *)
Theorem C03_pointer_state_refines_generated_pvdestroy :
  forall cnt cap b : Z,
  match GenClear.pst_of b with
  | PNull => Gen_HashSetC03.pvDestroy true cnt cap b = GenPrelude.Ok tt
  | _ => Gen_HashSetC03.pvDestroy true cnt cap b = GenPrelude.Stuck
  end /\
  (destroy_all [("mBuckets"%string, GenClear.pst_of b)] = Some [("mBuckets"%string, match GenClear.pst_of b with PValid => PDangling | x => x end)]).
Proof. exact GenClear.pointer_state_refines_generated_pvdestroy. Qed.
Print Assumptions C03_pointer_state_refines_generated_pvdestroy.

(* MemPool::MergeFrom list surgery (translated): on 36 layouts every buffer of both pools is reachable from the destination exactly
   once, links consistent, source empty; and that buffer set is the one `pool_merge true` of the hand model states *)
Theorem C03_generated_merge_keeps_every_buffer_bounded :
  forallb (fun L => let '(fa, ma, fb, mb) := L in GenMergeTie.merge_ok fa 12 ma fb 22 mb) GenMergeTie.layouts = true.
Proof. exact GenMergeTie.generated_merge_keeps_every_buffer_bounded. Qed.
Print Assumptions C03_generated_merge_keeps_every_buffer_bounded.

(* ================================================================== part 10: row creation without a size bound *)
From C03 Require GenRawGeneral.

(* the hand model's import_row, EVERY number of columns and EVERY position k of the failing item construction (k >= cols: none fails),
   observed as (completed, items constructed, items destroyed): a failure at k leaves k constructed and k destroyed - nothing leaked,
   nothing destroyed twice (a second destroy is Stuck in the machine) - and a complete run constructs cols items and destroys none *)
Theorem C03_import_row_balance :
  forall cols k : nat,
  GenRawTie.l2_obs cols k = if Nat.ltb k cols then (false, Z.of_nat k, Z.of_nat k) else (true, Z.of_nat cols, 0).
Proof. exact GenRawGeneral.import_row_balance. Qed.
Print Assumptions C03_import_row_balance.

(* ... and it agrees with the TRANSLATED DataColumnList::pvCreateRaw for every size the translated function accepts (its fuel bound
   65536; a column list holds at most 2^14 columns) and every failure position: the general form of C03_import_row_refines_generated_bounded *)
Theorem C03_import_row_refines_generated :
  forall cols k : nat, Z.of_nat cols <= 65536 -> GenRawTie.l2_obs cols k = GenRawTie.gen_obs cols k.
Proof. exact GenRawGeneral.import_row_refines_generated. Qed.
Print Assumptions C03_import_row_refines_generated.

(* ================================================================== part 11: the table swap (fc18ee9) without concrete sizes, world or schedule *)
From C03 Require GenSwapGeneral.

(* two tables whose row pools point INTO their crews are created, swapped (managers exchanged as MemPool::Data::Swap does it in the
   headers), the second dies, then the first: for ANY manager, sizes, starting world (pointwise view g, fresh ids above nb) and EVERY
   schedule the machine is never Stuck - no pool reaches its manager through a dead crew block - and on completion the view is g again.
   (An exception can only come from the four allocations of the set-up, which the scenario does not clean up: nothing is claimed then.) *)
Theorem C03_gen_pool_swap_general :
  forall (mgr crewsz bufsz : Z) (f : loc -> bool) (g : bview) (nb : Z) (equal : bool) s,
    (forall b, nb <= b -> g b = None) -> st2 s f g nb ->
    post (swap_scn data_swap_unconditional equal mgr crewsz bufsz) s (fun _ s' => st2 s' f g (nb + 1 + 1 + 1 + 1)) (fun _ => True).
Proof. exact GenSwapGeneral.gen_pool_swap_general. Qed.
Print Assumptions C03_gen_pool_swap_general.
