(* C12, BucketOpen2N2<.,3,true>: one element's stored bits (short hash + hash-probe byte) and their reconstruction.
   All statements are about the GENERATED functions of Gen_O2.v. *)
From Coq Require Import ZArith Bool Lia.
From MomoCommon Require Import GenPrelude.
From C12 Require Import Bits Known Gen_Base Gen_O2.
Local Open Scope Z_scope.

Lemma o2_hashCodeShift : Gen_O2.hashCodeShift = 57.
Proof. reflexivity. Qed.

Lemma o2_short_bits x n : 0 <= n -> Z.testbit (Gen_O2.pvCalcShortHash x) n = (n <? 8) && Z.testbit x (n + 57).
Proof.
  intros Hn. unfold Gen_O2.pvCalcShortHash. rewrite o2_hashCodeShift. rewrite tb_wrapU by lia.
  rewrite Z.shiftr_spec by lia. reflexivity.
Qed.

Lemma o2_short_known q x : 0 <= q -> Gen_O2.pvCalcShortHash (known q x) = Gen_O2.pvCalcShortHash x.
Proof.
  intros Hq. apply Z.bits_inj'. intros n Hn. rewrite !o2_short_bits, tb_known by lia.
  destruct (Z.leb_spec 57 (n + 57)); [|lia]. rewrite orb_true_r. reflexivity.
Qed.

Lemma o2_short_range x : 0 <= x < 2 ^ 64 -> 0 <= Gen_O2.pvCalcShortHash x < 128.
Proof.
  intros Hx. unfold Gen_O2.pvCalcShortHash. rewrite o2_hashCodeShift, Z.shiftr_div_pow2 by lia.
  assert (0 <= x / 2 ^ 57 < 128).
  { split; [apply Z.div_pos; lia|]. apply Z.div_lt_upper_bound; [lia|]. change (2 ^ 57 * 128) with (2 ^ 64). lia. }
  rewrite wrapU_small by (change (2 ^ 8) with 256; lia). assumption.
Qed.

Lemma o2_probeShift L : 0 <= L <= 63 -> Gen_O2.pvGetProbeShift L = (L + 7) mod 8.
Proof.
  intros. unfold Gen_O2.pvGetProbeShift, Gen_O2.logBucketCountAddend, Gen_O2.logBucketCountStep.
  rewrite (wrapU_small 64 (L + 6)) by (change (2 ^ 64) with 18446744073709551616; lia).
  rewrite wrapU_small by (change (2 ^ 64) with 18446744073709551616; lia). f_equal. lia.
Qed.

(* the byte AddCrt stores for (code x, table 2^L, displacement probe) *)
Definition o2_byte (x L probe : Z) : Z :=
  let ps := (L + 7) mod 8 in
  if probe <? 2 ^ ps
  then wrapU 8 (Z.lor (wrapU 64 (Z.shiftl (Z.shiftr x L) ps)) probe)
  else 255.

Lemma o2_byte_bits x L probe n : 0 <= L <= 63 -> 0 <= probe < 2 ^ ((L + 7) mod 8) -> 0 <= n ->
  Z.testbit (o2_byte x L probe) n =
    (n <? 8) && (if n <? (L + 7) mod 8 then Z.testbit probe n else Z.testbit x (n - (L + 7) mod 8 + L)).
Proof.
  intros HL Hp Hn. unfold o2_byte.
  assert (Hps : 0 <= (L + 7) mod 8 < 8) by (apply Z.mod_pos_bound; lia).
  set (ps := (L + 7) mod 8) in *.
  destruct (Z.ltb_spec probe (2 ^ ps)); [|lia].
  assert (Hpn : ps <= n -> Z.testbit probe n = false).
  { intros. rewrite (tb_small probe ps n) by lia. destruct (Z.ltb_spec n ps); [lia|reflexivity]. }
  destruct (Z.ltb_spec n ps).
  - tb_norm. rewrite (Z.testbit_neg_r _ (n - ps)) by lia.
    destruct (Z.ltb_spec n 8), (Z.ltb_spec n 64); try lia; simpl; rewrite ?andb_false_r; reflexivity.
  - tb_norm. rewrite Hpn by lia.
    destruct (Z.ltb_spec n 8), (Z.ltb_spec n 64); try lia; simpl; rewrite ?andb_false_r, ?orb_false_r; try reflexivity.
Qed.

Lemma o2_byte_range x L probe : 0 <= L <= 63 -> 0 <= probe -> 0 <= o2_byte x L probe < 256.
Proof.
  intros HL Hp. unfold o2_byte. destruct (Z.ltb_spec probe (2 ^ ((L + 7) mod 8))); [|lia].
  change 256 with (2 ^ 8). apply wrapU_range. lia.
Qed.

Lemma o2_byte_known q x L probe : qof L = q -> (L + 7) mod 8 <> 0 -> 0 <= L <= 63 -> 0 <= probe ->
  o2_byte (known q x) L probe = o2_byte x L probe.
Proof.
  intros Hq Hnz HL Hp. unfold qof in Hq.
  assert (Hps : 0 <= (L + 7) mod 8 < 8) by (apply Z.mod_pos_bound; lia).
  destruct (Z.lt_ge_cases probe (2 ^ ((L + 7) mod 8))) as [Hlt|Hge].
  2:{ unfold o2_byte. destruct (Z.ltb_spec probe (2 ^ ((L + 7) mod 8))); [lia|reflexivity]. }
  assert (0 <= q) by (subst q; apply Z.div_pos; lia).
  apply Z.bits_inj'. intros n Hn. rewrite !o2_byte_bits by lia.
  destruct (Z.ltb_spec n 8); [|reflexivity].
  destruct (Z.ltb_spec n ((L + 7) mod 8)); [reflexivity|].
  rewrite tb_known by lia.
  destruct (Z.ltb_spec (n - (L + 7) mod 8 + L) (8 * q + 1)); [reflexivity|].
  exfalso. subst q. clear - H0 H1 H2 Hnz HL Hn. Z.div_mod_to_equations. lia.
Qed.

(* what AddCrt does to the three metadata arrays *)
Lemma o2_addcrt_eq st sh hp x L probe newItem : 0 <= L <= 63 -> 0 <= probe < 2 ^ 64 ->
  Gen_O2.AddCrt st sh hp x L probe newItem =
    let count := Gen_O2.pvGetCount st sh hp in
    if count <? 3 then
      Ok (tt, upd st 1 (wrapU 8 (st 1 + 1)), upd sh (wrapU 64 (2 - count)) (Gen_O2.pvCalcShortHash x),
              upd hp (wrapU 64 (2 - count)) (o2_byte x L probe))
    else Stuck.
Proof.
  intros HL Hp. unfold Gen_O2.AddCrt, Gen_O2.useHashCodePartGetter, Gen_O2.maxCount. cbv zeta.
  change (wrapU 64 (3 - 1)) with 2.
  destruct (Z.ltb_spec (Gen_O2.pvGetCount st sh hp) 3); [|reflexivity].
  rewrite o2_probeShift by lia. unfold o2_byte.
  assert (Hps : 0 <= (L + 7) mod 8 < 8) by (apply Z.mod_pos_bound; lia).
  rewrite shl1_pow2 by lia.
  assert (2 ^ ((L + 7) mod 8) < 2 ^ 64) by (apply pow2_lt_mono; lia).
  assert (0 < 2 ^ ((L + 7) mod 8)) by (apply pow2_pos; lia).
  rewrite (wrapU_small 64 (2 ^ ((L + 7) mod 8))) by lia.
  unfold Gen_O2.emptyHashProbe.
  destruct (Z.ltb_spec probe (2 ^ ((L + 7) mod 8))); reflexivity.
Qed.

Definition o2_full_used (v L newL : Z) : bool := (v =? 255) || negb (qof L =? qof newL).

Definition tri (p : Z) : Z := p * (p + 1) / 2.

Lemma o2_probe2 p : 0 <= p < 256 ->
  (if p mod 2 =? 0 then wrapU 64 (p / 2 * wrapU 64 (p + 1)) else wrapU 64 (p * (wrapU 64 (p + 1) / 2))) = tri p.
Proof.
  intros Hp. unfold tri. rewrite (wrapU_small 64 (p + 1)) by (change (2 ^ 64) with 18446744073709551616; lia).
  pose proof (Z.div_mod p 2 ltac:(lia)) as Hd. pose proof (Z.mod_pos_bound p 2 ltac:(lia)) as Hm.
  destruct (Z.eqb_spec (p mod 2) 0) as [He|He].
  - assert (p = 2 * (p / 2)) by lia. set (k := p / 2) in *.
    replace (p * (p + 1)) with ((k * (p + 1)) * 2) by lia. rewrite Z.div_mul by lia.
    apply wrapU_small. change (2 ^ 64) with 18446744073709551616. nia.
  - assert (Hp1 : p + 1 = 2 * ((p + 1) / 2)).
    { pose proof (Z.div_mod (p + 1) 2 ltac:(lia)). pose proof (Z.mod_pos_bound (p + 1) 2 ltac:(lia)).
      assert ((p + 1) mod 2 = 0); [|lia].
      replace (p + 1) with (p mod 2 + 1 + (p / 2) * 2) by lia. rewrite Z.mod_add by lia.
      replace (p mod 2) with 1 by lia. reflexivity. }
    set (k := (p + 1) / 2) in *.
    replace (p * (p + 1)) with ((p * k) * 2) by lia. rewrite Z.div_mul by lia.
    apply wrapU_small. change (2 ^ 64) with 18446744073709551616. nia.
Qed.

Lemma o2_getpart_eq st sh hp full bidx L newL idx : 0 <= L <= 63 -> 0 <= newL <= 63 -> 0 <= hp idx < 256 ->
  Gen_O2.GetHashCodePart st sh hp full bidx L newL idx =
    if o2_full_used (hp idx) L newL then Ok full
    else let v := hp idx in let ps := (L + 7) mod 8 in
      if ps >? 0 then
        Ok (Z.lor (Z.lor (Z.land (wrapU 64 (bidx - tri (Z.land v (Z.ones ps)))) (Z.ones L))
                   (wrapU 64 (Z.shiftl (Z.shiftr v ps) L)))
            (wrapU 64 (Z.shiftl (sh idx) 57)))
      else Stuck.
Proof.
  intros HL HnL Hv. unfold Gen_O2.GetHashCodePart, Gen_O2.useHashCodePartGetter, o2_full_used, qof. simpl negb. cbv iota.
  unfold Gen_O2.emptyHashProbe, Gen_O2.logBucketCountAddend, Gen_O2.logBucketCountStep.
  rewrite (wrapU_small 64 (L + 6)), (wrapU_small 64 (newL + 6)) by (change (2 ^ 64) with 18446744073709551616; lia).
  destruct (_ || _); [reflexivity|].
  rewrite o2_probeShift by lia. rewrite o2_hashCodeShift. cbv zeta.
  assert (Hps : 0 <= (L + 7) mod 8 < 8) by (apply Z.mod_pos_bound; lia).
  destruct (Z.gtb_spec ((L + 7) mod 8) 0); [|reflexivity].
  rewrite !shl1_pow2 by lia.
  assert (2 ^ ((L + 7) mod 8) < 2 ^ 64) by (apply pow2_lt_mono; lia).
  assert (0 < 2 ^ ((L + 7) mod 8)) by (apply pow2_pos; lia).
  assert (2 ^ L < 2 ^ 64) by (apply pow2_lt_mono; lia).
  assert (0 < 2 ^ L) by (apply pow2_pos; lia).
  rewrite (wrapU_small 64 (2 ^ ((L + 7) mod 8))), (wrapU_small 64 (2 ^ L)) by lia.
  rewrite (wrapU_small 64 (2 ^ ((L + 7) mod 8) - 1)), (wrapU_small 64 (2 ^ L - 1)) by lia.
  rewrite !pow2m1_ones.
  assert (Hpr : 0 <= Z.land (hp idx) (Z.ones ((L + 7) mod 8)) < 256).
  { rewrite Z.land_ones by lia. pose proof (Z.mod_pos_bound (hp idx) (2 ^ ((L + 7) mod 8)) ltac:(lia)).
    assert (2 ^ ((L + 7) mod 8) <= 2 ^ 8) by (apply pow2_le_mono; lia). change (2 ^ 8) with 256 in *. lia. }
  rewrite o2_probe2 by assumption. reflexivity.
Qed.

Lemma o2_byte_low_probe x L probe : 0 <= L <= 63 -> 0 <= probe < 2 ^ ((L + 7) mod 8) ->
  Z.land (o2_byte x L probe) (Z.ones ((L + 7) mod 8)) = probe.
Proof.
  intros HL Hp. assert (Hps : 0 <= (L + 7) mod 8 < 8) by (apply Z.mod_pos_bound; lia).
  apply Z.bits_inj'. intros n Hn. rewrite Z.land_spec, tb_ones, o2_byte_bits by lia.
  destruct (Z.ltb_spec n ((L + 7) mod 8)).
  - destruct (Z.ltb_spec n 8); try lia. simpl. rewrite andb_true_r. reflexivity.
  - rewrite andb_false_r. rewrite (tb_small probe ((L + 7) mod 8) n) by lia.
    destruct (Z.ltb_spec n ((L + 7) mod 8)); [lia|reflexivity].
Qed.

Lemma unprobe_sub a t m : 0 < m -> ((a + t) mod m - t) mod m = a mod m.
Proof. intros. rewrite Zminus_mod_idemp_l. f_equal. lia. Qed.

(* reconstruct_exact for Open2N2: for EVERY 64-bit h, every L <= 57, every strictly larger new size, every displacement:
   no assertion fails, and the answer is the full getter's value or exactly the known bits of h *)
Theorem o2_reconstruct st sh hp full bidx L newL idx h probe :
  0 <= h < 2 ^ 64 -> 0 <= L <= 63 -> L < newL <= 63 -> 0 <= probe ->
  hp idx = o2_byte h L probe -> sh idx = Gen_O2.pvCalcShortHash h ->
  bidx = (h mod 2 ^ L + tri probe) mod 2 ^ L ->
  Gen_O2.GetHashCodePart st sh hp full bidx L newL idx =
    Ok (if o2_full_used (o2_byte h L probe) L newL then full else known (qof L) h).
Proof.
  intros Hh HL HnL Hp Hv Hsh Hb.
  pose proof (o2_byte_range h L probe ltac:(lia) Hp) as Hr.
  rewrite o2_getpart_eq by (try lia; rewrite Hv; lia).
  rewrite Hv, Hsh. destruct (o2_full_used _ _ _) eqn:Hfu; [reflexivity|].
  unfold o2_full_used in Hfu. apply orb_false_iff in Hfu. destruct Hfu as [Hne Hq].
  destruct (Z.eqb_spec (o2_byte h L probe) 255) as [|Hne']; [discriminate|]. clear Hne.
  destruct (Z.eqb_spec (qof L) (qof newL)) as [Hqe|]; [|discriminate]. clear Hq. unfold qof in Hqe.
  assert (Hps : 0 < (L + 7) mod 8 < 8) by (clear - Hqe HL HnL; Z.div_mod_to_equations; lia).
  assert (Hlt : probe < 2 ^ ((L + 7) mod 8)).
  { destruct (Z.lt_ge_cases probe (2 ^ ((L + 7) mod 8))); [assumption|exfalso]. apply Hne'. unfold o2_byte.
    destruct (Z.ltb_spec probe (2 ^ ((L + 7) mod 8))); [lia|reflexivity]. }
  cbv zeta. destruct (Z.gtb_spec ((L + 7) mod 8) 0); [|lia]. f_equal.
  rewrite o2_byte_low_probe by lia.
  assert (0 < 2 ^ L) by (apply pow2_pos; lia).
  rewrite land_wrap64_ones by lia. rewrite Hb. rewrite unprobe_sub by lia. rewrite Z.mod_mod by lia.
  pose proof (fun n => o2_byte_bits h L probe n ltac:(lia) (conj Hp Hlt)) as Hbb.
  assert (Hq : (L + 6) / 8 * 8 + 1 = L + 8 - (L + 7) mod 8) by (clear - Hps HL; Z.div_mod_to_equations; lia).
  unfold qof. set (q := (L + 6) / 8) in *. pose (ps := (L + 7) mod 8). fold ps. assert (Hpse : ps = (L + 7) mod 8) by reflexivity.
  clearbody ps. rewrite <- Hpse in *.
  assert (0 <= q) by (subst q; apply Z.div_pos; lia).
  apply Z.bits_inj'. intros n Hn. rewrite tb_known by lia.
  rewrite !Z.lor_spec. rewrite !tb_wrapU by lia.
  assert (Hhi : 64 <= n -> Z.testbit h n = false).
  { intros. rewrite <- (Z.mod_small h (2 ^ 64)) by lia. apply Z.mod_pow2_bits_high. lia. }
  assert (HA : Z.testbit (h mod 2 ^ L) n = (n <? L) && Z.testbit h n).
  { destruct (Z.ltb_spec n L); [apply Z.mod_pow2_bits_low; lia|apply Z.mod_pow2_bits_high; lia]. }
  rewrite HA.
  assert (HC : Z.testbit (Z.shiftl (Gen_O2.pvCalcShortHash h) 57) n = (57 <=? n) && (n <? 65) && Z.testbit h n).
  { destruct (Z.leb_spec 57 n).
    - rewrite Z.shiftl_spec, o2_short_bits by lia. replace (n - 57 + 57) with n by lia.
      destruct (Z.ltb_spec (n - 57) 8), (Z.ltb_spec n 65); try lia; reflexivity.
    - rewrite Z.shiftl_spec by lia. rewrite Z.testbit_neg_r by lia. reflexivity. }
  rewrite HC.
  assert (HB : Z.testbit (Z.shiftl (Z.shiftr (o2_byte h L probe) ps) L) n = (L <=? n) && (n <? 8 * q + 1) && Z.testbit h n).
  { destruct (Z.leb_spec L n).
    - rewrite Z.shiftl_spec, Z.shiftr_spec, Hbb by lia.
      destruct (Z.ltb_spec (n - L + ps) ps); [lia|].
      replace (n - L + ps - ps + L) with n by lia.
      destruct (Z.ltb_spec (n - L + ps) 8), (Z.ltb_spec n (8 * q + 1)); try lia; reflexivity.
    - rewrite Z.shiftl_spec by lia. rewrite Z.testbit_neg_r by lia. reflexivity. }
  rewrite HB.
  destruct (Z.ltb_spec n 64); [|rewrite Hhi by lia; rewrite !andb_false_r; reflexivity].
  destruct (Z.ltb_spec n L), (Z.leb_spec L n), (Z.ltb_spec n (8 * q + 1)), (Z.leb_spec 57 n), (Z.ltb_spec n 65);
    try lia; simpl; rewrite ?orb_false_r; try reflexivity; destruct (Z.testbit h n); reflexivity.
Qed.

(* Remove moves the (short hash, hash-probe byte) PAIR of the first occupied slot 3-count into the freed slot, so every
   remaining element keeps its own byte *)
Lemma o2_remove_eq st sh hp idx : 0 <= Gen_O2.pvGetCount st sh hp <= 3 ->
  Gen_O2.Remove st sh hp idx =
    let c := Gen_O2.pvGetCount st sh hp in
    if idx >=? 3 - c then
      Ok (tt, upd st 1 (wrapU 8 (st 1 - 1)), upd (upd sh idx (sh (3 - c))) (3 - c) 128, upd hp idx (hp (3 - c)))
    else Stuck.
Proof.
  intros Hc. unfold Gen_O2.Remove, Gen_O2.useHashCodePartGetter, Gen_O2.maxCount. cbv zeta.
  rewrite (wrapU_small 64 (3 - _)) by (change (2 ^ 64) with 18446744073709551616; lia).
  destruct (Z.geb_spec idx (3 - Gen_O2.pvGetCount st sh hp)); reflexivity.
Qed.
