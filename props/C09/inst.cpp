// instantiation TU for cxx2coq (C09): memory pool address / parameter arithmetic.
// (The whole class cannot be explicitly instantiated: MemPool() needs a default-constructible Params;
//  members are instantiated one by one - access checks do not apply to explicit instantiations.)
#include "momo/MemPool.h"
namespace momo {
typedef MemPool<MemPoolParams<>, MemManagerDefault, MemPoolSettings> VPool;
template VPool::MemPool(const MemPoolParams<>&, MemManagerDefault);
template void VPool::pvCheckParams() const;
template bool VPool::pvUseCache() const noexcept;
template size_t VPool::pvGetAlignmentAddend() const noexcept;
template size_t VPool::pvGetBufferSize0() const noexcept;
template size_t VPool::pvGetBufferSize1() const noexcept;
template size_t VPool::pvGetBufferSize() const noexcept;
template bool VPool::pvIsBufferBytesNear() const noexcept;
template internal::Byte* VPool::pvNewBlock1();
template internal::Byte* VPool::pvNewBlock();
template void VPool::pvDeleteBlock1(internal::Byte*) noexcept;
template void VPool::pvDeleteBlock(void*) noexcept;
template internal::Byte* VPool::pvGetBlock(internal::Byte*, int8_t) const noexcept;
template int8_t VPool::pvGetBlockIndex(internal::Byte*, internal::Byte*&) const noexcept;
template internal::Byte* VPool::pvNewBuffer();
template void VPool::pvDeleteBuffer(internal::Byte*) noexcept;
template internal::Byte* VPool::pvGetBlocksEndPosition(internal::Byte*) const noexcept;
template internal::Byte* VPool::pvGetBufferBytesPosition(internal::Byte*) const noexcept;
template internal::Byte* VPool::pvGetPrevBufferPosition(internal::Byte*) const noexcept;
template internal::Byte* VPool::pvGetNextBufferPosition(internal::Byte*) const noexcept;
template internal::Byte* VPool::pvGetBeginOffsetPosition(internal::Byte*) const noexcept;
template void VPool::pvMoveBufferToHead(internal::Byte*) noexcept;
template void VPool::MergeFrom(VPool&);
template void VPool::Swap(VPool&) noexcept;
}
namespace momo { namespace internal {
template size_t UIntMath<size_t>::Ceil(size_t, size_t) noexcept;
}}
namespace momo { namespace internal {
typedef MemPoolUInt32<32, MemManagerDefault> VPool32;
template void* VPool32::GetRealPointer<void>(uint32_t) noexcept;
template size_t VPool32::pvGetBufferSize() const noexcept;
template void VPool32::pvNewBuffer();
template void VPool32::pvClear() noexcept;
template uint32_t VPool32::Allocate();
template void VPool32::Deallocate(uint32_t) noexcept;
template void VPool32::DeallocateAll() noexcept;
}}
