(* C04 -- ObjectManager::AssignAnyway / Replace / ReplaceRelocate (ObjectManager.h:328-348, 417-484) and
   MapKeyValueTraits::Replace / ReplaceRelocate (MapUtility.h:274-291, 355-478) -- the mechanisms behind Remove / Extract of
   the hash containers (the last item of a bucket replaces the removed one).
   For the element categories of this model, isNothrowAnywayAssignable = isNothrowRelocatable = (category is NTM); the overload
   "not nothrow relocatable but nothrow anyway-assignable" (a throwing move constructor with a nothrow move assignment) has no
   category here and is not modelled. *)
From Coq Require Import List Arith Lia Bool PeanoNat.
From C04 Require Import Effects ObjMgr KeyValue.
Import ListNotations.

(* dstObject = std::move(srcObject): both objects are alive; copy-only types copy; may throw unless NTM; a failing
   assignment leaves both objects as they were.  (Assignments are not construction/destruction events.) *)
Definition assign (c : cat) (sl dl : loc) : M unit :=
  x <- getc sl ;; d <- getc dl ;;
  match x, d with
  | Live v, Live _ | Live v, Moved _ =>
    (if nothrow c then ret tt else fallible) ;;
    putc dl (Live v) ;; putc sl (src_after c v)
  | _, _ => stuck
  end.
(* dstObject = srcObject (copy assignment, any category may throw) *)
Definition copy_assign (sl dl : loc) : M unit :=
  x <- getc sl ;; d <- getc dl ;;
  match x, d with
  | Live v, Live _ | Live v, Moved _ => fallible ;; putc dl (Live v)
  | _, _ => stuck
  end.

(* Replace: AssignAnyway(src, dst); Destroy(src) *)
Definition replace (c : cat) (sl dl : loc) : M unit := assign c sl dl ;; destroy sl.

(* ReplaceRelocate(src, mid, dst): mid goes to the raw dst, src replaces mid *)
Definition replace_relocate (c : cat) (sl ml dl : loc) : M unit :=
  if nothrow c then relocate1 c ml dl ;; relocate1 c sl ml
  else copy_construct ml dl ;; try_catch (replace c sl ml) (destroy dl ;; throw).

(* MapKeyValueTraits::Replace -> pvReplace / pvReplaceUnsafe *)
Definition kv_replace (ck cv : cat) (sk sv dk dv : loc) : M unit :=
  if nothrow ck then replace cv sv dv ;; replace ck sk dk
  else if nothrow cv then replace ck sk dk ;; replace cv sv dv
  else (* pvReplaceUnsafe: basic exception safety *)
    copy_assign sv dv ;; assign ck sk dk ;; destroy sk ;; destroy sv.

(* MapKeyValueTraits::ReplaceRelocate -> pvReplaceRelocate *)
Definition kv_replace_relocate (ck cv : cat) (sk sv mk mv dk dv : loc) : M unit :=
  if nothrow ck then replace_relocate cv sv mv dv ;; replace_relocate ck sk mk dk
  else if nothrow cv then replace_relocate ck sk mk dk ;; replace_relocate cv sv mv dv
  else
    copy_construct mk dk ;;
    try_catch (copy_construct mv dv ;;
               try_catch (copy_assign sv mv ;; assign ck sk mk ;; destroy sk ;; destroy sv)
                         (destroy dv ;; throw))
              (destroy dk ;; throw).

Definition not_raw (c : cell) : Prop := c <> Raw.

Lemma wp_assign : forall c sl dl v s (Q : unit -> st -> Prop) (E : st -> Prop),
  valid (hp s) sl = true -> valid (hp s) dl = true -> sl <> dl ->
  mem (hp s) sl = Live v -> mem (hp s) dl <> Raw ->
  (c <> NTM -> forall s', heq (hp s) (hp s') -> E s') ->
  (forall s', heq (hset (hset (hp s) dl (Live v)) sl (src_after c v)) (hp s') -> Q tt s') ->
  wp (assign c sl dl) s Q E.
Proof.
  intros c sl dl v s Q E Vs Vd Hne Ms Md HE HQ. unfold assign.
  apply wp_bind, wp_getc; auto. apply wp_bind, wp_getc; auto. rewrite Ms.
  assert (G : wp ((if nothrow c then ret tt else fallible) ;; putc dl (Live v) ;; putc sl (src_after c v)) s Q E).
  { apply wp_bind.
    assert (K : forall s1, heq (hp s) (hp s1) -> wp (putc dl (Live v) ;; putc sl (src_after c v)) s1 Q E).
    { intros s1 H1. apply wp_bind, wp_putc. { rewrite (heq_valid _ _ _ H1); auto. } intros s2 H2.
      apply wp_putc. { rewrite (heq_valid _ _ _ H2), valid_hset, (heq_valid _ _ _ H1); auto. } intros s3 H3.
      apply HQ. eapply heq_trans; [|exact H3]. apply heq_hset. eapply heq_trans; [|exact H2]. apply heq_hset; auto. }
    destruct c; simpl.
    - apply wp_ret. apply K; auto.
    - apply wp_fallible. { apply HE; discriminate. } exact K.
    - apply wp_fallible. { apply HE; discriminate. } exact K. }
  destruct (mem (hp s) dl) eqn:Ed; [contradiction Md; reflexivity| exact G | exact G].
Qed.

Lemma wp_copy_assign : forall sl dl v s (Q : unit -> st -> Prop) (E : st -> Prop),
  valid (hp s) sl = true -> valid (hp s) dl = true ->
  mem (hp s) sl = Live v -> mem (hp s) dl <> Raw ->
  (forall s', heq (hp s) (hp s') -> E s') ->
  (forall s', heq (hset (hp s) dl (Live v)) (hp s') -> Q tt s') ->
  wp (copy_assign sl dl) s Q E.
Proof.
  intros sl dl v s Q E Vs Vd Ms Md HE HQ. unfold copy_assign.
  apply wp_bind, wp_getc; auto. apply wp_bind, wp_getc; auto. rewrite Ms.
  assert (G : wp (fallible ;; putc dl (Live v)) s Q E).
  { apply wp_bind, wp_fallible; auto. intros s1 H1. apply wp_putc. { rewrite (heq_valid _ _ _ H1); auto. }
    intros s2 H2. apply HQ. eapply heq_trans; [|exact H2]. apply heq_hset; auto. }
  destruct (mem (hp s) dl) eqn:Ed; [contradiction Md; reflexivity| exact G | exact G].
Qed.

Lemma wp_replace : forall c sl dl v s (Q : unit -> st -> Prop) (E : st -> Prop),
  valid (hp s) sl = true -> valid (hp s) dl = true -> sl <> dl ->
  mem (hp s) sl = Live v -> mem (hp s) dl <> Raw ->
  (c <> NTM -> forall s', heq (hp s) (hp s') -> E s') ->
  (forall s', heq (hset (hset (hp s) dl (Live v)) sl Raw) (hp s') -> Q tt s') ->
  wp (replace c sl dl) s Q E.
Proof.
  intros c sl dl v s Q E Vs Vd Hne Ms Md HE HQ. unfold replace.
  apply wp_bind. eapply wp_assign; eauto. intros s1 H1.
  apply wp_destroy.
  - rewrite (heq_valid _ _ _ H1); auto.
  - rewrite (hq_mem _ _ H1), mem_hset_same. destruct c; discriminate.
  - intros s2 H2. apply HQ. eapply heq_trans; [|exact H2]. eapply heq_trans; [|apply heq_hset; exact H1].
    split; simpl; auto. intros l; unfold updm. destruct (loc_eqb l sl); auto.
Qed.

(* ReplaceRelocate of one object: all-or-nothing for every category *)
Lemma wp_replace_relocate : forall c sl ml dl v w s (Q : unit -> st -> Prop) (E : st -> Prop),
  valid (hp s) sl = true -> valid (hp s) ml = true -> valid (hp s) dl = true ->
  sl <> ml -> sl <> dl -> ml <> dl ->
  mem (hp s) sl = Live v -> mem (hp s) ml = Live w -> mem (hp s) dl = Raw ->
  (c <> NTM -> forall s', heq (hp s) (hp s') -> E s') ->
  (forall s', heq (hset (hset (hset (hp s) dl (Live w)) ml (Live v)) sl Raw) (hp s') -> Q tt s') ->
  wp (replace_relocate c sl ml dl) s Q E.
Proof.
  intros c sl ml dl v w s Q E Vs Vm Vd N1 N2 N3 Ms Mm Md HE HQ. unfold replace_relocate.
  destruct (nothrow c) eqn:Ec.
  - assert (c = NTM) by (destruct c; simpl in Ec; congruence). subst c.
    apply wp_bind. eapply wp_relocate1 with (v := w); [exact Vm|exact Vd|exact N3|exact Mm|exact Md|intros C; contradiction C; reflexivity|].
    intros s1 H1.
    eapply wp_relocate1 with (v := v).
    + rewrite (heq_valid _ _ _ H1); auto.
    + rewrite (heq_valid _ _ _ H1); auto.
    + auto.
    + rewrite (hq_mem _ _ H1), !mem_hset_other by auto. auto.
    + rewrite (hq_mem _ _ H1), mem_hset_same. reflexivity.
    + intros C; contradiction C; reflexivity.
    + intros s2 H2. apply HQ. eapply heq_trans; [|exact H2].
      eapply heq_trans; [|repeat apply heq_hset; exact H1].
      split; simpl; auto. intros l; unfold updm.
      destruct (loc_eqb l sl) eqn:E1; auto. destruct (loc_eqb l ml) eqn:E2; auto.
  - assert (Hc : c <> NTM) by (destruct c; simpl in Ec; congruence).
    apply wp_bind. eapply wp_copy_construct; eauto. intros s1 H1.
    apply wp_try. eapply wp_replace with (v := v).
    + rewrite (heq_valid _ _ _ H1); auto.
    + rewrite (heq_valid _ _ _ H1); auto.
    + auto.
    + rewrite (hq_mem _ _ H1), mem_hset_other by auto. auto.
    + rewrite (hq_mem _ _ H1), mem_hset_other by auto. rewrite Mm. discriminate.
    + intros _ s2 H2. apply wp_bind. apply wp_destroy.
      * rewrite (heq_valid _ _ _ H2), (heq_valid _ _ _ H1); auto.
      * rewrite (hq_mem _ _ H2), (hq_mem _ _ H1), mem_hset_same. discriminate.
      * intros s3 H3. apply wp_throw. apply HE; auto.
        eapply heq_trans; [|exact H3]. eapply heq_trans; [|apply heq_hset; eapply heq_trans; [exact H1|exact H2]].
        split; simpl; auto. intros l; unfold updm. destruct (loc_eqb l dl) eqn:E1; auto.
        apply loc_eqb_eq in E1. subst l. auto.
    + intros s2 H2. apply HQ. eapply heq_trans; [|exact H2]. repeat apply heq_hset. exact H1.
Qed.

(* ---- key/value pairs --------------------------------------------------------------------------------- *)
Record kvr_pre (sk sv dk dv : loc) (kv vv : nat) (h : heap) : Prop := mkKvrPre
  { kr_valid : valid h sk = true /\ valid h sv = true /\ valid h dk = true /\ valid h dv = true;
    kr_cells : mem h sk = Live kv /\ mem h sv = Live vv /\ mem h dk <> Raw /\ mem h dv <> Raw;
    kr_dist : sk <> sv /\ sk <> dk /\ sk <> dv /\ sv <> dk /\ sv <> dv /\ dk <> dv }.

(* Replace of a pair (the removed pair (dk, dv) is overwritten by the last pair (sk, sv) of the bucket), when at least one of
   key / value is nothrow anyway-assignable -- the documented exception (HashMap.h:351-355 item 5) is the hypothesis:
   all-or-nothing, for every schedule *)
Theorem kv_replace_spec : forall ck cv sk sv dk dv kv vv s,
  nothrow ck = true \/ nothrow cv = true ->
  kvr_pre sk sv dk dv kv vv (hp s) ->
  wp (kv_replace ck cv sk sv dk dv) s
     (fun _ s' => heq (hset (hset (hset (hset (hp s) dk (Live kv)) dv (Live vv)) sk Raw) sv Raw) (hp s'))
     (fun s' => heq (hp s) (hp s')).
Proof.
  intros ck cv sk sv dk dv kv vv s Hex [[V1 [V2 [V3 V4]]] [C1 [C2 [C3 C4]]] [N1 [N2 [N3 [N4 [N5 N6]]]]]].
  assert (N1' : sv <> sk) by auto. assert (N2' : dk <> sk) by auto. assert (N3' : dv <> sk) by auto.
  assert (N4' : dk <> sv) by auto. assert (N5' : dv <> sv) by auto. assert (N6' : dv <> dk) by auto.
  unfold kv_replace. destruct (nothrow ck) eqn:Ek.
  - assert (ck = NTM) by (destruct ck; simpl in Ek; congruence). subst ck.
    apply wp_bind. eapply wp_replace with (v := vv); eauto. intros s1 H1.
    eapply wp_replace with (v := kv).
    + rewrite (heq_valid _ _ _ H1); auto. + rewrite (heq_valid _ _ _ H1); auto. + auto.
    + rewrite (hq_mem _ _ H1), !mem_hset_other by auto. auto.
    + rewrite (hq_mem _ _ H1), !mem_hset_other by auto. auto.
    + intros C; contradiction C; reflexivity.
    + intros s2 H2. eapply heq_trans; [|exact H2]. eapply heq_trans; [|repeat apply heq_hset; exact H1].
      split; simpl; auto. intros l; unfold updm.
      destruct (loc_eq_dec l sk) as [->|A1]; [rewrite ?loc_eqb_refl, ?(loc_eqb_neq sk sv) by auto; reflexivity|].
      rewrite ?(loc_eqb_neq l sk) by auto.
      destruct (loc_eq_dec l dk) as [->|A2]; [rewrite ?loc_eqb_refl, ?(loc_eqb_neq dk sv), ?(loc_eqb_neq dk dv) by auto; reflexivity|].
      rewrite ?(loc_eqb_neq l dk) by auto. reflexivity.
  - destruct Hex as [Hex|Hex]; [discriminate|]. rewrite Hex.
    assert (cv = NTM) by (destruct cv; simpl in Hex; congruence). subst cv.
    apply wp_bind. eapply wp_replace with (v := kv); eauto. intros s1 H1.
    eapply wp_replace with (v := vv).
    + rewrite (heq_valid _ _ _ H1); auto. + rewrite (heq_valid _ _ _ H1); auto. + auto.
    + rewrite (hq_mem _ _ H1), !mem_hset_other by auto. auto.
    + rewrite (hq_mem _ _ H1), !mem_hset_other by auto. auto.
    + intros C; contradiction C; reflexivity.
    + intros s2 H2. eapply heq_trans; [|exact H2]. eapply heq_trans; [|repeat apply heq_hset; exact H1].
      split; simpl; auto. intros l; unfold updm.
      destruct (loc_eq_dec l sv) as [->|A1]; [rewrite ?loc_eqb_refl; reflexivity|].
      rewrite ?(loc_eqb_neq l sv) by auto.
      destruct (loc_eq_dec l sk) as [->|A2]; [rewrite ?loc_eqb_refl, ?(loc_eqb_neq sk dv) by auto; reflexivity|].
      rewrite ?(loc_eqb_neq l sk) by auto. reflexivity.
Qed.

(* ... and when NEITHER is (pvReplaceUnsafe): only the removed value dv may have changed -- exactly the documented exception *)
Theorem kv_replace_unsafe_spec : forall ck cv sk sv dk dv kv vv s,
  nothrow ck = false -> nothrow cv = false ->
  kvr_pre sk sv dk dv kv vv (hp s) ->
  wp (kv_replace ck cv sk sv dk dv) s
     (fun _ s' => heq (hset (hset (hset (hset (hp s) dv (Live vv)) dk (Live kv)) sk Raw) sv Raw) (hp s'))
     (fun s' => heq (hp s) (hp s') \/ heq (hset (hp s) dv (Live vv)) (hp s')).
Proof.
  intros ck cv sk sv dk dv kv vv s Ek Ev [[V1 [V2 [V3 V4]]] [C1 [C2 [C3 C4]]] [N1 [N2 [N3 [N4 [N5 N6]]]]]].
  assert (N1' : sv <> sk) by auto. assert (N2' : dk <> sk) by auto. assert (N3' : dv <> sk) by auto.
  assert (N4' : dk <> sv) by auto. assert (N5' : dv <> sv) by auto. assert (N6' : dv <> dk) by auto.
  unfold kv_replace. rewrite Ek, Ev.
  apply wp_bind. eapply wp_copy_assign with (v := vv); eauto. intros s1 H1.
  apply wp_bind. eapply wp_assign with (v := kv).
  - rewrite (heq_valid _ _ _ H1); auto. - rewrite (heq_valid _ _ _ H1); auto. - auto.
  - rewrite (hq_mem _ _ H1), mem_hset_other by auto. auto.
  - rewrite (hq_mem _ _ H1), mem_hset_other by auto. auto.
  - intros _ s2 H2. right. eapply heq_trans; eauto.
  - intros s2 H2. apply wp_bind. apply wp_destroy.
    + rewrite (heq_valid _ _ _ H2), !valid_hset, (heq_valid _ _ _ H1); auto.
    + rewrite (hq_mem _ _ H2), mem_hset_same. destruct ck; discriminate.
    + intros s3 H3. apply wp_destroy.
      * rewrite (heq_valid _ _ _ H3), valid_hset, (heq_valid _ _ _ H2), !valid_hset, (heq_valid _ _ _ H1); auto.
      * rewrite (hq_mem _ _ H3), mem_hset_other by auto. rewrite (hq_mem _ _ H2), !mem_hset_other by auto.
        rewrite (hq_mem _ _ H1), mem_hset_other by auto. rewrite C2. discriminate.
      * intros s4 H4. eapply heq_trans; [|exact H4]. apply heq_hset.
        eapply heq_trans; [|exact H3].
        eapply heq_trans; [|apply heq_hset; eapply heq_trans; [|exact H2]; repeat apply heq_hset; exact H1].
        split; simpl; auto. intros l; unfold updm. destruct (loc_eqb l sk); auto.
Qed.

Record kvrr_pre (sk sv mk mv dk dv : loc) (kv vv kw vw : nat) (h : heap) : Prop := mkKvrrPre
  { krr_valid : valid h sk = true /\ valid h sv = true /\ valid h mk = true /\ valid h mv = true /\ valid h dk = true /\ valid h dv = true;
    krr_cells : mem h sk = Live kv /\ mem h sv = Live vv /\ mem h mk = Live kw /\ mem h mv = Live vw /\ mem h dk = Raw /\ mem h dv = Raw;
    krr_dist : NoDup [sk; sv; mk; mv; dk; dv] }.

(* ReplaceRelocate of a pair (Extract: the removed pair (mk, mv) is relocated to the extracted pair (dk, dv) and replaced by
   the last pair (sk, sv)), under the same hypothesis: all-or-nothing *)
Theorem kv_replace_relocate_spec : forall ck cv sk sv mk mv dk dv kv vv kw vw s,
  nothrow ck = true \/ nothrow cv = true ->
  kvrr_pre sk sv mk mv dk dv kv vv kw vw (hp s) ->
  wp (kv_replace_relocate ck cv sk sv mk mv dk dv) s
     (fun _ s' => mem (hp s') dk = Live kw /\ mem (hp s') dv = Live vw /\ mem (hp s') mk = Live kv /\ mem (hp s') mv = Live vv /\
                  mem (hp s') sk = Raw /\ mem (hp s') sv = Raw /\
                  (forall l, ~ In l [sk; sv; mk; mv; dk; dv] -> mem (hp s') l = mem (hp s) l) /\
                  agree (fun _ => False) (hp s) (hp s') /\ same_regs (hp s) (hp s'))
     (fun s' => heq (hp s) (hp s')).
Proof.
  intros ck cv sk sv mk mv dk dv kv vv kw vw s Hex [[V1 [V2 [V3 [V4 [V5 V6]]]]] [C1 [C2 [C3 [C4 [C5 C6]]]]] Hnd].
  assert (D : forall a b, In a [sk; sv; mk; mv; dk; dv] -> In b [sk; sv; mk; mv; dk; dv] -> a = b \/ a <> b) by (intros; destruct (loc_eq_dec a b); auto).
  assert (N : sk <> sv /\ sk <> mk /\ sk <> mv /\ sk <> dk /\ sk <> dv /\ sv <> mk /\ sv <> mv /\ sv <> dk /\ sv <> dv /\
              mk <> mv /\ mk <> dk /\ mk <> dv /\ mv <> dk /\ mv <> dv /\ dk <> dv).
  { repeat match goal with H : NoDup (_ :: _) |- _ => inversion H; clear H; subst end.
    simpl in *. repeat split; intro; subst; intuition. }
  destruct N as [n1 [n2 [n3 [n4 [n5 [n6 [n7 [n8 [n9 [n10 [n11 [n12 [n13 [n14 n15]]]]]]]]]]]]]].
  assert (Fin : forall h', heq (hset (hset (hset (hset (hset (hset (hp s) dv (Live vw)) mv (Live vv)) sv Raw) dk (Live kw)) mk (Live kv)) sk Raw) h' \/
                           heq (hset (hset (hset (hset (hset (hset (hp s) dk (Live kw)) mk (Live kv)) sk Raw) dv (Live vw)) mv (Live vv)) sv Raw) h' ->
     mem h' dk = Live kw /\ mem h' dv = Live vw /\ mem h' mk = Live kv /\ mem h' mv = Live vv /\ mem h' sk = Raw /\ mem h' sv = Raw /\
     (forall l, ~ In l [sk; sv; mk; mv; dk; dv] -> mem h' l = mem (hp s) l) /\ agree (fun _ => False) (hp s) h' /\ same_regs (hp s) h').
  { intros h' [H|H]; (repeat split;
      [ rewrite (hq_mem _ _ H); hs; auto | rewrite (hq_mem _ _ H); hs; auto | rewrite (hq_mem _ _ H); hs; auto
      | rewrite (hq_mem _ _ H); hs; auto | rewrite (hq_mem _ _ H); hs; auto | rewrite (hq_mem _ _ H); hs; auto
      | intros l Hl; rewrite (hq_mem _ _ H); simpl in Hl; rewrite !mem_hset_other by (intro; subst; apply Hl; auto 10); reflexivity
      | contradiction | apply (hq_alive _ _ H) | apply (hq_bsize _ _ H) | apply (hq_next _ _ H) | intros r; apply (hq_regs _ _ H) ]). }
  unfold kv_replace_relocate. destruct (nothrow ck) eqn:Ek.
  - assert (ck = NTM) by (destruct ck; simpl in Ek; congruence). subst ck.
    apply wp_bind. eapply wp_replace_relocate with (v := vv) (w := vw); eauto. intros s1 H1.
    eapply wp_replace_relocate with (v := kv) (w := kw); try (rewrite (heq_valid _ _ _ H1); auto; fail); auto.
    + rewrite (hq_mem _ _ H1), !mem_hset_other by auto. auto.
    + rewrite (hq_mem _ _ H1), !mem_hset_other by auto. auto.
    + rewrite (hq_mem _ _ H1), !mem_hset_other by auto. auto.
    + intros C; contradiction C; reflexivity.
    + intros s2 H2. apply Fin. left. eapply heq_trans; [|exact H2]. repeat apply heq_hset. exact H1.
  - destruct Hex as [Hex|Hex]; [discriminate|]. rewrite Hex.
    assert (cv = NTM) by (destruct cv; simpl in Hex; congruence). subst cv.
    apply wp_bind. eapply wp_replace_relocate with (v := kv) (w := kw); eauto. intros s1 H1.
    eapply wp_replace_relocate with (v := vv) (w := vw); try (rewrite (heq_valid _ _ _ H1); auto; fail); auto.
    + rewrite (hq_mem _ _ H1), !mem_hset_other by auto. auto.
    + rewrite (hq_mem _ _ H1), !mem_hset_other by auto. auto.
    + rewrite (hq_mem _ _ H1), !mem_hset_other by auto. auto.
    + intros C; contradiction C; reflexivity.
    + intros s2 H2. apply Fin. right. eapply heq_trans; [|exact H2]. repeat apply heq_hset. exact H1.
Qed.
