(* C09 (a): proofs about the GENERATED address / parameter arithmetic of momo::MemPool
   (Gen_UIntMath.v, Gen_MemPoolConst.v, Gen_MemPool.v are regenerated from /repo's headers on every run). *)
From Coq Require Import ZArith List Bool Lia.
From MomoCommon Require Import GenPrelude.
From C09 Require Gen_UIntMath Gen_MemPoolConst Gen_MemPool.
Import ListNotations.
Local Open Scope Z_scope.

Lemma two64 : 2 ^ 64 = 18446744073709551616. Proof. reflexivity. Qed.
Lemma two63 : 2 ^ 63 = 9223372036854775808. Proof. reflexivity. Qed.

Lemma wrapS_small w x : 0 < w -> 0 <= x < 2 ^ (w - 1) -> wrapS w x = x.
Proof.
  intros Hw Hx. unfold wrapS.
  assert (2 ^ w = 2 * 2 ^ (w - 1)) by (replace w with (Z.succ (w - 1)) at 1 by lia; apply Z.pow_succ_r; lia).
  rewrite Z.mod_small by lia. destruct (Z.ltb_spec x (2 ^ (w - 1))); lia.
Qed.

(* ---------- UIntMath::Ceil ---------- *)
Lemma Ceil_spec v m : 0 <= v -> 0 < m -> v + m < 2 ^ 64 ->
  exists k, Gen_UIntMath.Ceil v m = m * k /\ v <= m * k < v + m.
Proof.
  intros Hv Hm Hs. unfold Gen_UIntMath.Ceil.
  rewrite (wrapU_small 64 (v + m)) by lia.
  rewrite (wrapU_small 64 (v + m - 1)) by lia.
  pose proof (Z.div_mod (v + m - 1) m ltac:(lia)) as D.
  pose proof (Z.mod_pos_bound (v + m - 1) m Hm) as R.
  exists ((v + m - 1) / m). rewrite wrapU_small; [split|]; try lia.
Qed.
