(* Extraction of the instantiated model + the generated leaves.  ExtrOcamlBasic only. *)
From Coq Require Import ZArith List Extraction ExtrOcamlBasic.
From MomoCommon Require Import GenPrelude.
From C17 Require Gen_Leaves SorterSearch SorterSort Instance Checker CodeGetter Gen_SelSort Gen_Radix Radix_Gen_Proofs Gen_RadixCycle Gen_RadixCount Gen_Group Gen_FindHash Gen_IsSorted Gen_Searches.
Separate Extraction
  Gen_Leaves.pvMultShift Gen_Leaves.pvGetStepCount Gen_Leaves.pvCompare
  Instance.FindHash Instance.Find Instance.GetBounds Instance.IsSorted
  Instance.BinarySearch Instance.ExponentialSearch SorterSearch.pvFindOther SorterSearch.pvFindNext Checker.perm_check Instance.check_sort_output SorterSort.RadixSortG SorterSort.swap Instance.HashSort CodeGetter.code_of_signed CodeGetter.code_of_unsigned Gen_SelSort.pvSelectionSort Radix_Gen_Proofs.gen_code_signed Radix_Gen_Proofs.gen_code_unsigned Gen_Radix.pvGetRadix_u64 Gen_Radix.pvGetRadix_u8 Gen_RadixCycle.pvRadixSort_cycle Gen_RadixCount.pvRadixSort_count Gen_Group.pvGroup Gen_FindHash.pvFindHash Gen_IsSorted.pvIsSorted Gen_Searches.pvBinarySearch_loop0 Gen_Searches.pvExponentialSearch_loop0.
