#!/bin/bash
# selfcheck.sh [-j N] : run every claimed quick check on the unchanged tree, validate MANIFEST and evidence files.
cd "$(dirname "$0")/.."
J=${2:-3}
ids=$(python3 -c "import json; print(' '.join(c['property_id'] for c in json.load(open('MANIFEST.json'))['checks']))")
mkdir -p build/selfcheck
echo "$ids" | tr ' ' '\n' | xargs -P $J -I{} sh -c 'start=$(date +%s); ./check {} --tier quick > build/selfcheck/{}.log 2>&1; rc=$?; end=$(date +%s); echo "{} rc=$rc $((end-start))s $(grep -c "^VIOLATION" build/selfcheck/{}.log) violations $(grep -c "^KNOWN-FINDING" build/selfcheck/{}.log) known"'
python3-vt - <<'PY'
import json, jsonschema, glob
man = json.load(open('MANIFEST.json')); jsonschema.validate(man, json.load(open('/root/.vp/MANIFEST.schema.json')))
sch = json.load(open('/root/.vp/EVIDENCE.schema.json')); bad = 0
for c in man['checks']:
    e = json.load(open(c['evidence_file'])); jsonschema.validate(e, sch)
    cov = e['coverage']
    if e['violations'] or cov['obligations'] != cov['discharged'] or e['tier'] != 'quick':
        bad += 1; print('ATTENTION', c['property_id'], e['violations'], cov['obligations'], cov['discharged'], e['tier'])
print('manifest + %d evidence files valid; %d need attention' % (len(man['checks']), bad))
PY
