"""C17 - hash sorting groups equal items and its searches agree with a linear scan.
tie: T-gen (cxx2coq on HashSorter::pvMultShift/pvGetStepCount/pvCompare) + T-cor (hand models SorterSearch.v / SorterSort.v instantiated
with the generated leaves, extracted, run against the real HashSorter incl. read traces) + verified checker on real Sort output."""
import os, sys, itertools, collections
sys.path.insert(0, os.path.dirname(os.path.abspath(__file__)))
import sel2coq

EV = collections.Counter()      # measured events (filled by the oracle from the real code's outputs)

GEN = ['gen_leaves.json']
M64 = 2 ** 64 - 1
# hash functions on item ids (id -> hash); equal ids always get equal hashes
HK = {
    'const':   lambda i: 7,
    'collide': lambda i: 5 if i % 2 == 0 else 9,
    'extreme': lambda i: (0, M64, M64, 0)[i % 4],
    'ident':   lambda i: i,
    'spread':  lambda i: (i % 4) * 2 ** 62 + (i // 4),
    'top':     lambda i: M64 - (i % 3),
}

def line(op, var, pairs, q=None):
    s = '%s %s %d %s' % (op, var, len(pairs), ' '.join('%d %d' % p for p in pairs))
    if q is not None:
        s += ' %d %d' % q
    return ' '.join(s.split())

def is_hash_sorted(pairs):
    return all(pairs[i][0] <= pairs[i + 1][0] for i in range(len(pairs) - 1))

def sorted_spec(pairs):
    """what IsSorted must return: hashes non-decreasing and, inside one hash run, equal items contiguous"""
    if not is_hash_sorted(pairs):
        return False
    i = 0; n = len(pairs)
    while i < n:
        j = i
        while j < n and pairs[j][0] == pairs[i][0]:
            j += 1
        seen = set(); prev = None
        for k in range(i, j):
            x = pairs[k][1]
            if x != prev:
                if x in seen:
                    return False
                seen.add(x); prev = x
        i = j
    return True

def valid(pairs, q=None):
    """arranged the way Sort leaves it AND hashes consistent with equality (also for the query item)"""
    if not sorted_spec(pairs):
        return False
    h = {}
    for (hh, x) in pairs:
        if h.setdefault(x, hh) != hh:
            return False
    if q is not None and q[1] in h and h[q[1]] != q[0]:
        return False
    return True

def arrange(pairs, rng=None):
    """a valid arrangement of a multiset of (hash,id): by hash, then groups in first-appearance (or shuffled) order"""
    byh = {}
    for (hh, x) in pairs:
        byh.setdefault(hh, {}).setdefault(x, 0)
        byh[hh][x] += 1
    out = []
    for hh in sorted(byh):
        ids = list(byh[hh].keys())
        if rng: rng.shuffle(ids)
        for x in ids:
            out += [(hh, x)] * byh[hh][x]
    return out

# ---------------------------------------------------------------- generators
def gen_leaves(ctx, scale):
    r = ctx.rng; cases = []
    edge = sorted(set([0, 1, 2, 3, 63, 64, 65, 4095, 4096, 4097, 2 ** 22 - 1, 2 ** 22, 2 ** 22 + 1, M64, M64 - 1] +
                      [2 ** k + d for k in range(1, 64) for d in (-1, 0, 1)]))
    for a in edge:
        cases.append('SC %d' % a)
        for b in (r.choice(edge), r.below(2 ** 64), M64, 1, a):
            cases.append('MS %d %d' % (a, b)); cases.append('MS %d %d' % (b, a)); cases.append('CMP %d %d' % (a, b)); cases.append('CMP %d %d' % (b, a))
    for W in (8, 16, 32, 64):
        lim = 2 ** (W - 1)
        for x in sorted(set([-lim, -lim + 1, -2, -1, 0, 1, 2, lim - 2, lim - 1] + [r.range(-lim, lim - 1) for _ in range(40)])):
            cases.append('SCODE %d %d' % (W, x))
        for x in sorted(set([0, 1, lim - 1, lim, lim + 1, 2 * lim - 1] + [r.below(2 * lim) for _ in range(20)])):
            cases.append('UCODE %d %d' % (W, x))
    for _ in range(3000 * scale):
        k1 = r.range(0, 64); k2 = r.range(0, 64)
        a = r.below(2 ** k1) if k1 else 0; b = r.below(2 ** k2) if k2 else 0
        cases.append('MS %d %d' % (a, b)); cases.append('CMP %d %d' % (a, b))
    return cases

def gen_small(ctx, maxlen):
    """ALL sequences of length 0..maxlen over the ids {0,1,2} x hash functions x prehashed/plain; every valid arrangement
    is among them.  For each: IsSorted, and pvFindHash/Find/GetBounds for every letter and for an absent id."""
    cases = []
    for hk in ('const', 'collide', 'extreme', 'ident', 'spread'):
        H = HK[hk]
        for n in range(0, maxlen + 1):
            for seq in itertools.product((0, 1, 2), repeat=n):
                pairs = [(H(x), x) for x in seq]
                hs = is_hash_sorted(pairs)
                for var in ('p', 'h'):
                    cases.append(line('S', var, pairs))
                    if not hs and var == 'h' and n > 4:
                        continue   # unsorted arrays: searches only for the tie (one variant is enough on the longer ones)
                    for qi in (0, 1, 2, 3):
                        q = (H(qi), qi)
                        for op in ('FH', 'F', 'B'):
                            cases.append(line(op, var, pairs, q))
                    if hk == 'ident':
                        cases.append(line('F', var, pairs, (M64, 9))); cases.append(line('B', var, pairs, (M64, 9)))
    return cases

def gen_coarse(ctx, maxlen):
    """equalFunc coarser than identity: items 0..3, equal iff id//2 equal (equal but distinguishable items); variant letters P/H.
    ALL sequences of length 0..maxlen over the 4 ids x {one hash for everything, hash by class}"""
    cases = []; sorts = []; hs = []
    for hk, H in (('const', lambda c: 7), ('byclass', lambda c: (3, M64, 2 ** 63)[c])):
        for n in range(0, maxlen + 1):
            for seq in itertools.product((0, 1, 2, 3), repeat=n):
                pairs = [(H(x // 2), x) for x in seq]
                var = 'P' if (n + len(cases)) % 2 else 'H'
                cases.append(line('S', var, pairs))
                for qi in (0, 1, 2, 3, 5):
                    q = (H(qi // 2), qi)
                    cases.append(line('F', var, pairs, q)); cases.append(line('B', var, pairs, q))
                sorts.append(line('SORT', var, pairs)); hs.append(line('HSORT', var, pairs))
    return cases, sorts, hs

def gen_aimed_jumps(ctx, scale):
    """pvFindHash interpolation jumps that land EXACTLY on an interval end (forward jump == rightIndex incl. == count,
    backward jump == leftIndex): a block of equal small hashes followed by large ones, searched around 2^63 / 2^62 / 3*2^62"""
    r = ctx.rng; cases = []
    for n in (64, 65, 66, 96, 127, 128, 200, 1000) + ((4096, 4097) if scale > 1 else (4096,)):
        for a in sorted(set([n // 2 - 1, n // 2, n // 2 + 1, n // 4, n // 4 + 1, 3 * n // 4, 3 * n // 4 + 1, n - 1, n, 1])):
            for lowv, highv in ((0, M64), (0, 2 ** 63 + 5), (1, M64 - 1)):
                hashes = [lowv] * a + [highv] * (n - a)
                pairs = [(h, i // 3) if h == lowv else (h, 10 ** 6 + i // 3) for i, h in enumerate(hashes)]
                for qh in (2 ** 63, 2 ** 63 - 1, 2 ** 63 + 1, 2 ** 62, 3 * 2 ** 62, 2 ** 63 + 5, M64 - 1, 1):
                    q = (qh, 10 ** 9 + 1)
                    for (h, x) in pairs:
                        if h == qh: q = (qh, x); break
                    var = 'p' if (a + n) % 2 else 'h'
                    cases.append(line('FH', var, pairs, q)); cases.append(line(r.choice(['F', 'B']), var, pairs, q))
    return cases

def rand_valid_array(r, n, kind):
    """a valid arrangement of about n items with the given hash distribution"""
    pairs = []; nid = 0
    def run(hh, total):
        nonlocal nid
        k = r.range(1, min(4, total))
        cnts = [1] * k
        for _ in range(total - k): cnts[r.below(k)] += 1
        for c in cnts:
            pairs.extend([(hh, nid)] * c); nid += 1
    if kind == 'uniform':
        hs = sorted(r.below(2 ** 64) for _ in range(n))
    elif kind == 'low':
        hs = sorted(r.below(1000) for _ in range(n))
    elif kind == 'high':
        hs = sorted(M64 - r.below(1000) for _ in range(n))
    elif kind == 'two':
        hs = sorted(r.choice([0, M64]) for _ in range(n))
    elif kind == 'const':
        hs = [r.choice([0, 7, M64, 2 ** 63])] * n
    elif kind == 'skew':      # almost everything tiny, a few huge: interpolation lands far from the target
        hs = sorted((r.below(50) if r.chance(9, 10) else M64 - r.below(50)) for _ in range(n))
    elif kind == 'mid':
        hs = sorted(2 ** 63 + r.range(-20, 20) for _ in range(n))
    else:                       # 'few': few distinct hashes spread over the range
        vals = [r.below(2 ** 64) for _ in range(r.range(2, 9))]
        hs = sorted(r.choice(vals) for _ in range(n))
    i = 0
    while i < n:
        j = i
        while j < n and hs[j] == hs[i]: j += 1
        run(hs[i], j - i); i = j
    return pairs

def queries_for(r, pairs, k):
    n = len(pairs); qs = []
    hashes = [p[0] for p in pairs]
    if n:
        for pos in [0, n - 1, n // 2] + [r.below(n) for _ in range(k)]:
            qs.append(pairs[pos])                          # present item
            qs.append((pairs[pos][0], 10 ** 9 + pos))       # absent item with a present hash
        for pos in [r.below(n) for _ in range(2)]:
            hh = hashes[pos]
            for d in (-1, 1):
                if 0 <= hh + d <= M64 and (hh + d) not in hashes:
                    qs.append((hh + d, 10 ** 9 + 7))       # absent hash next to a present one
    for hh in (0, M64, 2 ** 63, r.below(2 ** 64)):
        if hh not in hashes:
            qs.append((hh, 10 ** 9 + 8))
    return qs

def gen_long(ctx, scale):
    r = ctx.rng; cases = []
    kinds = ['uniform', 'low', 'high', 'two', 'const', 'skew', 'mid', 'few']
    sizes = [7, 8, 13, 31, 62, 63, 64, 65, 66, 100, 127, 200, 300]
    big = [1000, 4095, 4096, 4097, 6000]
    for rep in range(2 * scale):
        for n in sizes:
            for kind in kinds:
                pairs = rand_valid_array(r, n, kind)
                var = r.choice(['p', 'h'])
                cases.append(line('S', var, pairs))
                qs = queries_for(r, pairs, 2)
                r.shuffle(qs)
                for q in qs[:8]:
                    for op in ('FH', 'F', 'B'):
                        cases.append(line(op, var, pairs, q))
                if r.chance(1, 2) and n > 2:     # a broken arrangement for IsSorted (swap two items)
                    bad = list(pairs); i = r.below(n); j = r.below(n); bad[i], bad[j] = bad[j], bad[i]
                    cases.append(line('S', var, bad))
    for n in big:
        for kind in (kinds if scale > 1 else ['uniform', 'skew', 'few', 'low']):
            pairs = rand_valid_array(r, n, kind)
            var = r.choice(['p', 'h'])
            cases.append(line('S', var, pairs))
            qs = queries_for(r, pairs, 1); r.shuffle(qs)
            for q in qs[:4]:
                cases.append(line(r.choice(['FH', 'F']), var, pairs, q)); cases.append(line('B', var, pairs, q))
    # inconsistent / arbitrary small arrays (tie only: hashes not a function of the id, unsorted, ...)
    for _ in range(400 * scale):
        n = r.range(0, 12)
        pairs = [(r.choice([0, 1, 2, M64, 2 ** 63]), r.below(4)) for _ in range(n)]
        if r.chance(1, 2): pairs.sort(key=lambda p: p[0])
        var = r.choice(['p', 'h'])
        cases.append(line('S', var, pairs))
        q = (r.choice([0, 1, 2, M64, 2 ** 63]), r.below(5))
        for op in ('FH', 'F', 'B'):
            cases.append(line(op, var, pairs, q))
    return cases

def gen_sort(ctx, scale, maxlen):
    r = ctx.rng; cases = []
    for hk in ('const', 'collide', 'extreme', 'ident', 'spread', 'top'):
        H = HK[hk]
        for n in range(0, maxlen + 1):
            for seq in itertools.product((0, 1, 2), repeat=n):
                pairs = [(H(x), x) for x in seq]
                for var in ('p', 'h'):
                    cases.append(line('SORT', var, pairs))
    # longer: selection-sort / radix-sort boundary is 32 items for RadixSorter<8>; single-code and single-radix paths
    for rep in range(6 * scale):
        for n in (7, 20, 31, 32, 33, 34, 40, 64, 100, 257, 300, 1000 if rep < 2 else 150):
            for kind in ('uniform', 'low', 'high', 'two', 'const', 'skew', 'mid', 'few'):
                base = rand_valid_array(r, n, kind)
                pairs = list(base); r.shuffle(pairs)
                cases.append(line('SORT', r.choice(['p', 'h']), pairs))
            nid = r.range(1, 6)   # many duplicates of few ids, hash by a small function
            H = HK[r.choice(list(HK))]
            pairs = [(H(x), x) for x in (r.below(nid) for _ in range(n))]
            cases.append(line('SORT', r.choice(['p', 'h']), pairs))
    return cases

def gen_radix(ctx, scale, narrow):
    """RadixSorter<R> on W-bit codes and on pointers.  narrow=True: only the R > W combinations with more items than the
    selection-sort threshold (run in a separate harness invocation)"""
    r = ctx.rng; cases = []
    for R in range(1, 17):
        T = 2 ** (R // 2 + 1)
        for W in (8, 16, 32, 64):
            if narrow != (R > W): continue
            sizes = [T + 1, 2 * T + 3] if narrow else [0, 1, 2, 3, T - 1, T, T + 1, 2 * T + 3, 5 * T + r.below(50)]
            for n in sizes:
                for dist in ('uniform', 'few', 'low', 'high', 'one'):
                    if n < 3 and dist != 'uniform': continue
                    if dist == 'uniform': vals = [r.below(2 ** W) for _ in range(n)]
                    elif dist == 'few':
                        pool = [r.below(2 ** W) for _ in range(r.range(1, 5))] + [0, 2 ** W - 1]
                        vals = [r.choice(pool) for _ in range(n)]
                    elif dist == 'low': vals = [r.below(min(2 ** W, 2 ** r.range(1, 9))) for _ in range(n)]
                    elif dist == 'high': vals = [(r.below(16) << (W - 4)) | (r.below(2) if r.chance(1, 3) else 0) for _ in range(n)]
                    else: vals = [r.below(2 ** W)] * n
                    cases.append('RADIX %d %d %d %s' % (R, W, n, ' '.join(map(str, vals))))
        if not narrow:
            for n in (3, T + 1, 2 * T + 5):     # bool and plain char arrays
                cases.append('RADIXI %d 1 %d %s' % (R, n, ' '.join(str(r.below(2)) for _ in range(n))))
                cases.append('RADIXI %d 7 %d %s' % (R, n, ' '.join(str(r.range(-128, 127)) for _ in range(n))))
            for W in (8, 16, 32, 64):     # SIGNED element types (negative values)
                for n in (3, T + 1, 2 * T + 5):
                    lim = 2 ** (W - 1)
                    vals = [r.range(-min(lim, 1000), min(lim - 1, 1000)) if r.chance(1, 2) else r.range(-lim, lim - 1) for _ in range(n)]
                    cases.append('RADIXI %d %d %d %s' % (R, W, n, ' '.join(map(str, vals))))
            for n in (0, 1, 2, 3, T, T + 1, 3 * T + 1):
                cases.append('RADIXP %d %d %s' % (R, n, ' '.join(str(r.below(65536 if r.chance(1, 2) else 40)) for _ in range(n))))
    return cases

def gen_sorttrace(ctx, scale, maxlen):
    """cases for the swap-trace tie of the SORT model: HSORT (real HashSorter::Sort/SortPrehashed, R=8, 64-bit codes) and
    RSORT R W g (real RadixSorter<R> on W-bit codes with a logging swapper and, if g, HashSorter's group callback)"""
    r = ctx.rng; hs = []; rs = []
    for hk in ('const', 'collide', 'extreme', 'ident', 'spread', 'top'):
        H = HK[hk]
        for n in range(0, maxlen + 1):
            for seq in itertools.product((0, 1, 2), repeat=n):
                pairs = [(H(x), x) for x in seq]
                hs.append(line('HSORT', 'p' if (n + len(hs)) % 2 else 'h', pairs))
    def rline(R, W, g, pairs):
        return ' '.join(('RSORT %d %d %d %d %s' % (R, W, g, len(pairs), ' '.join('%d %d' % p for p in pairs))).split())
    for R in (1, 2, 3, 8):
        for W in (8, 64):
            codes = {'low': lambda i: i, 'high': lambda i: i << (W - 2), 'const': lambda i: 5,
                     'collide': lambda i: (i % 2) << (W - 1) | 1, 'mixed': lambda i: (1, (1 << (W - 1)) | 1, 1 << (W - 1))[i % 3]}
            for ck, C in codes.items():
                for n in range(0, maxlen + 1):
                    for seq in itertools.product((0, 1, 2), repeat=n):
                        rs.append(rline(R, W, 1 if ck in ('const', 'collide') or n % 2 else 0, [(C(x), x) for x in seq]))
    for rep in range(500 * scale):
        R = r.choice([1, 2, 3, 4, 5, 8]); W = r.choice([8, 16, 32, 64]); n = r.choice([7, 9, 12, 17, 31, 32, 33, 34, 40, 65, 120])
        kind = r.below(5)
        if kind == 0: pool = [r.below(2 ** W) for _ in range(n)]
        elif kind == 1: pool = [r.below(2 ** W) for _ in range(r.range(1, 4))]
        elif kind == 2: pool = [r.below(min(2 ** W, 2 ** r.range(1, 9))) for _ in range(n)]
        elif kind == 3: pool = [(r.below(8) << (W - 3)) | r.below(2) for _ in range(n)]
        else: pool = [r.below(2 ** W)] * 2 + [0, 2 ** W - 1]
        pairs = []
        for _ in range(n):
            c = r.choice(pool); pairs.append((c, (c % 1000) * 10 + r.below(3)))    # up to 3 different items per code
        rs.append(rline(R, W, r.below(2), pairs))
    for rep in range(40 * scale):
        for n in (20, 31, 32, 33, 34, 40, 64, 100, 257):
            kindh = r.choice(['uniform', 'low', 'high', 'two', 'const', 'skew', 'mid', 'few'])
            pairs = list(rand_valid_array(r, n, kindh)); r.shuffle(pairs)
            hs.append(line('HSORT', r.choice(['p', 'h']), pairs))
    return hs, rs

def gen_gsel(ctx, scale):
    r = ctx.rng; cases = []
    for n in range(1, 7):
        for seq in itertools.product((0, 1, 2), repeat=n):
            cases.append('GSEL %d %s' % (n, ' '.join(str((5, M64, 2 ** 63)[x]) for x in seq)))
    for _ in range(600 * scale):
        n = r.choice([1, 2, 3, 7, 8, 15, 16, 30, 31, 32]); k = r.range(1, 6)
        pool = [r.below(2 ** 64) for _ in range(k)] + [0, M64]
        cases.append('GSEL %d %s' % (n, ' '.join(str(r.choice(pool) if r.chance(3, 4) else r.below(2 ** 64)) for _ in range(n))))
    return cases

def gsel_oracle(ctx, c, out):
    w = c.split(); n = int(w[1]); vals = list(map(int, w[2:]))
    if out.startswith('OOB'): return 'pvSelectionSort wrote outside the array'
    try:
        body, grp = out.split('|'); got = list(map(int, body.split()))
        calls = [tuple(map(int, g.split(':'))) for g in grp.split()]
    except ValueError:
        return 'unparsable output %r' % out[:80]
    EV['GSEL n=%s' % ('1' if n == 1 else '2' if n == 2 else '3..31' if n < 32 else '32')] += 1
    if got != sorted(vals): return 'pvSelectionSort output is not the sorted input'
    runs = []; i = 0
    while i < n:
        j = i
        while j < n and got[j] == got[i]: j += 1
        runs.append((i, j - i)); i = j
    if calls != runs: return 'groupFunc calls %s are not the runs of equal codes %s' % (calls[:6], runs[:6])
    if n >= 3: ctx.nontrivial.add(c)
    return None

def sorttrace_oracle(ctx, c, out):
    w = c.split()
    if out.startswith('OOB'): return 'Sort read/wrote outside the array'
    if out.startswith('SELFSWAP'): return 'Sort called iterSwapper(i, i) (self-swap: fatal for self-move-hostile items)'
    coarse = False
    if w[0] == 'HSORT': n = int(w[2]); nums = list(map(int, w[3:])); g = 1; coarse = w[1] in ('P', 'H'); EV['HSORT %s' % w[1]] += 1
    else:
        n = int(w[4]); nums = list(map(int, w[5:])); g = int(w[3]); T = 2 ** (int(w[1]) // 2 + 1)
        EV['RSORT R=%s W=%s %s' % (w[1], w[2], 'selection' if 2 < n <= T else 'radix' if n > T else 'n<=2')] += 1
    pairs = [(nums[2 * i], nums[2 * i + 1]) for i in range(n)]
    try:
        on = list(map(int, out.split('|')[0].split()))
        outp = [(on[2 * i], on[2 * i + 1]) for i in range(n)]
    except (ValueError, IndexError):
        return 'unparsable output %r' % out[:80]
    if sorted(pairs) != sorted(outp): return 'Sort output is not a permutation of the input (code,item) pairs'
    if not is_hash_sorted(outp): return 'Sort output codes are not non-decreasing'
    if coarse: outp = [(h, x // 2) for (h, x) in outp]
    if g and not sorted_spec(outp): return 'Sort output: equal items are not contiguous inside a code run'
    if n >= 3: ctx.nontrivial.add(c)
    return None

def radix_oracle(ctx, c, out):
    w = c.split()
    if out.startswith('OOB'): return 'RadixSorter wrote outside the array'
    try:
        body, grp = out.split('|')
        got = list(map(int, body.split()))
    except ValueError:
        return 'unparsable output %r' % out[:80]
    vals = list(map(int, w[4:])) if w[0] in ('RADIX', 'RADIXI') else list(map(int, w[3:]))
    exp = sorted(vals)
    EV['radix R=%s %s' % (w[1], 'W=' + w[2] if w[0] != 'RADIXP' else 'pointers') + (' signed' if w[0] == 'RADIXI' else '')] += 1
    if w[0] != 'RADIXP':
        T = 2 ** (int(w[1]) // 2 + 1); n_ = len(vals)
        EV['radix size vs selection threshold: ' + ('n<=2' if n_ <= 2 else 'n<T' if n_ < T else 'n==T' if n_ == T else 'n==T+1' if n_ == T + 1 else 'n>T+1')] += 1
    if got != exp: return 'RadixSorter<%s> output is not the sorted input (first difference at %d)' % (w[1], next((i for i in range(min(len(got), len(exp))) if got[i] != exp[i]), -1))
    if w[0] == 'RADIX':
        runs = []; i = 0
        while i < len(exp):
            j = i
            while j < len(exp) and exp[j] == exp[i]: j += 1
            if j - i > 2: runs.append('%d:%d' % (i, j - i))
            i = j
        if grp.split() != runs: return 'groupFunc calls %s do not match the runs of equal codes %s' % (grp.split()[:5], runs[:5])
    if len(vals) >= 3: ctx.nontrivial.add(c)
    return None

# ---------------------------------------------------------------- oracle (independent of the Coq model)
def parse_case(c):
    w = c.split(); op, var, n = w[0], w[1], int(w[2])
    nums = list(map(int, w[3:]))
    pairs = [(nums[2 * i], nums[2 * i + 1]) for i in range(n)]
    rest = nums[2 * n:]
    return op, var, pairs, rest

def oracle_one(ctx, c, out):
    """returns None or a description of the violation; the property predicate evaluated on the real code's output"""
    w = c.split()
    if w[0] in ('RADIX', 'RADIXP', 'RADIXI'):
        return radix_oracle(ctx, c, out)
    if w[0] == 'BIGFIND':
        EV['BIGFIND ' + ' '.join(out.split()[1:2])] += 1
        return None if out.split()[-1:] == ['ok'] and not out.startswith('OOB') else 'BIGFIND: Find/GetBounds differ from the linear scan: ' + out[:200]
    if w[0] in ('HSORT', 'RSORT'):
        return sorttrace_oracle(ctx, c, out)
    if w[0] == 'GSEL':
        return gsel_oracle(ctx, c, out)
    if w[0] in ('GBS', 'GES'):
        vals = list(map(int, w[2:])); EV[w[0]] += 1
        if out.startswith('OOB'): return w[0] + ': comparer called outside [0,n)'
        k, f = map(int, out.split())
        srt = all(vals[i] <= vals[i + 1] for i in range(len(vals) - 1))
        if f and not (0 <= k < len(vals) and vals[k] == 0): return w[0] + ': found at an index whose comparer value is not 0'
        if srt and not f and (0 in vals or k != sum(1 for v in vals if v < 0)): return w[0] + ': sorted comparer, result %s is not the partition point' % out
        if not (0 <= k <= len(vals)): return w[0] + ': index outside [0,n]'
        if len(vals) >= 3: ctx.nontrivial.add(c)
        return None
    if w[0] == 'GGRP':
        vals = list(map(int, w[2:])); EV['GGRP'] += 1
        if out.startswith('OOB'): return 'pvGroup wrote outside the array'
        got = list(map(int, out.split()))
        if sorted(got) != sorted(vals): return 'pvGroup output is not a permutation of the input'
        seen = set(); prev = None
        for x in got:
            if x != prev:
                if x in seen: return 'after pvGroup equal items are not contiguous: %s' % got[:12]
                seen.add(x); prev = x
        if len(vals) >= 3: ctx.nontrivial.add(c)
        return None
    if w[0] == 'GCYC':
        R_, sh, n_ = int(w[1]), int(w[2]), int(w[3]); vals = list(map(int, w[4:])); EV['GCYC R=%d' % R_] += 1
        if out.startswith('OOB'): return 'cycle-leader loop wrote outside the array'
        got = list(map(int, out.split('|')[0].split()))
        dig = lambda v: (v >> sh) & (2 ** R_ - 1)
        if sorted(got) != sorted(vals): return 'cycle-leader output is not a permutation of the input'
        if [dig(v) for v in got] != sorted(dig(v) for v in vals): return 'after the cycle-leader loop the items are not bucketed by digit'
        if any(a_ == b_ for a_, b_ in (t.split('-') for t in out.split('|')[1].split())): return 'cycle-leader loop swapped an item with itself'
        if n_ >= 3: ctx.nontrivial.add(c)
        return None
    if w[0] == 'BIGM':
        n_, pos, mode = int(w[1]), int(w[2]), int(w[3]); EV['BIGM step=3 %s mode=%d' % ('quadratic' if mode >= 10 else 'uniform', mode % 10)] += 1; mode %= 10
        if out.startswith('OOB'): return 'read outside the array'
        k, f, bb, be = map(int, out.split('|')[0].split())
        idq = pos // 2
        if mode == 0:
            lo, hi = 2 * idq, min(2 * idq + 2, n_)
            if not (f == 1 and lo <= k < hi and (bb, be) == (lo, hi)): return 'BIGM: Find/GetBounds %s, expected item range [%d,%d)' % (out.split('|')[0], lo, hi)
        elif not (f == 0 and bb == be and 0 <= bb <= n_): return 'BIGM: absent item reported as %s' % out.split('|')[0]
        ctx.nontrivial.add(c)
        return None
    if w[0] == 'GS':
        op_, var_, pairs_, _r = parse_case(c[1:])
        if var_ in ('P', 'H'): pairs_ = [(h, x // 2) for (h, x) in pairs_]
        EV['GS (generated pvIsSorted)'] += 1
        return None if out.strip() == ('1' if sorted_spec(pairs_) else '0') else 'IsSorted returned %s, linear scan says %s' % (out, sorted_spec(pairs_))
    if w[0] == 'PCODE':
        EV['pointer code getter'] += 1
        return None if out.split() == [str(4 * (int(w[1]) & 0xFFFF)), '1'] else 'pointer code getter: code of &pool[%s] is %s' % (w[1], out)
    if w[0] == 'IPF':
        nn = int(w[2]); nums = list(map(int, w[3:])); i_ = nums[2 * nn]; EV['IterHashFunc/IterPrehashFunc adaptors'] += 1
        return None if out.split() == [str(nums[2 * i_])] * 3 else 'iterator->hash adaptor returned %s for index %d, expected %d three times' % (out, i_, nums[2 * i_])
    if w[0] == 'GRADIX':
        R_, W_, cv, sh = map(int, w[1:]); EV['pvGetRadix R=%d W=%d' % (R_, W_)] += 1
        exp = (cv >> sh) & (2 ** R_ - 1)
        return None if out.strip() == str(exp) else 'pvGetRadix<%d-bit>(%d, %d) of RadixSorter<%d> = %s, expected %d' % (W_, cv, sh, R_, out, exp)
    if w[0] in ('SCODE', 'UCODE'):
        W = int(w[1]); x = int(w[2]); EV['code getter %s W=%d' % (w[0], W)] += 1
        exp = x + 2 ** (W - 1) if w[0] == 'SCODE' else x
        return None if out.strip() == str(exp) else 'RadixSorterCodeGetter(%d-bit %s %d) = %s, order-preserving code is %d' % (W, 'signed' if w[0] == 'SCODE' else 'unsigned', x, out, exp)
    if w[0] in ('MS', 'SC', 'CMP'):
        a = int(w[1]); b = int(w[2]) if len(w) > 2 else 0
        try: v = int(out)
        except ValueError: return 'unparsable output'
        if w[0] == 'MS':
            if not (0 <= v <= (a * b) >> 64) or (b > 0 and v >= b): return 'pvMultShift(%d,%d)=%d not in [0, floor(a*b/2^64)] / not < n' % (a, b, v)
        elif w[0] == 'SC':
            exp = 0 if a < 64 else 1 if a < 4096 else 2 if a < 2 ** 22 else 3
            if v != exp: return 'pvGetStepCount(%d)=%d, expected %d' % (a, v, exp)
        else:
            if v != (-1 if a < b else (1 if a > b else 0)): return 'pvCompare(%d,%d)=%d' % (a, b, v)
        return None
    op, var, pairs, rest = parse_case(c)
    n = len(pairs)
    coarse = var in ('P', 'H')
    opairs = pairs
    if coarse:      # equalFunc = "same id//2": evaluate the linear-scan predicates on the classes
        pairs = [(h, x // 2) for (h, x) in pairs]
    EV['%s %s' % (op, var)] += 1
    if op in ('FH', 'F', 'B'):
        EV['search: pvGetStepCount=%d' % (0 if n < 64 else 1 if n < 4096 else 2 if n < 2 ** 22 else 3)] += 1
        EV['search: count ' + ('0' if n == 0 else '1' if n == 1 else '2..6' if n <= 6 else '7..63' if n < 64 else '64' if n == 64 else '65..4095' if n < 4096 else '4096' if n == 4096 else '>4096')] += 1
    if out.startswith('OOB'):
        return 'the real code read an index outside [0,%d) (or wrote a guard slot)' % n
    try:
        res = out.split('|')[0].split()
        vals = list(map(int, res))
    except ValueError:
        return 'unparsable output %r' % out[:80]
    if op == 'S':
        exp = sorted_spec(pairs)
        if vals != [1 if exp else 0]: return 'IsSorted returned %s, linear scan says %s' % (vals, exp)
        if n >= 3: ctx.nontrivial.add(c)
        return None
    if op in ('FH', 'F', 'B'):
        q = (rest[0], rest[1] // 2 if coarse else rest[1])
        if op == 'FH':
            if not is_hash_sorted(pairs): return None
            k, f = vals
            present = any(h == q[0] for (h, _) in pairs)
            if bool(f) != present: return 'pvFindHash found=%d but hash present=%s' % (f, present)
            if f and not (0 <= k < n and pairs[k][0] == q[0]): return 'pvFindHash index %d does not carry the hash' % k
            lb = sum(1 for (h, _) in pairs if h < q[0])
            if not f and k != lb: return 'pvFindHash not-found index %d is not the lower bound %d' % (k, lb)
            if n >= 64: ctx.nontrivial.add(c)
            return None
        if not valid(pairs, q): return None
        idx = [i for i, p in enumerate(pairs) if p == q]
        run = set(x for (h, x) in pairs if h == q[0])
        if len(run) >= 2 or n >= 64: ctx.nontrivial.add(c)
        if op == 'F':
            k, f = vals
            EV['Find: ' + ('found' if f else 'not found') + (', hash run with >= 2 different items' if len(run) >= 2 else '')] += 1
            if bool(f) != bool(idx): return 'Find found=%d, linear scan finds %s' % (f, idx[:3])
            if f and k not in idx: return 'Find returned index %d which does not hold the item' % k
            if not (0 <= k <= n): return 'Find iterator %d outside [0,%d]' % (k, n)
            return None
        b, e = vals
        EV['GetBounds: ' + ('empty' if b == e else 'one item' if e - b == 1 else 'several items')] += 1
        if idx:
            if (b, e) != (idx[0], idx[-1] + 1): return 'GetBounds [%d,%d), linear scan [%d,%d)' % (b, e, idx[0], idx[-1] + 1)
        elif not (b == e and 0 <= b <= n): return 'GetBounds [%d,%d) for an absent item' % (b, e)
        return None
    if op == 'SORT':
        body, flag = out.split('|')
        nums = list(map(int, body.split()))
        outp = [(nums[3 * i], nums[3 * i + 1]) for i in range(n)]
        tags = [nums[3 * i + 2] for i in range(n)]
        EV['Sort path: ' + ('n<=2' if n <= 2 else 'selection sort (3..32)' if n <= 32 else 'radix sort (>32)')] += 1
        if sorted(tags) != list(range(n)): return 'Sort output is not a permutation of the input (tags %s)' % tags[:10]
        for i in range(n):
            if opairs[tags[i]] != outp[i]: return 'Sort: item/hash at position %d does not match its origin (hash array out of step)' % i
        if coarse: outp = [(h, x // 2) for (h, x) in outp]
        if not sorted_spec(outp): return 'Sort output is not hash-sorted with equal items contiguous'
        if int(flag) != 1: return 'IsSorted is false on the output of Sort'
        if n >= 3: ctx.nontrivial.add(c)
        return None
    return None

def run_oracle(ctx, harness, cases, name):
    path = os.path.join(ctx.build, name + '.cases')
    open(path, 'w').write('\n'.join(cases) + '\n')
    rc, lines, err = ctx.run_lines([harness], path)
    ctx.evaluations += len(cases)
    bad = []
    if rc != 0:
        k = len(lines)
        bad.append((cases[k] if k < len(cases) else '(unknown)', '', 'harness crashed (exit %d) %s' % (rc, err[-300:])))
    for c, out in zip(cases, lines):
        why = oracle_one(ctx, c, out)
        if why:
            bad.append((c, out, why))
    return bad, lines

def replay(ctx, rp):
    case = rp.get('case')
    if case and (case.startswith('RADIX') or case.startswith('RSORT')):
        harness = ctx.cxx('harness_radix.cpp', 'harness_radix', ['-fsanitize=shift', '-fno-sanitize-recover=all'])
    else:
        harness = ctx.cxx('harness.cpp', 'harness')
    if harness is None:
        print('harness does not build'); return 2
    if not case:
        print('replay has no concrete case (no-failing-input-found): broken stages were', list(rp.get('broken', {}).keys())); return 1
    bad, lines = run_oracle(ctx, harness, [case], 'replay')
    print('case:', case[:400], '\nimplementation:', (lines[0] if lines else '')[:400])
    if rp.get('model') is not None:
        print('model said:', str(rp.get('model'))[:400])
    if bad:
        print(bad[0][2]); print('VIOLATION property=C17 replay=%s' % ctx.replay); return 1
    if rp.get('model') is not None and lines and lines[0] != rp.get('model'):
        print('implementation still differs from the recorded model answer'); print('VIOLATION property=C17 replay=%s' % ctx.replay); return 1
    print('property holds on this case'); return 0

def run(ctx):
    scale = 1 if ctx.quick() else 6
    maxlen = 6 if ctx.quick() else 7
    ctx.trusted += ['tools/cxx2coq.py + clang 14 JSON AST for the leaves pvMultShift/pvGetStepCount/pvCompare (validated against the real functions each run)',
                    'hand model SorterSearch.v of the search functions (validated against the real code each run: results and read traces)',
                    'extraction: ExtrOcamlBasic only, OCaml 4.13.1, zarith for decimal I/O only',
                    'g++ 12 -std=c++17; harness reaches private members via #define private public; read traces via logging functors / hash iterator']
    ctx.assumptions += ['count < 2^62 (size_t index arithmetic does not wrap)', 'hash codes are 64-bit (x86-64 size_t)',
                        'equalFunc is an equivalence relation; equal items have equal hash codes',
                        'Sort is proved about the hand model SorterSort.v (array = list of (code,item) pairs, hashFunc deterministic), tied to the real code by swap trace + final arrangement']
    ctx.regen(GEN)
    # further generated files (props/C17/sel2coq.py on top of tools/cxx2coq.py): RadixSorter<8>::pvSelectionSort, and the small
    # RadixSorter functions (integral code getters, pvGetRadix, first shift of Sort)
    for gname, gfun, what in (('Gen_SelSort.v', sel2coq.translate, 'pvSelectionSort'),
                              ('Gen_Radix.v', sel2coq.translate_radix, 'code getters, pvGetRadix, first shift of Sort'),
                              ('Gen_RadixCount.v', sel2coq.translate_count, 'counting pass + prefix sums of pvRadixSort'),
                              ('Gen_RadixCycle.v', sel2coq.translate_cycle, 'cycle-leader permutation of pvRadixSort'),
                              ('Gen_HsGuards.v', sel2coq.translate_guards, 'entry guards of pvFindHash / pvIsSorted'),
                              ('Gen_FindHash.v', sel2coq.translate_findhash, 'interpolation loop of pvFindHash'),
                              ('Gen_Group.v', sel2coq.translate_group, 'HashSorter::pvGroup'),
                              ('Gen_Searches.v', sel2coq.translate_searches, 'pvBinarySearch, pvExponentialSearch'),
                              ('Gen_GroupLambda.v', sel2coq.translate_group_lambda, 'group callback of HashSorter::pvSort'),
                              ('Gen_IsSorted.v', sel2coq.translate_issorted, 'pvIsGrouped, pvIsSorted'),
                              ('Gen_FindNext.v', sel2coq.translate_findnext, 'pvFindNext (forward iterators)'),
                              ('Gen_FindOther.v', sel2coq.translate_findother, 'pvFindOther (forward iterators)')):
        gpath = os.path.join(ctx.cdir, gname)
        try:
            txt = gfun(repo=ctx.repo)
            if not os.path.exists(gpath) or open(gpath).read() != txt:
                open(gpath, 'w').write(txt)
            ctx.tie_obligations.append({'name': 'translate %s (%s)' % (gname[:-2], what), 'ok': True})
            ctx.stage('regen-' + gname[4:-2].lower(), True)
        except sel2coq.TranslationError as e:
            if os.path.exists(gpath): os.remove(gpath)       # a stale model must not keep the proofs green
            ctx.tie_obligations.append({'name': 'translate %s (%s)' % (gname[:-2], what), 'ok': False, 'error': str(e)[:500]})
            ctx.stage('regen-' + gname[4:-2].lower(), False, str(e))
    ctx.prove()
    exes = ctx.cxx_many([('harness.cpp', 'harness', []),
                         ('harness_radix.cpp', 'harness_radix', ['-fsanitize=shift', '-fno-sanitize-recover=all'])])
    harness = exes.get('harness'); hradix = exes.get('harness_radix')
    if harness is None or hradix is None:
        ctx.stage('build-harness', False, getattr(ctx, 'last_cxx_error', ''))
        return ctx.finish(rule=RULE)
    leaves = gen_leaves(ctx, scale)
    codeg = [c for c in leaves if c.startswith(('SCODE', 'UCODE'))]
    for R_ in range(1, 17):
        for W_ in (8, 64):
            for sh in sorted(set([0, 1, max(W_ - R_, 0), max(W_ - R_ - 1, 0), W_ - 1, W_ // 2])):
                for cv in (0, 1, 2 ** W_ - 1, 2 ** (W_ - 1), ctx.rng.below(2 ** W_), ctx.rng.below(2 ** W_)):
                    if W_ == 8 and sh >= 32: continue      # code >> shift is computed in int for 8-bit codes
                    codeg.append('GRADIX %d %d %d %d' % (R_, W_, cv, sh))
    leaves = [c for c in leaves if not c.startswith(('SCODE', 'UCODE'))]
    small = gen_small(ctx, maxlen)
    longc = gen_long(ctx, scale)
    sorts = gen_sort(ctx, scale, maxlen)
    co_cases, co_sorts, co_hs = gen_coarse(ctx, 5 if ctx.quick() else 6)
    small = small + co_cases
    sorts = sorts + co_sorts
    longc = longc + gen_aimed_jumps(ctx, scale)
    big = ['BIGFIND %d %d %s' % (n_, sd, kd) for (n_, sd, kd) in
           ([(2 ** 22, 1, 'uniform'), (2 ** 22 + 1, 2, 'skew')] if ctx.quick() else
            [(2 ** 22 - 1, 5, 'uniform'), (2 ** 22, 1, 'uniform'), (2 ** 22 + 1, 2, 'skew'), (2 ** 22 + 77, 3, 'low'), (2 ** 23 + 3, 4, 'uniform')])]
    # ---- oracle on the real code (always) ----
    bad = []
    for name, cs in (('oracle-leaves', leaves), ('oracle-small', small), ('oracle-long', longc), ('oracle-big', big)):
        b, _ = run_oracle(ctx, harness, cs, name); bad += b
    b, sort_out = run_oracle(ctx, harness, sorts, 'oracle-sort'); bad += b
    radix = gen_radix(ctx, scale, False)
    b, _ = run_oracle(ctx, hradix, radix, 'oracle-radix'); bad += b
    b, _ = run_oracle(ctx, hradix, codeg, 'oracle-codegetter'); bad += b
    gsel_cases = gen_gsel(ctx, scale)
    # generated pvBinarySearch / pvExponentialSearch vs the real private functions: all sorted comparer arrays (-1* 0* 1*) up to
    # length 9, all arbitrary arrays over {-1,0,1} up to length 5, longer sorted ones
    for n_ in range(0, 10):
        for a_ in range(0, n_ + 1):
            for b_ in range(0, n_ - a_ + 1):
                vals = [-1] * a_ + [0] * b_ + [1] * (n_ - a_ - b_)
                gsel_cases.append('GBS %d %s' % (n_, ' '.join(map(str, vals)))); gsel_cases.append('GES %d %s' % (n_, ' '.join(map(str, vals))))
    for n_ in range(1, 6):
        for seq in itertools.product((-1, 0, 1), repeat=n_):
            gsel_cases.append('GBS %d %s' % (n_, ' '.join(map(str, seq)))); gsel_cases.append('GES %d %s' % (n_, ' '.join(map(str, seq))))
    for _ in range(200 * scale):
        n_ = ctx.rng.choice([14, 15, 16, 30, 31, 62, 63, 64, 200]); a_ = ctx.rng.below(n_ + 1); b_ = ctx.rng.below(3) if ctx.rng.chance(1, 2) else 0
        vals = ([-1] * a_ + [0] * b_ + [1] * n_)[:n_]
        gsel_cases.append('GBS %d %s' % (n_, ' '.join(map(str, vals)))); gsel_cases.append('GES %d %s' % (n_, ' '.join(map(str, vals))))
    # generated pvGroup vs the real private HashSorter::pvGroup (final arrangement)
    for n_ in range(1, 8):
        for seq in itertools.product((0, 1, 2), repeat=n_):
            gsel_cases.append('GGRP %d %s' % (n_, ' '.join(map(str, seq))))
    for _ in range(300 * scale):
        n_ = ctx.rng.choice([8, 9, 15, 32, 33, 60]); k_ = ctx.rng.range(1, 7)
        gsel_cases.append('GGRP %d %s' % (n_, ' '.join(str(ctx.rng.below(k_)) for _ in range(n_))))
    # generated counting pass + generated cycle-leader permutation vs the real private cycle-leader overload (array + swap order)
    for R_ in (1, 2, 3, 8):
        for n_ in range(0, 6 if R_ < 8 else 4):
            for seq in itertools.product((0, 1, 2, 3), repeat=n_):
                for sh in ((0, 1, 61) if R_ < 8 else (0, 56)):
                    if n_ == 0: continue
                    gsel_cases.append('GCYC %d %d %d %s' % (R_, sh, n_, ' '.join(str((x << sh) | (x % 2)) for x in seq)))
        for _ in range(150 * scale):
            n_ = ctx.rng.choice([7, 16, 33, 40, 100]); sh = ctx.rng.choice([0, 3, 8, 56, 64 - R_])
            pool = [ctx.rng.below(2 ** 64) for _ in range(ctx.rng.range(1, 6))]
            gsel_cases.append('GCYC %d %d %d %s' % (R_, sh, n_, ' '.join(str(ctx.rng.choice(pool) if ctx.rng.chance(1, 2) else ctx.rng.below(2 ** 64)) for _ in range(n_))))
    # plumbing without a model (oracle only): iterator->hash adaptors (plain, prehashed forward, prehashed reverse) and the pointer code getter
    plumb_h = []; plumb_r = ['PCODE %d' % i_ for i_ in (0, 1, 2, 255, 256, 65535)] + ['PCODE %d' % ctx.rng.below(65536) for _ in range(20)]
    for n_ in (1, 2, 5, 17):
        prs = [(ctx.rng.below(2 ** 64), k_) for k_ in range(n_)]
        for i_ in sorted(set([0, n_ - 1, n_ // 2])):
            plumb_h.append(line('IPF', 'p', prs) + ' %d' % i_)
    b, _ = run_oracle(ctx, harness, plumb_h, 'oracle-plumbing'); bad += b
    gs_cases = ['G' + c for c in small + longc if c.startswith('S ')]      # generated pvIsSorted on every IsSorted case
    b, _ = run_oracle(ctx, harness, gs_cases, 'oracle-gen-issorted'); bad += b
    b, _ = run_oracle(ctx, hradix, plumb_r, 'oracle-pointer-getter'); bad += b
    bigm = []       # model AND real code on arrays of >= 2^22 items (pvGetStepCount = 3)
    for n_ in ((2 ** 22,) if ctx.quick() else (2 ** 22, 2 ** 22 + 5, 2 ** 23 + 1)):
        for pos in [0, 1, n_ - 1, n_ // 2, n_ // 3] + [ctx.rng.below(n_) for _ in range(3 if ctx.quick() else 12)]:
            for mode in (0, 1, 2, 10, 11, 12):
                bigm.append('BIGM %d %d %d' % (n_, pos, mode))
    b, _ = run_oracle(ctx, harness, bigm, 'oracle-bigm'); bad += b
    b, _ = run_oracle(ctx, hradix, gsel_cases, 'oracle-gsel'); bad += b
    st_hs, st_rs = gen_sorttrace(ctx, scale, maxlen)
    st_hs = st_hs + co_hs
    b, _ = run_oracle(ctx, harness, st_hs, 'oracle-sorttrace-hs'); bad += b
    b, _ = run_oracle(ctx, hradix, st_rs, 'oracle-sorttrace-radix'); bad += b
    # radix size wider than the code type (R > 8*sizeof(Code)): the first shift used to wrap around (fixed in /repo bb23c06);
    # the harness is built with -fsanitize=shift, so the undefined shift aborts it; separate run so a crash cannot mask other cases
    narrow = gen_radix(ctx, scale, True)
    b, _ = run_oracle(ctx, hradix, narrow, 'oracle-radix-narrow'); bad += b
    if any(not st['ok'] for st in ctx.stages.values()) or bad:
        ctx.log('a stage broke: searching the implementation with the thorough generator')
        extra = gen_small(ctx, 7) if maxlen < 7 else []
        extra += gen_long(ctx, 4) + gen_sort(ctx, 3, 6)
        b, _ = run_oracle(ctx, harness, extra, 'oracle-search'); bad += b
    ctx.stage('oracle', not bad, bad[0][2] if bad else '')
    bad.sort(key=lambda t: len(t[0]))
    for (c, out, why) in bad[:3]:
        ctx.violation(why, {'case': c, 'impl_output': out[:2000], 'cmd': 'echo "<case>" | build/C17/harness'}, found_input=True)
    # ---- correspondence: extracted model vs real code (results and read traces) ----
    have_model = ctx.stages.get('prove', {}).get('ok') and ctx.extract()
    if have_model:
        chk = []
        for c, out in zip(sorts, sort_out):
            op, var, pairs, _ = parse_case(c)
            if len(pairs) <= 130 and '|' in out and not out.startswith('OOB'):
                nums = out.split('|')[0].split()
                div = 2 if var in ('P', 'H') else 1      # coarse equality: the checker works on the classes id//2
                inp = ' '.join('%d %d' % (h, x // div) for (h, x) in pairs)
                outp = ' '.join('%s %d' % (nums[3 * i], int(nums[3 * i + 1]) // div) for i in range(len(pairs)))
                chk.append('CHK %s %d %s %s' % (var.lower(), len(pairs), inp, outp))
        for name, cs, hx in (('leaves', leaves, harness), ('small', small, harness), ('long', longc, harness), ('sort-check', chk, harness),
                             ('sort-trace-hashsorter', st_hs, harness), ('sort-trace-radixsorter', st_rs, hradix), ('code-getter', codeg, hradix), ('generated-selection-sort', gsel_cases, hradix), ('big-arrays-step3', bigm, harness), ('generated-issorted', gs_cases, harness)):
            # the model's pvFindNext fuel is the unary numeral S (Z.to_nat count): 2^22 items need a deep (non-tail) recursion
            mcmd = ['bash', '-c', 'ulimit -s unlimited; exec ' + ctx.model_exe] if name == 'big-arrays-step3' else [ctx.model_exe]
            mism, _ = ctx.correspond(name, cs, [hx], mcmd)
            ctx.tie_obligations.append({'name': 'model == real code on %d %s cases (results + read traces)' % (len(cs), name), 'ok': not mism})
            mism.sort(key=lambda t: len(t[1]))
            for (i, c, a, b) in mism[:2]:
                ctx.violation('model and implementation disagree (%s)' % name, {'case': c, 'impl': a[:2000], 'model': b[:2000],
                              'cmd': 'echo "<case>" | build/C17/harness'}, found_input=True)
    allc = leaves + small + longc + sorts + radix + narrow + st_hs + st_rs + big + codeg + gsel_cases + bigm + plumb_h + plumb_r + gs_cases
    for c in (small[len(small) // 2], small[-1], longc[0], sorts[len(sorts) // 3], leaves[5]):
        ctx.add_sample(c[:300])
    ctx.coverage['input_distribution'] = {k: sum(1 for c in allc if c.startswith(k + ' ')) for k in ('MS', 'SC', 'CMP', 'FH', 'F', 'B', 'S', 'SORT', 'RADIX', 'RADIXP', 'RADIXI', 'HSORT', 'RSORT', 'BIGFIND', 'SCODE', 'UCODE', 'GSEL', 'BIGM', 'GRADIX', 'IPF', 'PCODE', 'GCYC', 'GGRP', 'GS', 'GBS', 'GES')}
    ctx.coverage['input_distribution'].update({'measured: ' + k: v for k, v in sorted(EV.items())})
    ctx.coverage['max_array_length'] = max([int(c.split()[2]) for c in longc + sorts] + [int(c.split()[1]) for c in big])
    ctx.coverage['radix'] = 'RadixSorter<1..16> x codes of 8/16/32/64 bits x sizes around the selection-sort threshold 2^(R/2+1) + pointers; std sorted() oracle + groupFunc-call oracle'
    return ctx.finish(rule=RULE)

RULE = ('cases = ALL sequences of length 0..6 (7 thorough) over 3 item ids x 5 hash functions (constant, 2-valued collisions, extreme 0/2^64-1, '
        'identity, spread) x prehashed/plain, each with IsSorted and pvFindHash/Find/GetBounds for every id and an absent one; random valid '
        'arrangements of length 7..6000 (sizes around 64 and 4096 where pvGetStepCount changes) with 8 hash distributions and aimed queries '
        '(first/last/middle item, absent item with present hash, absent hash next to a present one, 0, 2^64-1); arbitrary inconsistent arrays '
        '(tie only); swap-trace tie of the sort model (HSORT: real Sort/SortPrehashed; RSORT: real RadixSorter<1,2,3,8> with logging swapper and group callback) on all short sequences + random arrays up to 257 items; Sort/SortPrehashed on all short sequences x 6 hash functions and shuffled long arrays (sizes around the 32-item '
        'selection/radix boundary); leaves on boundary grids. distinct = distinct case line; non-trivial = search whose hash run holds >= 2 '
        'different items or array length >= 64 (interpolation steps), IsSorted/Sort with >= 3 items')
