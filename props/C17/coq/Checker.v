(* C17: verified permutation checker, run on the REAL output of HashSorter::Sort / SortPrehashed every run
   (the sort itself is not modelled: see NOTES.md).  Elements are (hash, item id) pairs, so "permutation of
   pairs" also says that the parallel hash array of SortPrehashed stayed in step with the items. *)
From Coq Require Import ZArith List Bool Permutation Arith Lia.
Import ListNotations.

Definition pair_eq_dec : forall x y : Z * Z, {x = y} + {x <> y}.
Proof. decide equality; apply Z.eq_dec. Defined.

Definition perm_check (l1 l2 : list (Z * Z)) : bool :=
  forallb (fun x => Nat.eqb (count_occ pair_eq_dec l1 x) (count_occ pair_eq_dec l2 x)) (l1 ++ l2).

Theorem perm_check_iff l1 l2 : perm_check l1 l2 = true <-> Permutation l1 l2.
Proof.
  unfold perm_check. rewrite forallb_forall, (Permutation_count_occ pair_eq_dec). split.
  - intros H x. destruct (in_dec pair_eq_dec x (l1 ++ l2)) as [I|I].
    + apply Nat.eqb_eq, H, I.
    + assert (N : ~ In x l1 /\ ~ In x l2) by (rewrite in_app_iff in I; tauto). destruct N as [N1 N2].
      rewrite (proj1 (count_occ_not_In pair_eq_dec l1 x) N1), (proj1 (count_occ_not_In pair_eq_dec l2 x) N2).
      reflexivity.
  - intros H x _. apply Nat.eqb_eq, H.
Qed.
