// C18 implementation side: the REAL momo::DataColumnList (dynamic column lists), same case format as ocaml/driver.ml
//
// case line:   <L> <keep> <op> ; <op> ; ... [ ; x <t> <code> ...]  [ ; ? <code> ... ]
//   op  a <t> <size> <align> <code> [<name>]                 Add(column)          (name given: DataColumn(name), string-hash code)
//       g <t1> <s1> <a1> <code1> <t2> <s2> <a2> <code2>      Add(column1, column2)   (fixed type pairs only)
//       h <t1> .. <code1> <t2> .. <code2> <t3> .. <code3>    Add(column1, column2, column3)
//       x <t> <size> <align> <code>                          extra column for the second list of the raw test
//       ? <code> ...                                         codes that are only probed with Contains
// output: one line; per op   <A|T|R> <codeParam> <totalSize> <alignment> <n> code:off.. | lookups.. | contains.. | v:addend..
//   then  " ; raw <ok|FAIL ...>"  (create / import (same list, other list) / destroy of raws, with construction
//   counting and injected construction failures; checked here, the model side prints the constant "raw ok")
//   then  " ; ev n: C<i> .. D<i> .. | 0: .. | 1: .."  construction/destruction order of the instrumented items (by column
//   position) for CreateRaw+DestroyRaw and for CreateRaw with the k-th instrumented construction throwing (L2 model)
#pragma once
#include "private_access.h"
#include "momo/DataColumn.h"
using namespace momo;
typedef unsigned long long ull;

// ---------------------------------------------------------------- instrumented non-trivial item type
struct Registry
{
	std::map<const void*, int> live;      // address -> tag
	std::map<const void*, int> nctor, ndtor;
	std::vector<std::string> errors;
	std::vector<std::pair<char, const void*>> log;   // constructions / destructions in order
	long failAt = -1;                     // the k-th (0-based) construction from now throws
	ull ctorSteps = 0;
	void error(const std::string& s) { if (errors.size() < 20) errors.push_back(s); }
	void reset() { live.clear(); nctor.clear(); ndtor.clear(); errors.clear(); log.clear(); failAt = -1; ctorSteps = 0; }
	void step() { ++ctorSteps; if (failAt >= 0 && failAt-- == 0) { failAt = -1; throw std::domain_error("injected"); } }
};
static Registry& R() { static Registry r; return r; }

template<size_t Size, size_t Align>
struct alignas(Align) Cnt
{
	static_assert(Size >= sizeof(void*) + sizeof(int), "");
	unsigned char bytes[Size];
	std::string*& str() { return *reinterpret_cast<std::string**>(bytes); }
	std::string* const& str() const { return *reinterpret_cast<std::string* const*>(bytes); }
	int& tag() { return *reinterpret_cast<int*>(bytes + sizeof(void*)); }
	const int& tag() const { return *reinterpret_cast<const int*>(bytes + sizeof(void*)); }
	void reg(int t)
	{
		if (reinterpret_cast<uintptr_t>(this) % Align != 0) R().error("misaligned construction");
		if (R().live.count(this)) R().error("double construction at the same address");
		R().live[this] = t; ++R().nctor[this]; R().log.push_back({ 'C', this });
	}
	Cnt() { R().step(); std::memset(bytes, 0, Size); str() = new std::string("default constructed, long enough to allocate"); tag() = -1; reg(-1); }
	Cnt(const Cnt& c) { R().step(); std::memset(bytes, 0, Size); str() = new std::string(*c.str()); tag() = c.tag(); reg(c.tag()); }
	Cnt& operator=(const Cnt& c) { *str() = *c.str(); tag() = c.tag(); R().live[this] = c.tag(); return *this; }
	~Cnt()
	{
		auto it = R().live.find(this);
		if (it == R().live.end()) { R().error("destruction of an object that is not alive"); return; }
		R().live.erase(it); ++R().ndtor[this]; R().log.push_back({ 'D', this });
		delete str();
	}
};

struct B3 { char d[3]; };
struct S5 { char d[5]; };
struct H3 { uint16_t d[3]; };
struct W3 { uint32_t d[3]; };
struct alignas(16) A16 { char d[16]; };
struct Q2 { uint64_t d[2]; };

template<size_t t> struct TypeOf;
template<> struct TypeOf<0> { typedef uint8_t T; };
template<> struct TypeOf<1> { typedef uint16_t T; };
template<> struct TypeOf<2> { typedef uint32_t T; };
template<> struct TypeOf<3> { typedef uint64_t T; };
template<> struct TypeOf<4> { typedef B3 T; };
template<> struct TypeOf<5> { typedef H3 T; };
template<> struct TypeOf<6> { typedef W3 T; };
template<> struct TypeOf<7> { typedef A16 T; };
template<> struct TypeOf<8> { typedef long double T; };
template<> struct TypeOf<9> { typedef std::string T; };
template<> struct TypeOf<10> { typedef Cnt<16, 8> T; };
template<> struct TypeOf<11> { typedef Cnt<24, 8> T; };
template<> struct TypeOf<12> { typedef Cnt<16, 16> T; };
template<> struct TypeOf<13> { typedef Cnt<48, 16> T; };
template<> struct TypeOf<14> { typedef S5 T; };
template<> struct TypeOf<15> { typedef Q2 T; };
static const size_t typeCount = 16;

template<typename T> struct IsCnt : std::false_type {};
template<size_t S, size_t A> struct IsCnt<Cnt<S, A>> : std::true_type {};

template<typename T> static void setVal(T& x, int seed)
{
	if constexpr (std::is_same<T, std::string>::value) x = "value of column " + std::to_string(seed) + ", long enough to own heap memory";
	else if constexpr (IsCnt<T>::value) { *x.str() = "cnt " + std::to_string(seed) + " long enough to own heap memory"; x.tag() = seed; R().live[&x] = seed; }
	else if constexpr (std::is_arithmetic<T>::value) x = static_cast<T>(seed * 37 + 1);
	else std::memset(&x, (seed * 37 + 1) & 0xff, sizeof(T));
}
template<typename T> static bool hasVal(const T& x, int seed)
{
	if constexpr (std::is_same<T, std::string>::value) return x == "value of column " + std::to_string(seed) + ", long enough to own heap memory";
	else if constexpr (IsCnt<T>::value) return x.tag() == seed && *x.str() == "cnt " + std::to_string(seed) + " long enough to own heap memory";
	else if constexpr (std::is_arithmetic<T>::value) return x == static_cast<T>(seed * 37 + 1);
	else { T y; std::memset(&y, (seed * 37 + 1) & 0xff, sizeof(T)); return std::memcmp(&x, &y, sizeof(T)) == 0; }
}
template<typename T> static bool isDefault(const T& x)
{
	if constexpr (std::is_same<T, std::string>::value) return x.empty();
	else if constexpr (IsCnt<T>::value) return x.tag() == -1;
	else if constexpr (std::is_arithmetic<T>::value) return x == T();
	else { unsigned char z[sizeof(T)] = {}; return std::memcmp(&x, z, sizeof(T)) == 0; }
}

struct HarnessError { const char* what; };

// memory manager whose k-th allocation (0-based, from arming) throws std::bad_alloc
struct FailMM
{
	static long& countdown() { static long c = -1; return c; }
	static const bool failing = true;
	explicit FailMM() noexcept {}
	FailMM(FailMM&&) noexcept {}
	FailMM(const FailMM&) noexcept {}
	~FailMM() noexcept {}
	FailMM& operator=(const FailMM&) = delete;
	void* Allocate(size_t size)
	{
		long& c = countdown();
		if (c >= 0 && c-- == 0) { c = -1; throw std::bad_alloc(); }
		void* p = std::malloc(size); if (p == nullptr) throw std::bad_alloc(); return p;
	}
	void Deallocate(void* p, size_t) noexcept { std::free(p); }
	bool IsEqual(const FailMM&) const noexcept { return true; }
};
struct PlainMM : MemManagerDefault { static const bool failing = false; };
struct ColSpec { size_t t; ull size, align, code; std::string name; bool mut = false; };

#define DISPATCH(t, F, ...) \
	switch (t) { \
	case 0: F<0>(__VA_ARGS__); break; case 1: F<1>(__VA_ARGS__); break; case 2: F<2>(__VA_ARGS__); break; case 3: F<3>(__VA_ARGS__); break; \
	case 4: F<4>(__VA_ARGS__); break; case 5: F<5>(__VA_ARGS__); break; case 6: F<6>(__VA_ARGS__); break; case 7: F<7>(__VA_ARGS__); break; \
	case 8: F<8>(__VA_ARGS__); break; case 9: F<9>(__VA_ARGS__); break; case 10: F<10>(__VA_ARGS__); break; case 11: F<11>(__VA_ARGS__); break; \
	case 12: F<12>(__VA_ARGS__); break; case 13: F<13>(__VA_ARGS__); break; case 14: F<14>(__VA_ARGS__); break; case 15: F<15>(__VA_ARGS__); break; \
	default: throw HarnessError{"type index"}; }

template<size_t L, bool keep, typename MM = MemManagerDefault, bool failing = false, typename TStruct = DataStructDefault<>>
struct Runner
{
	typedef TStruct Struct;
	typedef DataColumnTraits<Struct, L> ColumnTraits;
	typedef DataColumnList<ColumnTraits, MM, DataItemTraits<MM>, DataSettings<keep>> CL;
	typedef typename CL::ColumnInfo ColumnInfo;
	typedef typename ColumnInfo::Code Code;
	template<typename Item> using Col = DataColumn<Item, Struct>;
	typedef DataItemTraits<MM> ItemTraits;

	// the INTENDED classes are really instantiated (coverage audit)
	static_assert(CL::logVertexCount == L && CL::vertexCount == (size_t(1) << L) && CL::maxColumnCount == (size_t(1) << (L - 1)), "vertex count");
	static_assert(std::tuple_size<decltype(CL::mAddends)>::value == (size_t(1) << L), "addends table");
	static_assert(CL::Settings::keepRowNumber == keep, "row number setting");
	static_assert(std::is_same<typename CL::MemManager, MM>::value && std::is_same<typename CL::ColumnCode, Code>::value, "manager / code type");
	static_assert(std::is_same<Code, typename std::conditional<std::is_empty<Struct>::value, uint64_t, DataColumnCodeOffset>::type>::value,
		"string-hash codes for the empty struct tag, member-offset codes for a struct with members");
	static_assert(sizeof(Code) == 8, "GetVertices folds the upper 32 bits");
	static_assert(std::is_same<typename CL::template Column<uint32_t>, Col<uint32_t>>::value, "column type");
	static_assert(!std::is_trivially_copyable<Cnt<16, 8>>::value && !std::is_nothrow_copy_constructible<Cnt<16, 8>>::value
		&& !std::is_nothrow_default_constructible<Cnt<16, 8>>::value, "instrumented items may throw");
	static_assert(std::is_trivially_copyable<B3>::value && std::is_trivially_copyable<A16>::value && alignof(A16) == 16 && alignof(long double) == 16, "POD items");

	// ---- observation of createFunc / destroyFunc calls per FuncRecord (tie of the generated pvCreateRaw, Gen_Raw.v):
	// the function pointers of a COPY of the list are replaced by trampolines that call the originals and count
	typedef typename CL::ColumnRecord ColumnRecord;
	inline static const CL* trList = nullptr;
	inline static std::vector<typename CL::CreateFunc> trCreate;
	inline static std::vector<typename CL::DestroyFunc> trDestroy;
	inline static std::vector<int> trCreated, trDestroyed;
	static size_t recIndex(const ColumnRecord* cols)
	{
		size_t ci = size_t(cols - trList->mColumns.GetItems());
		for (size_t r = 0; r < trList->mFuncRecords.GetCount(); ++r) if (trList->mFuncRecords.GetItems()[r].columnIndex == ci) return r;
		std::abort();
	}
	static void trampCreate(MM& mm, const ColumnRecord* cols, const CL* src, const void* sraw, void* raw)
		{ size_t r = recIndex(cols); trCreate[r](mm, cols, src, sraw, raw); ++trCreated[r]; }
	static void trampDestroy(MM* mm, const ColumnRecord* cols, void* raw)
		{ size_t r = recIndex(cols); trDestroy[r](mm, cols, raw); ++trDestroyed[r]; }
	std::string funcTrace;

	CL** ctorTarget = nullptr;   // non-null: the next addGroup constructs a list with DataColumnList(column, columns...)

	std::string problem;     // harness-level problem (bad type table, unsupported group, ...)

	template<size_t t> Col<typename TypeOf<t>::T> mk(const ColSpec& c)
	{
		typedef typename TypeOf<t>::T T;
		if (sizeof(T) != c.size || ItemTraits::template GetAlignment<T>() != c.align || alignof(T) != c.align)
			problem = "BADTYPE " + std::to_string(t);
		if constexpr (std::is_same<Code, uint64_t>::value)
		{
			if (!c.name.empty())
			{
				Col<T> col(c.name.c_str());
				if (col.GetCode() != c.code) problem = "BADHASH " + c.name;
				return col;
			}
		}
		return Col<T>(static_cast<Code>(c.code), "c");
	}
	template<size_t t> void add1(CL& cl, const ColSpec& c)
	{
		if (ctorTarget != nullptr) *ctorTarget = new CL(mk<t>(c));
		else if (c.mut) cl.Add(mk<t>(c).Mutable()); else cl.Add(mk<t>(c));
	}
	template<size_t t1, size_t t2> void add2(CL& cl, const ColSpec* c)
	{
		if (ctorTarget != nullptr) *ctorTarget = new CL(mk<t1>(c[0]), mk<t2>(c[1]));
		else if (c[0].mut && c[1].mut) cl.Add(mk<t1>(c[0]).Mutable(), mk<t2>(c[1]).Mutable());
		else if (c[0].mut) cl.Add(mk<t1>(c[0]).Mutable(), mk<t2>(c[1]));
		else if (!c[1].mut) cl.Add(mk<t1>(c[0]), mk<t2>(c[1]));
		else throw HarnessError{"unsupported mutable combination"};
	}
	template<size_t t1, size_t t2, size_t t3> void add3(CL& cl, const ColSpec* c)
	{
		if (ctorTarget != nullptr) *ctorTarget = new CL(mk<t1>(c[0]), mk<t2>(c[1]), mk<t3>(c[2]));
		else if (!c[0].mut && c[1].mut && !c[2].mut) cl.Add(mk<t1>(c[0]), mk<t2>(c[1]).Mutable(), mk<t3>(c[2]));
		else if (!c[0].mut && !c[1].mut && !c[2].mut) cl.Add(mk<t1>(c[0]), mk<t2>(c[1]), mk<t3>(c[2]));
		else throw HarnessError{"unsupported mutable combination"};
	}

	void addGroup(CL& cl, const std::vector<ColSpec>& g)
	{
		if (g.size() == 1) { DISPATCH(g[0].t, add1, cl, g[0]); return; }
		size_t k = g[0].t * 256 + g[1].t * 16 + (g.size() > 2 ? g[2].t : 0);
		if (g.size() == 2) switch (g[0].t * 16 + g[1].t)
		{
		case 0 * 16 + 3: add2<0, 3>(cl, g.data()); return;
		case 9 * 16 + 2: add2<9, 2>(cl, g.data()); return;
		case 10 * 16 + 7: add2<10, 7>(cl, g.data()); return;
		case 12 * 16 + 4: add2<12, 4>(cl, g.data()); return;
		case 1 * 16 + 11: add2<1, 11>(cl, g.data()); return;
		case 13 * 16 + 0: add2<13, 0>(cl, g.data()); return;
		case 3 * 16 + 3: add2<3, 3>(cl, g.data()); return;
		case 10 * 16 + 12: add2<10, 12>(cl, g.data()); return;
		}
		if (g.size() == 3) switch (k)
		{
		case 0 * 256 + 10 * 16 + 3: add3<0, 10, 3>(cl, g.data()); return;
		case 4 * 256 + 12 * 16 + 9: add3<4, 12, 9>(cl, g.data()); return;
		case 2 * 256 + 5 * 16 + 13: add3<2, 5, 13>(cl, g.data()); return;
		case 11 * 256 + 13 * 16 + 10: add3<11, 13, 10>(cl, g.data()); return;
		}
		throw HarnessError{"unsupported group"};
	}

	static size_t lookup(const CL& cl, ull code) { return cl.template GetOffset<true, uint8_t>(Col<uint8_t>(static_cast<Code>(code), "q")); }

	void dump(const CL& cl, char status, const std::vector<ull>& added, const std::vector<ull>& universe, std::string& out, bool withMutCount = true)
	{
		char buf[64];
		snprintf(buf, sizeof buf, "%c %llu %llu %llu %llu", status, ull(cl.mCodeParam), ull(cl.GetTotalSize()), ull(cl.GetAlignment()), ull(cl.GetCount()));
		out += buf;
		for (const auto& rec : cl) { snprintf(buf, sizeof buf, " %llu:%llu", ull(rec.GetCode()), ull(rec.GetOffset())); out += buf; }
		out += " |";
		for (ull code : added) { snprintf(buf, sizeof buf, " %llu", ull(lookup(cl, code))); out += buf; }
		out += " |";
		for (ull code : universe)
		{
			size_t off = size_t(-1);
			bool c = cl.Contains(ColumnInfo(Col<uint8_t>(static_cast<Code>(code), "q")), &off);
			if (c != cl.Contains(ColumnInfo(Col<uint8_t>(static_cast<Code>(code), "q")))) out += " CONTAINS-WITHOUT-OFFSET-DIFFERS";
			if (c) { snprintf(buf, sizeof buf, " %llu", ull(off)); out += buf; } else out += " -";
		}
		out += " |";
		for (size_t v = 0; v < cl.mAddends.size(); ++v)
			if (cl.mAddends[v] != 0) { snprintf(buf, sizeof buf, " %llu:%llu", ull(v), ull(cl.mAddends[v])); out += buf; }
		out += " | m";
		if (withMutCount) { snprintf(buf, sizeof buf, " %llu", ull(cl.mMutableOffsets.GetCount())); out += buf; }
		// (IsMutable on the freshly constructed list would read an empty array: see NOTES.md)
		if (cl.GetCount() > 0)
			for (size_t o = 0; o < cl.GetTotalSize(); ++o)
				if (cl.IsMutable(o)) { snprintf(buf, sizeof buf, " %llu", ull(o)); out += buf; }
	}

	// ------------------------------------------------------------ raws
	struct RawBuf
	{
		void* p; size_t size;
		RawBuf(size_t sz, size_t al) : size(sz) { size_t a = std::max<size_t>(al, 16); p = std::aligned_alloc(a, ((sz + a - 1) / a + 1) * a); std::memset(p, 0xCD, sz); }
		~RawBuf() { std::free(p); }
	};
	std::string rawErr, evTrace, afErr; size_t afCount = 0, injected = 0; bool ctorFirst = false;
	void fail(const std::string& s) { if (rawErr.empty()) rawErr = s; }

	const CL* curList = nullptr;
	template<size_t t> void setCol(void* raw, size_t off, int seed)
	{
		typedef typename TypeOf<t>::T T;
		if constexpr (std::is_same<T, std::string>::value || std::is_same<T, uint32_t>::value)
		{	// through DataColumnList::Assign
			T v; setVal(v, seed); curList->template Assign<T>(raw, off, std::move(v));
		}
		else setVal(CL::template GetByOffset<T>(raw, off), seed);
	}
	template<size_t t> void chkCol(void* raw, size_t off, int seed, const char* what)
	{
		typedef typename TypeOf<t>::T T;
		const T& x = CL::template GetByOffset<T>(raw, off);
		if (reinterpret_cast<uintptr_t>(&x) % alignof(T) != 0) fail(std::string(what) + ": misaligned item");
		bool ok = seed < 0 ? isDefault(x) : hasVal(x, seed);
		if (!ok) fail(std::string(what) + ": wrong value in column of type " + std::to_string(t));
		if (IsCnt<T>::value)
		{
			if (!R().live.count(&x)) fail(std::string(what) + ": instrumented item not constructed");
			else if (R().nctor[&x] != 1) fail(std::string(what) + ": instrumented item constructed " + std::to_string(R().nctor[&x]) + " times");
		}
	}
	static bool isCntType(size_t t) { return t >= 10 && t <= 13; }

	void rawTest(const CL& A, const std::vector<ColSpec>& colsA, const std::vector<ColSpec>& extras)
	{
		MM mm;
		// second list: columns of A in reverse order without every third one, interleaved with the extras
		CL B; std::vector<ColSpec> colsB;
		{
			std::vector<ColSpec> want;
			for (size_t i = colsA.size(); i-- > 0; ) if (i % 3 != 1) want.push_back(colsA[i]);
			for (size_t i = 0; i < extras.size(); ++i) want.insert(want.begin() + std::min(want.size(), 2 * i), extras[i]);
			for (const ColSpec& c : want)
			{
				ColSpec c1 = c; c1.name.clear();
				try { addGroup(B, { c1 }); colsB.push_back(c1); } catch (const std::exception&) {}
			}
		}
		auto seedOf = [&] (ull code) { for (size_t i = 0; i < colsA.size(); ++i) if (colsA[i].code == code) return int(i); return -1; };
		size_t cntA = 0, cntB = 0;
		for (auto& c : colsA) cntA += isCntType(c.t);
		for (auto& c : colsB) cntB += isCntType(c.t);
		R().reset(); curList = &A;
		{
			RawBuf a(A.GetTotalSize(), A.GetAlignment()), a2(A.GetTotalSize(), A.GetAlignment()), b(B.GetTotalSize(), B.GetAlignment());
			A.CreateRaw(mm, a.p);
			if (R().live.size() != cntA) fail("CreateRaw: " + std::to_string(R().live.size()) + " instrumented items alive, expected " + std::to_string(cntA));
			for (auto& c : colsA) { DISPATCH(c.t, chkCol, a.p, lookup(A, c.code), -1, "CreateRaw"); }
			for (size_t i = 0; i < colsA.size(); ++i) { DISPATCH(colsA[i].t, setCol, a.p, lookup(A, colsA[i].code), int(i)); }
			for (size_t i = 0; i < colsA.size(); ++i) { DISPATCH(colsA[i].t, chkCol, a.p, lookup(A, colsA[i].code), int(i), "after assignment (overlap?)"); }
			if constexpr (keep) { A.SetNumber(a.p, 0x0123456789abcdefull); }
			{	// VisitPointers: every column's item exactly once, in order, at its offset
				std::vector<std::pair<ull, size_t>> seen;
				A.VisitPointers(a.p, [&] (void* p, const ColumnInfo& ci)
					{ seen.push_back({ ull(ci.GetCode()), size_t(static_cast<char*>(p) - static_cast<char*>(a.p)) }); });
				if (seen.size() != colsA.size()) fail("VisitPointers: wrong number of visits");
				else for (size_t i = 0; i < seen.size(); ++i)
					if (seen[i].first != colsA[i].code || seen[i].second != lookup(A, colsA[i].code)) fail("VisitPointers: wrong pointer / column");
			}
			A.ImportRaw(mm, A, a.p, a2.p);
			if (R().live.size() != 2 * cntA) fail("ImportRaw(same list): wrong number of instrumented items alive");
			for (size_t i = 0; i < colsA.size(); ++i) { DISPATCH(colsA[i].t, chkCol, a2.p, lookup(A, colsA[i].code), int(i), "ImportRaw(same list)"); }
			B.ImportRaw(mm, A, a.p, b.p);
			if (R().live.size() != 2 * cntA + cntB) fail("ImportRaw(other list): wrong number of instrumented items alive");
			for (auto& c : colsB) { DISPATCH(c.t, chkCol, b.p, lookup(B, c.code), seedOf(c.code), "ImportRaw(other list)"); }
			for (size_t i = 0; i < colsA.size(); ++i) { DISPATCH(colsA[i].t, chkCol, a.p, lookup(A, colsA[i].code), int(i), "source raw after imports"); }
			if constexpr (keep) { if (A.GetNumber(a.p) != 0x0123456789abcdefull) fail("row number overwritten by a column"); }
			B.DestroyRaw(&mm, b.p);
			if (R().live.size() != 2 * cntA) fail("DestroyRaw(other list): wrong number of instrumented items alive");
			A.DestroyRaw(&mm, a2.p);
			A.DestroyRaw(&mm, a.p);
			if (!R().live.empty()) fail("DestroyRaw: instrumented items still alive");
			for (auto& kv : R().nctor) if (kv.second != 1 || R().ndtor[kv.first] != 1) fail("an item was not constructed and destroyed exactly once");
			for (auto& e : R().errors) fail(e);
		}
		// event traces (by column position) of the instrumented items, compared with the L2 model RawLife.v
		auto trace = [&] (const void* base)
		{
			std::string t;
			for (auto& e : R().log)
			{
				size_t pos = size_t(-1);
				for (size_t i = 0; i < colsA.size(); ++i)
					if (static_cast<const char*>(base) + lookup(A, colsA[i].code) == static_cast<const char*>(e.second)) pos = i;
				t += std::string(" ") + e.first + std::to_string(pos);
			}
			return t;
		};
		{
			R().reset();
			RawBuf a(A.GetTotalSize(), A.GetAlignment());
			A.CreateRaw(mm, a.p); A.DestroyRaw(&mm, a.p);
			evTrace = "n:" + trace(a.p);
		}
		{	// per-FuncRecord createFunc / destroyFunc counts of pvCreateRaw, without and with the k-th instrumented construction throwing
			CL T(A);
			size_t nrec = T.mFuncRecords.GetCount();
			trList = &T; trCreate.assign(nrec, nullptr); trDestroy.assign(nrec, nullptr);
			for (size_t r = 0; r < nrec; ++r)
			{
				auto& fr = T.mFuncRecords.GetItems()[r];
				trCreate[r] = fr.createFunc; trDestroy[r] = fr.destroyFunc;
				fr.createFunc = &trampCreate; fr.destroyFunc = &trampDestroy;
			}
			for (long k = -1; k < long(cntA); ++k)
			{
				R().reset(); R().failAt = k; trCreated.assign(nrec, 0); trDestroyed.assign(nrec, 0);
				RawBuf a(A.GetTotalSize(), A.GetAlignment());
				bool completed = true;
				try { T.CreateRaw(mm, a.p); } catch (const std::domain_error&) { completed = false; }
				funcTrace += (k < 0 ? std::string("n:") : " | " + std::to_string(k) + ":") + (completed ? "T" : "F") + " c";
				for (int v : trCreated) funcTrace += " " + std::to_string(v);
				funcTrace += " d";
				for (int v : trDestroyed) funcTrace += " " + std::to_string(v);
				if (completed) A.DestroyRaw(&mm, a.p);
				if (!R().live.empty()) fail("function-record run: items left alive");
			}
			trList = nullptr; R().reset();
		}
		// injected construction failures: whatever was constructed is destroyed again, exactly once
		for (size_t k = 0; k < cntA; ++k)
		{
			R().reset(); R().failAt = long(k);
			RawBuf a(A.GetTotalSize(), A.GetAlignment());
			bool thrown = false;
			try { A.CreateRaw(mm, a.p); } catch (const std::domain_error&) { thrown = true; }
			evTrace += " | " + std::to_string(k) + ":" + trace(a.p);
			if (!thrown) fail("CreateRaw: injected failure not propagated");
			++injected;
			if (!R().live.empty()) fail("CreateRaw failure: instrumented items left alive");
			for (auto& kv : R().nctor) if (kv.second != 1 || R().ndtor[kv.first] != 1) fail("CreateRaw failure: construct/destroy counts differ");
			for (auto& e : R().errors) fail(e);
		}
		for (size_t k = 0; k < cntA; ++k)
		{	// ImportRaw into the same list with the k-th copy throwing
			R().reset();
			RawBuf a(A.GetTotalSize(), A.GetAlignment()), a2(A.GetTotalSize(), A.GetAlignment());
			A.CreateRaw(mm, a.p);
			size_t before = R().live.size();
			R().failAt = long(k);
			bool thrown = false;
			try { A.ImportRaw(mm, A, a.p, a2.p); } catch (const std::domain_error&) { thrown = true; }
			if (!thrown) fail("ImportRaw(same list): injected failure not propagated");
			if (R().live.size() != before) fail("ImportRaw(same list) failure: instrumented items left alive");
			A.DestroyRaw(&mm, a.p);
			if (!R().live.empty()) fail("ImportRaw(same list) failure: items alive after destroying the source");
			for (auto& e : R().errors) fail(e);
			++injected;
		}
		for (size_t k = 0; k < cntB; ++k)
		{
			R().reset();
			RawBuf a(A.GetTotalSize(), A.GetAlignment()), b(B.GetTotalSize(), B.GetAlignment());
			A.CreateRaw(mm, a.p);
			size_t before = R().live.size();
			R().failAt = long(k);
			bool thrown = false;
			try { B.ImportRaw(mm, A, a.p, b.p); } catch (const std::domain_error&) { thrown = true; }
			if (!thrown) fail("ImportRaw: injected failure not propagated");
			++injected;
			if (R().live.size() != before) fail("ImportRaw failure: instrumented items left alive");
			A.DestroyRaw(&mm, a.p);
			if (!R().live.empty()) fail("ImportRaw failure: items alive after destroying the source");
			for (auto& e : R().errors) fail(e);
		}
		R().reset();
	}

	std::string run(const std::vector<std::vector<ColSpec>>& ops, const std::vector<ColSpec>& extras, const std::vector<ull>& universe)
	{
		std::string out;
		std::unique_ptr<CL> clp(new CL);
		std::vector<ull> added; std::vector<ColSpec> addedCols;
		for (size_t i = 0; i < ops.size(); ++i)
		{
			CL& cl = *clp;
			char status = 'A';
			if (i == 0 && ctorFirst && !failing)
			{	// DataColumnList(column, columns...): the list is born with its first group (or not at all)
				CL* born = nullptr; ctorTarget = &born;
				try { addGroup(cl, ops[i]); }
				catch (const std::logic_error&) { status = 'T'; }
				catch (const std::runtime_error&) { status = 'R'; }
				ctorTarget = nullptr;
				if (born != nullptr) clp.reset(born);
			}
			else if constexpr (failing)
			{	// enumerate every allocation failure point of this Add: each must leave all observables as they were
				for (long k = 0; ; ++k)
				{
					std::string before, after; size_t setBefore = cl.mColumnCodeSet.GetCount();
					dump(cl, 'F', added, universe, before, false);
					FailMM::countdown() = k;
					bool failed = false; status = 'A';
					try { addGroup(cl, ops[i]); }
					catch (const std::bad_alloc&) { failed = true; }
					catch (const std::logic_error&) { status = 'T'; }
					catch (const std::runtime_error&) { status = 'R'; }
					FailMM::countdown() = -1;
					if (!failed) break;
					++afCount;
					dump(cl, 'F', added, universe, after, false);
					if (before != after) afErr = "op " + std::to_string(i) + " allocation failure " + std::to_string(k) + " changed the list";
					if (cl.mColumnCodeSet.GetCount() != setBefore) afErr = "op " + std::to_string(i) + " allocation failure " + std::to_string(k) + " changed the code set";
					if (cl.mMutableOffsets.GetCount() < (cl.GetTotalSize() + 7) / 8 && cl.GetCount() > 0) afErr = "mMutableOffsets too short after an allocation failure";
					if (k > 200) { afErr = "allocation failures never end"; break; }
				}
			}
			else
			{
			try { addGroup(cl, ops[i]); }
			catch (const std::logic_error&) { status = 'T'; }
			catch (const std::runtime_error&) { status = 'R'; }
			}
			if (status == 'A') for (auto& c : ops[i]) { added.push_back(c.code); addedCols.push_back(c); }
			if (i > 0) out += " ; ";
			dump(*clp, status, added, universe, out);
		}
		CL& cl = *clp;
		rawTest(cl, addedCols, extras);
		{	// a copy that grows on its own leaves the original alone
			std::string o1, o2; dump(cl, 'C', added, universe, o1);
			CL cl4(cl);
			for (const ColSpec& x : extras) { ColSpec c1 = x; c1.name.clear(); try { addGroup(cl4, { c1 }); } catch (const std::exception&) {} }
			dump(cl, 'C', added, universe, o2);
			if (o1 != o2) fail("adding to a copy changed the original list");
		}
		// a copy of the list answers the same
		{
			CL cl2(cl); std::string o1, o2, o3;
			dump(cl, 'C', added, universe, o1); dump(cl2, 'C', added, universe, o2);
			if (o1 != o2) fail("copy-constructed column list differs");
			CL cl3(std::move(cl2)); dump(cl3, 'C', added, universe, o3);
			if (o1 != o3) fail("move-constructed column list differs");
		}
		out += " ; raw " + (rawErr.empty() ? std::string("ok") : "FAIL " + rawErr) + " ; ev " + evTrace + " ; fr " + funcTrace;
		if (failing) out += " ; af " + (afErr.empty() ? std::string("ok") : "FAIL " + afErr);
		if (failing) fprintf(stderr, "af %zu\n", afCount);
		fprintf(stderr, "inj %zu\n", injected);
		if (!problem.empty()) out = "HARNESS " + problem;
		return out;
	}
};

static bool g_ctorFirst = false;   // set by parseOps: the first op is written A/G/H = through the constructor
template<size_t L, bool keep, typename MM = MemManagerDefault, bool failing = false, typename TStruct = DataStructDefault<>>
static std::string runCase(const std::vector<std::vector<ColSpec>>& ops, const std::vector<ColSpec>& extras, const std::vector<ull>& universe)
{
	Runner<L, keep, MM, failing, TStruct> r; r.ctorFirst = g_ctorFirst; return r.run(ops, extras, universe);
}

// parses the ops of a case line (after "<L> <keep>"); type index + 100 = the column is added as mutable
static bool parseOps(std::istringstream& is, std::vector<std::vector<ColSpec>>& ops, std::vector<ColSpec>& extras, std::vector<ull>& universe)
{
	std::vector<ull> probes; std::string tok; bool bad = false; g_ctorFirst = false;
	auto readCol = [&] (ColSpec& c) { is >> c.t >> c.size >> c.align >> c.code; if (c.t >= 100) { c.t -= 100; c.mut = true; } };
	while (is >> tok)
	{
		if (tok == ";") continue;
		if (ops.empty() && (tok == "A" || tok == "G" || tok == "H")) { g_ctorFirst = true; tok[0] = char(tok[0] - 'A' + 'a'); }
		if (tok == "a")
		{
			ColSpec c; readCol(c);
			std::streampos pos = is.tellg(); std::string nm;
			if (is >> nm) { if (nm == ";") is.seekg(pos); else c.name = nm; } else is.clear();
			ops.push_back({ c });
		}
		else if (tok == "g" || tok == "h")
		{
			std::vector<ColSpec> g(tok == "g" ? 2 : 3);
			for (auto& c : g) readCol(c);
			ops.push_back(g);
		}
		else if (tok == "x") { ColSpec c; readCol(c); extras.push_back(c); }
		else if (tok == "?") { ull c; while (is >> c) probes.push_back(c); is.clear(); }
		else bad = true;
	}
	for (auto& g : ops) for (auto& c : g) if (std::find(universe.begin(), universe.end(), c.code) == universe.end()) universe.push_back(c.code);
	for (ull c : probes) if (std::find(universe.begin(), universe.end(), c) == universe.end()) universe.push_back(c);
	return !bad;
}

