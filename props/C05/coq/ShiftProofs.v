(* C05 -- proofs about ArrayShift.v: loop invariants are pointwise (get), final statements are list equalities *)
From Coq Require Import List Arith Lia Bool.
From C05 Require Import ArrayShift.
Import ListNotations.

Section Proofs.
Variable V : Type.
Variable self_move : V -> option V.
Variable after_move : V -> option V.
Notation cell := (cell V).
Notation arr := (arr V).

(* ------------------------------------------------------------------ get / set *)
Lemma length_set (a : list cell) i c : length (set a i c) = length a.
Proof. revert i; induction a; intros [|i]; simpl; auto. Qed.

Lemma get_set (a : list cell) i c j :
  i < length a -> get (set a i c) j = if j =? i then c else get a j.
Proof.
  unfold get. revert i j; induction a; intros i j Hi; simpl in Hi; [lia|].
  destruct i, j; simpl; auto. apply IHa; lia.
Qed.

Lemma get_set_other (a : list cell) i c j : j <> i -> get (set a i c) j = get a j.
Proof.
  unfold get. revert i j; induction a; intros i j Hn; simpl; [destruct i; reflexivity|].
  destruct i, j; simpl; auto; try lia.
Qed.

Lemma get_beyond (a : list cell) j : length a <= j -> get a j = Raw.
Proof. intros; unfold get; apply nth_overflow; auto. Qed.

Lemma get_not_raw_lt (a : list cell) j : get a j <> Raw -> j < length a.
Proof. intros H. destruct (Nat.lt_ge_cases j (length a)); auto. exfalso; apply H, get_beyond; auto. Qed.

Lemma firstn_set_ge (a : list cell) i c k : k <= i -> firstn k (set a i c) = firstn k a.
Proof.
  revert i k; induction a; intros i k Hk; simpl; [destruct i; reflexivity|].
  destruct i, k; simpl; auto; try lia. f_equal. apply IHa; lia.
Qed.

Lemma mcell_not_raw (o : option V) : mcell o <> Raw.
Proof. destruct o; simpl; discriminate. Qed.

Lemma nth_firstn_lt {A} (l : list A) m j d : j < m -> nth j (firstn m l) d = nth j l d.
Proof.
  revert m j; induction l; intros m j H; destruct m, j; simpl; auto; try lia. apply IHl; lia.
Qed.

Lemma nth_map_seq {A} (g : nat -> A) m j d : j < m -> nth j (map g (seq 0 m)) d = g j.
Proof.
  intros H. rewrite (nth_indep _ d (g 0)) by (rewrite map_length, seq_length; auto).
  rewrite map_nth. rewrite seq_nth; auto.
Qed.

(* a prefix of the cells that is pointwise Live (g j) is the list map Live (map g (seq 0 m)) *)
Lemma firstn_lives (c : list cell) m (g : nat -> V) :
  m <= length c -> (forall j, j < m -> get c j = Live (g j)) -> firstn m c = lives (map g (seq 0 m)).
Proof.
  intros Hm H. unfold lives. rewrite map_map. apply (nth_ext _ _ Raw Raw).
  - rewrite firstn_length, map_length, seq_length. lia.
  - intros j Hj. rewrite firstn_length in Hj. rewrite nth_firstn_lt by lia.
    rewrite nth_map_seq by lia. apply H; lia.
Qed.

Lemma nth_skipn_ {A} (l : list A) m j d : nth j (skipn m l) d = nth (m + j) l d.
Proof. revert l; induction m; intros l; simpl; auto. destruct l; simpl; auto. destruct j; auto. Qed.

Lemma tail_raws (c : list cell) m : m <= length c -> (forall j, m <= j -> get c j = Raw) -> skipn m c = raws (length c - m).
Proof.
  intros Hm H. apply (nth_ext _ _ Raw Raw).
  - unfold raws. rewrite skipn_length, repeat_length. reflexivity.
  - intros j Hj. rewrite nth_skipn_. unfold raws. rewrite nth_repeat. apply H. lia.
Qed.

Lemma split_cells (c : list cell) m (g : nat -> V) :
  m <= length c -> (forall j, j < m -> get c j = Live (g j)) -> (forall j, m <= j -> get c j = Raw) ->
  c = lives (map g (seq 0 m)) ++ raws (length c - m).
Proof.
  intros. rewrite <- (firstn_skipn m c) at 1. f_equal; [apply firstn_lives | apply tail_raws]; auto.
Qed.

Lemma get_lives_raws (l : list V) r j d :
  get (lives l ++ raws r) j = if j <? length l then Live (nth j l d) else Raw.
Proof.
  unfold get, lives, raws. destruct (Nat.ltb_spec j (length l)).
  - rewrite app_nth1 by (rewrite map_length; auto).
    rewrite (nth_indep _ Raw (Live d)) by (rewrite map_length; auto). apply map_nth.
  - rewrite app_nth2 by (rewrite map_length; auto). apply nth_repeat.
Qed.

(* ------------------------------------------------------------------ loops *)
Lemma for_up_inv {St} (P : nat -> St -> Prop) (body : nat -> St -> res St) lo hi :
  (forall i s, lo <= i -> i < hi -> P i s -> exists s', body i s = Ok s' /\ P (S i) s') ->
  forall fuel i s, lo <= i -> i <= hi -> hi - i < fuel -> P i s ->
    exists s', for_up fuel i hi body s = Ok s' /\ P hi s'.
Proof.
  intros Hb. induction fuel; intros i s Hlo Hi Hf HP; [lia|]. simpl.
  destruct (Nat.ltb_spec i hi).
  - destruct (Hb i s Hlo H HP) as (s' & -> & HP'). simpl. apply IHfuel; auto; lia.
  - assert (i = hi) by lia; subst. eauto.
Qed.

Lemma for_up_none {St} (body : nat -> St -> res St) fuel i hi s :
  hi <= i -> 0 < fuel -> for_up fuel i hi body s = Ok s.
Proof. intros. destruct fuel; [lia|]. simpl. destruct (Nat.ltb_spec i hi); [lia|auto]. Qed.

Lemma for_down_inv {St} (P : nat -> St -> Prop) (body : nat -> St -> res St) lo hi :
  (forall i s, lo < i -> i <= hi -> P i s -> exists s', body i s = Ok s' /\ P (i - 1) s') ->
  forall fuel i s, lo <= i -> i <= hi -> i - lo < fuel -> P i s ->
    exists s', for_down fuel i lo body s = Ok s' /\ P lo s'.
Proof.
  intros Hb. induction fuel; intros i s Hi Hhi Hf HP; [lia|]. simpl.
  destruct (Nat.ltb_spec lo i).
  - destruct (Hb i s H Hhi HP) as (s' & -> & HP'). simpl. apply IHfuel; auto; lia.
  - assert (i = lo) by lia; subst. eauto.
Qed.

(* ------------------------------------------------------------------ primitives *)
Lemma item_at_ok (s : arr) i v : i < cnt s -> get (cells s) i = Live v -> item_at V s i = Ok v.
Proof. intros Hi Hg. unfold item_at, live_at. destruct (Nat.ltb_spec i (cnt s)); [|lia]. rewrite Hg; auto. Qed.

Lemma assign_val_ok (s : arr) v dst :
  dst < cnt s -> get (cells s) dst <> Raw -> assign_val V s v dst = Ok (upd V s dst (Live v)).
Proof.
  intros Hi Hg. unfold assign_val. destruct (Nat.ltb_spec dst (cnt s)); [|lia].
  destruct (get (cells s) dst); auto; congruence.
Qed.

Lemma add_back_ctor_ok (s : arr) v :
  cnt s < cap s -> get (cells s) (cnt s) = Raw ->
  add_back_ctor V s v = Ok (mkArr (set (cells s) (cnt s) (Live v)) (S (cnt s))).
Proof. intros Hc Hg. unfold add_back_ctor. destruct (Nat.ltb_spec (cnt s) (cap s)); [|lia]. rewrite Hg; auto. Qed.

Lemma add_back_move_item_ok (s : arr) i v :
  i < cnt s -> get (cells s) i = Live v -> cnt s < cap s -> get (cells s) (cnt s) = Raw ->
  add_back_move_item V after_move s i =
    Ok (mkArr (set (set (cells s) (cnt s) (Live v)) i (mcell (after_move v))) (S (cnt s))).
Proof.
  intros. unfold add_back_move_item. rewrite (item_at_ok s i v) by auto. simpl.
  rewrite add_back_ctor_ok by auto. simpl. reflexivity.
Qed.

Lemma move_assign_items_ok (s : arr) src dst v :
  src <> dst -> src < cnt s -> dst < cnt s -> get (cells s) src = Live v -> get (cells s) dst <> Raw ->
  move_assign_items V self_move after_move s src dst =
    Ok (mkArr (set (set (cells s) dst (Live v)) src (mcell (after_move v))) (cnt s)).
Proof.
  intros. unfold move_assign_items. rewrite (item_at_ok s src v) by auto. simpl.
  destruct (Nat.eqb_spec src dst); [contradiction|]. rewrite assign_val_ok by auto. simpl. reflexivity.
Qed.

Lemma destroy_ok k : forall (c : list cell) i,
  i + k <= length c -> (forall j, i <= j < i + k -> get c j <> Raw) ->
  exists c', destroy V c i k = Ok c' /\ length c' = length c /\
    forall j, get c' j = if (i <=? j) && (j <? i + k) then Raw else get c j.
Proof.
  induction k; intros c i Hl Hn; simpl.
  - exists c. repeat split; auto. intros j.
    destruct (Nat.leb_spec i j), (Nat.ltb_spec j (i + 0)); simpl; auto; lia.
  - assert (Hi : get c i <> Raw) by (apply Hn; lia).
    destruct (IHk (set c i Raw) (S i)) as (c' & Hd & Hlen & Hg).
    + rewrite length_set; lia.
    + intros j Hj. rewrite get_set_other by lia. apply Hn; lia.
    + exists c'. rewrite length_set in Hlen.
      split; [destruct (get c i); auto; congruence|]. split; auto.
      intros j. rewrite Hg. rewrite get_set by lia.
      destruct (Nat.leb_spec (S i) j), (Nat.ltb_spec j (S i + k)), (Nat.leb_spec i j), (Nat.ltb_spec j (i + S k)),
        (Nat.eqb_spec j i); simpl; auto; lia.
Qed.

Lemma remove_back_ok (s : arr) count :
  count <= cnt s -> cnt s <= cap s -> (forall j, cnt s - count <= j < cnt s -> get (cells s) j <> Raw) ->
  exists c', remove_back V s count = Ok (mkArr c' (cnt s - count)) /\ length c' = cap s /\
    forall j, get c' j = if (cnt s - count <=? j) && (j <? cnt s) then Raw else get (cells s) j.
Proof.
  intros Hc Hcap Hn. unfold remove_back. destruct (Nat.leb_spec count (cnt s)); [|lia].
  destruct (destroy_ok count (cells s) (cnt s - count)) as (c' & Hd & Hl & Hg).
  - unfold cap in Hcap. lia.
  - intros j Hj. apply Hn. lia.
  - exists c'. rewrite Hd. simpl. split; auto. split; auto.
    intros j. rewrite Hg. replace (cnt s - count + count) with (cnt s) by lia. reflexivity.
Qed.

(* ================================================================== InsertNogrow *)
Section Insert.
(* what a "source" must satisfy: the k-th value is [vals k]; fetching may only touch cells below [index]
   (an aliased element in front of the insertion point), tracked by the predicate Q m on the prefix after m fetches *)
Variable src : source V.
Variable index count : nat.
Variable vals : nat -> V.
Variable Q : nat -> list cell -> Prop.

Definition assign_hyp := forall m k dst (s : arr),
  k < count -> index <= dst -> dst < cnt s -> get (cells s) dst <> Raw -> Q m (firstn index (cells s)) ->
  exists c', src_assign V src k dst s = Ok (mkArr c' (cnt s)) /\ length c' = length (cells s) /\
    (forall j, index <= j -> get c' j = if j =? dst then Live (vals k) else get (cells s) j) /\
    Q (S m) (firstn index c').
Definition push_hyp := forall m k (s : arr),
  k < count -> index <= cnt s -> cnt s < cap s -> get (cells s) (cnt s) = Raw -> Q m (firstn index (cells s)) ->
  exists c', src_push V src k s = Ok (mkArr c' (S (cnt s))) /\ length c' = length (cells s) /\
    (forall j, index <= j -> get c' j = if j =? cnt s then Live (vals k) else get (cells s) j) /\
    Q (S m) (firstn index c').

Hypothesis Hassign : assign_hyp.
Hypothesis Hpush : push_hyp.

Variable s0 : arr.
Variable f : nat -> V.
Let n := cnt s0.
Let C := cap s0.
Hypothesis Hindex : index <= n.
Hypothesis Hcap : n + count <= C.
Hypothesis Hpos : 0 < count.
Hypothesis Hlive : forall j, j < n -> get (cells s0) j = Live (f j).
Hypothesis Hraw : forall j, n <= j -> get (cells s0) j = Raw.
Hypothesis HQ0 : Q 0 (firstn index (cells s0)).

Definition post (s : arr) : Prop :=
  cnt s = n + count /\ length (cells s) = C /\ Q count (firstn index (cells s)) /\
  (forall j, index <= j -> get (cells s) j =
     if j <? index + count then Live (vals (j - index))
     else if j <? n + count then Live (f (j - count)) else Raw).

Ltac cases :=
  repeat match goal with
  | |- context [?a <? ?b] => destruct (Nat.ltb_spec a b)
  | |- context [?a =? ?b] => destruct (Nat.eqb_spec a b)
  | |- context [?a <=? ?b] => destruct (Nat.leb_spec a b)
  end; simpl; try lia; try congruence; auto.

(* case A: index + count < initCount *)
Lemma insert_case_A :
  index + count < n ->
  exists s', insert_nogrow_gen V self_move after_move true src s0 index count = Ok s' /\ post s'.
Proof.
  intros HA. unfold insert_nogrow_gen. fold n. fold C.
  destruct (Nat.leb_spec index n); [|lia]. destruct (Nat.leb_spec (n + count) C); [|lia].
  destruct (Nat.eqb_spec count 0); [lia|]. destruct (Nat.ltb_spec (index + count) n); [|lia]. simpl.
  (* loop 1 *)
  pose (I1 := fun i (s : arr) => cnt s = count + i /\ length (cells s) = C /\ firstn index (cells s) = firstn index (cells s0) /\
     forall j, index <= j -> get (cells s) j =
       if j <? n - count then Live (f j) else if j <? i then mcell (after_move (f j))
       else if j <? n then Live (f j) else if j <? i + count then Live (f (j - count)) else Raw).
  destruct (for_up_inv I1 (fun i s => add_back_move_item V after_move s i) (n - count) n) with (fuel := S C) (i := n - count) (s := s0)
    as (s1 & -> & (Hc1 & Hl1 & Hp1 & Hg1)); try lia.
  { intros i s Hlo Hi (Hc & Hl & Hp & Hg).
    rewrite (add_back_move_item_ok s i (f i)).
    - eexists; split; [reflexivity|]. unfold I1; simpl. rewrite !length_set. repeat split; try lia.
      + rewrite !firstn_set_ge by lia. auto.
      + intros j Hj. rewrite get_set by (rewrite length_set; lia). rewrite get_set by lia. rewrite Hg by auto. cases.
        f_equal. f_equal. lia.
    - lia.
    - rewrite Hg by lia. cases.
    - unfold cap. lia.
    - rewrite Hg by lia. cases. }
  { unfold I1. repeat split; auto; try (fold n; fold C; lia).
    intros j Hj. cases; [apply Hlive; lia | apply Hlive; lia | apply Hraw; lia]. }
  simpl.
  (* loop 2 *)
  pose (I2 := fun i (s : arr) => cnt s = n + count /\ length (cells s) = C /\ firstn index (cells s) = firstn index (cells s0) /\
     (forall j, index <= j -> j < i -> get (cells s) j = Live (f j)) /\
     (forall j, i <= j -> j < i + count -> get (cells s) j <> Raw) /\
     (forall j, i + count <= j -> get (cells s) j = if j <? n + count then Live (f (j - count)) else Raw)).
  destruct (for_down_inv I2 (fun i s => move_assign_items V self_move after_move s (i - 1) (i + count - 1)) index (n - count))
    with (fuel := S C) (i := n - count) (s := s1) as (s2 & -> & (Hc2 & Hl2 & Hp2 & _ & Hn2 & Hg2)); try lia.
  { intros i s Hi Hhi (Hc & Hl & Hp & Hlo & Hmid & Hhigh).
    assert (Hlt : i + count - 1 < length (cells s)) by (apply get_not_raw_lt; apply Hmid; lia).
    rewrite (move_assign_items_ok s (i - 1) (i + count - 1) (f (i - 1))); try lia.
    - eexists; split; [reflexivity|]. unfold I2; simpl. rewrite !length_set. repeat split; try lia.
      + rewrite !firstn_set_ge by lia. auto.
      + intros j Hj1 Hj2. rewrite !get_set_other by lia. apply Hlo; lia.
      + intros j Hj1 Hj2. rewrite get_set by (rewrite length_set; lia).
        destruct (Nat.eqb_spec j (i - 1)); [apply mcell_not_raw|].
        rewrite get_set by lia.
        destruct (Nat.eqb_spec j (i + count - 1)); [discriminate|]. apply Hmid; lia.
      + intros j Hj.
        rewrite get_set by (rewrite length_set; lia). rewrite get_set by lia.
        destruct (Nat.eqb_spec j (i - 1)); [lia|].
        destruct (Nat.eqb_spec j (i + count - 1)).
        * subst j. cases. f_equal. f_equal. lia.
        * apply Hhigh. lia.
    - apply Hlo; lia.
    - apply Hmid; lia. }
  { unfold I2. repeat split; auto; try lia.
    - intros j Hj1 Hj2. rewrite Hg1 by lia. cases.
    - intros j Hj1 Hj2. rewrite Hg1 by lia. cases; try apply mcell_not_raw; discriminate.
    - intros j Hj. rewrite Hg1 by lia. cases. }
  simpl.
  (* loop 3 *)
  pose (I3 := fun i (s : arr) => cnt s = n + count /\ length (cells s) = C /\ Q (i - index) (firstn index (cells s)) /\
     (forall j, index <= j -> j < i -> get (cells s) j = Live (vals (j - index))) /\
     (forall j, i <= j -> j < index + count -> get (cells s) j <> Raw) /\
     (forall j, index + count <= j -> get (cells s) j = if j <? n + count then Live (f (j - count)) else Raw)).
  destruct (for_up_inv I3 (fun i s => src_assign V src (i - index) i s) index (index + count))
    with (fuel := S C) (i := index) (s := s2) as (s3 & -> & (Hc3 & Hl3 & HQ3 & Hlo3 & _ & Hhi3)); try lia.
  { intros i s Hge Hi (Hc & Hl & HQ & Hlo & Hmid & Hhigh).
    destruct (Hassign (i - index) (i - index) i s) as (c' & He & Hl' & Hg' & HQ'); try lia; auto.
    - apply Hmid; lia.
    - rewrite He. eexists; split; [reflexivity|]. unfold I3; simpl. repeat split; try lia.
      + replace (S i - index) with (S (i - index)) by lia. auto.
      + intros j Hj1 Hj2. rewrite Hg' by lia. destruct (Nat.eqb_spec j i); [subst; auto|]. apply Hlo; lia.
      + intros j Hj1 Hj2. rewrite Hg' by lia. destruct (Nat.eqb_spec j i); [lia|]. apply Hmid; lia.
      + intros j Hj. rewrite Hg' by lia. destruct (Nat.eqb_spec j i); [lia|]. apply Hhigh; lia. }
  { unfold I3. repeat split; auto; try lia.
    - rewrite Nat.sub_diag. rewrite Hp2. auto.
    - intros j Hj1 Hj2. lia.
    - intros j Hj1 Hj2. apply Hn2; lia. }
  eexists; split; [reflexivity|]. unfold post. repeat split; auto.
  - replace (index + count - index) with count in HQ3 by lia. auto.
  - intros j Hj. cases; [apply Hlo3; lia | rewrite Hhi3 by lia; cases | rewrite Hhi3 by lia; cases].
Qed.

(* case B: index + count >= initCount *)
Lemma insert_case_B :
  n <= index + count ->
  exists s', insert_nogrow_gen V self_move after_move true src s0 index count = Ok s' /\ post s'.
Proof.
  intros HB. unfold insert_nogrow_gen. fold n. fold C.
  destruct (Nat.leb_spec index n); [|lia]. destruct (Nat.leb_spec (n + count) C); [|lia].
  destruct (Nat.eqb_spec count 0); [lia|]. destruct (Nat.ltb_spec (index + count) n); [lia|]. simpl.
  pose (I1 := fun i (s : arr) => cnt s = i /\ length (cells s) = C /\ Q (i - n) (firstn index (cells s)) /\
     forall j, index <= j -> get (cells s) j =
       if j <? n then Live (f j) else if j <? i then Live (vals (j - index)) else Raw).
  destruct (for_up_inv I1 (fun i s => src_push V src (i - index) s) n (index + count)) with (fuel := S C) (i := n) (s := s0)
    as (s1 & -> & (Hc1 & Hl1 & HQ1 & Hg1)); try lia.
  { intros i s Hge Hi (Hc & Hl & HQ & Hg).
    destruct (Hpush (i - n) (i - index) s) as (c' & He & Hl' & Hg' & HQ'); try lia; auto.
    - unfold cap; lia.
    - rewrite Hg by lia. cases.
    - rewrite He, Hc. eexists; split; [reflexivity|]. unfold I1; simpl. repeat split; try lia.
      + replace (S i - n) with (S (i - n)) by lia. auto.
      + intros j Hj. rewrite Hg' by lia. rewrite Hc. rewrite Hg by lia. cases. }
  { unfold I1. repeat split; auto; try (fold n; fold C; lia).
    - rewrite Nat.sub_diag. auto.
    - intros j Hj. cases; [apply Hlive; lia | apply Hraw; lia]. }
  simpl.
  pose (I2 := fun i (s : arr) => cnt s = count + i /\ length (cells s) = C /\
     Q ((index + count - n) + (i - index)) (firstn index (cells s)) /\
     forall j, index <= j -> get (cells s) j =
       if j <? i then Live (vals (j - index)) else if j <? n then Live (f j)
       else if j <? index + count then Live (vals (j - index))
       else if j <? i + count then Live (f (j - count)) else Raw).
  destruct (for_up_inv I2 (fun i s => s' <- add_back_move_item V after_move s i ;; src_assign V src (i - index) i s') index n)
    with (fuel := S C) (i := index) (s := s1) as (s2 & -> & (Hc2 & Hl2 & HQ2 & Hg2)); try lia.
  { intros i s Hge Hi (Hc & Hl & HQ & Hg).
    rewrite (add_back_move_item_ok s i (f i)); try lia.
    - simpl.
      match goal with |- context [src_assign V src ?k ?d ?s'] =>
        destruct (Hassign ((index + count - n) + (i - index)) k d s') as (c' & He & Hl' & Hg' & HQ') end;
        simpl; try lia.
      + rewrite get_set by (rewrite length_set; lia). rewrite Nat.eqb_refl. apply mcell_not_raw.
      + rewrite !firstn_set_ge by lia. auto.
      + simpl in He. rewrite He. eexists; split; [reflexivity|]. unfold I2; simpl.
        rewrite !length_set in Hl'. repeat split; try lia.
        * replace (index + count - n + (S i - index)) with (S (index + count - n + (i - index))) by lia. auto.
        * intros j Hj. rewrite Hg' by lia.
          rewrite get_set by (rewrite length_set; lia). rewrite get_set by lia. rewrite Hg by lia. cases.
          f_equal. f_equal. lia.
    - rewrite Hg by lia. cases.
    - unfold cap. lia.
    - rewrite Hg by lia. cases. }
  { unfold I2. repeat split; auto; try lia.
    - rewrite Nat.sub_diag, Nat.add_0_r. auto.
    - intros j Hj. rewrite Hg1 by lia. cases. }
  eexists; split; [reflexivity|]. unfold post. repeat split; auto; try lia.
  - replace (index + count - n + (n - index)) with count in HQ2 by lia. auto.
  - intros j Hj. rewrite Hg2 by lia. cases.
Qed.

Lemma insert_nogrow_gen_post :
  exists s', insert_nogrow_gen V self_move after_move true src s0 index count = Ok s' /\ post s'.
Proof.
  destruct (Nat.lt_ge_cases (index + count) n); [apply insert_case_A | apply insert_case_B]; auto.
Qed.
End Insert.

End Proofs.
