(* C09: pvNewBuffer GENERATED AS A WHOLE (Gen_MemPoolNewBuf.v: address part, pvGetBlockIndex with its out-parameter, first-block
   index, BufferBytes, prev/next, begin offset, and the loop that threads the free chain through the blocks - all stores into
   address-keyed maps).  For every legal parameter set and every address the manager may return: the function succeeds, returns the
   buffer of the layout theorem, sets exactly the bookkeeping cells of THAT buffer, and stores in block j the index of block j+1
   (the last one the terminator -128); no other cell of any map changes. *)
From Coq Require Import ZArith List Bool Lia.
From MomoCommon Require Import GenPrelude.
From C09 Require PoolBlkPrims Gen_MemPool Gen_MemPoolNewBuf PoolLayout PoolArith.
Import ListNotations.
Local Open Scope Z_scope.

Section NB.
Variables C B A : Z.
Hypothesis L : PoolArith.legal C B A.

Lemma loop_spec bf bc bo buffer fbi nx pv first :
  (forall j, 0 <= j < C -> -128 <= first + j <= 127) ->
  (forall j j', 0 <= j < j' -> j' < C -> PoolLayout.block_of B A buffer first j <> PoolLayout.block_of B A buffer first j') ->
  forall fuel k nfi, 1 <= k <= C -> (Z.to_nat (C - k) < fuel)%nat ->
  exists nfi',
    Gen_MemPoolNewBuf.pvNewBuffer_loop0 fuel bc bf A B bo buffer fbi nx pv C (PoolLayout.block_of B A buffer first (k - 1)) (first + k - 1) k nfi =
      Ok (PoolLayout.block_of B A buffer first (C - 1), first + C - 1, C, nfi') /\
    (forall j, k - 1 <= j < C - 1 -> nfi' (PoolLayout.block_of B A buffer first j) = first + j + 1) /\
    (forall a, (forall j, k - 1 <= j < C - 1 -> a <> PoolLayout.block_of B A buffer first j) -> nfi' a = nfi a).
Proof.
  intros Rng Dist. induction fuel as [|fuel IH]; intros k nfi Hk Hf; [lia|].
  rewrite Gen_MemPoolNewBuf.pvNewBuffer_loop0_eq.
  destruct (Z.ltb_spec k C) as [Lt|Ge].
  2:{ assert (k = C) by lia. subst k. exists nfi. split; [reflexivity|]. split; [intros; lia|reflexivity]. }
  cbv zeta. rewrite (wrapU_small 64 (k + 1)) by (destruct L as (HC & _); rewrite PoolArith.two64; lia).
  assert (Gen_MemPoolNewBuf.pvGetBlock B A bf bc nx pv
            (PoolBlkPrims.store_ptr nfi (PoolLayout.block_of B A buffer first (k - 1)) (first + k - 1 + 1)) fbi bo buffer (first + k - 1 + 1)
          = PoolLayout.block_of B A buffer first (k + 1 - 1)) as ->.
  { unfold PoolLayout.block_of, Gen_MemPoolNewBuf.pvGetBlock, Gen_MemPool.pvGetBlock.
    replace (first + (k + 1 - 1)) with (first + k - 1 + 1) by lia.
    rewrite (PoolArith.wrapS8_id (first + k - 1 + 1)) by (specialize (Rng k ltac:(lia)); lia). reflexivity. }
  replace (first + k - 1 + 1) with (first + (k + 1) - 1) by lia.
  destruct (IH (k + 1) (PoolBlkPrims.store_ptr nfi (PoolLayout.block_of B A buffer first (k - 1)) (first + (k + 1) - 1)) ltac:(lia) ltac:(lia))
    as (nfi' & E & Hin & Hout).
  exists nfi'. split; [exact E|]. split.
  - intros j Hj. destruct (Z.eq_dec j (k - 1)) as [->|Nj]; [|apply Hin; lia].
    rewrite Hout; [unfold PoolBlkPrims.store_ptr, upd; rewrite Z.eqb_refl; lia|].
    intros j' Hj'. apply Dist; lia.
  - intros a Ha. rewrite Hout by (intros j Hj; apply Ha; lia). unfold PoolBlkPrims.store_ptr, upd.
    destruct (Z.eqb_spec a (PoolLayout.block_of B A buffer first (k - 1))) as [->|]; [exfalso; apply (Ha (k - 1)); [lia|reflexivity]|reflexivity].
Qed.

(* lines 619-637 as a function of (begin, beginOffset): what follows the address computation.  split_prefix shows that the generated
   pvNewBuffer IS "address part (= Gen_MemPool.pvNewBuffer, the part the layout theorems are about), then this tail". *)
Definition nb_tail (bf bc nx pv nfi fbi bo : Z -> Z) (begin off : Z) :=
  let block := begin + off in
  match Gen_MemPoolNewBuf.pvGetBlockIndex C B A bf bc nx pv nfi fbi bo block with
  | Ok (blockIndex, buffer) =>
    let fbi := PoolBlkPrims.store_ptr fbi buffer blockIndex in
    let bf := PoolBlkPrims.set_first bf buffer (PoolBlkPrims.bb_pack blockIndex (wrapS 8 C)) in
    let bc := PoolBlkPrims.set_count bc buffer (PoolBlkPrims.bb_pack blockIndex (wrapS 8 C)) in
    let pv := PoolBlkPrims.store_ptr pv buffer 0 in
    let nx := PoolBlkPrims.store_ptr nx buffer 0 in
    let bo := PoolBlkPrims.store_ptr bo buffer (wrapU 16 off) in
    match Gen_MemPoolNewBuf.pvNewBuffer_loop0 (Gen_MemPoolNewBuf.fuel_of_pvNewBuffer C) bc bf A B bo buffer fbi nx pv C block blockIndex 1 nfi with
    | Ok (block, _, _, nfi) => Ok (buffer, bf, bc, nx, pv, PoolBlkPrims.store_ptr nfi block (wrapS 8 (- (128))), fbi, bo)
    | Stuck => Stuck | Fuel => Fuel | Exn => Exn
    end
  | Stuck => Stuck | Fuel => Fuel | Exn => Exn
  end.

Lemma split_prefix bf bc nx pv nfi fbi bo begin :
  Gen_MemPoolNewBuf.pvNewBuffer C B A bf bc nx pv nfi fbi bo begin =
    match Gen_MemPool.pvNewBuffer C B A begin with
    | Ok (_, off) => nb_tail bf bc nx pv nfi fbi bo begin off
    | Stuck => Stuck | Fuel => Fuel | Exn => Exn
    end.
Proof.
  unfold Gen_MemPoolNewBuf.pvNewBuffer, Gen_MemPool.pvNewBuffer, nb_tail. cbv zeta.
  match goal with |- context [Z.ltb ?o (wrapU 64 (Z.shiftl 1 16))] => destruct (Z.ltb o (wrapU 64 (Z.shiftl 1 16))) end; reflexivity.
Qed.

Lemma tail_spec bf bc nx pv nfi fbi bo begin fb first buffer nfi1 :
  Gen_MemPool.pvGetBlockIndex C B A fb = Ok (first, buffer) ->
  Gen_MemPoolNewBuf.pvNewBuffer_loop0 (Z.to_nat (C + 1)) (upd bc buffer (wrapS 8 C)) (upd bf buffer first) A B
      (upd bo buffer (wrapU 16 (fb - begin))) buffer (upd fbi buffer first) (upd nx buffer 0) (upd pv buffer 0) C fb first 1 nfi =
    Ok (PoolLayout.block_of B A buffer first (C - 1), first + C - 1, C, nfi1) ->
  nb_tail bf bc nx pv nfi fbi bo begin (fb - begin) =
    Ok (buffer, upd bf buffer first, upd bc buffer (wrapS 8 C), upd nx buffer 0, upd pv buffer 0,
        upd nfi1 (PoolLayout.block_of B A buffer first (C - 1)) (-128), upd fbi buffer first, upd bo buffer (wrapU 16 (fb - begin))).
Proof.
  intros Ei El. unfold nb_tail. cbv zeta. replace (begin + (fb - begin)) with fb by lia.
  change (Gen_MemPoolNewBuf.pvGetBlockIndex C B A bf bc nx pv nfi fbi bo fb) with (Gen_MemPool.pvGetBlockIndex C B A fb). rewrite Ei.
  unfold PoolBlkPrims.set_first, PoolBlkPrims.set_count, PoolBlkPrims.bb_pack, PoolBlkPrims.store_ptr. cbn [fst snd].
  unfold Gen_MemPoolNewBuf.fuel_of_pvNewBuffer. rewrite El. reflexivity.
Qed.

Lemma layout_parts begin fb first buffer :
  PoolLayout.new_buffer_layout C B A begin = Ok (fb, fb - begin, first, buffer) ->
  (exists u, Gen_MemPool.pvNewBuffer C B A begin = Ok (u, fb - begin)) /\ Gen_MemPool.pvGetBlockIndex C B A fb = Ok (first, buffer).
Proof.
  unfold PoolLayout.new_buffer_layout. intros E.
  destruct (Gen_MemPool.pvNewBuffer C B A begin) as [[u off]| | |]; try discriminate.
  destruct (Gen_MemPool.pvGetBlockIndex C B A (begin + off)) as [[ix bu]| | |] eqn:Ei; try discriminate.
  injection E as E1 E2 E3 E4. subst ix bu off. split; [exists u; reflexivity|]. rewrite <- E1. exact Ei.
Qed.

Theorem generated_newbuffer_full bf bc nx pv nfi fbi bo begin :
  PoolArith.begin_ok A (Gen_MemPool.pvGetBufferSize C B A) begin ->
  exists fb first buffer nfi',
    PoolLayout.new_buffer_layout C B A begin = Ok (fb, fb - begin, first, buffer) /\
    Gen_MemPoolNewBuf.pvNewBuffer C B A bf bc nx pv nfi fbi bo begin =
      Ok (buffer, upd bf buffer first, upd bc buffer (wrapS 8 C), upd nx buffer 0, upd pv buffer 0, nfi',
          upd fbi buffer first, upd bo buffer (wrapU 16 (fb - begin))) /\
    (forall j, 0 <= j < C - 1 -> nfi' (PoolLayout.block_of B A buffer first j) = first + j + 1) /\
    nfi' (PoolLayout.block_of B A buffer first (C - 1)) = -128 /\
    (forall a, (forall j, 0 <= j < C -> a <> PoolLayout.block_of B A buffer first j) -> nfi' a = nfi a).
Proof.
  intros Hb. destruct (PoolArith.newbuffer_layout_thm C B A begin L Hb) as (fb & first & buffer & E & Hoff & Hfirst & Hgb & G & _).
  cbv zeta in G. pose proof L as (HC & HA & _).
  assert (forall j, 0 <= j < C -> -128 <= first + j <= 127) as Rng by (intros j Hj; exact (proj1 (G j Hj))).
  assert (0 < B) as HB by (pose proof (PoolArith.legal_m C B A L); destruct L as (_ & ? & ? & ? & _); nia).
  assert (forall j j', 0 <= j < j' -> j' < C -> PoolLayout.block_of B A buffer first j <> PoolLayout.block_of B A buffer first j') as Dist.
  { intros j j' Hj Hj'. destruct (G j ltac:(lia)) as (_ & _ & _ & _ & D & _). specialize (D j' ltac:(lia)). lia. }
  destruct (layout_parts begin fb first buffer E) as ((u & Ep) & Ei).
  assert (fb = PoolLayout.block_of B A buffer first 0) as Efb.
  { unfold PoolLayout.block_of. rewrite Z.add_0_r, PoolArith.wrapS8_id by (specialize (Rng 0 ltac:(lia)); lia). symmetry; exact Hgb. }
  destruct (loop_spec (upd bf buffer first) (upd bc buffer (wrapS 8 C)) (upd bo buffer (wrapU 16 (fb - begin))) buffer (upd fbi buffer first)
              (upd nx buffer 0) (upd pv buffer 0) first Rng Dist (Z.to_nat (C + 1)) 1 nfi ltac:(lia) ltac:(lia)) as (nfi1 & El & Hin & Hout).
  exists fb, first, buffer, (upd nfi1 (PoolLayout.block_of B A buffer first (C - 1)) (-128)).
  split; [exact E|]. split.
  - rewrite split_prefix, Ep.
    replace (PoolLayout.block_of B A buffer first (1 - 1)) with fb in El by (rewrite Efb; reflexivity).
    replace (first + 1 - 1) with first in El by lia.
    exact (tail_spec bf bc nx pv nfi fbi bo begin fb first buffer nfi1 Ei El).
  - split; [|split].
    + intros j Hj. unfold upd. destruct (Z.eqb_spec (PoolLayout.block_of B A buffer first j) (PoolLayout.block_of B A buffer first (C - 1))) as [Eq|_].
      * exfalso. exact (Dist j (C - 1) ltac:(lia) ltac:(lia) Eq).
      * apply Hin. lia.
    + unfold upd. rewrite Z.eqb_refl. reflexivity.
    + intros a Ha. unfold upd. destruct (Z.eqb_spec a (PoolLayout.block_of B A buffer first (C - 1))) as [->|_]; [exfalso; apply (Ha (C - 1)); [lia|reflexivity]|].
      apply Hout. intros j Hj. apply Ha. lia.
Qed.
End NB.
