// C01 harness TU 5: LimP4 audit configurations (inline crew, library HashTraits with an arithmetic key, odd item sizes, struct / string values)
#define MOMO_INCLUDE_OLD_HASH_BUCKETS
#include "c01_harness.h"
#include "momo/details/HashBucketLimP1.h"
using namespace momo;
typedef HashBucketLimP4<3> L3; typedef HashBucketLimP4<4> L4;
static const Reg regs[] = {
	C01_SETN("S.L4.b.v", L4, 8, 4, 0, false, false),
	C01_SETU("S.L4.u.n", L4),
	C01_SET("S.L4.z.p", L4, 12, 4, 0, false, true),
	C01_MAPV("B.L4.b.q", L4, 8, 4, 0, false, false, BigVal),
	C01_MAPV("T.L4.b.q", L4, 8, 4, 0, false, false, StrVal),
	C01_SET("S.L3.g.f", L3, 1, 1, 0, true, false),
	C01_MAP("M.L3.x.q", L3, 8, 4, 2, false, false),
};
// n1 40 <H> op...: a REAL BucketLimP4<uint64_t item, 4, hash-code-part getter>: a<hashCode> AddCrt (L = 4, probe = (hc >> 8) & 7), r<idx> Remove,
// c Clear; prints hashCount, mShortHashes[0..hashCount-1], the pointer-state bits (memPoolIndex - 1) and whether the pointer is null
// n1 41 <N> <skip> op...: a REAL BucketLimP1<item, N> with real memory pools (item = uint64_t: skipFirstMemPool = (N > 1); a 16-byte item
// with alignment 8: skipFirstMemPool = false): a AddCrt (when not full), r<idx> Remove; prints after every op mState, whether the item pointer
// is non-null, and for AddCrt the position (returned iterator - GetBounds().GetBegin()); the generated Gen_LimP1_ops functions must agree
struct C01Pair16 { uint64_t a, b; };
template<typename It, size_t N>
static void leaf_limp1(const std::vector<std::string>& w, bool skip)
{
	typedef internal::HashSetBucketItemTraits<HashSetItemTraits<It, MemManagerDefault>> BIT;
	typedef internal::BucketLimP1<BIT, N, MemPoolParams<>> Bk;
	if (Bk::Params::skipFirstMemPool != skip) { puts("?skip"); return; }
	MemManagerDefault mm;
	static typename Bk::Params* params = new typename Bk::Params(mm);
	Bk* b = new Bk();
	std::string out = std::to_string(unsigned(b->mState));
	for (size_t i = 3; i < w.size(); ++i)
	{
		char op = w[i][0]; size_t arg = w[i].size() > 1 ? size_t(std::stoull(w[i].substr(1))) : 0;
		if (op == 'a')
		{
			if (b->IsFull()) continue;
			It* r = b->AddCrt(*params, [] (It* p) { new (p) It(); }, 0, 4, 0);
			out += " a" + std::to_string(unsigned(b->mState)) + ":" + (b->pvGetItems() == nullptr ? "0" : "1") + ":" + std::to_string(size_t(r - b->GetBounds(*params).GetBegin()));
		}
		else if (op == 'r')
		{
			auto bounds = b->GetBounds(*params);
			if (arg >= bounds.GetCount()) continue;
			It* r = b->Remove(*params, bounds.GetBegin() + arg, [] (It& src, It& dst) { dst = src; });
			out += " r" + std::to_string(unsigned(b->mState)) + ":" + (b->pvGetItems() == nullptr ? "0" : "1") + ":" + (r == nullptr ? "n" : std::to_string(size_t(r - b->GetBounds(*params).GetBegin())));
		}
		out += std::string(" f") + (b->IsFull() ? "1" : "0") + (b->WasFull() ? "1" : "0");
	}
	puts(out.c_str());
	b->Clear(*params); delete b;
}
static void leaf(const std::vector<std::string>& w)
{
	typedef internal::HashSetBucketItemTraits<HashSetItemTraits<uint64_t, MemManagerDefault>> BIT;
	typedef internal::BucketLimP4<BIT, 4, MemPoolParams<>, true> Bk;
	if (w.size() >= 3 && w[0] == "41")
	{
		int n = std::stoi(w[1]); bool skip = w[2] == "1";
		if (n == 1 && !skip) leaf_limp1<uint64_t, 1>(w, skip);
		else if (n == 2 && skip) leaf_limp1<uint64_t, 2>(w, skip);
		else if (n == 4 && skip) leaf_limp1<uint64_t, 4>(w, skip);
		else if (n == 2 && !skip) leaf_limp1<C01Pair16, 2>(w, skip);
		else if (n == 3 && !skip) leaf_limp1<C01Pair16, 3>(w, skip);
		else puts("?limp1");
		return;
	}
	if (w.size() < 2 || w[0] != "40") { puts("?leaf"); return; }
	MemManagerDefault mm;
	static Bk::Params* params = new Bk::Params(mm);		// pools live for the whole run
	Bk* b = new Bk();
	for (size_t i = 2; i < w.size(); ++i)
	{
		char op = w[i][0]; size_t arg = w[i].size() > 1 ? size_t(std::stoull(w[i].substr(1))) : 0;
		if (op == 'a') { if (!b->IsFull()) b->AddCrt(*params, [] (uint64_t* p) { *p = 7; }, arg, 4, (arg >> 8) & 7); }
		else if (op == 'r')
		{
			auto bounds = b->GetBounds(*params);
			if (arg < bounds.GetCount()) b->Remove(*params, bounds.GetBegin() + arg, [] (uint64_t& src, uint64_t& dst) { dst = src; });
		}
		else if (op == 'c') b->Clear(*params);
	}
	std::string out = std::to_string(Bk::hashCount);
	for (size_t i = 0; i < Bk::hashCount; ++i) out += " " + std::to_string(unsigned(b->mShortHashes[i]));
	out += " " + std::to_string(unsigned(b->mPtrState.GetState())) + " " + (b->mPtrState.GetPointer() == nullptr ? "0" : "1");
	puts(out.c_str());
	b->Clear(*params); delete b;
}
int main() { return c01_main(regs, sizeof(regs) / sizeof(regs[0]), &leaf); }
