// C02 implementation side: the REAL momo::TreeSet / TreeMap, driven by op scripts (same format as ocaml/driver.ml).
// One case per input line:   <cfg> <maxCap> <step> <blockCount> <lin> <multi> op op op ...
// One output line per case: one token per op (see run()).  A token starting with '!' is a violation found by the
// harness's own oracle (a stable sorted-vector twin), independent of the Coq model.
#include <cstdarg>
#include "private_access.h"
#include "momo/TreeSet.h"
#include "momo/TreeMap.h"
using namespace momo;

struct CountMM   // stateless counting memory manager: every byte the tree takes must come back
{
	static long liveBlocks, liveBytes;
	explicit CountMM() noexcept {}
	CountMM(CountMM&&) = default;
	CountMM(const CountMM&) = default;
	~CountMM() = default;
	CountMM& operator=(const CountMM&) = delete;
	void* Allocate(size_t size) { void* p = std::malloc(size); if (p == nullptr) throw std::bad_alloc(); ++liveBlocks; liveBytes += long(size); return p; }
	void Deallocate(void* p, size_t size) noexcept { --liveBlocks; liveBytes -= long(size); std::memset(p, 0xDD, size); __asm__ __volatile__("" : : "r"(p) : "memory"); std::free(p); }   // poison: a stale read is not silently 'still valid'
};
long CountMM::liveBlocks = 0; long CountMM::liveBytes = 0;

// ---- key kinds -------------------------------------------------------------------------------------------
struct IntK {   // trivially relocatable
	typedef int Key; static const bool hasSerial = false;
	static Key make(long k, long) { return int(k); }
	static long val(const Key& k) { return k; }
	static long ser(const Key&) { return -1; }
	static long live() { return 0; }
};
struct StrK {   // std::string beyond the SSO size: nothrow-movable, not trivially relocatable
	typedef std::string Key; static const bool hasSerial = false;
	static Key make(long k, long) { char b[64]; std::snprintf(b, sizeof b, "key-%012ld-padding-beyond-sso", k); return std::string(b); }
	static long val(const Key& k) { return std::atol(k.c_str() + 4); }
	static long ser(const Key&) { return -1; }
	static long live() { return 0; }
};
struct HeapKey {   // owns a heap cell; the move constructor may throw as far as the library knows -> copy-relocated, indexed node layout
	long* p; long serial;
	static long liveCount;
	explicit HeapKey(long k, long s) : p(new long(k)), serial(s) { ++liveCount; }
	HeapKey(const HeapKey& o) : p(new long(*o.p)), serial(o.serial) { ++liveCount; }
	HeapKey(HeapKey&& o) noexcept(false) : p(new long(*o.p)), serial(o.serial) { ++liveCount; }
	HeapKey& operator=(const HeapKey& o) { *p = *o.p; serial = o.serial; return *this; }
	HeapKey& operator=(HeapKey&& o) noexcept(false) { *p = *o.p; serial = o.serial; return *this; }
	~HeapKey() { delete p; p = nullptr; --liveCount; }
	friend bool operator<(const HeapKey& a, const HeapKey& b) { return *a.p < *b.p; }
};
long HeapKey::liveCount = 0;
struct HeapK {
	typedef HeapKey Key; static const bool hasSerial = true;
	static Key make(long k, long s) { return HeapKey(k, s); }
	static long val(const Key& k) { return *k.p; }
	static long ser(const Key& k) { return k.serial; }
	static long live() { return HeapKey::liveCount; }
};

typedef std::vector<std::pair<long, long>> Twin;   // (key, serial), always sorted, stable

template<class KK, bool isMap, bool multi, size_t maxCap, size_t step, class Pool, bool cont, bool lin>
struct Cfg
{
	typedef typename KK::Key Key;
	typedef TreeNode<maxCap, step, Pool, cont> TNode;
	typedef TreeTraits<Key, multi, TNode, lin> Traits;
	typedef TreeSet<Key, Traits, CountMM> Set;
	typedef TreeMap<Key, long, Traits, CountMM> Map;
	typedef typename std::conditional<isMap, Map, Set>::type C;
	typedef typename C::ConstIterator It;
	static const bool hasSerial = isMap || KK::hasSerial;

	static long keyOf(It it) { if constexpr (isMap) return KK::val(it->key); else return KK::val(*it); }
	static long serOf(It it) { if constexpr (isMap) return it->value; else return KK::ser(*it); }
	static std::pair<It, bool> ins(C& c, long k, long s)
	{
		if constexpr (isMap) { auto r = c.Insert(KK::make(k, s), s); return { It(r.position), r.inserted }; }
		else { auto r = c.Insert(KK::make(k, s)); return { r.position, r.inserted }; }
	}
	static It add(C& c, It hint, long k, long s)
	{
		if constexpr (isMap) return It(c.Add(hint, KK::make(k, s), long(s)));
		else return c.Add(hint, KK::make(k, s));
	}
	static auto& setOf(C& c) { if constexpr (isMap) return c.mTreeSet; else return c; }

	static bool ordered(long a, long b) { return multi ? !(b < a) : a < b; }

	struct Side { C c; Twin tw; };
	Side sd[2];
	long serial = 1;
	std::string out;
	char buf[128];

	static size_t idx(C& c, It it) { size_t n = 0; for (It i = c.GetBegin(); !(i == it); ++i) { ++n; if (n > 1000000) break; } return n; }
	static It at(C& c, size_t h) { It i = c.GetBegin(); for (size_t n = 0; n < h; ++n) ++i; return i; }
	void tok(const char* fmt, ...) { va_list ap; va_start(ap, fmt); std::vsnprintf(buf, sizeof buf, fmt, ap); va_end(ap); out += buf; }
	void bad(const char* what) { out += " !"; out += what; }

	template<class N> void shape(N* n)
	{
		tok("%c%u/%u", n->IsLeaf() ? 'L' : 'N', unsigned(n->GetCount()), unsigned(n->GetCapacity()));
		if (!n->IsLeaf()) for (size_t i = 0; i <= n->GetCount(); ++i) { out += '.'; shape(n->GetChild(i)); }
	}
	// the structural invariant, checked on the real nodes (parent links included)
	template<class N> bool checkNode(N* n, N* parent, size_t depth, size_t& leafDepth)
	{
		if (n->GetParent() != parent) return false;
		if (n->GetCount() > n->GetCapacity() || n->GetCapacity() > maxCap) return false;
		if constexpr (!N::isContinuous)
		{	// indexed layout: the table must stay a permutation of the slot numbers 0..maxCapacity-1
			bool seen[256] = { false };
			for (size_t i = 0; i < N::maxCapacity; ++i)
			{
				size_t v = n->mCounter.indexes[i];
				if (v >= N::maxCapacity || seen[v]) return false;
				seen[v] = true;
			}
		}
		if (n->IsLeaf()) { if (leafDepth == size_t(-1)) leafDepth = depth; return leafDepth == depth; }
		for (size_t i = 0; i <= n->GetCount(); ++i)
			if (!checkNode(n->GetChild(i), n, depth + 1, leafDepth)) return false;
		return true;
	}

	void fullCheck(Side& s, bool print)
	{
		C& c = s.c; Twin& tw = s.tw;
		if (print) tok("T%u:", unsigned(c.GetCount()));
		if (c.GetCount() != tw.size()) bad("COUNT");
		size_t n = 0; bool ok = true;
		for (It i = c.GetBegin(); !(i == c.GetEnd()); ++i, ++n)
		{
			if (n > tw.size() + 2) break;
			if (print) tok(n ? ",%ld" : "%ld", keyOf(i));
			if (n >= tw.size() || keyOf(i) != tw[n].first || (hasSerial && serOf(i) != tw[n].second)) ok = false;
		}
		if (n != tw.size()) ok = false;
		if (!ok) bad("FORWARD");
		if (print) out += '|';
		ok = true; n = 0;
		if (c.GetCount() > 0 || !(c.GetBegin() == c.GetEnd()))
		{
			It i = c.GetEnd();
			while (!(i == c.GetBegin()))
			{
				--i; ++n;
				if (n > tw.size() + 2) break;
				if (print) tok(n > 1 ? ",%ld" : "%ld", keyOf(i));
				if (n > tw.size() || keyOf(i) != tw[tw.size() - n].first || (hasSerial && serOf(i) != tw[tw.size() - n].second)) ok = false;
			}
		}
		if (n != tw.size()) ok = false;
		if (!ok) bad("BACKWARD");
		auto& st = setOf(c);
		if (st.mRootNode != nullptr) { size_t ld = size_t(-1); if (!checkNode(st.mRootNode, decltype(st.mRootNode)(nullptr), 0, ld)) bad("STRUCT"); }
	}

	static size_t twLb(const Twin& tw, long k) { size_t i = 0; while (i < tw.size() && tw[i].first < k) ++i; return i; }
	static size_t twUb(const Twin& tw, long k) { size_t i = 0; while (i < tw.size() && !(k < tw[i].first)) ++i; return i; }

	void doInsert(Side& s, long k, const char* tag)
	{
		size_t lb = twLb(s.tw, k), ub = twUb(s.tw, k);
		bool expIns = multi || lb == ub; size_t expIdx = expIns ? ub : lb;
		long ser = serial++;
		auto r = ins(s.c, k, ser);
		size_t i = idx(s.c, r.first);
		tok("%s%u/%d", tag, unsigned(i), int(r.second));
		if (expIns) s.tw.insert(s.tw.begin() + ub, { k, ser });
		if (i != expIdx || r.second != expIns || keyOf(r.first) != k || (hasSerial && expIns && serOf(r.first) != ser)) bad("INSERT");
	}

	std::string run(std::istringstream& is)
	{
		std::string op;
		while (is >> op)
		{
			if (!out.empty()) out += ' ';
			size_t o = 0; int side = 0;
			if (op[0] == 'b') { side = 1; o = 1; }
			Side& s = sd[side]; C& c = s.c; Twin& tw = s.tw;
			char k0 = op[o]; const char* arg = op.c_str() + o + 1;
			long a1 = 0, a2 = 0; int na = std::sscanf(arg, "%ld:%ld", &a1, &a2); (void)na;
			switch (k0)
			{
			case 'i': doInsert(s, a1, "I"); break;
			case 'a': {
				size_t h = std::min<size_t>(size_t(a1), tw.size()); long k = a2;
				bool right = (h == 0 || ordered(tw[h - 1].first, k)) && (h == tw.size() || ordered(k, tw[h].first));
				if (!right) { doInsert(s, k, "A"); break; }
				long ser = serial++;
				It r = add(c, at(c, h), k, ser);
				size_t i = idx(c, r);
				tok("A%u/1", unsigned(i));
				tw.insert(tw.begin() + h, { k, ser });
				if (i != h || keyOf(r) != k || (hasSerial && serOf(r) != ser)) bad("ADD");
				break; }
			case 'q': {
				long k = a1; typename KK::Key key = KK::make(k, 0);
				size_t lb = idx(c, It(c.GetLowerBound(key))), ub = idx(c, It(c.GetUpperBound(key)));
				It f = It(c.Find(key)); size_t fi = idx(c, f);
				size_t kc = c.GetKeyCount(key); bool ct = c.ContainsKey(key);
				tok("Q%u,%u,%u,%u,%d", unsigned(lb), unsigned(ub), unsigned(fi), unsigned(kc), int(ct));
				size_t elb = twLb(tw, k), eub = twUb(tw, k);
				if (lb != elb || ub != eub || kc != eub - elb || ct != (eub > elb) || fi != (eub > elb ? elb : tw.size())) bad("QUERY");
				break; }
			case 't': fullCheck(s, true); break;
			case 's': {
				out += 'S'; auto& st = setOf(c);
				if (st.mRootNode == nullptr) out += '-'; else shape(st.mRootNode);
				break; }
			case 'r': {
				if (tw.empty()) { out += "R-"; break; }
				size_t h = size_t(a1) % tw.size();
				It r = It(c.Remove(at(c, h)));
				size_t i = idx(c, r);
				tok("R%u", unsigned(i));
				tw.erase(tw.begin() + h);
				if (i != h || (h < tw.size() && keyOf(r) != tw[h].first) || (h == tw.size() && !(r == c.GetEnd()))) bad("REMOVE");
				break; }
			case 'k': {
				long k = a1; size_t n = c.Remove(KK::make(k, 0));
				tok("K%u", unsigned(n));
				size_t elb = twLb(tw, k), eub = twUb(tw, k);
				tw.erase(tw.begin() + elb, tw.begin() + eub);
				if (n != eub - elb) bad("REMOVEKEY");
				break; }
			case 'g': {
				if (tw.empty()) { out += "G-"; break; }
				size_t h1 = size_t(a1) % (tw.size() + 1), h2 = size_t(a2) % (tw.size() + 1);
				if (h1 > h2) std::swap(h1, h2);
				It r = It(c.Remove(at(c, h1), at(c, h2)));
				size_t i = idx(c, r);
				tok("G%u", unsigned(i));
				tw.erase(tw.begin() + h1, tw.begin() + h2);
				if (i != h1) bad("REMOVERANGE");
				break; }
			case 'p': {
				long m = std::max<long>(a1, 1), r = a2; size_t n;
				if constexpr (isMap) n = c.Remove([m, r] (const Key& key, const long&) { return KK::val(key) % m == r; });
				else n = c.Remove([m, r] (const Key& key) { return KK::val(key) % m == r; });
				tok("P%u", unsigned(n));
				size_t before = tw.size();
				tw.erase(std::remove_if(tw.begin(), tw.end(), [m, r] (const std::pair<long, long>& e) { return e.first % m == r; }), tw.end());
				if (n != before - tw.size()) bad("REMOVEIF");
				break; }
			case 'n': {   // Insert(begin, end) over the comma separated keys (the sorted-input fast path when they come ordered)
				std::vector<long> ks; { const char* p = arg; while (*p) { char* e; long v = std::strtol(p, &e, 10); if (e == p) break; ks.push_back(v); p = (*e == ',') ? e + 1 : e; } }
				size_t n;
				if constexpr (isMap) { std::vector<std::pair<Key, long>> v; for (long k : ks) { long sr = serial++; v.emplace_back(KK::make(k, sr), sr); } n = c.Insert(v.begin(), v.end()); }
				else { std::vector<Key> v; for (long k : ks) v.push_back(KK::make(k, serial++)); n = c.Insert(v.begin(), v.end()); }
				tok("N%u", unsigned(n));
				size_t exp = 0; long sr0 = serial - long(ks.size());
				for (size_t q = 0; q < ks.size(); ++q)
				{
					size_t lb = twLb(tw, ks[q]), ub = twUb(tw, ks[q]);
					if (multi || lb == ub) { tw.insert(tw.begin() + ub, { ks[q], sr0 + long(q) }); ++exp; }
				}
				if (n != exp) bad("INSERTRANGE");
				break; }
			case 'c': c.Clear(); tw.clear(); out += 'C'; break;
			case 'x': {   // Extract at index a1, optionally re-key (a2 >= 0), Insert the extracted item back
				if (tw.empty()) { out += "X-"; break; }
				size_t h = size_t(a1) % tw.size();
				auto ext = c.Extract(at(c, h));
				std::pair<long, long> e = tw[h]; tw.erase(tw.begin() + h);
				if (na == 2 && a2 >= 0)
				{
					e.first = a2;
					if constexpr (isMap) ext.GetKey() = KK::make(a2, e.second); else ext.GetItem() = KK::make(a2, e.second);
				}
				size_t lb = twLb(tw, e.first), ub = twUb(tw, e.first);
				bool expIns = multi || lb == ub;
				auto r = c.Insert(std::move(ext));
				It pos = It(r.position); size_t i = idx(c, pos);
				tok("X%u/%d", unsigned(i), int(r.inserted));
				if (expIns) tw.insert(tw.begin() + ub, e);
				if (i != (expIns ? ub : lb) || r.inserted != expIns || keyOf(pos) != e.first || (hasSerial && expIns && serOf(pos) != e.second)) bad("EXTRACT");
				break; }
			case 'e': {   // ResetKey at index a1 to key a2 when that keeps the order
				if (tw.empty()) { out += "E-"; break; }
				size_t h = size_t(a1) % tw.size(); long k = a2;
				bool okk = (h == 0 || ordered(tw[h - 1].first, k)) && (h + 1 == tw.size() || ordered(k, tw[h + 1].first));
				if (!okk) { out += "E0"; break; }
				c.ResetKey(at(c, h), KK::make(k, tw[h].second));
				tw[h].first = k; out += "E1";
				break; }
			case 'y': {   // copy construct, then move-assign back
				C c2(c); c = std::move(c2); out += 'Y'; break; }
			case 'Y': {   // copy assign into a fresh container, swap
				C c2; c2 = c; c.Swap(c2); out += 'Y'; break; }
			case 'm': {   // move construct and move back
				C c2(std::move(c)); if (c.GetCount() != 0) bad("MOVEDFROM"); c = std::move(c2); out += 'M'; break; }
			case 'w': sd[0].c.Swap(sd[1].c); sd[0].tw.swap(sd[1].tw); out += 'W'; break;
			case 'u': case 'v': {   // u: side.MergeFrom(other)   v: other.MergeTo(side)  -- both move other's items into side
				Side& d = s; Side& src = sd[1 - side];
				if (k0 == 'u') d.c.MergeFrom(src.c); else src.c.MergeTo(d.c);
				Twin rest;
				for (auto& e : src.tw)
				{
					size_t lb = twLb(d.tw, e.first), ub = twUb(d.tw, e.first);
					if (multi || lb == ub) d.tw.insert(d.tw.begin() + ub, e); else rest.push_back(e);
				}
				src.tw.swap(rest);
				tok("U%u,%u", unsigned(d.c.GetCount()), unsigned(src.c.GetCount()));
				fullCheck(d, false);
				fullCheck(src, false);
				break; }
			default: out += '?';
			}
			if (k0 != 't' && k0 != 's' && k0 != 'q') fullCheckLight(s);
		}
		return out;
	}

	unsigned opCount = 0;
	void fullCheckLight(Side& s)
	{
		if (s.c.GetCount() != s.tw.size()) bad("COUNT");
		if ((++opCount % 7) == 0) fullCheck(s, false);
	}
};

template<class CF> static std::string runCase(std::istringstream& is)
{
	std::string out;
	long b0 = CountMM::liveBlocks, h0 = HeapKey::liveCount;
	{
		CF* r = new CF();
		out = r->run(is);
		r->fullCheck(r->sd[0], false); r->fullCheck(r->sd[1], false);
		out = r->out;
		delete r;
	}
	if (CountMM::liveBlocks != b0 || HeapKey::liveCount != h0) out += " !LEAK";
	return out;
}

typedef MemPoolParams<1> P1; typedef MemPoolParams<8> P8; typedef MemPoolParams<1, 0> P1N; typedef MemPoolParams<8, 0> P8N;

#ifndef CFGSET
#define CFGSET 0
#endif

//            id  key   map    multi maxCap step pool cont  lin
#define CONFIGS_0(X) \
	X(0,  IntK,  false, false, 1,   0,   P8,  true,  true)  \
	X(1,  IntK,  true,  true,  1,   1,   P1,  false, false) \
	X(2,  StrK,  false, true,  2,   0,   P1,  true,  false) \
	X(3,  IntK,  true,  false, 2,   1,   P8,  false, true)  \
	X(4,  HeapK, false, true,  2,   2,   P8,  true,  false) \
	X(5,  IntK,  false, true,  3,   1,   P8,  true,  true)  \
	X(6,  StrK,  true,  false, 3,   2,   P1,  false, false) \
	X(7,  IntK,  false, false, 3,   100, P8,  true,  false)
#define CONFIGS_1(X) \
	X(8,  IntK,  true,  true,  4,   0,   P8,  false, true)  \
	X(9,  HeapK, false, false, 4,   1,   P1N, true,  false) \
	X(10, IntK,  false, false, 4,   2,   P8,  true,  true)  \
	X(11, StrK,  false, true,  4,   100, P1,  true,  true)  \
	X(12, IntK,  false, false, 5,   1,   P8,  true,  false) \
	X(13, IntK,  true,  true,  5,   2,   P1,  true,  true)  \
	X(14, HeapK, true,  true,  5,   0,   P8N, false, false) \
	X(15, IntK,  false, false, 5,   100, P1N, false, true)
#define CONFIGS_2(X) \
	X(16, IntK,  false, false, 8,   1,   P8,  true,  true)  \
	X(17, IntK,  false, true,  8,   2,   P1,  true,  false) \
	X(18, StrK,  true,  false, 8,   0,   P1,  false, true)  \
	X(19, IntK,  true,  true,  8,   100, P8,  true,  false) \
	X(20, IntK,  false, false, 32,  4,   P8,  true,  true)  \
	X(21, IntK,  true,  true,  32,  1,   P1,  false, false) \
	X(22, HeapK, false, false, 32,  2,   P8,  true,  false) \
	X(23, IntK,  false, true,  32,  0,   P1,  true,  true)
#define CONFIGS_3(X) \
	X(24, IntK,  false, false, 255, 100, P1,  true,  true)  \
	X(25, IntK,  true,  true,  255, 1,   P8,  false, false) \
	X(26, IntK,  false, false, 255, 0,   P1N, true,  false) \
	X(27, StrK,  false, true,  255, 2,   P8,  true,  true)  \
	X(28, IntK,  false, true,  3,   0,   P8,  true,  false) \
	X(29, IntK,  true,  true,  4,   1,   P8,  true,  false) \
	X(30, IntK,  false, false, 2,   100, P1N, true,  true)  \
	X(31, HeapK, true,  false, 1,   2,   P8,  false, false)

#if CFGSET == 0
#define CONFIGS CONFIGS_0
#elif CFGSET == 1
#define CONFIGS CONFIGS_1
#elif CFGSET == 2
#define CONFIGS CONFIGS_2
#else
#define CONFIGS CONFIGS_3
#endif

int main()
{
	std::string line;
	while (std::getline(std::cin, line))
	{
		std::istringstream is(line);
		int id; long mc, st, bc, lin, multi;
		if (!(is >> id >> mc >> st >> bc >> lin >> multi)) { puts("?"); continue; }
		std::string out = "?cfg";
		switch (id)
		{
#define X(ID, KK, MAP, MULTI, MC, ST, POOL, CONT, LIN) \
		case ID: { typedef Cfg<KK, MAP, MULTI, MC, ST, POOL, CONT, LIN> CF; \
			if (mc != MC || st != ST || bc != long(POOL::blockCount) || lin != int(LIN) || multi != int(MULTI)) out = "?params"; \
			else out = runCase<CF>(is); break; }
		CONFIGS(X)
#undef X
		default: break;
		}
		puts(out.c_str());
		fflush(stdout);   // one line per case must reach the pipe before a later case can crash
	}
	return 0;
}
