(* Extraction of the executable version/handle model (ExtrOcamlBasic only). *)
From Coq Require Import ZArith List Extraction ExtrOcamlBasic.
From C15 Require Version.
Separate Extraction Version.run_out Version.init Version.getc.
