// C10 tie harness: the real momo code driven on instrumented elements, one output line per case.
//   om <cat> <op> <k> <a> <b>          ObjectManager mechanism on raw buffers: op = reloc | replace | reprel
//   hm <cat> <kind> <dk> <dst> <b0> <b1> ...   HashSet source with the given bucket layout merged into a destination
//                                      dk = h (HashSet, reserved: full traces) | t | m (TreeSet unique / multi: coarse)
//   tm <cat> <kind> <dk> <dst> <src>   TreeSet source (single leaf) merged by pvMergeTo (dk = h|t|m, coarse)
//   lm <cat> <kind> <multi> <dst> <src>  TreeSet::MergeTo(TreeSet&) with default traits and UNEQUAL managers (coarse)
//   fm <cat> <kind> <multi> <dst> <src>  the same with EQUAL managers: swap / pvMergeFast / loops; dst in iteration order
//   xi <cat> <kind> <idx> <dst> <b0>   Extract the idx-th item of a one-bucket HashSet, Insert(ExtractedItem&&) into dst
//   sh <cat> ins|rem <n> <idx> <cnt>   ArrayShifter::InsertNogrow / Remove on a reserved momo::Array
// For hm/tm/lm/xi/sh the operation is repeated with the k-th step of <kind> failing, k = 0,1,2,... until the
// injection no longer fires; the line is the sequence of observed behaviours with consecutive duplicates removed.
#include "c10_common.h"
#include <momo/stdish/set.h>
using namespace c10;

static const size_t BC = 8;         // bucket count of the reserved source / destination hash sets (checked)

template<typename Set>
static std::vector<int64_t> contents(const Set& s) { std::vector<int64_t> r; for (const auto& e : s) r.push_back(e.Value()); return r; }

template<typename HS>
static std::string layout(HS& s)    // per bucket, storage order: "b0|b1|..."  ("-" = empty bucket)
{
	std::string out;
	if (s.mBuckets == nullptr) return "null";
	if (s.mBuckets->GetNextBuckets() != nullptr) return "multi-generation";
	auto& bk = *s.mBuckets;
	for (size_t i = 0; i < bk.GetCount(); ++i)
	{
		auto bounds = bk[i].GetBounds(bk.GetBucketParams());
		std::vector<int64_t> v;
		for (auto it = bounds.GetBegin(); it != bounds.GetEnd(); ++it) v.push_back(it->Value());
		if (i) out += "|";
		out += join(v);
	}
	return out;
}

static std::string dedupe_join(const std::vector<std::string>& bs)
{
	std::string out;
	for (size_t i = 0; i < bs.size(); ++i)
	{
		if (i && bs[i] == bs[i - 1]) continue;
		if (!out.empty()) out += " || ";
		out += bs[i];
	}
	return out;
}

static bool g_fired = false;
// run `body(result)` under failure index k of `kind` for k = 0.. ; body builds everything afresh
template<typename Body>
static std::string enumerate(int kind, Body body)
{
	std::vector<std::string> bs;
	for (long k = 0; k < 5000; ++k)
	{
		g_fired = false;
		std::string b = body(kind, k);
		bool f = g_fired;
		kit::W().disarm();
		std::string sum = kit::summary();
		kit::W().errors.clear();
		if (sum != "0 0 0") b += " LEAK(" + sum + ")";
		bs.push_back(b);
		if (!f) return dedupe_join(bs);
	}
	return "TOO-MANY-FAILURE-POINTS";
}

// ------------------------------------------------------------------------------------------- om
template<int C>
static std::string run_om(const std::string& op, long k, int64_t a, int64_t b)
{
	typedef LE<C> E;
	typedef momo::internal::ObjectManager<E, kit::MM> OM;
	kit::MM mm(1);
	alignas(E) unsigned char buf[3][sizeof(E)];
	E* src = reinterpret_cast<E*>(buf[0]); E* mid = reinterpret_cast<E*>(buf[1]); E* dst = reinterpret_cast<E*>(buf[2]);
	::new(src) E(a);
	bool two = (op != "reloc");
	if (two) ::new(mid) E(b);
	kit::W().log.clear(); kit::W().logging = true;
	kit::W().arm(-1, k, -1);
	std::string st = "S";
	try
	{
		if (op == "reloc") OM::Relocate(mm, *src, dst);
		else if (op == "replace") OM::Replace(mm, *src, *mid);
		else OM::ReplaceRelocate(mm, *src, *mid, dst);
	}
	catch (const kit::InjectedCopy&) { st = "E"; }
	kit::W().disarm();
	std::string tr = value_trace();
	kit::W().logging = false;
	auto show = [] (E* p) { return kit::W().objs.count(static_cast<kit::ElemT<C>*>(p)) ? std::to_string(p->Value()) : std::string("raw"); };
	std::string out = st + " src=" + show(src) + " mid=" + (two ? show(mid) : "raw") + " dst=" + show(dst) + " " + tr;
	for (E* p : { src, mid, dst }) if (kit::W().objs.count(static_cast<kit::ElemT<C>*>(p))) p->~E();
	std::string sum = kit::summary(); kit::W().errors.clear();
	if (sum != "0 0 0") out += " LEAK(" + sum + ")";
	return out;
}

// ------------------------------------------------------------------------------------------- hm
template<typename E, typename Dst>
static std::string run_hm_dst(int kind, const std::vector<int64_t>& dstv, const std::vector<std::vector<int64_t>>& bks, bool full)
{
	return enumerate(kind, [&] (int kd, long k) -> std::string
	{
		std::string out;
		{
			HSet<E> src(htraits<HSet<E>>(), kit::MM(1));
			Dst dst = Dst(typename Dst::ContainerTraitsAlias(), kit::MM(2));
			src.Reserve(20);
			size_t total = dstv.size();
			for (auto& b : bks) for (int64_t v : b) { src.Insert(E(v)); ++total; }
			dst.reserve_if(total + 20);
			for (int64_t v : dstv) dst.set.Insert(E(v));
			if (src.mBuckets == nullptr || src.mBuckets->GetCount() != BC) return "BAD-BUCKET-COUNT";
			std::string want; for (size_t i = 0; i < bks.size(); ++i) { if (i) want += "|"; want += join(bks[i]); }
			if (layout(src) != want) return "BAD-LAYOUT " + layout(src);
			kit::W().log.clear(); kit::W().logging = true;
			arm_kind(kd, k);
			std::string st = "S";
			try { src.MergeTo(dst.set); }
			catch (const std::bad_alloc&) { st = "Ea"; } catch (const kit::InjectedCopy&) { st = "Ec"; } catch (const kit::InjectedFunc&) { st = "Ef"; }
			bool f = fired(kd);
			kit::W().disarm();
			std::string tr = value_trace();
			kit::W().logging = false;
			uint64_t nc = 0; for (auto& e : kit::W().log) if (e[0] == 'C' && (e[1] == ' ' || e[1] == 'A') && e[2] != 'o') ++nc;
			out = st + " src=" + layout(src) + " dst=" + join_sorted(contents(dst.set));
			if (full) out += " " + tr;
			else if (E::movable) out += std::string(" copies=") + (nc == 0 ? "0" : "SOME");
			// usable afterwards
			size_t n0 = dst.set.GetCount();
			dst.set.Insert(E(99999)); if (dst.set.GetCount() != n0 + 1) out += " UNUSABLE";
			g_fired = f;
		}
		return out;
	});
}

template<typename E> struct DstH
{
	typedef typename HSet<E>::HashTraits ContainerTraitsAlias;
	HSet<E> set;
	DstH(const ContainerTraitsAlias&, kit::MM mm) : set(htraits<HSet<E>>(), std::move(mm)) {}
	void reserve_if(size_t n) { set.Reserve(n); }
};
template<typename E, bool multi> struct DstT
{
	typedef typename TSet<E, multi>::TreeTraits ContainerTraitsAlias;
	TSet<E, multi> set;
	DstT(const ContainerTraitsAlias&, kit::MM mm) : set(ContainerTraitsAlias(), std::move(mm)) {}
	void reserve_if(size_t) {}
};

template<int C>
static std::string run_hm(const std::vector<std::string>& w)
{
	typedef LE<C> E;
	int kind = kind_of(w[2]);
	std::vector<int64_t> dstv = ints(w[4]);
	std::vector<std::vector<int64_t>> bks;
	for (size_t i = 5; i < w.size(); ++i) bks.push_back(ints(w[i]));
	while (bks.size() < BC) bks.push_back({});
	if (w[3] == "h") return run_hm_dst<E, DstH<E>>(kind, dstv, bks, true);
	if (w[3] == "t") return run_hm_dst<E, DstT<E, false>>(kind, dstv, bks, false);
	return run_hm_dst<E, DstT<E, true>>(kind, dstv, bks, false);
}

// ------------------------------------------------------------------------------------------- tm / lm
template<typename E, typename Src, typename Dst>
static std::string run_tm_dst(int kind, const std::vector<int64_t>& dstv, const std::vector<int64_t>& srcv, int srcMgr, int dstMgr, bool inorder = false)
{
	return enumerate(kind, [&] (int kd, long k) -> std::string
	{
		std::string out;
		{
			Dst dst = Dst(typename Dst::ContainerTraitsAlias(), kit::MM(dstMgr));     // the source is destroyed first
			Src src = Src(typename Src::ContainerTraitsAlias(), kit::MM(srcMgr));
			dst.reserve_if(dstv.size() + srcv.size() + 20);
			for (int64_t v : srcv) src.set.Insert(E(v));
			for (int64_t v : dstv) dst.set.Insert(E(v));
			kit::W().log.clear(); kit::W().logging = true;
			arm_kind(kd, k);
			std::string st = "S";
			try { src.set.MergeTo(dst.set); }
			catch (const std::bad_alloc&) { st = "Ea"; } catch (const kit::InjectedCopy&) { st = "Ec"; } catch (const kit::InjectedFunc&) { st = "Ef"; }
			bool f = fired(kd);
			kit::W().disarm();
			kit::W().logging = false;
			uint64_t nc = 0; for (auto& e : kit::W().log) if (e[0] == 'C' && (e[1] == ' ' || e[1] == 'A') && e[2] != 'o') ++nc;
			{	// structural validity first: walking an invalid tree would follow dangling pointers
				std::string e1 = check_tree(src.set, 0), e2 = check_tree(dst.set, 0);
				if (!e1.empty() || !e2.empty())
				{
					g_fired = false;
					return st + " INVALID-TREE(" + (e1.empty() ? "destination: " + e2 : "source: " + e1) + ")";
				}
			}
			out = st + " src=" + join_sorted(contents(src.set)) + " dst=" + (inorder ? join(contents(dst.set)) : join_sorted(contents(dst.set)));
			if (E::movable) out += std::string(" copies=") + (nc == 0 ? "0" : "SOME");
			size_t n0 = dst.set.GetCount();
			dst.set.Insert(E(99999)); if (dst.set.GetCount() != n0 + 1) out += " UNUSABLE";
			src.set.Insert(E(99998));
			g_fired = f;
		}
		return out;
	});
}
template<typename E, bool multi> struct DstTD
{
	typedef typename TSetD<E, multi>::TreeTraits ContainerTraitsAlias;
	TSetD<E, multi> set;
	DstTD(const ContainerTraitsAlias&, kit::MM mm) : set(ContainerTraitsAlias(), std::move(mm)) {}
	void reserve_if(size_t) {}
};

template<int C>
static std::string run_tm(const std::vector<std::string>& w)
{
	typedef LE<C> E;
	int kind = kind_of(w[2]);
	std::vector<int64_t> dstv = ints(w[4]), srcv = ints(w[5]);
	if (w[0] == "fm")     // equal managers: swap / pvMergeFast / loops; destination printed in iteration order
	{
		if (w[3] == "1") return run_tm_dst<E, DstTD<E, true>, DstTD<E, true>>(kind, dstv, srcv, 1, 1, true);
		return run_tm_dst<E, DstTD<E, false>, DstTD<E, false>>(kind, dstv, srcv, 1, 1, true);
	}
	if (w[0] == "lm")
	{
		if (w[3] == "1") return run_tm_dst<E, DstTD<E, true>, DstTD<E, true>>(kind, dstv, srcv, 1, 2);
		return run_tm_dst<E, DstTD<E, false>, DstTD<E, false>>(kind, dstv, srcv, 1, 2);
	}
	if (w[3] == "h") return run_tm_dst<E, DstT<E, false>, DstH<E>>(kind, dstv, srcv, 1, 2);
	if (w[3] == "t") return run_tm_dst<E, DstT<E, false>, DstT<E, false>>(kind, dstv, srcv, 1, 2);
	return run_tm_dst<E, DstT<E, true>, DstT<E, true>>(kind, dstv, srcv, 1, 2);
}

// ------------------------------------------------------------------------------------------- xi
template<int C>
static std::string run_xi(const std::vector<std::string>& w)
{
	typedef LE<C> E;
	int kind = kind_of(w[2]);
	size_t idx = size_t(std::stoul(w[3]));
	std::vector<int64_t> dstv = ints(w[4]), b0 = ints(w[5]);
	return enumerate(kind, [&] (int kd, long k) -> std::string
	{
		std::string out;
		{
			HSet<E> src(htraits<HSet<E>>(), kit::MM(1));
			HSet<E> dst(htraits<HSet<E>>(), kit::MM(1));
			src.Reserve(20); dst.Reserve(40);
			for (int64_t v : b0) src.Insert(E(v));
			for (int64_t v : dstv) dst.Insert(E(v));
			if (src.mBuckets->GetCount() != BC) return "BAD-BUCKET-COUNT";
			// position of the idx-th item (storage order) of bucket 0
			typename HSet<E>::ConstIterator it = src.GetBegin();
			{
				auto bounds = (*src.mBuckets)[0].GetBounds(src.mBuckets->GetBucketParams());
				if (bounds.GetCount() != b0.size()) return "BAD-LAYOUT";
				int64_t want = std::next(bounds.GetBegin(), idx)->Value();
				while (it->Value() != want) ++it;
			}
			kit::W().log.clear(); kit::W().logging = true;
			arm_kind(kd, k);
			std::string st = "S", hold = "none", ins = "?";
			try
			{
				typename HSet<E>::ExtractedItem ext = src.Extract(it);
				try
				{
					if (w[0] == "xa") { dst.Add(dst.Find(ext.GetItem()), std::move(ext)); ins = "ins"; }
					else { auto res = dst.Insert(std::move(ext)); ins = res.inserted ? "ins" : "dup"; }
				}
				catch (...)
				{
					hold = ext.IsEmpty() ? "none" : std::to_string(ext.GetItem().Value());
					kit::W().ev("H");      // holder destructor follows
					throw;
				}
				hold = ext.IsEmpty() ? "none" : std::to_string(ext.GetItem().Value());
				kit::W().ev("H");
			}
			catch (const std::bad_alloc&) { st = "Ea"; } catch (const kit::InjectedCopy&) { st = "Ec"; } catch (const kit::InjectedFunc&) { st = "Ef"; }
			bool f = fired(kd);
			kit::W().disarm();
			std::string tr = value_trace();
			kit::W().logging = false;
			out = st + " " + ins + " src=" + layout(src).substr(0, layout(src).find('|')) + " dst=" + join_sorted(contents(dst)) + " holder=" + hold + " " + tr;
			g_fired = f;
		}
		return out;
	});
}

// ------------------------------------------------------------------------------------------- sh
template<int C>
static std::string run_sh(const std::vector<std::string>& w)
{
	typedef LE<C> E;
	typedef momo::Array<E, kit::MM> Arr;
	bool ins = (w[2] == "ins");
	size_t n = std::stoul(w[3]), idx = std::stoul(w[4]), cnt = std::stoul(w[5]);
	return enumerate(K_COPY, [&] (int kd, long k) -> std::string
	{
		std::string out;
		{
			Arr arr{ kit::MM(1) };
			arr.Reserve(n + cnt + 2);
			for (size_t i = 0; i < n; ++i) arr.AddBackNogrow(E(int64_t(100 + i)));
			std::vector<E> items;
			items.reserve(cnt);
			for (size_t i = 0; i < cnt; ++i) items.emplace_back(int64_t(200 + i));
			kit::W().log.clear(); kit::W().logging = true;
			arm_kind(kd, k);
			std::string st = "S";
			try
			{
				if (ins) Arr::ArrayShifter::InsertNogrow(arr, idx, items.begin(), cnt);     // copies from the range
				else Arr::ArrayShifter::Remove(arr, idx, cnt);
			}
			catch (const kit::InjectedCopy&) { st = "Ec"; }
			bool f = fired(kd);
			kit::W().disarm();
			std::string tr = value_trace();
			kit::W().logging = false;
			std::vector<int64_t> v; for (size_t i = 0; i < arr.GetCount(); ++i) v.push_back(arr[i].Value());
			out = st + " count=" + std::to_string(arr.GetCount()) + " items=" + join(v) + " " + tr;
			g_fired = f;
		}
		return out;
	});
}

// ------------------------------------------------------------------------------------------- eh / hs (holder state machine, hinted node insert)
//   eh <cat> <op> <op> ...      a real SetExtractedItem driven through an op sequence; after every op its mHasItem byte is printed
//                               ops: c<v> Create(item v) | C<v> Create with a throwing creator | r Remove | R Remove with a throwing remover
//                                    | x Clear | e IsEmpty        (sequences never violate the MOMO_CHECK preconditions)
//   hs <cat> <kind> <hintpos> <hint_ok> <idx> <dst> <src>   stdish::set: extract the idx-th element of src, dst.insert(begin+hintpos, node)
struct EhThrow {};
template<int C>
static std::string run_eh(const std::vector<std::string>& w)
{
	typedef LE<C> E;
	typedef typename HSet<E>::ExtractedItem EI;
	std::string out;
	{
		EI ei;
		for (size_t i = 2; i < w.size(); ++i)
		{
			char op = w[i][0]; int64_t v = w[i].size() > 1 ? std::stoll(w[i].substr(1)) : 0;
			std::string st = "S";
			try
			{
				if (op == 'c') ei.Create([v] (E* p) { ::new(static_cast<void*>(p)) E(v); });
				else if (op == 'C') ei.Create([] (E*) { throw EhThrow(); });
				else if (op == 'r') ei.Remove([] (E& item) { item.~E(); });
				else if (op == 'R') ei.Remove([] (E&) { throw EhThrow(); });
				else if (op == 'x') ei.Clear();
				else if (op == 'e') st = ei.IsEmpty() ? "empty" : "full";
			}
			catch (const EhThrow&) { st = "E"; }
			if (!out.empty()) out += " ";
			out += st + ":" + (ei.mHasItem ? "1" : "0");
		}
	}
	std::string sum = kit::summary(); kit::W().errors.clear();
	if (sum != "0 0 0") out += " LEAK(" + sum + ")";
	return out;
}
template<int C>
static std::string run_hs(const std::vector<std::string>& w)
{
	typedef LE<C> E;
	typedef momo::stdish::set<E, KLess> Set;
	int kind = kind_of(w[2]);
	size_t hintpos = std::stoul(w[3]), idx = std::stoul(w[5]);
	std::vector<int64_t> dstv = ints(w[6]), srcv = ints(w[7]);
	return enumerate(kind, [&] (int kd, long k) -> std::string
	{
		std::string out;
		{
			Set src, dst;
			for (int64_t v : srcv) src.insert(E(v));
			for (int64_t v : dstv) dst.insert(E(v));
			auto it = src.begin(); std::advance(it, idx);
			auto hint = dst.begin(); std::advance(hint, hintpos);
			kit::W().log.clear(); kit::W().logging = true;
			arm_kind(kd, k);
			std::string st = "S", hold = "none";
			try
			{
				auto node = src.extract(it);
				try { dst.insert(hint, std::move(node)); }
				catch (...) { hold = node.empty() ? "none" : std::to_string(node.value().Value()); throw; }
				hold = node.empty() ? "none" : std::to_string(node.value().Value());
			}
			catch (const std::bad_alloc&) { st = "Ea"; } catch (const kit::InjectedCopy&) { st = "Ec"; } catch (const kit::InjectedFunc&) { st = "Ef"; }
			bool f = fired(kd);
			kit::W().disarm();
			kit::W().logging = false;
			uint64_t nc = 0; for (auto& e : kit::W().log) if (e[0] == 'C' && (e[1] == ' ' || e[1] == 'A') && e[2] != 'o') ++nc;
			std::vector<int64_t> dv; for (const auto& e : dst) dv.push_back(e.Value());
			std::vector<int64_t> sv; for (const auto& e : src) sv.push_back(e.Value());
			out = st + " src=" + join_sorted(sv) + " dst=" + join_sorted(dv) + " holder=" + hold;
			if (E::movable) out += std::string(" copies=") + (nc == 0 ? "0" : "SOME");
			g_fired = f;
		}
		return out;
	});
}

// ------------------------------------------------------------------------------------------- ir / rp (bulk insert / remove)
//   ir <cat> <kind> <dst> <args>          HashSet (reserved, Open8): Insert(args.begin(), args.end())
//   rp <cat> <kind> <mod> <b0> <b1> ...   HashSet with the given bucket layout: Remove(pred), pred(x) = key(x) % mod == 0 (a func step)
template<int C>
static std::string run_ir(const std::vector<std::string>& w)
{
	typedef LE<C> E;
	int kind = kind_of(w[2]);
	std::vector<int64_t> dstv = ints(w[3]), argv = ints(w[4]);
	return enumerate(kind, [&] (int kd, long k) -> std::string
	{
		std::string out;
		{
			HSet<E> set(htraits<HSet<E>>(), kit::MM(1));
			set.Reserve(100);
			for (int64_t v : dstv) set.Insert(E(v));
			std::vector<E> args; args.reserve(argv.size());
			for (int64_t v : argv) args.emplace_back(v);
			kit::W().log.clear(); kit::W().logging = true;
			arm_kind(kd, k);
			std::string st = "S";
			try { set.Insert(args.begin(), args.end()); }
			catch (const std::bad_alloc&) { st = "Ea"; } catch (const kit::InjectedCopy&) { st = "Ec"; } catch (const kit::InjectedFunc&) { st = "Ef"; }
			bool f = fired(kd);
			kit::W().disarm();
			std::string tr = value_trace();
			kit::W().logging = false;
			out = st + " dst=" + join_sorted(contents(set)) + " " + tr;
			for (size_t i = 0; i < args.size(); ++i) if (args[i].Value() != argv[i]) out += " ARGS-MODIFIED";
			size_t n = 0; for (const auto& e : set) { (void)e; ++n; } if (n != set.GetCount()) out += " UNUSABLE";
			g_fired = f;
		}
		return out;
	});
}
template<int C>
static std::string run_rp(const std::vector<std::string>& w)
{
	typedef LE<C> E;
	int kind = kind_of(w[2]);
	int64_t mod = std::stoll(w[3]);
	std::vector<std::vector<int64_t>> bks;
	for (size_t i = 4; i < w.size(); ++i) bks.push_back(ints(w[i]));
	while (bks.size() < BC) bks.push_back({});
	return enumerate(kind, [&] (int kd, long k) -> std::string
	{
		std::string out;
		{
			HSet<E> src(htraits<HSet<E>>(), kit::MM(1));
			src.Reserve(20);
			for (auto& b : bks) for (int64_t v : b) src.Insert(E(v));
			if (src.mBuckets == nullptr || src.mBuckets->GetCount() != BC) return "BAD-BUCKET-COUNT";
			std::string want; for (size_t i = 0; i < bks.size(); ++i) { if (i) want += "|"; want += join(bks[i]); }
			if (layout(src) != want) return "BAD-LAYOUT " + layout(src);
			auto pred = [mod] (const E& e) { kit::W().step_func(); return keyof(e.Value()) % mod == 0; };
			kit::W().log.clear(); kit::W().logging = true;
			arm_kind(kd, k);
			std::string st = "S";
			try { src.Remove(pred); }
			catch (const std::bad_alloc&) { st = "Ea"; } catch (const kit::InjectedCopy&) { st = "Ec"; } catch (const kit::InjectedFunc&) { st = "Ef"; }
			bool f = fired(kd);
			kit::W().disarm();
			std::string tr = value_trace();
			kit::W().logging = false;
			out = st + " src=" + layout(src) + " " + tr;
			size_t n = 0; for (const auto& e : src) { (void)e; ++n; } if (n != src.GetCount()) out += " UNUSABLE";
			src.Insert(E(99999));
			g_fired = f;
		}
		return out;
	});
}

// ------------------------------------------------------------------------------------------- pm / px (maps)
//   pm <kc> <vc> <op> <k> <ks> <vs> <km> <vm>   MapKeyValueTraits mechanism on raw buffers: op = reloc | replace | reprel
//   px <kc> <vc> <kind> <idx> <dstpairs> <b0pairs>   HashMap: Extract the idx-th pair of a one-bucket map, Insert(ExtractedPair&&)
//   pairs are written key:value, lists comma separated
template<int KC, int VC>
static std::string run_pm(const std::string& op, long k, int64_t ks, int64_t vs, int64_t km, int64_t vm)
{
	typedef LE<KC> K; typedef LE<VC> V;
	typedef momo::internal::MapKeyValueTraits<K, V, kit::MM> KVT;
	kit::MM mm(1);
	alignas(K) unsigned char kb[3][sizeof(K)]; alignas(V) unsigned char vb[3][sizeof(V)];
	K* kp[3]; V* vp[3];
	for (int i = 0; i < 3; ++i) { kp[i] = reinterpret_cast<K*>(kb[i]); vp[i] = reinterpret_cast<V*>(vb[i]); }
	::new(kp[0]) K(ks); ::new(vp[0]) V(vs);
	bool two = (op != "reloc");
	if (two) { ::new(kp[1]) K(km); ::new(vp[1]) V(vm); }
	kit::W().log.clear(); kit::W().logging = true;
	kit::W().arm(-1, k, -1);
	std::string st = "S";
	try
	{
		if (op == "reloc") KVT::Relocate(&mm, *kp[0], *vp[0], kp[2], vp[2]);
		else if (op == "replace") KVT::Replace(mm, *kp[0], *vp[0], *kp[1], *vp[1]);
		else KVT::ReplaceRelocate(mm, *kp[0], *vp[0], *kp[1], *vp[1], kp[2], vp[2]);
	}
	catch (const kit::InjectedCopy&) { st = "E"; }
	kit::W().disarm();
	std::string tr = value_trace();
	kit::W().logging = false;
	auto live = [] (const void* p) { return kit::W().objs.count(p) != 0; };
	auto showk = [&] (K* p) { return live(static_cast<kit::ElemT<KC>*>(p)) ? std::to_string(p->Value()) : std::string("raw"); };
	auto showv = [&] (V* p) { return live(static_cast<kit::ElemT<VC>*>(p)) ? std::to_string(p->Value()) : std::string("raw"); };
	std::string out = st;
	const char* names[3] = { " src=", " mid=", " dst=" };
	for (int i = 0; i < 3; ++i) out += names[i] + showk(kp[i]) + ":" + showv(vp[i]);
	out += " " + tr;
	for (int i = 0; i < 3; ++i)
	{
		if (live(static_cast<kit::ElemT<KC>*>(kp[i]))) kp[i]->~K();
		if (live(static_cast<kit::ElemT<VC>*>(vp[i]))) vp[i]->~V();
	}
	std::string sum = kit::summary(); kit::W().errors.clear();
	if (sum != "0 0 0") out += " LEAK(" + sum + ")";
	return out;
}

struct HMapSettings : momo::HashMapSettings { static const momo::ExtraCheckMode extraCheckMode = momo::ExtraCheckMode::nothing; };
static std::vector<std::pair<int64_t, int64_t>> pairs_of(const std::string& s)
{
	std::vector<std::pair<int64_t, int64_t>> r; if (s == "-") return r;
	for (auto& t : split(s, ',')) { size_t c = t.find(':'); r.push_back({ std::stoll(t.substr(0, c)), std::stoll(t.substr(c + 1)) }); }
	return r;
}
template<int KC, int VC>
static std::string run_px(const std::vector<std::string>& w)
{
	typedef LE<KC> K; typedef LE<VC> V;
	typedef momo::HashMap<K, V, momo::HashTraitsStd<K, KHash, KEq, momo::HashBucketOpen8>, kit::MM,
		momo::HashMapKeyValueTraits<K, V, kit::MM>, HMapSettings> Map;
	int kind = kind_of(w[3]);
	size_t idx = size_t(std::stoul(w[4]));
	auto dstv = pairs_of(w[5]), b0 = pairs_of(w[6]);
	auto show_pairs = [] (std::vector<std::pair<int64_t, int64_t>> v, bool sorted)
	{
		if (sorted) std::sort(v.begin(), v.end());
		if (v.empty()) return std::string("-");
		std::string s; for (size_t i = 0; i < v.size(); ++i) { if (i) s += ","; s += std::to_string(v[i].first) + ":" + std::to_string(v[i].second); }
		return s;
	};
	return enumerate(kind, [&] (int kd, long k) -> std::string
	{
		std::string out;
		{
			Map src(typename Map::HashTraits(8, KHash(kit::IDENT), KEq()), kit::MM(1));
			Map dst(typename Map::HashTraits(8, KHash(kit::IDENT), KEq()), kit::MM(1));
			src.Reserve(12); dst.Reserve(24);
			for (auto& p : b0) src.Insert(K(p.first), V(p.second));
			for (auto& p : dstv) dst.Insert(K(p.first), V(p.second));
			auto& hs = src.mHashSet;
			if (hs.mBuckets == nullptr || hs.mBuckets->GetNextBuckets() != nullptr) return "BAD-BUCKETS";
			auto bucket0 = [&] ()
			{
				std::vector<std::pair<int64_t, int64_t>> v;
				auto bounds = (*hs.mBuckets)[0].GetBounds(hs.mBuckets->GetBucketParams());
				for (auto it = bounds.GetBegin(); it != bounds.GetEnd(); ++it) v.push_back({ it->GetKeyPtr()->Value(), it->GetValuePtr()->Value() });
				return v;
			};
			if (bucket0().size() != b0.size() || src.GetCount() != b0.size()) return "BAD-LAYOUT " + show_pairs(bucket0(), false);
			int64_t wantKey = bucket0()[idx].first;
			typename Map::ConstIterator it = src.GetBegin();
			while (it->key.Value() != wantKey) ++it;
			kit::W().log.clear(); kit::W().logging = true;
			arm_kind(kd, k);
			std::string st = "S", hold = "none", ins = "?";
			auto hshow = [] (typename Map::ExtractedPair& e) { return e.IsEmpty() ? std::string("none") : std::to_string(e.GetKey().Value()) + ":" + std::to_string(e.GetValue().Value()); };
			try
			{
				typename Map::ExtractedPair ext = src.Extract(it);
				try { auto res = dst.Insert(std::move(ext)); ins = res.inserted ? "ins" : "dup"; }
				catch (...) { hold = hshow(ext); kit::W().ev("H"); throw; }
				hold = hshow(ext); kit::W().ev("H");
			}
			catch (const std::bad_alloc&) { st = "Ea"; } catch (const kit::InjectedCopy&) { st = "Ec"; } catch (const kit::InjectedFunc&) { st = "Ef"; }
			bool f = fired(kd);
			kit::W().disarm();
			std::string tr = value_trace();
			kit::W().logging = false;
			std::vector<std::pair<int64_t, int64_t>> dv; for (auto ref : dst) dv.push_back({ ref.key.Value(), ref.value.Value() });
			out = st + " " + ins + " src=" + show_pairs(bucket0(), false) + " dst=" + show_pairs(dv, true) + " holder=" + hold + " " + tr;
			g_fired = f;
		}
		return out;
	});
}
// ------------------------------------------------------------------------------------------- ec / sw (direct runs of generated functions)
//   ec <cat> <h|t> <throws> <corrupt> <n> <i>   the REAL private pvExtraCheck of a HashSet (h) / TreeSet (t) holding keys 1..n, called
//        on the position of the i-th key; throws=1: the first user functor call inside the check throws; corrupt=1 / 2: the
//        item's value was overwritten in place so that its key reads 96 (an empty bucket, above every key) / 0 (a container the check must reject)
//   sw <cat> <n1> <n2>     the REAL TreeSet::Swap: the four fields of both objects are named 1..8 before the call and the names
//        found in the eight fields are printed after it
template<typename S, typename It>
static std::string ec_call(S& set, It pos, int throws, int corrupt)
{
	typedef typename S::Item E;
	int64_t* cell = const_cast<E&>(*pos).p;
	int64_t old = *cell;
	if (corrupt == 1) *cell = 9600; else if (corrupt == 2) *cell = 0;
	arm_kind(K_FUNC, throws ? 0 : -1);
	bool r = set.pvExtraCheck(pos);
	bool f = throws && fired(K_FUNC);
	arm_kind(K_FUNC, -1);
	*cell = old;
	return std::string("ec=") + (r ? "1" : "0") + " threw=" + (f ? "1" : "0");
}
template<int C>
static std::string run_ec(const std::vector<std::string>& w)
{
	typedef LE<C> E;
	int throws = std::stoi(w[3]), corrupt = std::stoi(w[4]); int64_t n = std::stoll(w[5]), i = std::stoll(w[6]);
	std::string out;
	if (w[2] == "h")
	{
		HSet<E> set(htraits<HSet<E>>());
		for (int64_t k = 1; k <= n; ++k) set.Insert(E(k * 100));
		out = ec_call(set, set.Find(E((i + 1) * 100)), throws, corrupt);
	}
	else
	{
		TSet<E> set;
		for (int64_t k = 1; k <= n; ++k) set.Insert(E(k * 100));
		out = ec_call(set, set.Find(E((i + 1) * 100)), throws, corrupt);
	}
	std::string sum = kit::summary(); kit::W().errors.clear();
	if (sum != "0 0 0") out += " LEAK(" + sum + ")";
	return out;
}
template<int C>
static std::string run_sw(const std::vector<std::string>& w)
{
	typedef LE<C> E;
	int64_t n1 = std::stoll(w[2]), n2 = std::stoll(w[3]);
	std::string out;
	{
		TSetD<E> a, b;
		for (int64_t k = 1; k <= n1; ++k) a.Insert(E(k * 100));
		for (int64_t k = 1; k <= n2; ++k) b.Insert(E((50 + k) * 100));
		auto fields = [] (const TSetD<E>& s, int f) -> uint64_t
		{
			return f == 0 ? uint64_t(reinterpret_cast<uintptr_t>(s.mCrew.mData)) : f == 1 ? uint64_t(s.mCount)
				: f == 2 ? uint64_t(reinterpret_cast<uintptr_t>(s.mRootNode)) : uint64_t(reinterpret_cast<uintptr_t>(s.mNodeParams));
		};
		uint64_t before[8];
		for (int f = 0; f < 4; ++f) { before[f] = fields(a, f); before[4 + f] = fields(b, f); }
		a.Swap(b);
		for (int j = 0; j < 8; ++j)
		{
			int f = j % 4; uint64_t v = fields(j < 4 ? a : b, f);
			// a name is looked up among the values of the same field kind only
			int name = v == before[f] ? f + 1 : v == before[4 + f] ? 4 + f + 1 : 0;
			if (v == before[f] && v == before[4 + f]) name = -1;     // ambiguous: the generator keeps n1 != n2
			out += (j ? " " : "") + std::to_string(name);
		}
		std::vector<int64_t> ia, ib;
		for (const E& e : a) ia.push_back(e.Value());
		for (const E& e : b) ib.push_back(e.Value());
		out += " a=" + join(ia) + " b=" + join(ib);
		std::string t = check_tree(a, 0); if (t.empty()) t = check_tree(b, 0);
		if (!t.empty()) out += " INVALID-TREE(" + t + ")";
	}
	std::string sum = kit::summary(); kit::W().errors.clear();
	if (sum != "0 0 0") out += " LEAK(" + sum + ")";
	return out;
}
template<int KC>
static std::string dispatch_pair(const std::vector<std::string>& w)
{
	const std::string& vc = w[2];
	if (w[0] == "pm")
	{
		long k = std::stol(w[4]); int64_t a = std::stoll(w[5]), b = std::stoll(w[6]), c = std::stoll(w[7]), d = std::stoll(w[8]);
		if (vc == "NTM") return run_pm<KC, kit::NTM>(w[3], k, a, b, c, d);
		if (vc == "SMH") return run_pm<KC, kit::SMH>(w[3], k, a, b, c, d);
		if (vc == "THM") return run_pm<KC, kit::THM>(w[3], k, a, b, c, d);
		return run_pm<KC, kit::CPY>(w[3], k, a, b, c, d);
	}
	// px: same category for key and value, or one of them NTM
	if (vc == w[1]) return run_px<KC, KC>(w);
	if (vc == "NTM") return run_px<KC, kit::NTM>(w);
	return "UNSUPPORTED-PAIR";
}

template<int C>
static std::string dispatch(const std::vector<std::string>& w)
{
	if (w[0] == "pm" || w[0] == "px") return dispatch_pair<C>(w);
	if (w[0] == "om") return run_om<C>(w[2], std::stol(w[3]), std::stoll(w[4]), std::stoll(w[5]));
	if (w[0] == "hm") return run_hm<C>(w);
	if (w[0] == "tm" || w[0] == "lm" || w[0] == "fm") return run_tm<C>(w);
	if (w[0] == "xi" || w[0] == "xa") return run_xi<C>(w);
	if (w[0] == "eh") return run_eh<C>(w);
	if (w[0] == "hs") return run_hs<C>(w);
	if (w[0] == "ec") return run_ec<C>(w);
	if (w[0] == "sw") return run_sw<C>(w);
	if (w[0] == "ir") return run_ir<C>(w);
	if (w[0] == "rp") return run_rp<C>(w);
	if (w[0] == "sh") return run_sh<C>(w);
	return "?";
}

int main()
{
	std::string line;
	while (std::getline(std::cin, line))
	{
		std::vector<std::string> w = split(line);
		std::string out = "?";
		if (w.size() >= 2)
		{
			try
			{
				if (w[1] == "NTM") out = dispatch<kit::NTM>(w);
				else if (w[1] == "SMH") out = dispatch<kit::SMH>(w);
				else if (w[1] == "THM") out = dispatch<kit::THM>(w);
				else if (w[1] == "CPY") out = dispatch<kit::CPY>(w);
			}
			catch (const std::exception& e) { out = std::string("HARNESS-EXCEPTION ") + e.what(); }
		}
		std::cout << out << "\n";
	}
	return 0;
}
