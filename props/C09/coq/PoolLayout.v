(* C09 (a): the parts of pvNewBuffer / pvNewBlock1 / pvDeleteBlock1 / pvCheckParams that are NOT machine-translated,
   hand-modelled line by line on top of the generated leaves (executable; validated against the real code:
   nbuf / nb1 / hist-constructor cases). *)
From Coq Require Import ZArith List Bool Lia.
From MomoCommon Require Import GenPrelude.
From C09 Require Gen_UIntMath Gen_MemPoolConst Gen_MemPool.
Import ListNotations.
Local Open Scope Z_scope.

(* pvNewBuffer lines 605-622: generated prefix (605-618, incl. MOMO_ASSERT(beginOffset < 65536)) + lines 619-621.
   Result: (first block, beginOffset, firstBlockIndex, buffer). *)
Definition new_buffer_layout (C B A begin : Z) : outcome (Z * Z * Z * Z) :=
  match Gen_MemPool.pvNewBuffer C B A begin with
  | Ok (uipBlock, beginOffset) =>
    let block := begin + beginOffset in                              (* 619 *)
    match Gen_MemPool.pvGetBlockIndex C B A block with               (* 621 *)
    | Ok (blockIndex, buffer) => Ok (block, beginOffset, blockIndex, buffer)
    | Stuck => Stuck | Fuel => Fuel | Exn => Exn
    end
  | Stuck => Stuck | Fuel => Fuel | Exn => Exn
  end.

(* the j-th block of a buffer (loop 630-635, pvDeleteBlocks 699-700): index firstBlockIndex + j as int8_t *)
Definition block_of (B A buffer first j : Z) : Z := Gen_MemPool.pvGetBlock B A buffer (wrapS 8 (first + j)).

(* byte ranges the pool itself reads/writes in a buffer whose first-block-index byte holds `first`
   (pvSet/GetFirstBlockIndex: 1 byte at buffer; BufferBytes: 2 bytes; prev, next: 8 bytes each; beginOffset: 2 bytes) *)
Definition meta_ranges (C B A buffer first : Z) : list (Z * Z) :=
  let ld := fun _ : Z => first in
  [ (buffer, 1);
    (Gen_MemPool.pvGetBufferBytesPosition C ld B A buffer, 2);
    (Gen_MemPool.pvGetPrevBufferPosition C ld B A buffer, 8);
    (Gen_MemPool.pvGetNextBufferPosition C ld B A buffer, 8);
    (Gen_MemPool.pvGetBeginOffsetPosition C ld B A buffer, 2) ].

(* pvNewBlock1 (491-504): generated; the value stored at line 501-502 is static_cast<uint16_t>(offset), 2 bytes at block + blockSize *)
Definition offset_width : Z := 2.
Definition new_block1_layout (B A buffer : Z) : outcome (Z * Z * Z) :=   (* block, position of the offset field, its value *)
  match Gen_MemPool.pvNewBlock1 B A buffer with
  | Ok block => Ok (block, block + B, wrapU 16 (block - buffer))
  | Stuck => Stuck | Fuel => Fuel | Exn => Exn
  end.

(* line 447-448: maxOverhead = pvGetAlignmentAddend() + 3*blockAlignment + sizeof(BufferBytes) + 2*sizeof(Byte* ) + sizeof(uint16_t) *)
Definition max_overhead (B A : Z) : Z := Gen_MemPool.pvGetAlignmentAddend B A + 3 * A + 2 + 2 * 8 + 2.

(* pvCheckParams (443-452) under the default settings (checks are assertions): true = passes, no throw *)
Definition check_params (C B A : Z) : bool :=
  Gen_MemPoolConst.CheckBlockCount C && Gen_MemPoolConst.CheckBlockAlignment A && (0 <? B)
  && ((C =? 1) || (B mod A =? 0)) && ((C =? 1) || (2 <=? B / A))
  && negb (B >? (18446744073709551615 - max_overhead B A) / C).                       (* 447-450, after fix e4ec548 *)

(* the three-way choice of Allocate (297-302) and pvDeleteBlock(void* ) (472-477) for blockCount = 1:
   alignment addend 0 -> the manager block itself (pvGetBufferSize0 bytes), else pvNewBlock1 / pvDeleteBlock1.
   alloc1 returns (block, size requested from the manager); dealloc1 returns (address, size) given back.
   The choice inside pvDeleteBlock(void* ) is also machine-translated (Gen_MemPool.pvDeleteBlock_dispatch: 1/2/3). *)
Definition alloc1 (B A begin : Z) : outcome (Z * Z) :=
  if Gen_MemPool.pvGetAlignmentAddend B A =? 0                                             (* 299 *)
  then Ok (begin, Gen_MemPool.pvGetBufferSize0 B A)                                        (* 300 *)
  else match Gen_MemPool.pvNewBlock1 B A begin with                                        (* 302 *)
       | Ok block => Ok (block, Gen_MemPool.pvGetBufferSize1 B A)
       | Stuck => Stuck | Fuel => Fuel | Exn => Exn
       end.
Definition dealloc1 (ld : Z -> Z) (B A block : Z) : Z * Z :=
  if Gen_MemPool.pvGetAlignmentAddend B A =? 0                                             (* 474 *)
  then (block, Gen_MemPool.pvGetBufferSize0 B A)                                           (* 475 *)
  else (snd (Gen_MemPool.pvDeleteBlock1 ld B A block), Gen_MemPool.pvGetBufferSize1 B A).  (* 477, 511 *)
