// instantiation TU for cxx2coq (C02): the B-tree split index and node capacity arithmetic
#include "momo/TreeSet.h"
namespace momo {
template class TreeNode<32, 4, MemPoolParams<8>, true>;
typedef TreeSet<int, TreeTraits<int, false, TreeNode<32, 4, MemPoolParams<8>, true>, true>> InstSet;
void c02_inst_use() { InstSet s; s.Insert(1); s.Remove(s.GetBegin()); }
}
