(* C04 -- register footprint: the ObjectManager mechanisms write no register other than their local `index` (rIndex).
   Needed when a caller keeps its own loop counter in another register across a call that may throw. *)
From Coq Require Import List Arith Lia Bool PeanoNat.
From C04 Require Import Effects ObjMgr.
Import ListNotations.

Definition regs_frame {A} (m : M A) : Prop := forall s r, r <> rIndex -> regs (hp (snd (m s))) r = regs (hp s) r.

Lemma rf_ret : forall A (a : A), regs_frame (ret a). Proof. intros A a s r _. reflexivity. Qed.
Lemma rf_throw : forall A, regs_frame (@throw A). Proof. intros A s r _. reflexivity. Qed.
Lemma rf_stuck : forall A, regs_frame (@stuck A). Proof. intros A s r _. reflexivity. Qed.
Lemma rf_bind : forall A B (m : M A) (k : A -> M B), regs_frame m -> (forall a, regs_frame (k a)) -> regs_frame (bind m k).
Proof.
  intros A B m k Hm Hk s r Hr. unfold bind. specialize (Hm s r Hr). destruct (m s) as [[a| |] s1]; simpl in *; auto.
  rewrite (Hk a s1 r Hr). exact Hm.
Qed.
Lemma rf_try : forall A (m h : M A), regs_frame m -> regs_frame h -> regs_frame (try_catch m h).
Proof.
  intros A m h Hm Hh s r Hr. unfold try_catch. specialize (Hm s r Hr). destruct (m s) as [[a| |] s1]; simpl in *; auto.
  rewrite (Hh s1 r Hr). exact Hm.
Qed.
Lemma rf_getc : forall l, regs_frame (getc l). Proof. intros l s r _. unfold getc. destruct (valid (hp s) l); reflexivity. Qed.
Lemma rf_putc : forall l c, regs_frame (putc l c). Proof. intros l c s r _. unfold putc. destruct (valid (hp s) l); reflexivity. Qed.
Lemma rf_emit : forall e, regs_frame (emit e). Proof. intros e s r _. reflexivity. Qed.
Lemma rf_getr : forall x, regs_frame (getr x). Proof. intros x s r _. reflexivity. Qed.
Lemma rf_setr_index : forall v, regs_frame (setr rIndex v).
Proof. intros v s r Hr. simpl. unfold updn. apply Nat.eqb_neq in Hr. rewrite Hr. reflexivity. Qed.
Lemma rf_fallible : regs_frame fallible.
Proof. intros s r _. unfold fallible. destruct (sched s) as [|[|] t]; reflexivity. Qed.
#[export] Hint Resolve rf_ret rf_throw rf_stuck rf_getc rf_putc rf_emit rf_getr rf_setr_index rf_fallible : rf.

Ltac rf := repeat first [ solve [auto with rf] | apply rf_bind; [|intro] | apply rf_try ].

Lemma rf_copy_construct : forall a b, regs_frame (copy_construct a b).
Proof. intros. unfold copy_construct. rf. destruct a0; rf. destruct a1; rf. Qed.
Lemma rf_move_construct : forall c a b, regs_frame (move_construct c a b).
Proof.
  intros. unfold move_construct. destruct c; try apply rf_copy_construct; rf; destruct a0; rf; destruct a1; rf.
Qed.
Lemma rf_destroy : forall l, regs_frame (destroy l).
Proof. intros. unfold destroy. rf. destruct a; rf. Qed.
#[export] Hint Resolve rf_copy_construct rf_move_construct rf_destroy : rf.
Lemma rf_relocate1 : forall c a b, regs_frame (relocate1 c a b).
Proof. intros. unfold relocate1. rf. Qed.
#[export] Hint Resolve rf_relocate1 : rf.
Lemma rf_copy_from : forall src dst n i, regs_frame (copy_from src dst i n).
Proof. induction n; intros; simpl; rf. Qed.
Lemma rf_destroy_from : forall it n i, regs_frame (destroy_from it i n).
Proof. induction n; intros; simpl; rf. Qed.
Lemma rf_relocate_from : forall c src dst n i, regs_frame (relocate_from c src dst i n).
Proof. induction n; intros; simpl; rf. Qed.
#[export] Hint Resolve rf_copy_from rf_destroy_from rf_relocate_from : rf.
Lemma rf_relocate_exec : forall c src dst n e, regs_frame e -> regs_frame (relocate_exec c src dst n e).
Proof. intros. unfold relocate_exec. destruct (nothrow c); rf. Qed.
Lemma rf_relocate_range : forall c src dst n, regs_frame (relocate_range c src dst n).
Proof.
  intros. unfold relocate_range. destruct (nothrow c); rf. destruct n; rf.
  unfold relocate_create. apply rf_relocate_exec. auto with rf.
Qed.

(* a proved outcome specification can be strengthened by the register footprint *)
Lemma wp_frame : forall A (m : M A) s (Q : A -> st -> Prop) (E : st -> Prop),
  regs_frame m -> wp m s Q E ->
  wp m s (fun a s' => Q a s' /\ forall r, r <> rIndex -> regs (hp s') r = regs (hp s) r)
         (fun s' => E s' /\ forall r, r <> rIndex -> regs (hp s') r = regs (hp s) r).
Proof.
  intros A m s Q E Hf Hw. unfold wp in *. pose proof (Hf s) as F. destruct (m s) as [[a| |] s1]; simpl in *; auto.
Qed.
