(* C01 -- TableN1's all-histories theorem instantiated with the regenerated index functions of HashInst *)
From Coq Require Import ZArith List Lia Bool.
From MomoCommon Require Import GenPrelude.
From C01 Require Import HashModel HashInst TableN1.
From C01 Require Gen_OpenN1_ops HashInstProofs.
Local Open Scope Z_scope.

(* the instance momo compiles: GetStartBucketIndex / GetNextBucketIndex REGENERATED (probing 0 = BucketBase's linear step used by
   BucketOpenN1, 3 = BucketOpen8's triangular step), generations of 2^0 .. 2^40 buckets *)
Theorem momo_openn1_generation_bytes (h : Z -> Z) maxCount reverse wfThr probing log d0 os t k :
  (forall k, 0 <= h k < 2 ^ 64) -> 1 <= maxCount <= 7 -> 0 <= log <= max_log ->
  hrun h maxCount wfThr start_fn (next_fn probing) (newTable BS bs0 true log) os = Some t ->
  exists bt, brun h maxCount reverse start_fn (next_fn probing) log (fun _ => Gen_OpenN1_ops.pvSetEmpty maxCount d0) os = Ok (Some bt) /\
             trep h maxCount reverse max_log t bt /\
             gtfind h maxCount reverse start_fn (next_fn probing) t bt k = Ok (enc_pos (tfind BS bs0 (decode_fn (kind maxCount)) h true start_fn (next_fn probing) t k)).
Proof.
  intros Hh Hmc Hl H.
  apply (generation_bytes_all_histories h Hh maxCount reverse Hmc wfThr start_fn (next_fn probing) max_log); auto.
  - unfold max_log. lia.
  - exact HashInstProofs.start_fn_range.
  - intros i l p Hl' _. apply HashInstProofs.next_fn_range; auto.
Qed.
