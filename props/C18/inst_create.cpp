// instantiation TU for props/C18/proto2coq.py: pvCreate<Item, Items...> / pvDestroy instantiated through Add + CreateRaw + ImportRaw
#include "momo/DataColumn.h"
#include <string>
namespace momo {
inline void c18_use_create(DataColumnList<>& cl, const DataColumn<int>& a, const DataColumn<std::string>& b, const DataColumn<double>& c,
	MemManagerDefault& mm, void* raw, const void* src)
{
	cl.Add(a, b, c); cl.Add(b);
	cl.CreateRaw(mm, raw); cl.ImportRaw(mm, cl, src, raw); cl.DestroyRaw(&mm, raw);
}
}
