// instantiation TU for props/C03/astfacts.py (growth round): the member functions whose statements are read off the clang AST.
// FACTS_PART selects one header family per clang run (the runs go in parallel).
#if FACTS_PART == 1
#include "momo/HashSet.h"
namespace momo { typedef HashSet<int> FSet; void c03_use_hs() { FSet a; a.Insert(1); FSet b(a); FSet c({ 1, 2 }); a.Clear(true); b.Clear(false); } }
#elif FACTS_PART == 2
#include "momo/TreeSet.h"
namespace momo { typedef TreeSet<int> FTree; void c03_use_ts() { FTree a; for (int i = 0; i < 100; ++i) a.Insert(i); FTree b(a); FTree c({ 1, 2 }); a.MergeTo(b); while (!a.IsEmpty()) a.Remove(a.GetBegin()); b.Clear(); } }
#elif FACTS_PART == 3
#include "momo/HashMultiMap.h"
namespace momo { typedef HashMultiMap<int, int> FMulti; void c03_use_hmm() { FMulti a; a.Add(1, 2); FMulti b(a); } }
#elif FACTS_PART == 4
#include "momo/DataTable.h"
namespace momo { struct FRow { int id; }; MOMO_DATA_COLUMN_STRUCT(FRow, id);
typedef DataColumnList<DataColumnTraits<FRow>> FCols; typedef DataTable<FCols> FTable;
void c03_use_dt() { FCols cl; cl.Add(id); FTable t(std::move(cl)); t.Add(t.NewRow()); FTable c(t); FCols c2; c2.Add(id); FTable d(std::move(c2)); d.Swap(c); } }
#elif FACTS_PART == 5
#include "momo/stdish/pool_allocator.h"
#include <list>
namespace momo { typedef stdish::unsynchronized_pool_allocator<int> FPoolAlloc; void c03_use_pa() { std::list<int, FPoolAlloc> l; l.push_back(1); std::list<int, FPoolAlloc> c(l); } }
#elif FACTS_PART == 6
#include "momo/MemPool.h"
namespace momo { typedef MemPool<> FPool; void c03_use_pool() { FPool a(MemPoolParams<>(16)), b(MemPoolParams<>(16)); void* p = a.Allocate(); a.Deallocate(p); a.Swap(b); a.MergeFrom(b); } }
#endif
