(* C02 -- the generated leaves (cxx2coq: TreeNode::GetSplitItemIndex, Node::GetCapacity, Node::pvGetLeafMemPoolIndex)
   satisfy what the insertion proof needs, for every 1 <= maxCapacity <= 255 (the static assert of the source),
   every capacityStep, blockCount and number of allocated internal nodes. *)
From Coq Require Import List ZArith Arith Lia Bool.
From MomoCommon Require Import GenPrelude.
From C02 Require Import Gen_TreeNode Gen_Node BTreeModel.
Local Open Scope Z_scope.

Lemma split_index_lt (c j : nat) : (0 < c)%nat -> (c <= 255)%nat -> (j <= c)%nat -> (split_index c j < c)%nat.
Proof.
  intros H1 H2 H3. unfold split_index, GetSplitItemIndex.
  set (C := Z.of_nat c). set (J := Z.of_nat j).
  assert (HC : 0 < C <= 255) by (unfold C; lia). assert (HJ : 0 <= J) by (unfold J; lia).
  assert (Hd : 0 <= C / 2 < C) by (split; [apply Z.div_pos; lia | apply Z.div_lt; lia]).
  destruct (andb (C mod 2 =? 0) (C / 2 >? J)) eqn:E.
  - apply andb_true_iff in E. destruct E as [_ E]. apply Z.gtb_lt in E.
    rewrite wrapU_small by (split; [lia | change (2 ^ 64) with 18446744073709551616; lia]).
    unfold C in *. lia.
  - unfold C in *. lia.
Qed.

Lemma leaf_cap_bounds (maxCap stepRaw blockCount ic c : nat) :
  (0 < maxCap)%nat -> (maxCap <= 255)%nat -> (c <= maxCap)%nat ->
  (c <= leaf_cap maxCap stepRaw blockCount ic c /\ 0 < leaf_cap maxCap stepRaw blockCount ic c <= maxCap)%nat.
Proof.
  intros H1 H2 H3. unfold leaf_cap.
  set (M := Z.of_nat maxCap). set (C := Z.of_nat c).
  set (St := Z.of_nat (capStep maxCap stepRaw)).
  set (Lp := Z.of_nat (leafPoolCount maxCap stepRaw)).
  assert (HM : 1 <= M <= 255) by (unfold M; lia). assert (HC : 0 <= C <= M) by (unfold C, M; lia).
  assert (HSt : 1 <= St).
  { unfold St, capStep. destruct (stepRaw =? 0)%nat eqn:E; [lia|]. apply Nat.eqb_neq in E. lia. }
  assert (HLp : Lp = M / (2 * St) + 1).
  { unfold Lp, leafPoolCount, M, St. rewrite Nat2Z.inj_add, Nat2Z.inj_div, Nat2Z.inj_mul. reflexivity. }
  assert (Hq : 0 <= M / (2 * St)) by (apply Z.div_pos; lia).
  assert (Hq2 : St * (M / (2 * St)) * 2 <= M).
  { pose proof (Z.mul_div_le M (2 * St) ltac:(lia)). lia. }
  (* the pool index: 0 <= idx < Lp and St * idx <= M - C *)
  assert (Hidx : exists idx, pvGetLeafMemPoolIndex Lp M St (Z.of_nat blockCount) (Z.of_nat ic) C = idx /\
                             0 <= idx < Lp /\ St * idx <= M - C).
  { unfold pvGetLeafMemPoolIndex.
    destruct (andb (Z.of_nat ic <=? 1) (Z.of_nat blockCount >? 1)).
    - exists 0. repeat split; lia.
    - rewrite (wrapU_small 64 (M - C)) by (split; [lia | change (2 ^ 64) with 18446744073709551616; lia]).
      assert (Hl : 0 <= (M - C) / St) by (apply Z.div_pos; lia).
      assert (Hl2 : St * ((M - C) / St) <= M - C) by (apply Z.mul_div_le; lia).
      destruct ((M - C) / St >=? Lp) eqn:E.
      + apply Z.geb_le in E. rewrite wrapU_small by (split; [lia | change (2 ^ 64) with 18446744073709551616; nia]).
        exists (Lp - 1). repeat split; try lia. nia.
      + rewrite Z.geb_leb in E. apply Z.leb_gt in E. exists ((M - C) / St). repeat split; lia. }
  destruct Hidx as (idx & -> & Hi & Hmul).
  unfold GetCapacity, IsLeaf. replace (idx <? Lp) with true by (symmetry; apply Z.ltb_lt; lia).
  assert (Hhalf : St * idx * 2 <= M) by nia.
  rewrite (wrapU_small 64 (St * idx)) by (split; [nia | change (2 ^ 64) with 18446744073709551616; nia]).
  rewrite wrapU_small by (split; [nia | change (2 ^ 64) with 18446744073709551616; nia]).
  unfold M, C in *. split; [|split]; (apply Nat2Z.inj_le || apply Nat2Z.inj_lt); rewrite ?Z2Nat.id by nia; nia.
Qed.
