(* C01 -- table-level refinement for the OpenN1 / Open8 bucket kinds: one generation as an ARRAY OF BYTE BUCKETS.
   The generation is `bt : bucket index -> mData[0..maxCount]` (the real bytes: short hashes in Bounds order, state byte,
   max-probe byte).  BOTH the loops and their leaves are regenerated from the headers on every run:
     HashSet::pvFind(indexCode, buckets, pred)  = Gen_HSFindIn.pvFindIn   (config copied from props/C12)
     HashSet::pvAddNogrow                       = Gen_HSAdd.pvAddNogrow   (config copied from props/C11)
   with their bucket primitives instantiated by Gen_OpenN1_ops.IsFull / WasFull / AddCrt / Remove, Gen_OpenN1.GetMaxProbe /
   UpdateMaxProbe, ptCalcShortHash on the bucket's bytes (the in-bucket search Bucket::Find is BucketFind.find_sh over the byte
   slots -- hand-written filter loop; the item arrays are read for key comparison only where a byte matched).  They are proved
   to do what the hand model's tfind / tadd / tremove (HashModel.v, instantiated as in HashInst.step_cfg) do on list buckets,
   under the representation relation `trep`, which holds for an empty generation and is preserved by every insertion and
   removal, so it holds along every history of one generation.  Hand-written here: only the sequencing "AddCrt on the chosen
   bucket, then UpdateMaxProbe(probe) on the start bucket" after the generated pvAddNogrow returned (bucket, probe). *)
From Coq Require Import ZArith List Lia Bool.
From MomoCommon Require Import GenPrelude.
From C01 Require Import HashModel ListAux HashInst BucketFind OpenN1Ops Glue.
From C01 Require Gen_OpenN1_ops Gen_OpenN1 OpenN1_Proofs Gen_HSAdd Gen_HSFindIn.
Import ListNotations.
Local Open Scope Z_scope.

Arguments items {B}. Arguments wasFull {B}. Arguments bound {B}. Arguments tlog {B}. Arguments tbs {B}.

Section TableN1.
  Variable h : Z -> Z.
  Hypothesis Hh : forall k, 0 <= h k < 2 ^ 64.
  Variable maxCount : Z.
  Variable reverse : bool.
  Hypothesis Hmc : 1 <= maxCount <= 7.
  Variable wfThr : Z.
  Variable start : Z -> Z -> Z.
  Variable next : Z -> Z -> Z -> Z.
  Variable maxLog : Z.
  Hypothesis maxLog_le : maxLog <= 63.
  Hypothesis start_range : forall hc log, 0 <= log <= maxLog -> 0 <= start hc (2 ^ log) < 2 ^ log.
  Hypothesis next_range : forall i log p, 0 <= log <= maxLog -> 0 <= i < 2 ^ log -> 0 <= next i (2 ^ log) p < 2 ^ log.

  Definition kind : Z := maxCount + 2.                   (* HashInst's bound-encoder selector for OpenN1<maxCount> *)
  Notation tfindH := (tfind BS bs0 (decode_fn kind) h true start next).
  Notation taddH := (tadd BS bs0 (upd_fn kind) h maxCount false true wfThr start next).
  Notation tremoveH := (tremove BS bs0 true).
  Notation getbH := (getb BS bs0 true).
  Notation addloopH := (add_loop BS bs0 maxCount false true next).
  Notation probeloopH := (probe_loop BS bs0 true next).
  Notation IsFullG := (Gen_OpenN1_ops.IsFull reverse maxCount).
  Notation WasFullG := (Gen_OpenN1_ops.WasFull).
  Notation AddCrtG := (Gen_OpenN1_ops.AddCrt reverse maxCount).
  Notation RemoveG := (Gen_OpenN1_ops.Remove reverse maxCount).
  Notation GetMaxProbeG := (Gen_OpenN1.GetMaxProbe maxCount).
  Notation UpdateMaxProbeG := (Gen_OpenN1.UpdateMaxProbe maxCount).
  Notation shG := Gen_OpenN1_ops.ptCalcShortHash.

  Definition bytes : Type := Z -> Z -> Z.               (* bucket index -> byte index -> byte *)
  Definition setd (bt : bytes) (i : Z) (d : Z -> Z) : bytes := fun j => if j =? i then d else bt j.

  (* ---- the loops of HashSet.h on the byte buckets ---- *)
  (* Bucket::Find: short-hash filter over the byte slots (Bounds order); None = a read beyond the stored items *)
  Definition gbfind (t : table BS) (bt : bytes) (idx k : Z) : option (option (nat * Z)) :=
    find_sh (slots_of maxCount reverse (bt idx)) (items (getbH t idx)) (shG (h k)) k 0.

  (* HashSet::pvFind(indexCode, buckets, itemPred) -- start bucket, then `for (probe = 1; bucket->WasFull() && probe <= maxProbe; ++probe)` --
     is REGENERATED (Gen_HSFindIn.pvFindIn, config copied from props/C12); its primitives are instantiated with the byte buckets:
     a bucket handle is its index, Bucket::Find = gbfind (result encoded as an item address 1 + 8 * bucketIndex + position, 0 = null iterator),
     WasFull / GetMaxProbe = the regenerated OpenN1 leaves on the bucket's bytes *)
  Definition enc_pos (r : option (Z * nat * Z)) : Z := match r with None => 0 | Some (i, p, _) => 1 + i * 8 + Z.of_nat p end.
  Definition b_findG (t : table BS) (bt : bytes) (b : Z) (_ : Z) (k : Z) (_ : Z) : Z :=
    match gbfind t bt b k with Some (Some (pos, _)) => 1 + b * 8 + Z.of_nat pos | _ => 0 end.
  Definition gtfind (t : table BS) (bt : bytes) (k : Z) : outcome Z :=
    Gen_HSFindIn.pvFindIn (fun _ => 2 ^ tlog t) (fun _ => tlog t) start (fun i _ bc p => next i bc p) (b_findG t bt)
      (fun b log => GetMaxProbeG (bt b) log) (fun b => WasFullG (bt b)) (fun _ i => i) (h k) 0 k 0.

  (* HashSet::pvAddNogrow -- `while (bucket->IsFull()) { ++probe; if (probe >= bucketCount) throw; bucketIndex = GetNextBucketIndex(..) }` --
     is REGENERATED (Gen_HSAdd.pvAddNogrow, config copied from props/C11; AddCrt / UpdateMaxProbe are calls on bucket handles there: the
     function returns the bucket index it chose and the probe it passes to UpdateMaxProbe); IsFull = the regenerated leaf on the bytes *)
  Definition gen_addloc (log : Z) (bt : bytes) (hc : Z) : outcome (Z * Z * Z) :=
    Gen_HSAdd.pvAddNogrow log 0 (fun b => IsFullG (bt b)) (fun i _ bc p => next i bc p) start (fun _ _ _ _ _ _ => 0) 0 (fun _ i => i)
      (fun idx _ _ => idx) (fun _ => 2 ^ log) 0 0 0 0 0 hc 0.

  (* ... then bucket->AddCrt(...) on the bucket found and startBucket->UpdateMaxProbe(probe): the regenerated byte operations *)
  Definition gtadd (log : Z) (bt : bytes) (hc : Z) : outcome (option (Z * bytes)) :=
    let i0 := start hc (2 ^ log) in
    match gen_addloc log bt hc with
    | Exn => Ok None                                    (* "Hash table is full" *)
    | Ok (idx, _, probe) =>
      match AddCrtG (bt idx) hc 0 with
      | Ok (_, d1) =>
        let bt1 := setd bt idx d1 in
        match UpdateMaxProbeG (bt1 i0) probe with
        | Ok (_, d2) => Ok (Some (idx, setd bt1 i0 d2))
        | Stuck => Stuck | Fuel => Fuel | Exn => Exn
        end
      | Stuck => Stuck | Fuel => Fuel | Exn => Exn
      end
    | Stuck => Stuck | Fuel => Fuel
    end.

  Definition gtremove (bt : bytes) (idx : Z) (pos : nat) : outcome bytes :=
    match RemoveG (bt idx) (Z.of_nat pos) with
    | Ok (_, d') => Ok (setd bt idx d')
    | Stuck => Stuck | Fuel => Fuel | Exn => Exn
    end.

  (* ---- representation ---- *)
  Definition brep (b : bucket BS) (d : Z -> Z) : Prop :=
    repr maxCount reverse d (map (tagN1 h) (items b)) /\ wasFull b = true /\ d maxCount = bound b maxCount /\ 0 <= d maxCount < 256.
  Definition trep (t : table BS) (bt : bytes) : Prop :=
    0 <= tlog t <= maxLog /\ length (tbs t) = Z.to_nat (2 ^ tlog t) /\ forall i, 0 <= i < 2 ^ tlog t -> brep (getbH t i) (bt i).

  Lemma kind_ge : (kind =? 0) = false /\ (kind =? 1) = false /\ (kind =? 2) = false /\ (kind <=? 1) = false /\ kind - 2 = maxCount.
  Proof.
    unfold kind. split; [apply Z.eqb_neq; lia|]. split; [apply Z.eqb_neq; lia|]. split; [apply Z.eqb_neq; lia|]. split; [apply Z.leb_gt; lia|lia].
  Qed.

  Lemma decode_kind log b : decode_fn kind log b = GetMaxProbeG b log.
  Proof. destruct kind_ge as [A [B' [C [D E]]]]. unfold decode_fn. rewrite A, B', C, E. reflexivity. Qed.

  Lemma getmax_byte d e log : d maxCount = e maxCount -> GetMaxProbeG d log = GetMaxProbeG e log.
  Proof. intros H. unfold Gen_OpenN1.GetMaxProbe. rewrite H. reflexivity. Qed.

  Lemma upd_byte d e p d' e' : d maxCount = e maxCount -> UpdateMaxProbeG d p = Ok (tt, d') -> UpdateMaxProbeG e p = Ok (tt, e') ->
    d' maxCount = e' maxCount.
  Proof.
    intros H. unfold Gen_OpenN1.UpdateMaxProbe, Gen_OpenN1.pvUpdateMaxProbe. rewrite H.
    destruct (p =? 0); [intros A C; inversion A; inversion C; subst; auto|].
    destruct (_ || _); [intros A C; inversion A; inversion C; subst; auto|]. cbv zeta.
    destruct (Gen_OpenN1.pvUpdateMaxProbe_loop0 _ _ _) as [[m0 m1]| | |]; try discriminate.
    intros A C. inversion A; inversion C; subst. rewrite !upd_same. reflexivity.
  Qed.

  Lemma two_pos log : 0 <= log -> 0 < 2 ^ log. Proof. intros. apply Z.pow_pos_nonneg; lia. Qed.

  (* ---- find ---- *)
  Lemma gbfind_ok t bt idx k : trep t bt -> 0 <= idx < 2 ^ tlog t -> gbfind t bt idx k = Some (bfind k (items (getbH t idx)) 0).
  Proof. intros [_ [_ R]] Hi. destruct (R idx Hi) as [Rr _]. unfold gbfind. apply (n1_find_glue BS h maxCount reverse Hmc Hh); auto. Qed.

  Lemma maxprobe_lt d L : 0 <= d maxCount < 256 -> 0 <= L <= 63 -> 0 <= GetMaxProbeG d L < 2 ^ 63.
  Proof.
    intros Hd HL. change (GetMaxProbeG d L) with (OpenN1_Proofs.bound maxCount d L).
    destruct (Z.eq_dec (d maxCount) 255) as [E|E].
    - rewrite OpenN1_Proofs.bound_inf by auto. assert (0 < 2 ^ L) by (apply Z.pow_pos_nonneg; lia).
      assert (2 ^ L <= 2 ^ 63) by (apply Z.pow_le_mono_r; lia). lia.
    - rewrite OpenN1_Proofs.bound_fin by auto. pose proof (Z.mod_pos_bound (d maxCount) 8 ltac:(lia)).
      assert (0 <= d maxCount / 8 <= 31) by (Z.div_mod_to_equations; lia).
      assert (0 < 2 ^ (d maxCount / 8)) by (apply Z.pow_pos_nonneg; lia).
      assert (2 ^ (d maxCount / 8) <= 2 ^ 31) by (apply Z.pow_le_mono_r; lia).
      change (2 ^ 63) with (2 ^ 32 * 2 ^ 31). nia.
  Qed.

  Definition res1 {A C} (o : outcome (A * C)) : outcome A :=
    match o with Ok (r, _) => Ok r | Stuck => Stuck | Fuel => Fuel | Exn => Exn end.
  Definition enc_opt (r : option (Z * nat * Z)) : option Z := match r with None => None | Some (i, p, _) => Some (1 + i * 8 + Z.of_nat p) end.

  Lemma b_findG_ok t bt idx k x y : trep t bt -> 0 <= idx < 2 ^ tlog t ->
    b_findG t bt idx x k y = match bfind k (items (getbH t idx)) 0 with Some (pos, _) => 1 + idx * 8 + Z.of_nat pos | None => 0 end.
  Proof. intros T Hi. unfold b_findG. rewrite (gbfind_ok t bt idx k T Hi). destruct (bfind k (items (getbH t idx)) 0) as [[pos v]|]; reflexivity. Qed.

  Lemma gen_probe_ok t bt k maxProbe : trep t bt -> maxProbe + 1 < 2 ^ 64 -> forall n probe idx bi ic, 0 <= idx < 2 ^ tlog t -> 1 <= probe ->
    Z.of_nat n = maxProbe + 1 - probe ->
    res1 (Gen_HSFindIn.pvFindIn_loop0 (fun i _ bc p => next i bc p) (b_findG t bt) (fun b => WasFullG (bt b)) (fun _ i => i)
            (S n) (2 ^ tlog t) 0 0 (h k) k maxProbe idx idx bi ic probe)
    = Ok (enc_opt (probeloopH n t k probe idx (getbH t idx))).
  Proof.
    intros T Hmp. induction n; intros probe idx bi ic Hi Hp Hn; rewrite Gen_HSFindIn.pvFindIn_loop0_eq.
    - destruct (Z.leb_spec probe maxProbe); [lia|]. rewrite andb_false_r. reflexivity.
    - destruct (Z.leb_spec probe maxProbe); [|lia]. unfold Gen_OpenN1_ops.WasFull at 1. cbn [andb]. cbv zeta.
      destruct T as [Hl [Hlen R]]. destruct (R idx Hi) as [_ [Wf _]]. cbn [probe_loop]. rewrite Wf. unfold bcount.
      set (idx' := next idx (2 ^ tlog t) probe).
      assert (Hi' : 0 <= idx' < 2 ^ tlog t) by (apply next_range; auto).
      rewrite (b_findG_ok t bt idx' k 0 (h k) (conj Hl (conj Hlen R)) Hi').
      destruct (bfind k (items (getbH t idx')) 0) as [[pos v]|].
      + destruct (Z.eqb_spec (1 + idx' * 8 + Z.of_nat pos) 0); [lia|]. reflexivity.
      + cbn [Z.eqb negb]. rewrite (wrapU_small 64 (probe + 1)) by lia. apply IHn; auto; lia.
  Qed.

  Theorem gtfind_refines t bt k : trep t bt -> gtfind t bt k = Ok (enc_pos (tfindH t k)).
  Proof.
    intros T. unfold gtfind, Gen_HSFindIn.pvFindIn, tfind, bcount. cbv zeta. pose proof T as [Hl [Hlen R]].
    set (i0 := start (h k) (2 ^ tlog t)). assert (Hi : 0 <= i0 < 2 ^ tlog t) by (apply start_range; auto).
    rewrite (b_findG_ok t bt i0 k 0 (h k) T Hi).
    destruct (bfind k (items (getbH t i0)) 0) as [[pos v]|].
    - destruct (Z.eqb_spec (1 + i0 * 8 + Z.of_nat pos) 0); [lia|]. reflexivity.
    - cbn [Z.eqb negb]. rewrite decode_kind. destruct (R i0 Hi) as [_ [_ [Hb Henc]]]. rewrite <- (getmax_byte _ _ (tlog t) Hb).
      set (mp := GetMaxProbeG (bt i0) (tlog t)). pose proof (maxprobe_lt (bt i0) (tlog t) Henc ltac:(lia)) as Hmp. fold mp in Hmp.
      pose proof (gen_probe_ok t bt k mp T ltac:(change (2 ^ 64) with (2 * 2 ^ 63); lia) (Z.to_nat mp) 1 i0 0 (h k) Hi ltac:(lia) ltac:(lia)) as G.
      destruct (Gen_HSFindIn.pvFindIn_loop0 _ _ _ _ _ _ _ _ _ _ _ _ _ _ _ _) as [[[r|] [[[[? ?] ?] ?] ?]]| | |]; cbn [res1] in G; try discriminate;
        injection G as G; destruct (probeloopH (Z.to_nat mp) t k 1 i0 (getbH t i0)) as [[[i p] v]|]; cbn [enc_opt enc_pos] in *; try discriminate.
      + injection G as G. rewrite G. reflexivity.
      + reflexivity.
  Qed.

  (* ---- add ---- *)
  Lemma addloop_facts t bt : trep t bt -> forall n probe idx, 0 <= idx < 2 ^ tlog t ->
    forall idx' probe', addloopH n t probe idx = Some (idx', probe') ->
       0 <= idx' < 2 ^ tlog t /\ probe <= probe' <= probe + Z.of_nat n /\ isFull BS maxCount false (getbH t idx') = false.
  Proof.
    intros T. destruct T as [Hl [Hlen R]]. induction n; intros probe idx Hi idx' probe'; cbn [add_loop];
      destruct (isFull BS maxCount false (getbH t idx)) eqn:E; intros H; try discriminate.
    - inversion H; subst. split; auto. split; [lia|auto].
    - unfold bcount in H. assert (Hi' : 0 <= next idx (2 ^ tlog t) (probe + 1) < 2 ^ tlog t) by (apply next_range; auto).
      destruct (IHn (probe + 1) _ Hi' idx' probe' H) as [C1 [C2 C3]]. split; auto. split; [lia|auto].
    - inversion H; subst. split; auto. split; [lia|auto].
  Qed.

  Lemma gen_addloop_ok t bt hc : trep t bt -> forall n fuel probe idx, 0 <= idx < 2 ^ tlog t -> 0 <= probe ->
    Z.of_nat n = 2 ^ tlog t - 1 - probe -> (n < fuel)%nat ->
    Gen_HSAdd.pvAddNogrow_loop0 (fun b => IsFullG (bt b)) (fun i _ bc p => next i bc p) (fun _ i => i) fuel (2 ^ tlog t) 0 hc idx idx probe
    = match addloopH n t probe idx with Some (i, p) => Ok (None, (i, i, p)) | None => Exn end.
  Proof.
    intros T. pose proof T as [Hl [Hlen R]]. assert (P63 : 2 ^ tlog t <= 2 ^ 63) by (apply Z.pow_le_mono_r; lia).
    induction n; intros fuel probe idx Hi Hp Hn Hf; (destruct fuel as [|f]; [lia|]); rewrite Gen_HSAdd.pvAddNogrow_loop0_eq; cbn [add_loop];
      destruct (R idx Hi) as [Rr _]; rewrite (n1_isfull_glue BS h maxCount reverse Hmc (getbH t idx) (bt idx) Rr);
      destruct (isFull BS maxCount false (getbH t idx)) eqn:E; try reflexivity; cbv zeta;
      rewrite (wrapU_small 64 (probe + 1)) by (change (2 ^ 64) with (2 * 2 ^ 63); lia).
    - destruct (Z.geb_spec (probe + 1) (2 ^ tlog t)); [reflexivity|lia].
    - destruct (Z.geb_spec (probe + 1) (2 ^ tlog t)); [lia|]. unfold bcount. apply IHn; try lia. apply next_range; auto.
  Qed.

  Lemma gen_addloc_ok t bt hc : trep t bt ->
    gen_addloc (tlog t) bt hc =
      match addloopH (Z.to_nat (2 ^ tlog t - 1)) t 0 (start hc (2 ^ tlog t)) with Some (i, p) => Ok (i, 0, p) | None => Exn end.
  Proof.
    intros T. pose proof T as [Hl _]. pose proof (two_pos (tlog t) ltac:(lia)) as P2. unfold gen_addloc, Gen_HSAdd.pvAddNogrow. cbv zeta.
    rewrite (gen_addloop_ok t bt hc T (Z.to_nat (2 ^ tlog t - 1))); try lia; [|apply start_range; auto].
    destruct (addloopH (Z.to_nat (2 ^ tlog t - 1)) t 0 (start hc (2 ^ tlog t))) as [[i p]|]; reflexivity.
  Qed.

  Lemma getb_setb_same' (t : table BS) i b : 0 <= i -> (Z.to_nat i < length (tbs t))%nat -> getbH (setb BS t i b) i = b.
  Proof. intros. unfold getb, setb; simpl. apply nth_upd_nth_same; auto. Qed.
  Lemma getb_setb_other' (t : table BS) i j b : 0 <= i -> 0 <= j -> i <> j -> getbH (setb BS t i b) j = getbH t j.
  Proof. intros. unfold getb, setb; simpl. apply nth_upd_nth_other. lia. Qed.

  Lemma trep_setb t bt i b d : trep t bt -> 0 <= i < 2 ^ tlog t -> brep b d -> trep (setb BS t i b) (setd bt i d).
  Proof.
    intros [Hl [Hlen R]] Hi Hb. unfold trep. cbn [setb tlog tbs]. rewrite upd_nth_length. split; auto. split; auto.
    intros j Hj. unfold setd. destruct (Z.eqb_spec j i) as [->|Hne].
    - rewrite getb_setb_same'; auto; lia.
    - rewrite getb_setb_other'; auto; lia.
  Qed.

  Theorem gtadd_refines t bt kv : trep t bt ->
    match taddH t kv with
    | None => gtadd (tlog t) bt (h (fst kv)) = Ok None
    | Some t' => exists idx bt', gtadd (tlog t) bt (h (fst kv)) = Ok (Some (idx, bt')) /\ trep t' bt' /\
                   In kv (items (getbH t' idx)) /\ 0 <= idx < 2 ^ tlog t
    end.
  Proof.
    intros T. pose proof T as [Hl [Hlen R]]. unfold tadd, gtadd, bcount. cbv zeta. rewrite (gen_addloc_ok t bt (h (fst kv)) T).
    set (i0 := start (h (fst kv)) (2 ^ tlog t)). assert (Hi0 : 0 <= i0 < 2 ^ tlog t) by (apply start_range; auto).
    pose proof (addloop_facts t bt T (Z.to_nat (2 ^ tlog t - 1)) 0 i0 Hi0) as Hr.
    destruct (addloopH (Z.to_nat (2 ^ tlog t - 1)) t 0 i0) as [[idx probe]|]; auto.
    destruct (Hr idx probe eq_refl) as [Hidx [Hp Hnf]].
    pose proof (two_pos (tlog t) ltac:(lia)) as P2.
    assert (Hprobe : 0 <= probe < 2 ^ tlog t) by lia.
    destruct (R idx Hidx) as [Rr [Wf [Hbd Henc]]].
    unfold isFull, blen in Hnf. apply Z.leb_gt in Hnf.
    destruct (n1_addcrt maxCount reverse Hmc (bt idx) _ (h (fst kv)) 0 Rr ltac:(rewrite map_length; exact Hnf) (Hh (fst kv))) as [d1 [Ea [R1 F1]]].
    rewrite Ea.
    set (b1 := mkB BS (items (getbH t idx) ++ [kv]) (wasFull (getbH t idx) || (wfThr <=? Z.of_nat (length (items (getbH t idx) ++ [kv])))) (bound (getbH t idx))).
    assert (B1 : brep b1 d1).
    { unfold brep, b1. cbn [items wasFull bound]. rewrite map_app. split; [exact R1|]. rewrite Wf. split; auto. rewrite F1. split; auto. }
    pose proof (trep_setb t bt idx b1 d1 T Hidx B1) as T1.
    set (t1 := setb BS t idx b1) in *. set (bt1 := setd bt idx d1) in *.
    destruct T1 as [Hl1 [Hlen1 R1']]. change (tlog t1) with (tlog t) in *.
    destruct (R1' i0 Hi0) as [Rh [Wfh [Hbh Hench]]].
    destruct (OpenN1_Proofs.update_spec maxCount (bt1 i0) probe (tlog t) Hench ltac:(lia) Hprobe) as [d2 [Eu [Henc2 [_ [_ Fr]]]]].
    rewrite Eu.
    assert (Hencb : OpenN1_Proofs.enc_inv maxCount (bound (getbH t1 i0))) by (unfold OpenN1_Proofs.enc_inv; rewrite <- Hbh; exact Hench).
    destruct (OpenN1_Proofs.update_spec maxCount (bound (getbH t1 i0)) probe (tlog t) Hencb ltac:(lia) Hprobe) as [e2 [Eb [_ [_ [_ Frb]]]]].
    exists idx. eexists. split; [reflexivity|].
    assert (B2 : brep (mkB BS (items (getbH t1 i0)) (wasFull (getbH t1 i0)) (upd_fn kind (bound (getbH t1 i0)) probe)) d2).
    { unfold brep. cbn [items wasFull bound]. split; [|split; [exact Wfh|]].
      - apply (n1_bound_frame maxCount reverse Hmc (bt1 i0)); auto.
      - destruct kind_ge as [_ [_ [C [D E']]]]. unfold upd_fn. rewrite D, C, E', Eb.
        split; [apply (upd_byte (bt1 i0) (bound (getbH t1 i0)) probe); auto|exact Henc2]. }
    split.
    - apply (trep_setb t1 bt1 i0 _ d2); auto. exact (conj Hl1 (conj Hlen1 R1')).
    - split; auto.
      assert (Hg1 : getbH t1 idx = b1) by (apply getb_setb_same'; [lia|rewrite Hlen; lia]).
      destruct (Z.eq_dec i0 idx) as [->|Hne].
      + rewrite getb_setb_same'; [|lia|unfold t1; cbn [setb tbs]; rewrite upd_nth_length, Hlen; lia].
        cbn [items]. rewrite Hg1. unfold b1. cbn [items]. apply in_or_app. right. left. reflexivity.
      + rewrite getb_setb_other'; try lia. rewrite Hg1. unfold b1. cbn [items]. apply in_or_app. right. left. reflexivity.
  Qed.

  (* ---- remove ---- *)
  Theorem gtremove_refines t bt idx pos : trep t bt -> 0 <= idx < 2 ^ tlog t -> (pos < length (items (getbH t idx)))%nat ->
    exists bt', gtremove bt idx pos = Ok bt' /\ trep (tremoveH t idx pos) bt'.
  Proof.
    intros T Hi Hp. pose proof T as [Hl [Hlen R]]. destruct (R idx Hi) as [Rr [Wf [Hbd Henc]]].
    destruct (n1_remove maxCount reverse Hmc (bt idx) _ (Z.of_nat pos) Rr ltac:(rewrite map_length; lia)) as [d' [E [R' F']]].
    unfold gtremove. rewrite E. eexists. split; [reflexivity|]. unfold tremove. apply trep_setb; auto.
    unfold brep. cbn [items wasFull bound]. rewrite Nat2Z.id in R'. rewrite <- gbremove_item, gbremove_map. split; auto. split; auto. rewrite F'. split; auto.
  Qed.

  (* ---- the relation is not vacuous: an empty generation (every bucket Clear()ed) represents newTable ---- *)
  Theorem trep_new log d0 : 0 <= log <= maxLog -> trep (newTable BS bs0 true log) (fun _ => Gen_OpenN1_ops.pvSetEmpty maxCount d0).
  Proof.
    intros Hl. unfold trep, newTable. cbn [tlog tbs]. rewrite repeat_length. split; auto. split; auto.
    intros i Hi. unfold getb. cbn [tbs].
    assert (E : nth (Z.to_nat i) (repeat (emptyB BS bs0 true) (Z.to_nat (2 ^ log))) (emptyB BS bs0 true) = emptyB BS bs0 true).
    { destruct (nth_in_or_default (Z.to_nat i) (repeat (emptyB BS bs0 true) (Z.to_nat (2 ^ log))) (emptyB BS bs0 true)) as [H|H]; auto.
      apply repeat_spec in H. auto. }
    rewrite E. unfold brep, emptyB. cbn [items wasFull bound]. destruct (n1_clear maxCount reverse Hmc d0) as [A C].
    split; [exact A|]. split; auto. rewrite C. unfold bs0. split; [reflexivity|lia].
  Qed.

  (* ---- every history of one generation: the byte generation driven by the generated AddCrt / Remove / UpdateMaxProbe and the probe
     loops above stays in step with the hand model's list generation, so every later search gives the hand model's answer ---- *)
  Inductive gop : Type := GAdd (kv : item) | GRem (idx : Z) (pos : nat).

  Definition hstep (t : table BS) (o : gop) : option (table BS) :=
    match o with
    | GAdd kv => taddH t kv
    | GRem idx pos => if (0 <=? idx) && (idx <? 2 ^ tlog t) && (pos <? length (items (getbH t idx)))%nat then Some (tremoveH t idx pos) else None
    end.
  Fixpoint hrun (t : table BS) (os : list gop) : option (table BS) :=
    match os with [] => Some t | o :: r => match hstep t o with Some t' => hrun t' r | None => None end end.

  Definition bstep (log : Z) (bt : bytes) (o : gop) : outcome (option bytes) :=
    match o with
    | GAdd kv => match gtadd log bt (h (fst kv)) with Ok (Some (_, bt')) => Ok (Some bt') | Ok None => Ok None
                 | Stuck => Stuck | Fuel => Fuel | Exn => Exn end
    | GRem idx pos => match gtremove bt idx pos with Ok bt' => Ok (Some bt') | Stuck => Stuck | Fuel => Fuel | Exn => Exn end
    end.
  Fixpoint brun (log : Z) (bt : bytes) (os : list gop) : outcome (option bytes) :=
    match os with [] => Ok (Some bt) | o :: r => match bstep log bt o with Ok (Some bt') => brun log bt' r | x => x end end.

  Lemma trep_log_add t bt kv t' : trep t bt -> taddH t kv = Some t' -> tlog t' = tlog t.
  Proof.
    intros _. unfold tadd. destruct (add_loop _ _ _ _ _ _ _ _ _ _) as [[idx probe]|]; [|discriminate]. intros H. inversion H. reflexivity.
  Qed.

  Lemma brun_refines : forall os t bt t', trep t bt -> hrun t os = Some t' ->
    exists bt', brun (tlog t) bt os = Ok (Some bt') /\ trep t' bt'.
  Proof.
    induction os as [|o r IH]; intros t bt t' T H; simpl in *.
    - inversion H; subst. exists bt. split; auto.
    - destruct (hstep t o) as [t1|] eqn:E; [|discriminate]. destruct o as [kv|idx pos]; cbn [hstep bstep] in *.
      + pose proof (gtadd_refines t bt kv T) as G. rewrite E in G. destruct G as [idx [bt1 [G1 [G2 _]]]]. rewrite G1.
        rewrite <- (trep_log_add t bt kv t1 T E). apply IH; auto.
      + destruct (0 <=? idx) eqn:A; [|discriminate]. destruct (idx <? 2 ^ tlog t) eqn:C; [|discriminate].
        destruct (pos <? length (items (getbH t idx)))%nat eqn:D; [|discriminate]. cbn [andb] in E. inversion E; subst t1.
        apply Z.leb_le in A. apply Z.ltb_lt in C. apply Nat.ltb_lt in D.
        destruct (gtremove_refines t bt idx pos T ltac:(lia) D) as [bt1 [G1 G2]]. rewrite G1.
        change (tlog t) with (tlog (tremoveH t idx pos)). apply IH; auto.
  Qed.

  Theorem generation_bytes_all_histories log d0 os t k : 0 <= log <= maxLog -> hrun (newTable BS bs0 true log) os = Some t ->
    exists bt, brun log (fun _ => Gen_OpenN1_ops.pvSetEmpty maxCount d0) os = Ok (Some bt) /\ trep t bt /\ gtfind t bt k = Ok (enc_pos (tfindH t k)).
  Proof.
    intros Hl H. destruct (brun_refines os _ _ t (trep_new log d0 Hl) H) as [bt [A C]]. exists bt. split; [exact A|]. split; auto.
    apply gtfind_refines; auto.
  Qed.
End TableN1.
