(* Property C07 -- theorems only.  Each is closed by `exact <lemma>` and followed by Print Assumptions.
   L0 = TableSpec.v (the table as a list of rows), L1 = IndexModel.v / MultiHash.v (what DataIndexes.h does);
   the segment sizes used by MultiHash.v are regenerated from SegmentedArray.h on every run (Gen_Segments.v),
   and all models are run against the real momo::DataTable / DataIndexes on every run. *)
From Coq Require Import List ZArith Bool Permutation.
From C07 Require Import TableSpec TableProofs NumModel MultiHash MultiHashProofs SegProofs IndexModel IndexProofs AtomicProofs RefineProofs ConsProofs ReachProofs ConflictProofs FrameProofs TableOps SelectionModel ProjectModel GroupModel.
From Coq Require Import Sorted.
From C07 Require Gen_Segments Gen_MultiHashOps.
Import ListNotations.

(* For EVERY history of table operations starting from the empty table (adds, inserts, whole-row and
   single-column updates, all removals, extract, assign, clear, copies, index creation/removal), every
   unique index that exists has pairwise different keys: DataTable never holds two rows equal on the
   columns of a unique index. *)
Theorem C07_unique_never_violated :
  forall ops : list op,
    Forall (fun cols => NoDup (map (proj cols) (rows (run empty_table ops)))) (uniq (run empty_table ops)).
Proof. exact unique_never_violated. Qed.
Print Assumptions C07_unique_never_violated.

(* An operation that is refused (unique conflict, repeated key on index creation, or violated
   precondition) leaves the table exactly as it was. *)
Theorem C07_refused_op_is_identity :
  forall t o, refused (snd (step t o)) -> fst (step t o) = t.
Proof. exact refused_op_is_identity. Qed.
Print Assumptions C07_refused_op_is_identity.

(* The row reported by a refusal is a row of the table, different from the one being replaced, that is
   equal to the offered row on the columns of the reported unique index; the reported index is the
   first one (creation order) on which any row collides. *)
Theorem C07_conflict_row_is_witness :
  forall t o t' n j, step t o = (t', RConflict n j) ->
  exists r skip cols r',
    op_row t o = Some (r, skip) /\ nth_error (uniq t) j = Some cols /\ nth_error (rows t) n = Some r' /\
    proj cols r' = proj cols r /\ skip <> Some n /\
    (forall j' cols', j' < j -> nth_error (uniq t) j' = Some cols' ->
       find_key cols' (proj cols' r) (rows t) 0 skip = None).
Proof. exact conflict_row_is_witness. Qed.
Print Assumptions C07_conflict_row_is_witness.

(* ... and an operation is accepted only if no other row collides on any unique index (no missed conflict). *)
Theorem C07_accepted_means_no_collision :
  forall t r skip rs' t', try_put t r skip rs' = (t', ROk) ->
  forall cols n r', In cols (uniq t) -> nth_error (rows t) n = Some r' -> skip <> Some n -> proj cols r' <> proj cols r.
Proof. exact accepted_means_no_collision. Qed.
Print Assumptions C07_accepted_means_no_collision.

(* keepRowNumber: for EVERY history, after every operation the number stored in each row (pvSetNumber /
   pvSetNumbers(beginNumber) exactly where DataTable.h calls them) is the row's position in the table. *)
Theorem C07_row_numbers_are_positions :
  forall ops : list op,
    snd (nrun (empty_table, []) ops) = seq 0 (length (rows (fst (nrun (empty_table, []) ops)))).
Proof. exact row_numbers_are_positions. Qed.
Print Assumptions C07_row_numbers_are_positions.

(* ... and the numbered table is the L0 table (same rows, same results) *)
Theorem C07_numbered_table_refines_spec :
  forall t nums o, fst (fst (nstep (t, nums) o)) = fst (step t o) /\ snd (nstep (t, nums) o) = snd (step t o).
Proof. exact nstep_refines. Qed.
Print Assumptions C07_numbered_table_refines_spec.

(* DataIndexes::UpdateRaw(raw, column, item) on a unique hash, the code as it is now (UniqueHash::PrepareRemove
   skips the entry this update has just added): for EVERY place the new entry may take in the hash table (ord),
   EVERY relation "a probe for key k can see an entry placed under key s" (R, reflexive), if no other row has
   the new key then afterwards the hash is consistent with the NEW row content (entries = rows, stored keys =
   row keys, keys pairwise different, nothing pending), the row still has exactly one entry, and a lookup of
   the new key finds exactly the entry just added; otherwise nothing changed and the reported row has the new key. *)
Theorem C07_update_column_index_consistent :
  forall (ord : nat -> nat) (R : list Z -> list Z -> bool) (ct : Z -> row) (u : uhash) (raw : Z) (c : nat) (v : Z) (tag : nat),
    (forall k, R k k = true) -> uinv ct u -> In raw (map eraw (uents u)) -> ~ In tag (map etag (uents u)) ->
    has_col (ucols u) c = true -> c < length (ct raw) -> v <> getc (ct raw) c ->
    let ct' := fun r => if Z.eqb r raw then set_col c v (ct raw) else ct r in
    let k' := proj (ucols u) (set_col c v (ct raw)) in
    let '(u1, r) := u_add_mixed ord R ct u raw c v tag in
    if Z.eqb r raw then
      let u3 := u_accept_remove (u_accept_add (u_prepare_remove true R ct u1 raw)) in
      uinv ct' u3 /\ Permutation (map eraw (uents u3)) (map eraw (uents u)) /\
      u_find R ct' u3 (keyc ct' (ucols u) raw) = Some (mkE tag raw k')
    else u1 = u /\ exists e, In e (uents u) /\ eraw e = r /\ keyc ct (ucols u) r = k'.
Proof. exact update_column_index_consistent. Qed.
Print Assumptions C07_update_column_index_consistent.

(* The same statement is FALSE for UniqueHash::PrepareRemove as it was before commit 4f7b624: a consistent
   one-row hash, a reflexive R and an order for which the accepted update leaves the row unreachable under
   its new key (the replay of the repaired defect). *)
Theorem C07_update_column_refuted :
  exists ord R ct s raw c v,
    (forall k, R k k = true) /\ Forall (uinv ct) (uhs s) /\
    let '(s', o, ct') := update_col false true ord R ct None s raw c v in
    o = Accepted /\
    exists u', uhs s' = [u'] /\ u_find R ct' u' (keyc ct' (ucols u') raw) = None.
Proof. exact update_column_refuted. Qed.
Print Assumptions C07_update_column_refuted.

(* ... and for MultiHash::PrepareRemove as it was before commit 2211fdb: after an accepted single-column update
   to a fresh key the new key is absent and the row is still listed under its old key. *)
Theorem C07_multi_update_column_refuted :
  exists ord R ct s raw c v,
    (forall k, R k k = true) /\
    let '(s', o, ct') := update_col true false ord R ct None s raw c v in
    o = Accepted /\
    exists m', mhs s' = [m'] /\ find_multi R ct' m' (keyc ct' (mcols m') raw) = [] /\
               In raw (find_multi R ct' m' [1%Z]).
Proof. exact multi_update_column_refuted. Qed.
Print Assumptions C07_multi_update_column_refuted.

(* DataIndexes::AddRaw is atomic over all unique and multi hashes for EVERY failure schedule fl (the step that
   throws), every order and every R: either nothing is refused and nothing throws and the result is that of
   the failure-free run (every index accepted), or every unique hash holds exactly its previous entries and
   every multi hash its previous keys and rows (value arrays up to order: pvAdd may have sorted a segment). *)
Theorem C07_two_phase_atomic_add :
  forall ord R ct fl s raw, wf s -> Forall (row_absent_m raw) (mhs s) ->
  let '(s', o) := add_raw ord R ct fl s raw in
  (o = Accepted /\ s' = fst (add_raw ord R ct None s raw)) \/ (o <> Accepted /\ rolled_back s s').
Proof. exact two_phase_atomic_add. Qed.
Print Assumptions C07_two_phase_atomic_add.

(* the same for UpdateRaw(oldRaw, newRaw), with either shape of PrepareRemove *)
Theorem C07_two_phase_atomic_update :
  forall fixu fixm ord R ct fl s old new,
  wf s -> Forall (row_absent_u new) (uhs s) -> Forall (row_absent_m new) (mhs s) ->
  let '(s', o) := update_raw fixu fixm ord R ct fl s old new in
  (o = Accepted /\ s' = fst (update_raw fixu fixm ord R ct None s old new)) \/ (o <> Accepted /\ rolled_back s s').
Proof. exact two_phase_atomic_update. Qed.
Print Assumptions C07_two_phase_atomic_update.

(* the same for UpdateRaw(raw, column, item, assigner), where the item assignment is one more step that may
   throw; on refusal/exception the row content is untouched as well *)
Theorem C07_two_phase_atomic_update_column :
  forall fixu fixm ord R ct fl s raw c v, wf s ->
  let '(s', o, ct') := update_col fixu fixm ord R ct fl s raw c v in
  (o = Accepted /\ s' = fst (fst (update_col fixu fixm ord R ct None s raw c v))) \/
  (o <> Accepted /\ rolled_back s s' /\ ct' = ct).
Proof. exact two_phase_atomic_update_column. Qed.
Print Assumptions C07_two_phase_atomic_update_column.

(* MultiHash::AcceptRemove (row among the values): on a value array whose completed segments
   (SegmentedArraySettings<sqrt,6> sizes, regenerated from the header) are sorted by address, the row is
   found - no assertion fails, the segment loop terminates -, exactly one occurrence disappears, nothing else
   is lost or duplicated, and the completed segments of the result are sorted again (what the next
   lower_bound needs). *)
Theorem C07_multihash_remove_preserves :
  forall raw vals, vals_ok vals -> In raw vals ->
  exists vals', accept_remove raw vals = Some vals' /\ Permutation vals (raw :: vals') /\ vals_ok vals'.
Proof. exact multihash_remove_preserves. Qed.
Print Assumptions C07_multihash_remove_preserves.

(* MultiHash::Find returns empty bounds for a key that no key row has (commit 95ed81f) ... *)
Theorem C07_multihash_find_absent_empty :
  forall R ct m k, (forall g, In g (mgroups m) -> keyc ct (mcols m) (gkey g) <> k) -> find_multi R ct m k = [].
Proof. exact multihash_find_absent_empty. Qed.
Print Assumptions C07_multihash_find_absent_empty.

(* ... and the key row followed by its value array for a key that is present *)
Theorem C07_multihash_find_present :
  forall R ct m k g, (forall s, R s s = true) ->
  In g (mgroups m) -> gskey g = k -> keyc ct (mcols m) (gkey g) = k ->
  (forall g', In g' (mgroups m) -> keyc ct (mcols m) (gkey g') = k -> g' = g) ->
  find_multi R ct m k = gkey g :: gvals g.
Proof. exact multihash_find_present. Qed.
Print Assumptions C07_multihash_find_present.

(* MultiHash::pvAdd (sort the segment that has just been completed - decided by rawCount % 64 and the GENERATED
   GetSegItemIndexes / GetItemCount - then append) preserves the sorted-segment invariant and adds exactly the row,
   for every array shorter than max_vals = 262144 rows per key (the range for which the boundary arithmetic of the
   generated functions is checked by vm_compute). *)
Theorem C07_pvadd_preserves_invariant :
  forall raw vals, vals_ok vals -> length vals < max_vals ->
  vals_ok (pv_add raw vals) /\ Permutation (pv_add raw vals) (raw :: vals).
Proof. exact pv_add_preserves. Qed.
Print Assumptions C07_pvadd_preserves_invariant.

(* MultiHash::FilterRaws (one key) ESTABLISHES the invariant whatever the array looked like: after the swap-remove
   scan every completed segment is re-sorted; nothing is added. *)
Theorem C07_filterraws_establishes_invariant :
  forall keep vals, length vals < max_vals ->
  vals_ok (filter_vals keep vals) /\ length (filter_vals keep vals) <= length vals /\
  Permutation (filter_vals keep vals) (filter_scan (S (length vals)) keep 0 vals).
Proof. exact filter_vals_ok. Qed.
Print Assumptions C07_filterraws_establishes_invariant.

(* For EVERY history of the operations MultiHash performs on a value array (pvAdd, AcceptRemove of a present row,
   Remove(last), FilterRaws) starting from the empty array and staying below max_vals, the invariant holds ... *)
Theorem C07_segment_invariant_reachable :
  forall ops v, vrun [] ops = Some v -> vals_ok v.
Proof. exact vals_ok_reachable_from_empty. Qed.
Print Assumptions C07_segment_invariant_reachable.

(* ... so in every reachable array AcceptRemove works, with NO invariant hypothesis left *)
Theorem C07_reachable_remove_succeeds :
  forall ops v raw, vrun [] ops = Some v -> In raw v ->
  exists v', accept_remove raw v = Some v' /\ Permutation v (raw :: v') /\ vals_ok v'.
Proof. exact reachable_remove_succeeds. Qed.
Print Assumptions C07_reachable_remove_succeeds.

(* L1 -> L0.  If a unique hash holds exactly the table rows rs under their projected keys (u_cons), FindRaws returns
   exactly the rows a brute-force scan of the table selects, whatever a probe can see (R). *)
Theorem C07_find_unique_is_scan :
  forall R ct rs u k, (forall s, R s s = true) -> u_cons ct rs u ->
  Permutation (find_unique R ct u k) (filter (has_key ct (ucols u) k) rs).
Proof. exact find_unique_is_scan. Qed.
Print Assumptions C07_find_unique_is_scan.

(* the same for a multi hash that partitions exactly the table rows by projected key (m_cons) *)
Theorem C07_find_multi_is_scan :
  forall R ct rs m k, (forall s, R s s = true) -> m_cons ct rs m ->
  Permutation (find_multi R ct m k) (filter (has_key ct (mcols m) k) rs).
Proof. exact find_multi_is_scan. Qed.
Print Assumptions C07_find_multi_is_scan.

(* ... read at L0: the contents of the rows found are the rows of the TableSpec table whose projection is the key *)
Theorem C07_find_multi_matches_spec :
  forall R ct rs m k t, (forall s, R s s = true) -> m_cons ct rs m -> map ct rs = rows t ->
  Permutation (map ct (find_multi R ct m k)) (filter (fun r => zlist_eqb (proj (mcols m) r) k) (rows t)).
Proof. exact find_multi_matches_spec. Qed.
Print Assumptions C07_find_multi_matches_spec.

(* Select / SelectCount through an index (pvSelectRec: index equalities into FindRaws, the other equalities and
   the row filter as residual filter f): whichever consistent unique or multi index covers the predicate g, the
   rows selected are those a scan selects, so the choice made by GetFit*HashIndex cannot change the result. *)
Theorem C07_index_choice_irrelevant :
  forall R ct rs u k1 f1 m k2 f2 g,
  (forall s, R s s = true) -> u_cons ct rs u -> m_cons ct rs m ->
  (forall r, g r = has_key ct (ucols u) k1 r && f1 r) -> (forall r, g r = has_key ct (mcols m) k2 r && f2 r) ->
  Permutation (select_via_unique R ct u k1 f1) (select_via_multi R ct m k2 f2) /\
  length (select_via_unique R ct u k1 f1) = length (select_scan rs g) /\
  length (select_via_multi R ct m k2 f2) = length (select_scan rs g).
Proof. exact index_choice_irrelevant. Qed.
Print Assumptions C07_index_choice_irrelevant.

(* the consistency relation is preserved by UniqueHash::Add+AcceptAdd of a new table row (or the hash is unchanged
   and a row with the same key is named) ... *)
Theorem C07_unique_add_preserves_consistency :
  forall ord R ct rs u raw tag,
  (forall s, R s s = true) -> u_cons ct rs u -> ~ In tag (map etag (uents u)) -> ~ In raw rs ->
  let '(u1, r) := u_add ord R ct u raw None tag in
  if Z.eqb r raw then u_cons ct (rs ++ [raw]) (u_accept_add u1)
  else u1 = u /\ In r rs /\ keyc ct (ucols u) r = keyc ct (ucols u) raw.
Proof. exact u_add_preserves_cons. Qed.
Print Assumptions C07_unique_add_preserves_consistency.

(* ... and by MultiHash::Add+AcceptAdd (existing key: pvAdd; new key: new group), including the sorted segments *)
Theorem C07_multi_add_preserves_consistency :
  forall ord R ct rs m raw tag,
  (forall s, R s s = true) -> m_cons ct rs m -> ~ In tag (map gtag (mgroups m)) -> ~ In raw rs ->
  (forall g, In g (mgroups m) -> length (gvals g) < max_vals) ->
  m_cons ct (rs ++ [raw]) (m_accept_add (m_add ord R ct m raw tag)).
Proof. exact m_add_preserves_cons. Qed.
Print Assumptions C07_multi_add_preserves_consistency.

(* The analogue of C07_update_column_index_consistent for the MULTI hash, code after 2211fdb: for every entry order
   and every reflexive visibility relation, after the accepted single-column update the multi hash again partitions
   exactly the table rows by their (NEW) projected keys - the row has left its old group and sits in the group of its
   new key (created if necessary) - stored keys are pairwise different, every row is listed once and the completed
   segments of every value array are sorted. *)
Theorem C07_multi_update_column_index_consistent :
  forall ord R ct rs m raw c v tag,
  (forall s, R s s = true) -> m_cons ct rs m -> In raw rs -> ~ In tag (map gtag (mgroups m)) ->
  has_col (mcols m) c = true -> c < length (ct raw) -> v <> getc (ct raw) c ->
  (forall g, In g (mgroups m) -> length (gvals g) < max_vals) ->
  let ct' := fun x => if Z.eqb x raw then set_col c v (ct raw) else ct x in
  m_cons ct' rs (m_accept_remove (m_accept_add (m_prepare_remove true R ct (m_add_mixed ord R ct m raw c v tag) raw)) raw).
Proof. exact m_update_column_preserves_cons. Qed.
Print Assumptions C07_multi_update_column_index_consistent.

(* DataIndexes::AddRaw on the WHOLE index state (all unique and multi hashes, two phases, any failure step fl, any
   entry order, any R): a state consistent with the table rows rs stays consistent - with rs + the new row when the
   operation is accepted, with rs when it is refused or throws. *)
Theorem C07_add_raw_preserves_consistency :
  forall ord R ct fl rs s raw,
  (forall k, R k k = true) -> good ct rs s -> ~ In raw rs -> length rs < max_vals ->
  let '(s', o) := add_raw ord R ct fl s raw in
  (o = Accepted /\ good ct (rs ++ [raw]) s') \/ (o <> Accepted /\ good ct rs s').
Proof. exact add_raw_good. Qed.
Print Assumptions C07_add_raw_preserves_consistency.

(* DataIndexes::RemoveRaw on the whole index state *)
Theorem C07_remove_raw_preserves_consistency :
  forall R ct fl rs rs' s raw,
  (forall k, R k k = true) -> good ct rs s -> Permutation rs (raw :: rs') ->
  let '(s', o) := remove_raw true true R ct fl s raw in
  (o = Accepted /\ good ct rs' s') \/ (o <> Accepted /\ good ct rs s').
Proof. exact remove_raw_good. Qed.
Print Assumptions C07_remove_raw_preserves_consistency.

(* DataIndexes::UpdateRaw(raw, column, item, assigner) on the whole index state: consistent with the returned row
   contents, which are the old ones unless the update was accepted *)
Theorem C07_update_column_preserves_consistency :
  forall ord R ct fl rs s raw c v,
  (forall k, R k k = true) -> good ct rs s -> In raw rs -> c < length (ct raw) -> length rs <= max_vals ->
  let '(s', o, ctn) := update_col true true ord R ct fl s raw c v in
  good ctn rs s' /\ (o <> Accepted -> ctn = ct).
Proof. exact update_col_good. Qed.
Print Assumptions C07_update_column_preserves_consistency.

(* EVERY index state reachable from the empty table - indexes created at any time over the current rows, AddRaw /
   RemoveRaw / single-column UpdateRaw with any failure step, entry order and visibility relation, arbitrary changes
   to rows outside the table - is consistent with the current table rows (below max_vals rows). *)
Theorem C07_every_reachable_index_state_consistent :
  forall ct rs s, reach ct rs s -> good ct rs s.
Proof. exact every_reachable_index_state_consistent. Qed.
Print Assumptions C07_every_reachable_index_state_consistent.

(* THE CENTRAL SENTENCE: after any such history, FindRaws through any unique or multi hash of the state, and
   Select / SelectCount through any index that covers the predicate (index equalities + residual filter), return
   exactly the rows (and the count) that the brute-force filter over the current rows returns. *)
Theorem C07_queries_equal_brute_force_all_histories :
  forall ct rs s, reach ct rs s ->
  (forall R u k, (forall x, R x x = true) -> In u (uhs s) ->
     Permutation (find_unique R ct u k) (filter (has_key ct (ucols u) k) rs)) /\
  (forall R m k, (forall x, R x x = true) -> In m (mhs s) ->
     Permutation (find_multi R ct m k) (filter (has_key ct (mcols m) k) rs)) /\
  (forall R u k f g, (forall x, R x x = true) -> In u (uhs s) -> (forall r, g r = has_key ct (ucols u) k r && f r) ->
     Permutation (select_via_unique R ct u k f) (select_scan rs g) /\
     length (select_via_unique R ct u k f) = length (select_scan rs g)) /\
  (forall R m k f g, (forall x, R x x = true) -> In m (mhs s) -> (forall r, g r = has_key ct (mcols m) k r && f r) ->
     Permutation (select_via_multi R ct m k f) (select_scan rs g) /\
     length (select_via_multi R ct m k f) = length (select_scan rs g)).
Proof. exact queries_equal_brute_force_all_histories. Qed.
Print Assumptions C07_queries_equal_brute_force_all_histories.

(* the one-array segment invariant lifted: every group of every multi hash of every reachable state *)
Theorem C07_reachable_segments_sorted :
  forall ct rs s m g, reach ct rs s -> In m (mhs s) -> In g (mgroups m) -> vals_ok (gvals g).
Proof. exact reachable_segments_sorted. Qed.
Print Assumptions C07_reachable_segments_sorted.

(* DataIndexes::UpdateRaw(oldRaw, newRaw) on the whole index state (the operation whose rejector seeded change A attacked):
   consistent with the rows after replacing old by new when accepted, with the old rows when refused or thrown. *)
Theorem C07_update_row_preserves_consistency :
  forall ord R ct fl rs rs' s old new,
  (forall k, R k k = true) -> good ct rs s -> ~ In new rs -> In old rs -> length rs < max_vals ->
  Permutation (rs ++ [new]) (old :: rs') ->
  let '(s', o) := update_raw true true ord R ct fl s old new in
  (o = Accepted /\ good ct rs' s') \/ (o <> Accepted /\ good ct rs s').
Proof. exact update_raw_good. Qed.
Print Assumptions C07_update_row_preserves_consistency.

(* DataIndexes::FilterRaws on the whole index state: every unique hash and every group of every multi hash keeps
   exactly the kept rows (and the segments are sorted again) *)
Theorem C07_filter_raws_preserves_consistency :
  forall ct rs keep s, good ct rs s -> length rs <= max_vals -> good ct (filter keep rs) (filter_raws keep s).
Proof. exact filter_raws_good. Qed.
Print Assumptions C07_filter_raws_preserves_consistency.

(* DataTable's row-level operations as call sequences on mRaws and DataIndexes (TryAdd/TryInsert with mRaws.Reserve
   BEFORE AddRaw, TryUpdate row, TryUpdate column, Remove/Extract), for EVERY allocation-failure schedule (Reserve throws
   or not, any step of the index operation throws or not), order and R: either fully applied (rows as in TableSpec,
   indexes consistent with them) or the table, the row contents and every unique hash are exactly what they were and
   every multi hash holds the same rows. *)
Theorem C07_table_op_atomic_under_allocation_failure :
  (forall ord R f st n raw,
     (forall k, R k k = true) -> tgood st -> ~ In raw (trows st) -> length (trows st) < max_vals -> n <= length (trows st) ->
     let '(st', r) := t_insert ord R f st n raw in
     tgood st' /\ ((r = TOk /\ trows st' = insert_at n raw (trows st)) \/ (r <> TOk /\ unchanged st st'))) /\
  (forall ord R f st n new,
     (forall k, R k k = true) -> tgood st -> ~ In new (trows st) -> n < length (trows st) -> length (trows st) < max_vals ->
     let '(st', r) := t_update_row ord R f st n new in
     tgood st' /\ ((r = TOk /\ trows st' = set_nth n new (trows st)) \/ (r <> TOk /\ unchanged st st'))) /\
  (forall ord R f st n c v,
     (forall k, R k k = true) -> tgood st -> n < length (trows st) -> c < length (tct st (nth n (trows st) 0%Z)) ->
     length (trows st) <= max_vals ->
     let '(st', r) := t_update_col ord R f st n c v in
     tgood st' /\ trows st' = trows st /\ (r <> TOk -> unchanged st st')) /\
  (forall R f st n keep_order,
     (forall k, R k k = true) -> tgood st -> n < length (trows st) ->
     let '(st', r) := t_remove R f st n keep_order in
     tgood st' /\ ((r = TOk /\ trows st' = if keep_order then remove_nth n (trows st) else remove_unordered n (trows st)) \/
                   (r <> TOk /\ trows st' = trows st /\ tct st' = tct st))).
Proof. exact table_op_atomic_under_allocation_failure. Qed.
Print Assumptions C07_table_op_atomic_under_allocation_failure.

(* ... and the ordering introduced by seeded change B (AddRaw first, Reserve afterwards) is NOT atomic: witness *)
Theorem C07_reserve_after_addraw_refuted :
  exists ord R f st n raw,
    (forall k, R k k = true) /\ tgood st /\ ~ In raw (trows st) /\
    let '(st', r) := t_insert_reserve_late ord R f st n raw in
    r = TThrown /\ trows st' = trows st /\
    exists m, In m (mhs (tidx st')) /\ In raw (find_multi R (tct st') m (keyc (tct st') (mcols m) raw)).
Proof. exact reserve_after_addraw_refuted. Qed.
Print Assumptions C07_reserve_after_addraw_refuted.

(* every table state reachable by TryAdd / TryInsert / TryUpdate (row, column) / Remove / Extract / Remove(range, filter) /
   Assign / Clear / index creation / NewRow under any failure schedule is consistent ... *)
Theorem C07_every_table_state_consistent : forall st, treach st -> tgood st.
Proof. exact every_table_state_consistent. Qed.
Print Assumptions C07_every_table_state_consistent.

(* ... so in every reachable table state a query through any index equals the brute-force filter over the table rows *)
Theorem C07_table_queries_equal_brute_force :
  forall st, treach st ->
  (forall R u k, (forall x, R x x = true) -> In u (uhs (tidx st)) ->
     Permutation (find_unique R (tct st) u k) (filter (has_key (tct st) (ucols u) k) (trows st))) /\
  (forall R m k, (forall x, R x x = true) -> In m (mhs (tidx st)) ->
     Permutation (find_multi R (tct st) m k) (filter (has_key (tct st) (mcols m) k) (trows st))) /\
  (forall R m k f g, (forall x, R x x = true) -> In m (mhs (tidx st)) -> (forall r, g r = has_key (tct st) (mcols m) k r && f r) ->
     Permutation (select_via_multi R (tct st) m k f) (select_scan (trows st) g)) /\
  (forall R u k f g, (forall x, R x x = true) -> In u (uhs (tidx st)) -> (forall r, g r = has_key (tct st) (ucols u) k r && f r) ->
     Permutation (select_via_unique R (tct st) u k f) (select_scan (trows st) g)).
Proof. exact table_queries_equal_brute_force. Qed.
Print Assumptions C07_table_queries_equal_brute_force.

(* DataSelection::Sort: the key sequence is the sorted permutation of the keys (lexicographic column compare) *)
Theorem C07_selection_sort_is_sorted_permutation :
  forall n ks, Forall (fun x => length x = n) ks -> Permutation (sort_keys ks) ks /\ ksorted (sort_keys ks).
Proof. exact sort_is_sorted_permutation. Qed.
Print Assumptions C07_selection_sort_is_sorted_permutation.

(* std::upper_bound's halving loop returns the partition point of any partitioned range ... *)
Theorem C07_upper_bound_bisection_correct :
  forall (p : list Z -> bool) d l k, partitioned p d l k -> ub_bisect (S (length l)) p d l 0 (length l) = k.
Proof. exact ub_bisect_partition_point. Qed.
Print Assumptions C07_upper_bound_bisection_correct.

(* ... so on a sorted selection GetLowerBound / GetUpperBound (pvBinarySearch's two predicates) are the number of keys
   below / not above the key, and between them lie exactly the keys equal to it *)
Theorem C07_selection_bounds_are_equal_range :
  forall n ks k, Forall (fun x => length x = n) ks -> length k = n -> ksorted ks ->
  ub_bisect (S (length ks)) (lower_pred k) [] ks 0 (length ks) = lower_bound_count ks k /\
  ub_bisect (S (length ks)) (upper_pred k) [] ks 0 (length ks) = upper_bound_count ks k /\
  upper_bound_count ks k = lower_bound_count ks k + length (filter (fun x => zlist_eqb x k) ks).
Proof. exact bounds_are_equal_range. Qed.
Print Assumptions C07_selection_bounds_are_equal_range.

(* C07_conflict_row_is_witness THROUGH the L1 model: on an index state consistent with the table rows (L0 rows = map ct rs,
   unique indexes = the column lists of the unique hashes in order) DataIndexes::AddRaw refuses exactly when
   TableSpec.find_conflict does, naming the same row (position n, address nth n rs) and the same unique-index number j - the
   first colliding index in index order; accepted means no collision; any failure step, order, R. *)
Theorem C07_add_raw_refusal_agrees_with_spec :
  forall ord R ct rs fl, (forall k, R k k = true) -> forall raw, ~ In raw rs ->
  forall s, Forall (u_cons ct rs) (uhs s) ->
  match snd (add_raw ord R ct fl s raw) with
  | Accepted => find_conflict (map ucols (uhs s)) 0 (map ct rs) (ct raw) None = None
  | Refused r j => exists n, find_conflict (map ucols (uhs s)) 0 (map ct rs) (ct raw) None = Some (n, j) /\ nth_error rs n = Some r
  | Thrown => True
  end.
Proof. exact add_raw_refusal_agrees. Qed.
Print Assumptions C07_add_raw_refusal_agrees_with_spec.

(* the same for the whole-row UpdateRaw(old,new): the row being replaced (position nold) is skipped, as in TableSpec *)
Theorem C07_update_raw_refusal_agrees_with_spec :
  forall ord R ct rs fl, (forall k, R k k = true) -> NoDup rs -> forall raw, ~ In raw rs ->
  forall old nold, nth_error rs nold = Some old ->
  forall s, Forall (u_cons ct rs) (uhs s) ->
  match snd (update_raw true true ord R ct fl s old raw) with
  | Accepted => find_conflict (map ucols (uhs s)) 0 (map ct rs) (ct raw) (Some nold) = None
  | Refused r j => exists n, find_conflict (map ucols (uhs s)) 0 (map ct rs) (ct raw) (Some nold) = Some (n, j) /\
                             nth_error rs n = Some r /\ n <> nold
  | Thrown => True
  end.
Proof. exact update_raw_refusal_agrees. Qed.
Print Assumptions C07_update_raw_refusal_agrees_with_spec.

(* Remove / Extract: RemoveRaw's only fallible phase consists of lookups (no allocation), so with bad_alloc as the only
   failure it cannot fail; if the phase is nevertheless made to throw, the table, the contents, EVERY unique hash and every
   multi hash are exactly what they were *)
Theorem C07_remove_failure_unchanged :
  forall R f st n keep_order, tgood st -> snd (t_remove R f st n keep_order) <> TOk ->
  unchanged st (fst (t_remove R f st n keep_order)).
Proof. exact t_remove_failure_unchanged. Qed.
Print Assumptions C07_remove_failure_unchanged.

(* keepRowNumber at table level: with the pvSetNumber / pvSetNumbers(beginNumber) calls each DataTable operation makes, the
   number stored in every row is its position after EVERY table operation - accepted, refused or interrupted by an
   allocation failure (the bookkeeping does not depend on static / dynamic column lists: the number lives in the raw) *)
Theorem C07_table_row_numbers_are_positions :
  (forall ord R f st n raw nums, nums = seq 0 (length (trows st)) -> n <= length (trows st) ->
     let '(st', r) := t_insert ord R f st n raw in num_insert n (length (trows st)) r nums = seq 0 (length (trows st'))) /\
  (forall ord R f st n new nums, nums = seq 0 (length (trows st)) -> n < length (trows st) ->
     let '(st', r) := t_update_row ord R f st n new in num_update_row n r nums = seq 0 (length (trows st'))) /\
  (forall ord R f st n c v nums, nums = seq 0 (length (trows st)) ->
     let '(st', r) := t_update_col ord R f st n c v in nums = seq 0 (length (trows st'))) /\
  (forall R f st n keep_order nums, nums = seq 0 (length (trows st)) -> n < length (trows st) ->
     let '(st', r) := t_remove R f st n keep_order in num_remove n keep_order r nums = seq 0 (length (trows st'))) /\
  (forall st keep, num_filter (length (trows (t_filter st keep))) = seq 0 (length (trows (t_filter st keep)))) /\
  (forall st, @nil nat = seq 0 (length (trows (t_clear st)))).
Proof. exact table_row_numbers_are_positions. Qed.
Print Assumptions C07_table_row_numbers_are_positions.

(* Project / ProjectDistinct: the loop of pvProject (keep the projected row unless the result table's unique hash refuses
   it) computes TableSpec.project ... *)
Theorem C07_project_loop_is_spec :
  forall t distinct p cols, project_loop distinct cols p (rows t) [] = project t distinct p cols.
Proof. exact project_loop_is_spec. Qed.
Print Assumptions C07_project_loop_is_spec.

(* ... which is the projection of the brute-force rows, and for ProjectDistinct its duplicate-free version with exactly
   the same keys *)
Theorem C07_project_is_projection_of_scan :
  forall t p cols,
  project t false p cols = map (proj cols) (filter (evalp p) (rows t)) /\
  NoDup (project t true p cols) /\
  (forall k, In k (project t true p cols) <-> In k (map (proj cols) (filter (evalp p) (rows t)))).
Proof. exact project_is_projection_of_scan. Qed.
Print Assumptions C07_project_is_projection_of_scan.

(* Selection::Group -> HashSorter::pvGroup (the swap loop run on every run of equal hash codes): for every run the result is a
   permutation in which equal keys are adjacent (after the leading copies of a key the key does not occur again, recursively) *)
Theorem C07_selection_group_adjacent_permutation :
  forall fuel l, length l <= fuel -> Permutation (pvgroup fuel l) l /\ forall fuel2, grp fuel2 (pvgroup fuel l).
Proof. exact pvgroup_spec. Qed.
Print Assumptions C07_selection_group_adjacent_permutation.

(* ... and the "first == last => all equal" shortcut of seeded change wave-2/b is refuted: A, B, A stays ungrouped *)
Theorem C07_selection_group_shortcut_refuted : exists l, ~ grp (S (length l)) (pvsort_run_shortcut l).
Proof. exact group_shortcut_refuted. Qed.
Print Assumptions C07_selection_group_shortcut_refuted.

(* ---------------------------------------------------------------- round 7: model growth *)

(* Gen_MultiHashOps.pvAdd is REGENERATED from DataIndexes::MultiHash::pvAdd on every run (the arguments of the pvSortRaws call
   are recorded; (0, 0) = no call).  For every array size below max_vals it is this wrap-free rule: at a positive multiple
   of 64 whose GetSegItemIndexes item index is 0, sort [n - GetItemCount(segIndex - 1), n); otherwise do not sort. *)
Theorem C07_generated_pvadd_decision :
  forall z, (0 <= z < Z.of_nat max_vals)%Z ->
  Gen_MultiHashOps.pvAdd 0 0 z =
  (if Z.ltb 0 z && Z.eqb (z mod 64) 0
   then let p := Gen_Segments.GetSegItemIndexes z in
        if Z.eqb (snd p) 0 then (z - Gen_Segments.GetItemCount (fst p - 1), z)%Z else (0, 0)%Z
   else (0, 0)%Z).
Proof. exact pvAdd_range_Z. Qed.
Print Assumptions C07_generated_pvadd_decision.

(* MultiHash.pv_add - the function every theorem above about Add / update / reach is stated for, and the one extracted and
   run against the real DataIndexes - takes its decision from that generated function; it equals the former hand
   transcription of pvAdd (refinement of the hand model by the generated code) *)
Theorem C07_pvadd_generated_refines_hand :
  forall raw vals, length vals < max_vals -> pv_add raw vals = pv_add_hand raw vals.
Proof. exact pv_add_is_hand. Qed.
Print Assumptions C07_pvadd_generated_refines_hand.

(* FRAME: every member function of MultiHash that can write a key's value array keeps the sorted-segment invariant on every
   key, assuming nothing about the rest of the index state (AcceptRemove under its own MOMO_ASSERT) *)
Theorem C07_multihash_ops_frame :
  forall o m, msmall m -> mop_assert o m -> mvok m -> mvok (mapply o m).
Proof. exact multihash_ops_frame. Qed.
Print Assumptions C07_multihash_ops_frame.

(* Selection::Group as a whole (HashSorter::Sort = radix sort by hash code + groupFunc on every run of equal codes): for EVERY
   hash-sorted arrangement s of the selection l - in particular the one RadixSorter produced (property C17) - grouping the
   runs longer than 2 gives a permutation of l in which equal keys are adjacent *)
Theorem C07_selection_group_whole :
  forall (h : K -> Z) l s, Permutation l s -> StronglySorted (hle h) s ->
  Permutation (hash_group h s) l /\ forall f, grp f (hash_group h s).
Proof. exact hash_group_spec. Qed.
Print Assumptions C07_selection_group_whole.

(* ... and the guard `count > 2` of HashSorter::pvSort's groupFunc is tight *)
Theorem C07_selection_group_guard_refuted :
  exists h s, StronglySorted (hle h) s /\ ~ grp (S (length s)) (concat (map group_func3 (runs h s))).
Proof. exact group_guard_refuted. Qed.
Print Assumptions C07_selection_group_guard_refuted.

(* ---------------------------------------------------------------- review-fix round

   The Thrown branch of the two refusal-agreement theorems above is `True`: a throw needs an injected failure - with the empty
   failure schedule none of the two-phase operations throws (and RemoveRaw accepts); what a throw leaves behind is the subject
   of C07_two_phase_atomic_* / C07_generated_sequences_atomic *)
Theorem C07_no_failure_no_throw :
  forall fixu fixm ord R ct s,
  (forall raw, snd (add_raw ord R ct None s raw) <> Thrown) /\
  (forall old new, snd (update_raw fixu fixm ord R ct None s old new) <> Thrown) /\
  (forall raw c v, snd (fst (update_col fixu fixm ord R ct None s raw c v)) <> Thrown) /\
  (forall raw, snd (remove_raw fixu fixm R ct None s raw) = Accepted).
Proof. exact no_failure_no_throw. Qed.
Print Assumptions C07_no_failure_no_throw.

(* what is proved about the cxx2coq translation of SegmentedArraySettings<sqrt,6> (Gen_Segments.v; seg_size k =
   GetItemCount k, seg_item_indexes n = GetSegItemIndexes n, both regenerated on every run; Gen_Log2 is only their Log2 callee):
   for every array below max_vals the item index is 0 exactly at the cumulative segment boundaries and the segment index is
   then the number of completed segments; every segment size up to index 4097 is a positive multiple of 64 *)
Theorem C07_generated_segment_boundaries :
  forall n, 0 < n -> n < max_vals -> n mod 64 = 0 ->
  (snd (seg_item_indexes n) = 0 ->
     exists j, j < 200 /\ n = spanr seg_size 0 64 j /\ fst (seg_item_indexes n) = S j) /\
  (forall j, n = spanr seg_size 0 64 j -> snd (seg_item_indexes n) = 0).
Proof. exact boundary_test. Qed.
Print Assumptions C07_generated_segment_boundaries.

Theorem C07_generated_segment_sizes :
  forall k, k <= 4097 -> 64 <= seg_size k /\ exists q, seg_size k = 64 * q.
Proof. exact size_facts. Qed.
Print Assumptions C07_generated_segment_sizes.

(* ---------------------------------------------------------------- round 8: generated call sequences, index selection, pvFill *)
From C07 Require Gen_Protocol.
From Coq Require Import String.
From C07 Require Import ProtoSyntax ProtoSem ProtoProofs FitSem UHashSem UHashProofs FillModel MHashSem MHashProofs SelectModel SelEditModel SelectReach.
Local Open Scope string_scope.

(* The statement trees of DataIndexes::AddRaw / RemoveRaw / UpdateRaw(old,new) / UpdateRaw(raw, offset, item, assigner) are
   DUMPED from DataIndexes.h on every run (Gen_Protocol.v) and executed, loop by loop and call by call in the dumped order, by
   ProtoSem's interpreter: they ARE the hand model's add_raw / remove_raw / update_raw / update_col, for every index state,
   failure schedule, entry order and visibility relation. *)
Theorem C07_generated_AddRaw_is_model :
  forall fixu fixm ord R ct fl s raw,
  run_tree fixu fixm ord R ct Gen_Protocol.AddRaw (upd empty_env "raw" (IRaw raw)) fl s = Some (add_raw ord R ct fl s raw, false).
Proof. exact generated_AddRaw. Qed.
Print Assumptions C07_generated_AddRaw_is_model.

Theorem C07_generated_RemoveRaw_is_model :
  forall fixu fixm ord R ct fl s raw,
  run_remove_tree fixu fixm ord R ct Gen_Protocol.RemoveRaw (upd empty_env "raw" (IRaw raw)) fl s
  = Some (remove_raw fixu fixm R ct fl s raw).
Proof. exact generated_RemoveRaw. Qed.
Print Assumptions C07_generated_RemoveRaw_is_model.

Theorem C07_generated_UpdateRaw_is_model :
  forall fixu fixm ord R ct fl s old new,
  run_tree fixu fixm ord R ct Gen_Protocol.UpdateRaw2 (upd (upd empty_env "oldRaw" (IRaw old)) "newRaw" (IRaw new)) fl s
  = Some (update_raw fixu fixm ord R ct fl s old new, false).
Proof. exact generated_UpdateRaw2. Qed.
Print Assumptions C07_generated_UpdateRaw_is_model.

Theorem C07_generated_UpdateRawColumn_is_model :
  forall fixu fixm ord R ct fl s raw c v,
  run_col_tree fixu fixm ord R ct Gen_Protocol.UpdateRawCol raw c v fl s =
  Some (fst (update_col fixu fixm ord R ct fl s raw c v),
        match snd (fst (update_col fixu fixm ord R ct fl s raw c v)) with Accepted => true | _ => false end).
Proof. exact generated_UpdateRawCol. Qed.
Print Assumptions C07_generated_UpdateRawColumn_is_model.

(* "on refusal or exception every index is as before" for the call sequences that are in the source today *)
Theorem C07_generated_sequences_atomic :
  forall fixu fixm ord R ct fl s, wf s ->
  (forall raw s' o b, Forall (row_absent_m raw) (mhs s) ->
     run_tree fixu fixm ord R ct Gen_Protocol.AddRaw (upd empty_env "raw" (IRaw raw)) fl s = Some (s', o, b) ->
     o <> Accepted -> rolled_back s s' /\ b = false) /\
  (forall old new s' o b, Forall (row_absent_u new) (uhs s) -> Forall (row_absent_m new) (mhs s) ->
     run_tree fixu fixm ord R ct Gen_Protocol.UpdateRaw2 (upd (upd empty_env "oldRaw" (IRaw old)) "newRaw" (IRaw new)) fl s
       = Some (s', o, b) ->
     o <> Accepted -> rolled_back s s' /\ b = false) /\
  (forall raw c v s' o b,
     run_col_tree fixu fixm ord R ct Gen_Protocol.UpdateRawCol raw c v fl s = Some (s', o, b) ->
     o <> Accepted -> rolled_back s s' /\ b = false).
Proof. exact generated_sequences_atomic. Qed.
Print Assumptions C07_generated_sequences_atomic.

(* UniqueHash member functions as dumped from the source = the hand model's functions (positions distinct, a remembered
   position occupied, Add uses a fresh position) *)
Theorem C07_generated_uniquehash_add :
  forall ord R ct tag u raw old, tags_nodup u -> (forall e, In e (uents u) -> etag e <> tag) ->
  urun ord R ct tag Gen_Protocol.U_Add2 u (uupd (uupd env0 "raw" (UVraw raw)) "oldRaw" (UVraw old)) =
  Some (fst (u_add ord R ct u raw (Some old) tag), Some (UVraw (snd (u_add ord R ct u raw (Some old) tag)))).
Proof. exact gen_Add2. Qed.
Print Assumptions C07_generated_uniquehash_add.

Theorem C07_generated_uniquehash_add_mixed :
  forall ord R ct tag u raw c v, tags_nodup u -> (forall e, In e (uents u) -> etag e <> tag) ->
  urun ord R ct tag Gen_Protocol.U_AddMixed u (uupd env0 "hashMixedKey" (UVmixed raw c v)) =
  Some (fst (u_add_mixed ord R ct u raw c v tag), Some (UVraw (snd (u_add_mixed ord R ct u raw c v tag)))).
Proof. exact gen_AddMixed. Qed.
Print Assumptions C07_generated_uniquehash_add_mixed.

(* PrepareRemove with the linear fallback scan of 4f7b624 *)
Theorem C07_generated_uniquehash_prepare_remove :
  forall ord R ct tag u raw, tags_nodup u -> uprem u = None ->
  urun ord R ct tag Gen_Protocol.U_PrepareRemove u (uupd env0 "raw" (UVraw raw)) = Some (u_prepare_remove true R ct u raw, None).
Proof. exact gen_PrepareRemove. Qed.
Print Assumptions C07_generated_uniquehash_prepare_remove.

Theorem C07_generated_uniquehash_reject_accept :
  forall ord R ct tag u,
  urun ord R ct tag Gen_Protocol.U_RejectAdd0 u env0 = Some (u_reject_add u, None) /\
  urun ord R ct tag Gen_Protocol.U_AcceptAdd0 u env0 = Some (u_accept_add u, None) /\
  urun ord R ct tag Gen_Protocol.U_RejectRemove u env0 = Some (u_reject_remove u, None) /\
  urun ord R ct tag Gen_Protocol.U_AcceptRemove u env0 = Some (u_accept_remove u, None) /\
  (forall raw, urun ord R ct tag Gen_Protocol.U_AcceptAdd1 u (uupd env0 "raw" (UVraw raw)) = Some (u_accept_add_raw u raw, None)) /\
  (forall raw, tags_nodup u -> pos_occupied u ->
     urun ord R ct tag Gen_Protocol.U_RejectAdd1 u (uupd env0 "raw" (UVraw raw)) = Some (u_reject_add_raw u raw, None)).
Proof. exact gen_reject_accept. Qed.
Print Assumptions C07_generated_uniquehash_reject_accept.

(* FRAME for the unique hash: every member function that writes mHashSet keeps the positions distinct and bounded *)
Theorem C07_uniquehash_ops_frame :
  forall ord R ct tag o n u, n <= tag -> upos_ok n u -> upos_ok (S tag) (uapply ord R ct tag o u).
Proof. exact uniquehash_ops_frame. Qed.
Print Assumptions C07_uniquehash_ops_frame.

(* Index selection: the dumped GetFitUniqueHashIndex / GetFitMultiHashIndex are fit_unique / fit_multi ... *)
Theorem C07_generated_fit_is_model :
  forall us ms q,
  run_fit Gen_Protocol.GetFitUniqueHashIndex us ms q = Some (fit_unique us q) /\
  run_fit Gen_Protocol.GetFitMultiHashIndex us ms q = Some (fit_multi ms q).
Proof. exact generated_fit. Qed.
Print Assumptions C07_generated_fit_is_model.

(* ... and the index they choose exists and ALL its columns are equality columns of the query; the multi index chosen has
   the most keys among the covering ones, and none is chosen only if every covering multi index is empty *)
Theorem C07_fit_index_covers_query :
  forall us ms q,
  (forall j, fit_unique us q = Some j -> exists cols kc, nth_error us j = Some (cols, kc) /\ incl cols q) /\
  match fit_multi ms q with
  | Some j => exists cols kc, nth_error ms j = Some (cols, kc) /\ incl cols q /\ 0 < kc /\
                forall i' cols' kc', nth_error ms i' = Some (cols', kc') -> includes q cols' = true -> kc' <= kc
  | None => forall i cols kc, nth_error ms i = Some (cols, kc) -> includes q cols = true -> kc = 0
  end.
Proof. exact fit_covers. Qed.
Print Assumptions C07_fit_index_covers_query.

(* pvFill (copy / filter-copy constructors) with the code as it is now: for every failure point nothing is destroyed twice
   and nothing leaks although pvDestroyRaws runs twice (handler + destructor) *)
Theorem C07_fill_failure_safe :
  forall fl rows, NoDup rows ->
  let '(st, threw) := copy_construct true fl rows in
  f_ok st = true /\ (if threw then f_live st = [] /\ f_raws st = [] else f_live st = rows /\ f_raws st = rows).
Proof. exact fill_failure_safe. Qed.
Print Assumptions C07_fill_failure_safe.

(* ... and the handler without mRaws.Clear() (before 91ea186) destroys a row twice *)
Theorem C07_fill_without_clear_refuted :
  exists fl rows, NoDup rows /\ f_ok (fst (copy_construct false fl rows)) = false.
Proof. exact fill_without_clear_refuted. Qed.
Print Assumptions C07_fill_without_clear_refuted.

(* ---------------------------------------------------------------- round 9 *)

(* MultiHash member functions as dumped from the source = the hand model's functions *)
Theorem C07_generated_multihash_reject_accept :
  forall R ct m,
  mrun R ct Gen_Protocol.M_AcceptAdd m menv0 = Some (m_accept_add m, None) /\
  mrun R ct Gen_Protocol.M_RejectRemove m menv0 = Some (m_reject_remove m, None) /\
  (gtags_nodup m -> padd_occupied m -> mrun R ct Gen_Protocol.M_RejectAdd m menv0 = Some (m_reject_add m, None)).
Proof. exact gen_M_simple. Qed.
Print Assumptions C07_generated_multihash_reject_accept.

(* PrepareRemove with the scan for the other content-equal key (2211fdb) *)
Theorem C07_generated_multihash_prepare_remove :
  forall R ct m raw, mprem m = None ->
  mrun R ct Gen_Protocol.M_PrepareRemove m (mupd menv0 "raw" (MVraw raw)) = Some (m_prepare_remove true R ct m raw, None).
Proof. exact gen_M_PrepareRemove. Qed.
Print Assumptions C07_generated_multihash_prepare_remove.

(* Find with the empty bounds for an absent key (95ed81f) *)
Theorem C07_generated_multihash_find :
  forall R ct m k,
  mrun R ct Gen_Protocol.M_Find m (mupd (mupd menv0 "hashTupleKey" (MVkey k)) "version" MVversion)
  = Some (m, Some (MVbounds (find_multi R ct m k))).
Proof. exact gen_M_Find. Qed.
Print Assumptions C07_generated_multihash_find.

(* DataTable::pvFill as dumped from the source (with mRaws.Clear() in the handler, 91ea186) = the model C07_fill_failure_safe is about *)
Theorem C07_generated_pvFill_is_model :
  forall fl rows st, fill_tree Gen_Protocol.T_pvFill fl rows st = Some (fill true fl rows 0 st).
Proof. exact generated_pvFill. Qed.
Print Assumptions C07_generated_pvFill_is_model.

(* pvSelect / pvSelectRec: through the index chosen by the generated GetFit*Index functions (or none), the equalities on index
   columns as the key and the others wrapped around the row filter, the result is the brute-force filter of the rows *)
Theorem C07_pvselect_is_brute_force :
  forall R ct s rs q eqs f,
  (forall k, R k k = true) -> consistent ct rs s ->
  NoDup (map fst eqs) -> (forall c, In c q <-> In c (map fst eqs)) ->
  Permutation (pv_select R ct s rs q eqs f) (filter (fun r => sat_eqs ct eqs r && f r) rs).
Proof. exact pv_select_is_scan. Qed.
Print Assumptions C07_pvselect_is_brute_force.

(* ... and the dumped pvSelect (unique index first, then multi, then the scan with pvIsSatisfied && rowFilter) is that model *)
Theorem C07_generated_pvSelect_is_model :
  forall R ct s rs q eqs f,
  sel_stmts R ct s rs q eqs f Gen_Protocol.T_pvSelect (fun _ => None) None = Some (pv_select R ct s rs q eqs f).
Proof. exact generated_pvSelect. Qed.
Print Assumptions C07_generated_pvSelect_is_model.

(* ---------------------------------------------------------------- round 10 *)

(* pvSelectRec: every instantiated overload of the variadic recursion is one of two shapes (same code) ... *)
Theorem C07_pvselectrec_instantiations_same_code :
  forallb (fun t => is_step t || base_tree t) Gen_Protocol.T_pvSelectRec_all = true.
Proof. exact all_same_code. Qed.
Print Assumptions C07_pvselectrec_instantiations_same_code.

(* ... and the recursion run on the dumped overloads is the hand model select_rec used by C07_pvselect_is_brute_force *)
Theorem C07_generated_pvSelectRec_is_model :
  forall ct cols eqs f tuple,
  rec_tree ct cols first_step first_base eqs f tuple = Some (select_rec ct cols eqs f tuple).
Proof. exact generated_pvSelectRec. Qed.
Print Assumptions C07_generated_pvSelectRec_is_model.

(* DataSelection editing: Remove(filter)'s compacting swap loop keeps exactly the rejected rows in order and counts the removed
   ones; Insert(index, range) = Add + rotate is the splice; Assign = Add + Remove(0, old count) is the new range *)
Theorem C07_selection_remove_filter_is_filter :
  forall (p : Z -> bool) l,
  sel_remove_pred p l = filter (fun x => negb (p x)) l /\ List.length (snd (remove_loop p [] [] l)) = List.length (filter p l).
Proof. exact remove_pred_is_filter. Qed.
Print Assumptions C07_selection_remove_filter_is_filter.

Theorem C07_selection_insert_range_assign :
  forall (l xs : list Z) i,
  (i <= List.length l -> sel_insert_range i xs l = (firstn i l ++ xs ++ skipn i l)%list) /\ sel_assign xs l = xs.
Proof. exact insert_assign_spec. Qed.
Print Assumptions C07_selection_insert_range_assign.

(* frame: whatever editing function is applied, a selection of rows of the table stays one if the rows handed in are table rows *)
Theorem C07_selection_edit_frame :
  forall (rs : list Z) o l, incl l rs -> incl (op_rows o) rs -> incl (sel_apply o l) rs.
Proof. exact selection_edit_frame. Qed.
Print Assumptions C07_selection_edit_frame.

(* ---------------------------------------------------------------- final round: the premise `consistent` discharged

   pvSelect / pvSelectRec equal the brute-force filter on EVERY index state reachable from the empty one ... *)
Theorem C07_pvselect_all_histories :
  forall R ct rs s q eqs f,
  reach ct rs s -> (forall k, R k k = true) -> NoDup (map fst eqs) -> (forall c, In c q <-> In c (map fst eqs)) ->
  Permutation (pv_select R ct s rs q eqs f) (filter (fun r => sat_eqs ct eqs r && f r) rs).
Proof. exact pvselect_all_histories. Qed.
Print Assumptions C07_pvselect_all_histories.

(* ... and on every table state reachable by the DataTable-level operations (incl. allocation failures) the statement tree
   of pvSelect DUMPED from the source runs and returns a permutation of the brute-force filter of the current rows *)
Theorem C07_generated_pvselect_every_table_state :
  forall R st q eqs f,
  TableOps.treach st -> (forall k, R k k = true) -> NoDup (map fst eqs) -> (forall c, In c q <-> In c (map fst eqs)) ->
  exists l,
    sel_stmts R (TableOps.tct st) (TableOps.tidx st) (TableOps.trows st) q eqs f Gen_Protocol.T_pvSelect (fun _ => None) None = Some l /\
    Permutation l (filter (fun r => sat_eqs (TableOps.tct st) eqs r && f r) (TableOps.trows st)).
Proof. exact generated_pvselect_every_table_state. Qed.
Print Assumptions C07_generated_pvselect_every_table_state.
