(* C12 model driver: one case per line, one result line per case (same format as harness.cpp).
   o2add s1 sh0 sh1 sh2 hp0 hp1 hp2 h L probe     Gen_O2.AddCrt        -> s1 sh0..2 hp0..2 | Stuck
   o2rem s1 sh0.. hp0.. index                     Gen_O2.Remove
   o2get sh0.. hp0.. full bidx L newL index       Gen_O2.GetHashCodePart -> value | Stuck
   p4set H s0..s(H-1) idx h L probe               Gen_P4.pvSetHashProbe
   p4rem H s.. idx                                Gen_P4.Remove (count >= 2)
   p4get H s.. full bidx L newL idx               Gen_P4.GetHashCodePart
   p4seq H ops                                    a h L probe | r idx | g idx bidx L newL full   (P4_Model.p4_add, Remove, GetHashCodePart)
   oneadd/onerem/oneget, start h L, next kind i L p, short h *)
open Zutil
open GenPrelude
let zi = z_of_int
let arr (l : BinNums.coq_Z list) = let a = Array.of_list l in
  fun i -> let k = int_of_z i in if k >= 0 && k < Array.length a then a.(k) else zi 0
let show f n = String.concat " " (List.init n (fun i -> string_of_z (f (zi i))))
let rec take n l = if n = 0 then ([], l) else match l with x :: r -> let (a, b) = take (n - 1) r in (x :: a, b) | [] -> ([], [])
let zs = List.map z_of_string
let mm = zi 2   (* minMemPoolIndex: only forwarded to the skipped pvSetPtrState *)
let () = iter_lines (fun line ->
  match words line with
  | "o2add" :: s1 :: rest ->
    let (sh, rest) = take 3 rest in let (hp, rest) = take 3 rest in
    (match rest with [h; l; p] ->
      (match Gen_O2.coq_AddCrt (arr [zi 0; z_of_string s1]) (arr (zs sh)) (arr (zs hp)) (z_of_string h) (z_of_string l) (z_of_string p) (zi 0) with
       | Ok (((_, st), a), b) -> Printf.printf "%s %s %s\n" (string_of_z (st (zi 1))) (show a 3) (show b 3)
       | _ -> print_endline "Stuck")
     | _ -> print_endline "?")
  | "o2rem" :: s1 :: rest ->
    let (sh, rest) = take 3 rest in let (hp, rest) = take 3 rest in
    (match rest with [idx] ->
      (match Gen_O2.coq_Remove (arr [zi 0; z_of_string s1]) (arr (zs sh)) (arr (zs hp)) (z_of_string idx) with
       | Ok (((_, st), a), b) -> Printf.printf "%s %s %s\n" (string_of_z (st (zi 1))) (show a 3) (show b 3)
       | _ -> print_endline "Stuck")
     | _ -> print_endline "?")
  | "o2get" :: rest ->
    let (sh, rest) = take 3 rest in let (hp, rest) = take 3 rest in
    (match zs rest with [full; bidx; l; nl; idx] ->
      (match Gen_O2.coq_GetHashCodePart (arr [zi 0; zi 0]) (arr (zs sh)) (arr (zs hp)) full bidx l nl idx with
       | Ok v -> print_endline (string_of_z v) | _ -> print_endline "Stuck")
     | _ -> print_endline "?")
  | "p4set" :: h :: rest ->
    let hc = int_of_string h in let (s, rest) = take hc rest in
    (match zs rest with [idx; x; l; p] -> print_endline (show (Gen_P4.pvSetHashProbe (zi hc) (arr (zs s)) idx x l p) hc)
     | _ -> print_endline "?")
  | "p4rem" :: h :: rest ->
    let hc = int_of_string h in let (s, rest) = take hc rest in
    (match zs rest with [idx] ->
      let st = arr (zs s) in
      if int_of_z (Gen_P4.pvGetCount st) = 1 then print_endline "count1" else
      (match Gen_P4.coq_Remove (zi hc) mm st (zi 1000) (zi 1000) (zi 4) idx with
       | Ok (_, st') -> print_endline (show st' hc) | _ -> print_endline "Stuck")
     | _ -> print_endline "?")
  | "p4get" :: h :: rest ->
    let hc = int_of_string h in let (s, rest) = take hc rest in
    (match zs rest with [full; bidx; l; nl; idx] ->
      print_endline (string_of_z (Gen_P4.coq_GetHashCodePart (zi hc) (arr (zs s)) full bidx l nl (zi 1000) idx))
     | _ -> print_endline "?")
  | "p4seq" :: h :: ops ->
    (* the hand composition p4_add / the generated Gen_P4.Remove on mShortHashes, AND the fully generated Gen_P4A.AddCrt / Remove
       (pointer state as two scalars) run side by side: same bytes, and the generated memory-pool index / WasFull are printed *)
    let hc = int_of_string h in
    let st = ref (Gen_P4.pvSetEmpty (zi hc) (fun _ -> zi 0) (zi 0)) in
    let ptr = ref (zi 0) and stt = ref (zi (int_of_z mm - 1)) in
    let buf = Buffer.create 64 in
    let same a b = (show a hc = show b hc) in
    let tail () = Printf.sprintf " m%s%s;" (string_of_z (Gen_P4A.pvGetMemPoolIndex !st !ptr !stt))
                    (if Gen_P4A.coq_WasFull !st !ptr !stt then "W" else "w") in
    let rec go = function
      | "a" :: x :: l :: p :: r ->
        (match P4_Model.p4_add (zi hc) !st (z_of_string x) (z_of_string l) (z_of_string p),
               Gen_P4A.coq_AddCrt (zi hc) mm !st !ptr !stt (z_of_string x) (z_of_string l) (z_of_string p)
                 (zi 1008) (zi 1008) (zi 1016) (zi 1016) (zi 1024) (zi 1024) (zi 1032) (zi 1032) (zi 1040) (zi 1040) with
         | Ok s', Ok (((_, s2), p2), t2) ->
           if not (same s' s2) then Buffer.add_string buf "P4A-MISMATCH;" else begin
             st := s'; ptr := p2; stt := t2; Buffer.add_string buf (show s' hc ^ tail ()); go r end
         | _, _ -> Buffer.add_string buf "Stuck;")
      | "r" :: idx :: r ->
        let c = int_of_z (Gen_P4.pvGetCount !st) in
        let iter = z_of_zarith (Z.add (zarith_of_z !ptr) (Z.of_string idx)) in
        (match Gen_P4.coq_Remove (zi hc) mm !st iter !ptr (Gen_P4A.pvGetMemPoolIndex !st !ptr !stt) (z_of_string idx),
               Gen_P4A.coq_Remove (zi hc) mm !st !ptr !stt iter (z_of_string idx) with
         | Ok (_, s'), Ok (((_, s2), p2), t2) ->
           if not (same s' s2) then Buffer.add_string buf "P4A-MISMATCH;" else begin
             ignore c; st := s'; ptr := p2; stt := t2; Buffer.add_string buf (show s' hc ^ tail ()); go r end
         | _, _ -> Buffer.add_string buf "Stuck;")
      | "g" :: idx :: bidx :: l :: nl :: full :: r ->
        Buffer.add_string buf (string_of_z (Gen_P4.coq_GetHashCodePart (zi hc) !st (z_of_string full) (z_of_string bidx) (z_of_string l) (z_of_string nl) (zi 1000) (z_of_string idx)) ^ ";"); go r
      | _ -> () in
    go ops; print_endline (Buffer.contents buf)
  | ("tbl" | "tbl2") :: rest0 ->
    let is2 = (List.hd (words line) = "tbl2") in
    let (l, l1, l2, budget, rem, hs) =
      if not is2 then (match rest0 with l :: l1 :: hs -> (l, l1, "0", -1, [], hs) | _ -> ("0", "0", "0", -1, [], []))
      else (match rest0 with l :: l1 :: l2 :: b :: nrem :: r ->
              let (rem, hs) = take (int_of_string nrem) r in (l, l1, l2, int_of_string b, rem, hs)
            | _ -> ("0", "0", "0", -1, [], [])) in
    let tab = Array.of_list (zi 0 :: zs hs) in
    let hash k = let i = int_of_z k in if i >= 0 && i < Array.length tab then tab.(i) else zi 0 in
    let keys = List.init (List.length hs) (fun i -> zi (i + 1)) in
    let lz = z_of_string l and l1z = z_of_string l1 and l2z = z_of_string l2 in
    let pow2 x = 1 lsl (int_of_string x) in
    let big = zi 1000000000 in
    let dump ?(older=[]) tnew nl calls gens =
      let buf = Buffer.create 256 in
      Buffer.add_string buf (Printf.sprintf "calls=%s gens=%d " (string_of_z calls) gens);
      for i = 0 to pow2 nl - 1 do
        let b = tnew (zi i) in
        let s0 = int_of_z (b.TableO2.bst (zi 0)) and s1 = int_of_z (b.TableO2.bst (zi 1)) in
        if s0 <> 0 || s1 <> 0 then begin
          let c = s1 land 3 in
          Buffer.add_string buf (Printf.sprintf "%d:%d,%d" i s0 s1);
          for j = 0 to 2 do
            Buffer.add_string buf ("|" ^ string_of_z (b.TableO2.bsh (zi j)));
            if j >= 3 - c then Buffer.add_string buf ("," ^ string_of_z (b.TableO2.bhp (zi j)) ^ "," ^ string_of_z (b.TableO2.bky (zi j)))
          done;
          Buffer.add_string buf ";" end
      done;
      (* the modelled HashSet::Find (TableO2.find over the generated Bucket::Find) for every key *)
      Buffer.add_string buf " F:";
      List.iter (fun k ->
        match TableO2.find_gens ((tnew, z_of_string nl) :: older) k (hash k) with
        | Ok (Some ((g, b), s)) -> let gi = int_of_nat g in
            Buffer.add_string buf ((if gi > 0 then "g" ^ string_of_int gi ^ ":" else "") ^ string_of_z b ^ "." ^ string_of_z s ^ ",")
        | Ok None -> Buffer.add_string buf "-,"
        | _ -> Buffer.add_string buf "?,") keys;
      print_endline (Buffer.contents buf) in
    let natural = (budget = -2) in
    let nkeys = List.length keys in
    let fill = if natural then List.filteri (fun i _ -> i < nkeys - 1) keys else keys in
    (match TableO2.insert_all hash TableO2.empty_table lz fill with
     | Ok t0 ->
       let t0 = List.fold_left (fun t k ->
         match TableO2.locate_from (nat_of_int (pow2 l)) t (zi 0) (z_of_string k) with
         | Some (b, slot) -> (match TableO2.remove_at t b slot with Ok t' -> t' | _ -> t)
         | None -> t) t0 rem in
       (* natural growth (pvAddGrow): the new element goes into the new table FIRST, then the old generation is relocated *)
       let tnew0 = if natural then (match TableO2.add_nogrow TableO2.empty_table l1z (hash (zi nkeys)) (zi nkeys) with Ok t -> t | _ -> TableO2.empty_table)
                   else TableO2.empty_table in
       (match TableO2.migrate_from_c hash (nat_of_int (pow2 l)) t0 tnew0 lz l1z (zi 0) (if budget < 0 then big else zi budget) (zi 0) with
        | Ok (((t0', t1), c1), thrown) ->
          let gens1 = if thrown then 2 else 1 in
          if int_of_string l2 = 0 then dump ~older:(if thrown then [(t0', lz)] else []) t1 l1 c1 gens1
          else
            let gens = if thrown then [(t0', lz); (t1, l1z)] else [(t1, l1z)] in
            (match TableO2.migrate_gens hash gens TableO2.empty_table l2z big c1 with
             | Ok (((_, t2), c2), _) -> dump t2 l2 c2 gens1
             | Stuck -> print_endline "Stuck" | Fuel -> print_endline "Fuel" | Exn -> print_endline "Exn")
        | Stuck -> print_endline "Stuck" | Fuel -> print_endline "Fuel" | Exn -> print_endline "Exn")
     | _ -> print_endline "insert-failed")
  | ("tp4" | "tp4c") :: hcs :: rest0 ->
    let is_c = (List.hd (words line) = "tp4c") in
    let (l, l1, l2, budget, nrem, r) =
      if is_c then (match rest0 with l :: l1 :: l2 :: b :: nrem :: r -> (l, l1, l2, int_of_string b, nrem, r) | _ -> ("0","0","0",-1,"0",[]))
      else (match rest0 with l :: l1 :: nrem :: r -> (l, l1, "0", -1, nrem, r) | _ -> ("0","0","0",-1,"0",[])) in
    let hc = zi (int_of_string hcs) in
    let (rem, hs) = take (int_of_string nrem) r in
    let tab = Array.of_list (zi 0 :: zs hs) in
    let hash k = let i = int_of_z k in if i >= 0 && i < Array.length tab then tab.(i) else zi 0 in
    let keys = List.init (List.length hs) (fun i -> zi (i + 1)) in
    let lz = z_of_string l and l1z = z_of_string l1 and l2z = z_of_string l2 in
    let pow2 x = 1 lsl (int_of_string x) in
    let big = zi 1000000000 in
    let dump ?(older=[]) t1 nl calls gens =
      let buf = Buffer.create 256 in
      Buffer.add_string buf (Printf.sprintf "calls=%s gens=%d min=%s " (string_of_z calls) gens (string_of_z mm));
      for i = 0 to pow2 nl - 1 do
        let b = t1 (zi i) in
        let c = int_of_z (Gen_P4.pvGetCount b.TableP4.ps) and mpi = int_of_z b.TableP4.pmpi in
        if c <> 0 || mpi <> int_of_z mm then begin
          Buffer.add_string buf (Printf.sprintf "%d:%d%s" i mpi (if mpi = 4 then "W" else "w"));
          for j = 0 to int_of_z hc - 1 do Buffer.add_string buf ("|" ^ string_of_z (b.TableP4.ps (zi j))) done;
          for j = 0 to c - 1 do Buffer.add_string buf ("," ^ string_of_z (b.TableP4.pky (zi j))) done;
          Buffer.add_string buf ";" end
      done;
      Buffer.add_string buf " F:";
      List.iter (fun k ->
        match TableP4.pfind_gens ((t1, z_of_string nl) :: older) k (hash k) with
        | Ok (Some ((g, b), s)) -> let gi = int_of_nat g in
            Buffer.add_string buf ((if gi > 0 then "g" ^ string_of_int gi ^ ":" else "") ^ string_of_z b ^ "." ^ string_of_z s ^ ",")
        | Ok None -> Buffer.add_string buf "-,"
        | _ -> Buffer.add_string buf "?,") keys;
      print_endline (Buffer.contents buf) in
    let natural = (budget = -2) in
    let nkeys = List.length keys in
    let fill = if natural then List.filteri (fun i _ -> i < nkeys - 1) keys else keys in
    (match TableP4.pinsert_all hc hash (TableP4.pempty_table hc mm) lz fill with
     | Ok t0 ->
       let t0 = List.fold_left (fun t k ->
         match TableP4.plocate_from (nat_of_int (pow2 l)) t (zi 0) (z_of_string k) with
         | Some (b, idx) -> (match TableP4.premove_at hc mm t b idx with Ok t' -> t' | _ -> t)
         | None -> t) t0 rem in
       let tnew0 = if natural then (match TableP4.padd_nogrow hc (TableP4.pempty_table hc mm) l1z (hash (zi nkeys)) (zi nkeys) with Ok t -> t | _ -> TableP4.pempty_table hc mm)
                   else TableP4.pempty_table hc mm in
       (match TableP4.pmigrate_from_c hc mm hash (nat_of_int (pow2 l)) t0 tnew0 lz l1z (zi 0)
                (if budget < 0 then big else zi budget) (zi 0) with
        | Ok (((t0', t1), c1), thrown) ->
          let gens1 = if thrown then 2 else 1 in
          if int_of_string l2 = 0 then dump ~older:(if thrown then [(t0', lz)] else []) t1 l1 c1 gens1
          else
            let gens = if thrown then [(t0', lz); (t1, l1z)] else [(t1, l1z)] in
            (match TableP4.pmigrate_gens hc mm hash gens (TableP4.pempty_table hc mm) l2z big c1 with
             | Ok (((_, t2), c2), _) -> dump t2 l2 c2 gens1
             | Stuck -> print_endline "Stuck" | Fuel -> print_endline "Fuel" | Exn -> print_endline "Exn")
        | Stuck -> print_endline "Stuck" | Fuel -> print_endline "Fuel" | Exn -> print_endline "Exn")
     | _ -> print_endline "insert-failed")
  | "tone" :: l :: l1 :: nrem :: r ->
    let (rem, hs) = take (int_of_string nrem) r in
    let tab = Array.of_list (zi 0 :: zs hs) in
    let hash k = let i = int_of_z k in if i >= 0 && i < Array.length tab then tab.(i) else zi 0 in
    let keys = List.init (List.length hs) (fun i -> zi (i + 1)) in
    let lz = z_of_string l and l1z = z_of_string l1 in
    let pow2 x = 1 lsl (int_of_string x) in
    (match TableOne.oinsert_all hash TableOne.oempty_table lz keys with
     | Ok t0 ->
       let t0 = List.fold_left (fun t k ->
         match TableOne.olocate_from (nat_of_int (pow2 l)) t (zi 0) (z_of_string k) with
         | Some b -> (match TableOne.oremove_at t b with Ok t' -> t' | _ -> t)
         | None -> t) t0 rem in
       (match TableOne.omigrate hash t0 lz l1z with
        | Ok (_, t1) ->
          let buf = Buffer.create 256 in
          Buffer.add_string buf "calls=0 ";
          for i = 0 to pow2 l1 - 1 do
            let b = t1 (zi i) in
            let st = b.TableOne.ost in
            if int_of_z (Gen_One.coq_WasFull st |> fun x -> if x then zi 1 else zi 0) = 1 then begin
              Buffer.add_string buf (Printf.sprintf "%d:%sW" i (string_of_z st));
              if Gen_One.coq_IsFull st then Buffer.add_string buf ("," ^ string_of_z b.TableOne.oky);
              Buffer.add_string buf ";" end
          done;
          Buffer.add_string buf " F:";
          List.iter (fun k ->
            match TableOne.ofind t1 l1z k (hash k) with
            | Ok (Some b) -> Buffer.add_string buf (string_of_z b ^ ",")
            | Ok None -> Buffer.add_string buf "-,"
            | _ -> Buffer.add_string buf "?,") keys;
          print_endline (Buffer.contents buf)
        | Stuck -> print_endline "Stuck" | Fuel -> print_endline "Fuel" | Exn -> print_endline "Exn")
     | _ -> print_endline "insert-failed")
  | ["oneadd"; st; h] ->
    (match Gen_One.coq_AddCrt (z_of_string st) (z_of_string h) with Ok (_, s) -> print_endline (string_of_z s) | _ -> print_endline "Stuck")
  | ["onerem"; st] ->
    (match Gen_One.coq_Remove (z_of_string st) (zi 5) (zi 5) with Ok (_, s) -> print_endline (string_of_z s) | _ -> print_endline "Stuck")
  | ["oneget"; st; full] ->
    (match Gen_One.coq_GetHashCodePart (z_of_string st) (z_of_string full) (zi 5) (zi 5) with Ok v -> print_endline (string_of_z v) | _ -> print_endline "Stuck")
  | ["start"; h; l] ->
    print_endline (string_of_z (Gen_Base.coq_GetStartBucketIndex (z_of_string h) (z_of_zarith (Z.shift_left Z.one (int_of_string l)))))
  | ["next"; kind; i; l; p] ->
    let bc = z_of_zarith (Z.shift_left Z.one (int_of_string l)) in
    print_endline (string_of_z (if kind = "o2" then Gen_O2.coq_GetNextBucketIndex (z_of_string i) bc (z_of_string p)
                                 else Gen_P4.coq_GetNextBucketIndex (z_of_string i) bc))
  | ["short"; h] ->
    let x = z_of_string h in let l = z_of_zarith (Z.logand (Z.of_string h) (Z.of_int 63)) in
    Printf.printf "%s %s %s %s\n" (string_of_z (Gen_O2.pvCalcShortHash x)) (string_of_z (Gen_P4.pvCalcShortHash x))
      (string_of_z (Gen_O2.pvGetProbeShift l)) (string_of_z (Gen_P4.pvGetProbeShift l))
  | _ -> print_endline "?")
