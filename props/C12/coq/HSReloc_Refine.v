(* C12: HashSet::pvAddNogrow<false> (HashSet.h:1123-1148) and the loops of HashSet::pvRelocateItems(Buckets* buckets) (HashSet.h:1278-1313)
   GENERATED (Gen_HSAdd.pvAddNogrow, Gen_HSReloc.pvRelocateItemsB: the bucket array is a ghost field `world` of an abstract type W
   threaded through the bucket methods, which are Section variables of outcome type: "extern_calls") and proved equal to the
   hand-written TableO2.add_nogrow / migrate_from, so that element_found_after_growth and the chain theorems rest on generated
   loops.  The itemReplacer lambda is modelled by its by-copy capture hashCode ("lambda_captures"); what it does with it --
   pvAddNogrow<false> on mBuckets with hashCode on the new table, before Bucket::Remove updates the old bucket -- is the
   instantiation o2r_remove below (Bucket::Remove calls the replacer first: generated separately in Gen_O2set.Remove).
   Not generated: the recursion over older generations and the try/catch of pvRelocateItems() (hand: migrate_gens). *)
From Coq Require Import ZArith Bool List Lia.
From MomoCommon Require Import GenPrelude.
From C12 Require Import Bits Known Gen_Base Gen_O2 Gen_O2MP TableO2 TableO2_Proofs Gen_HSAdd Gen_HSReloc.
Import ListNotations.
Local Open Scope Z_scope.

Definition lift2 {A B : Type} (f : A -> B) (o : outcome A) : outcome B :=
  match o with Ok x => Ok (f x) | Stuck => Stuck | Fuel => Fuel | Exn => Exn end.

(* ---- pvAddNogrow<false> on an Open2N2 table: world = the table; bucket pointer = bucket index ---- *)
Section AddO2.
Variables (key L : Z).
Definition o2a_isfull (t : table) (b : Z) : bool := Gen_O2.IsFull (bst (t b)) (bsh (t b)) (bhp (t b)).
Definition o2a_addcrt (t : table) (b code lg probe : Z) : outcome (Z * table) :=
  let bk := t b in
  match Gen_O2.AddCrt (bst bk) (bsh bk) (bhp bk) code lg probe 0 with
  | Ok (_, st', sh', hp') => Ok (0, tupd t b (mkB st' sh' hp' (upd (bky bk) (2 - cnt bk) key)))   (* the item creator writes the key *)
  | Stuck => Stuck | Fuel => Fuel | Exn => Exn
  end.
Definition o2a_updmax (t : table) (b probe : Z) : outcome (unit * table) :=
  let sb := t b in
  match Gen_O2MP.UpdateMaxProbe (bst sb) probe with
  | Ok (_, st'') => Ok (tt, tupd t b (mkB st'' (bsh sb) (bhp sb) (bky sb)))
  | Stuck => Stuck | Fuel => Fuel | Exn => Exn
  end.
Definition o2_next4 (i h c p : Z) : Z := Gen_O2.GetNextBucketIndex i c p.
Definition at_idx (bks i : Z) : Z := i.
Lemma at_idx_eq bks i : at_idx bks i = i.
Proof. reflexivity. Qed.

Definition o2_gen_add (t : table) (code : Z) : outcome table :=
  lift2 (fun r : Z * table * Z => snd (fst r))
    (pvAddNogrow table (fun _ => wrapU 64 (Z.shiftl 1 L)) (fun _ => L) Gen_Base.GetStartBucketIndex o2_next4 at_idx
                 o2a_isfull o2a_addcrt o2a_updmax t 0 0 code 0).

Lemma o2_add_loop bc bks code : forall fuel t idx probe,
  pvAddNogrow_loop0 table o2_next4 at_idx o2a_isfull fuel bc bks code t idx idx probe
  = lift2 (fun r : Z * Z => (None, (fst r, fst r, snd r))) (probe_loop fuel t bc idx probe).
Proof.
  induction fuel as [|f IH]; intros t idx probe; [reflexivity|].
  rewrite pvAddNogrow_loop0_eq. cbn [probe_loop]. unfold o2a_isfull at 1.
  destruct (Gen_O2.IsFull (bst (t idx)) (bsh (t idx)) (bhp (t idx))); [|reflexivity].
  cbv zeta. destruct (wrapU 64 (probe + 1) >=? bc); [reflexivity|].
  rewrite !at_idx_eq. unfold o2_next4 at 1 2. apply IH.
Qed.

Theorem o2_gen_add_eq t code : o2_gen_add t code = add_nogrow t L code key.
Proof.
  unfold o2_gen_add, pvAddNogrow, add_nogrow. cbv zeta. rewrite !at_idx_eq. rewrite o2_add_loop.
  destruct (probe_loop (S (Z.to_nat (wrapU 64 (Z.shiftl 1 L)))) t (wrapU 64 (Z.shiftl 1 L))
              (Gen_Base.GetStartBucketIndex code (wrapU 64 (Z.shiftl 1 L))) 0) as [[idx probe]| | |]; try reflexivity.
  cbn [lift2 fst snd]. unfold o2a_addcrt. cbv zeta.
  destruct (Gen_O2.AddCrt (bst (t idx)) (bsh (t idx)) (bhp (t idx)) code L probe 0) as [[[[u st'] sh'] hp']| | |]; try reflexivity.
  unfold o2a_updmax. cbv zeta.
  match goal with |- context [Gen_O2MP.UpdateMaxProbe ?a ?b] => destruct (Gen_O2MP.UpdateMaxProbe a b) as [[u2 st2]| | |] end; reflexivity.
Qed.
End AddO2.

(* ---- pvRelocateItems(buckets): world = (old table, new table); old bucket pointer = bucket index, its bounds handle = the same
   index, an iterator = its position in Bounds order (0 .. count; GetEnd() = count; Open2N2 iterates downwards in memory, so
   position p is slot 2 - p); the old Buckets object is the pointer -1, mBuckets (the new one) is 0 ---- *)
Section RelocO2.
Variable hash : Z -> Z.
Hypothesis hash_range : forall k, 0 <= hash k < 2 ^ 64.
Variables (L newL : Z).
Hypothesis HL : 0 <= L.
Hypothesis HnL : L < newL <= 63.

Definition W2 : Type := (table * table)%type.
Definition bounds_of (b params : Z) : Z := b.   (* BucketBounds handle = the bucket *)
Definition o2r_logcount (p : Z) : Z := if p =? -1 then L else newL.
Definition o2r_count (w : W2) (obj : Z) : outcome Z :=
  if obj =? -1 then Ok (wrapU 64 (Z.shiftl 1 L)) else Ok (cnt (fst w obj)).   (* Buckets::GetCount / BucketBounds::GetCount *)
Definition o2r_end (w : W2) (obj : Z) : outcome Z := Ok (cnt (fst w obj)).
Definition o2r_hashpart (w : W2) (b p i lg nlg : Z) : outcome Z :=
  let bk := fst w b in let slot := 2 - p in
  Gen_O2.GetHashCodePart (bst bk) (bsh bk) (bhp bk) (hash (bky bk slot)) i lg nlg slot.
Definition o2r_remove (w : W2) (b p code : Z) : outcome (Z * W2) :=
  let bk := fst w b in let slot := 2 - p in
  if p =? cnt bk - 1 then      (* the replacer's MOMO_ASSERT(addressof(srcItem) == addressof(dstItem)): the first element in Bounds order... *)
    match o2_gen_add (bky bk slot) newL (snd w) code with     (* ... is handed to the GENERATED pvAddNogrow<false> on the new table *)
    | Ok tnew' =>
      match Gen_O2.Remove (bst bk) (bsh bk) (bhp bk) slot with
      | Ok (_, st', sh', hp') => Ok (p, (tupd (fst w) b (mkB st' sh' hp' (bky bk)), tnew'))
      | Stuck => Stuck | Fuel => Fuel | Exn => Exn
      end
    | Stuck => Stuck | Fuel => Fuel | Exn => Exn
    end
  else Stuck.

Lemma o2r_step {X : Type} told tnew i (K : Z -> W2 -> outcome X) : 0 < cnt (told i) <= 3 ->
  match o2r_hashpart (told, tnew) i (cnt (told i) - 1) i (o2r_logcount (-1)) (o2r_logcount 0) with
  | Ok code => match o2r_remove (told, tnew) i (cnt (told i) - 1) code with
               | Ok (r, w) => K r w
               | Stuck => Stuck | Fuel => Fuel | Exn => Exn
               end
  | Stuck => Stuck | Fuel => Fuel | Exn => Exn
  end = match relocate_item hash told tnew L newL i with
        | Ok w => K (cnt (told i) - 1) w
        | Stuck => Stuck | Fuel => Fuel | Exn => Exn
        end.
Proof.
  intros Hc. unfold o2r_hashpart, o2r_remove, relocate_item, o2r_logcount. cbn [fst snd Z.eqb Pos.eqb]. cbv zeta.
  replace (2 - (cnt (told i) - 1)) with (3 - cnt (told i)) by lia.
  destruct (Gen_O2.GetHashCodePart (bst (told i)) (bsh (told i)) (bhp (told i)) (hash (bky (told i) (3 - cnt (told i)))) i L newL (3 - cnt (told i))) as [code| | |]; try reflexivity.
  rewrite Z.eqb_refl. rewrite o2_gen_add_eq.
  destruct (add_nogrow tnew newL code (bky (told i) (3 - cnt (told i)))) as [tnew'| | |]; try reflexivity.
  destruct (Gen_O2.Remove (bst (told i)) (bsh (told i)) (bhp (told i)) (3 - cnt (told i))) as [[[[u st'] sh'] hp']| | |]; reflexivity.
Qed.

Notation gen_loop1 := (pvRelocateItemsB_loop1 W2 o2r_logcount o2r_hashpart o2r_remove).
Notation gen_loop0 := (pvRelocateItemsB_loop0 W2 o2r_logcount bounds_of at_idx o2r_count o2r_end o2r_hashpart o2r_remove).

Lemma o2_reloc_loop1 i bp g mm : 0 <= i < 2 ^ L -> forall fuel1 fuel2 told tnew, Tinv hash L told -> Tinv hash newL tnew ->
  (Z.to_nat (cnt (told i)) < fuel1)%nat -> (Z.to_nat (cnt (told i)) < fuel2)%nat ->
  gen_loop1 fuel1 i bp (-1) g i 0 mm (cnt (told i)) (cnt (told i)) (told, tnew)
  = lift2 (fun w : W2 => (None, (0, 0, w))) (migrate_bucket hash fuel2 told tnew L newL i).
Proof.
  intros Hi. induction fuel1 as [|f1 IH]; intros fuel2 told tnew Hold Hnew Hf1 Hf2; [lia|]. destruct fuel2 as [|f2]; [lia|].
  rewrite pvRelocateItemsB_loop1_eq. cbn [migrate_bucket]. cbv zeta.
  pose proof (bwf_cnt _ (proj1 Hold i)) as [Hc _].
  destruct (Z.eqb_spec (cnt (told i)) 0) as [Hz|Hnz].
  - rewrite Hz. reflexivity.
  - destruct (Z.gtb_spec (cnt (told i)) 0); [|lia].
    pose proof (relocate_item_spec hash hash_range L newL told tnew i HL HnL Hold Hnew Hi ltac:(lia)) as Hstep.
    etransitivity; [apply (o2r_step told tnew i); lia|].
    destruct (relocate_item hash told tnew L newL i) as [[told1 tnew1]| | |]; try reflexivity.
    destruct Hstep as (Ho1 & Hn1 & Hc1 & _).
    rewrite (wrapU_small 64 (cnt (told i) - 1)) by (change (2 ^ 64) with 18446744073709551616; lia).
    rewrite <- Hc1. apply IH; try assumption; lia.
Qed.

Lemma o2_reloc_loop0 bp g ht mm : forall n fuel i told tnew, Tinv hash L told -> Tinv hash newL tnew ->
  0 <= i -> i + Z.of_nat n = 2 ^ L -> (n < fuel)%nat ->
  gen_loop0 fuel (2 ^ L) bp (-1) g ht 0 mm i (told, tnew)
  = lift2 (fun w : W2 => (None, (2 ^ L, w))) (migrate_from hash n told tnew L newL i).
Proof.
  assert (Hpow : 2 ^ L <= 2 ^ 62) by (apply pow2_le_mono; lia).
  induction n as [|m IH]; intros fuel i told tnew Hold Hnew Hi Hsum Hf; (destruct fuel as [|f]; [lia|]); rewrite pvRelocateItemsB_loop0_eq; cbn [migrate_from].
  - destruct (Z.ltb_spec i (2 ^ L)); [lia|]. replace i with (2 ^ L) by lia. reflexivity.
  - destruct (Z.ltb_spec i (2 ^ L)); [|lia]. cbv zeta. rewrite !at_idx_eq. unfold bounds_of.
    unfold o2r_end at 1. cbn [fst]. unfold o2r_count at 1. destruct (Z.eqb_spec i (-1)); [lia|]. cbn [fst].
    pose proof (bwf_cnt _ (proj1 Hold i)) as [Hc _].
    rewrite (o2_reloc_loop1 i bp g mm ltac:(lia) _ 4%nat told tnew Hold Hnew) by lia.
    pose proof (migrate_bucket_spec hash hash_range L newL i HL HnL ltac:(lia) 4%nat told tnew Hold Hnew ltac:(lia)) as Hb.
    revert Hb. destruct (migrate_bucket hash 4 told tnew L newL i) as [[told1 tnew1]| | |]; try (intros _; reflexivity).
    cbn [lift2]. intros ((Ho1 & Hn1 & _) & _).
    rewrite (wrapU_small 64 (i + 1)) by (change (2 ^ 64) with (4 * 2 ^ 62); lia).
    apply IH; try assumption; lia.
Qed.

(* the generated pvRelocateItems(buckets) on (old table, new table) *)
Definition o2_gen_reloc (told tnew : table) : outcome (table * table) :=
  lift2 (fun r : unit * W2 => snd r)
    (pvRelocateItemsB W2 (fun _ => 0) o2r_logcount bounds_of at_idx o2r_count o2r_end o2r_hashpart o2r_remove (told, tnew) 0 (-1) 0 0 0 0).

Theorem o2_gen_reloc_eq told tnew : Tinv hash L told -> Tinv hash newL tnew ->
  o2_gen_reloc told tnew = migrate_from hash (Z.to_nat (2 ^ L)) told tnew L newL 0.
Proof.
  intros Hold Hnew. assert (Hpow : 2 ^ L <= 2 ^ 62) by (apply pow2_le_mono; lia). assert (Hpos : 0 < 2 ^ L) by (apply pow2_pos; lia).
  unfold o2_gen_reloc, pvRelocateItemsB. cbv zeta. unfold o2r_count at 1. cbn [Z.eqb Pos.eqb].
  rewrite shl1_pow2 by lia. rewrite (wrapU_small 64 (2 ^ L)) by (change (2 ^ 64) with (4 * 2 ^ 62); lia).
  rewrite (o2_reloc_loop0 0 0 0 0 (Z.to_nat (2 ^ L)) _ 0 told tnew Hold Hnew) by lia.
  destruct (migrate_from hash (Z.to_nat (2 ^ L)) told tnew L newL 0) as [[to tn]| | |]; reflexivity.
Qed.

(* element_found_after_growth, stated for the GENERATED loops: relocating a table satisfying its invariant into a fresh one *)
Theorem o2_gen_reloc_found told : Tinv hash L told ->
  match o2_gen_reloc told empty_table with
  | Ok (_, tnew) => Tinv hash newL tnew /\ (forall k, Present L told k -> Found hash newL tnew k)
  | Exn => True
  | _ => False
  end.
Proof.
  intros Hold. rewrite o2_gen_reloc_eq; [|exact Hold|apply empty_inv]. exact (migrate_found hash hash_range L newL told HL HnL Hold).
Qed.
End RelocO2.

(* ---- any chain of growths through the GENERATED loops ---- *)
From C12 Require Import TableO2_Find Chains.

Fixpoint o2_gen_grow_chain (hash : Z -> Z) (t : table) (L : Z) (Ls : list Z) : outcome (table * Z) :=
  match Ls with
  | [] => Ok (t, L)
  | newL :: r => match o2_gen_reloc hash L newL t empty_table with
                 | Ok (_, tnew) => o2_gen_grow_chain hash tnew newL r
                 | Stuck => Stuck | Fuel => Fuel | Exn => Exn
                 end
  end.

Section ChainGenO2.
Variable hash : Z -> Z.
Hypothesis hash_range : forall k, 0 <= hash k < 2 ^ 64.

Theorem o2_gen_grow_chain_eq : forall Ls L t, 0 <= L <= 63 -> increasing L Ls -> Tinv hash L t ->
  o2_gen_grow_chain hash t L Ls = grow_chain hash t L Ls.
Proof.
  induction Ls as [|n r IH]; intros L t HL Hinc Ht; cbn [o2_gen_grow_chain grow_chain]; [reflexivity|].
  destruct Hinc as [Hn Hr].
  rewrite (o2_gen_reloc_eq hash hash_range L n ltac:(lia) Hn t empty_table Ht (empty_inv hash n)).
  fold (migrate hash t L n).
  pose proof (migrate_present hash hash_range L n t ltac:(lia) Hn Ht) as Hm.
  destruct (migrate hash t L n) as [[told' tnew]| | |]; try reflexivity.
  destruct Hm as [Htn _]. apply IH; [lia|exact Hr|exact Htn].
Qed.

(* after ANY chain of growths carried out by the generated pvRelocateItems / pvAddNogrow loops, every key of the original table is
   returned by the modelled Find (which the generated pvFind equals, HSFind_Refine.v) *)
Theorem o2_gen_grow_chain_find : forall Ls L t, 0 <= L <= 63 -> increasing L Ls -> Tinv hash L t ->
  match o2_gen_grow_chain hash t L Ls with
  | Ok (t', L') => Tinv hash L' t' /\ (forall k, Present L t k -> exists r, find t' L' k (hash k) = Ok r /\ hit hash L' t' k r)
  | Exn => True
  | _ => False
  end.
Proof.
  intros Ls L t HL Hinc Ht. rewrite (o2_gen_grow_chain_eq Ls L t HL Hinc Ht). exact (grow_chain_find hash hash_range Ls L t HL Hinc Ht).
Qed.
End ChainGenO2.

(* ==== the same for LimP4 (TableP4.padd_nogrow / pmigrate_from; the model's full-getter call counter is ghost and is projected away) ==== *)
From C12 Require Import Gen_P4 P4_Model TableP4 TableP4_Proofs TableP4_Find.

Section AddP4.
Variables (H key L : Z).
Definition p4a_isfull (t : ptable) (b : Z) : bool := Gen_P4.IsFull (ps (t b)).
Definition p4a_addcrt (t : ptable) (b code lg probe : Z) : outcome (Z * ptable) :=
  let bk := t b in let c := pcnt bk in
  match p4_add H (ps bk) code lg probe with
  | Ok s' =>
    let mpi' := if c =? 0 then pmpi bk else if c =? pmpi bk then pmpi bk + 1 else pmpi bk in
    Ok (0, ptupd t b (mkP s' mpi' (upd (pky bk) c key) (upd (ppr bk) c probe)))
  | Stuck => Stuck | Fuel => Fuel | Exn => Exn
  end.
Definition p4a_updmax (t : ptable) (b probe : Z) : outcome (unit * ptable) := Ok (tt, t).   (* BucketLimP4::UpdateMaxProbe is empty *)
Definition p4_next4 (i h c p : Z) : Z := Gen_P4.GetNextBucketIndex i c.

Definition p4_gen_add (t : ptable) (code : Z) : outcome ptable :=
  lift2 (fun r : Z * ptable * Z => snd (fst r))
    (pvAddNogrow ptable (fun _ => wrapU 64 (Z.shiftl 1 L)) (fun _ => L) Gen_Base.GetStartBucketIndex p4_next4 at_idx
                 p4a_isfull p4a_addcrt p4a_updmax t 0 0 code 0).

Lemma p4_add_loop bc bks code : forall fuel t idx probe,
  pvAddNogrow_loop0 ptable p4_next4 at_idx p4a_isfull fuel bc bks code t idx idx probe
  = lift2 (fun r : Z * Z => (None, (fst r, fst r, snd r))) (pprobe_loop fuel t bc idx probe).
Proof.
  induction fuel as [|f IH]; intros t idx probe; [reflexivity|].
  rewrite pvAddNogrow_loop0_eq. cbn [pprobe_loop]. unfold p4a_isfull at 1.
  destruct (Gen_P4.IsFull (ps (t idx))); [|reflexivity].
  cbv zeta. destruct (wrapU 64 (probe + 1) >=? bc); [reflexivity|].
  rewrite !at_idx_eq. unfold p4_next4 at 1 2. apply IH.
Qed.

Theorem p4_gen_add_eq t code : p4_gen_add t code = padd_nogrow H t L code key.
Proof.
  unfold p4_gen_add, pvAddNogrow, padd_nogrow. cbv zeta. rewrite !at_idx_eq. rewrite p4_add_loop.
  destruct (pprobe_loop (S (Z.to_nat (wrapU 64 (Z.shiftl 1 L)))) t (wrapU 64 (Z.shiftl 1 L))
              (Gen_Base.GetStartBucketIndex code (wrapU 64 (Z.shiftl 1 L))) 0) as [[idx probe]| | |]; try reflexivity.
  cbn [lift2 fst snd]. unfold p4a_addcrt, p4a_updmax. cbv zeta.
  destruct (p4_add H (ps (t idx)) code L probe) as [s'| | |]; reflexivity.
Qed.
End AddP4.

Section RelocP4.
Variables (H mm : Z).
Variable hash : Z -> Z.
Hypothesis HH : 4 <= H <= 8.
Hypothesis Hmm : 1 <= mm <= 4.
Hypothesis hash_range : forall k, 0 <= hash k < 2 ^ 64.
Variables (L newL : Z).
Hypothesis HL : 0 <= L.
Hypothesis HnL : L < newL <= 63.

Definition W4 : Type := (ptable * ptable)%type.
Definition p4r_logcount (p : Z) : Z := if p =? -1 then L else newL.
Definition p4r_count (w : W4) (obj : Z) : outcome Z :=
  if obj =? -1 then Ok (wrapU 64 (Z.shiftl 1 L)) else Ok (pcnt (fst w obj)).
Definition p4r_end (w : W4) (obj : Z) : outcome Z := Ok (pcnt (fst w obj)).
(* LimP4 iterators are plain Item*: position p in Bounds order is index p *)
Definition p4r_hashpart (w : W4) (b p i lg nlg : Z) : outcome Z :=
  let bk := fst w b in Ok (Gen_P4.GetHashCodePart H (ps bk) (hash (pky bk p)) i lg nlg 8 p).
Definition p4r_remove (w : W4) (b p code : Z) : outcome (Z * W4) :=
  let bk := fst w b in
  if p =? pcnt bk - 1 then
    match p4_gen_add H (pky bk p) newL (snd w) code with
    | Ok tnew' =>
      match premove_at H mm (fst w) b p with
      | Ok told' => Ok (p, (told', tnew'))
      | Stuck => Stuck | Fuel => Fuel | Exn => Exn
      end
    | Stuck => Stuck | Fuel => Fuel | Exn => Exn
    end
  else Stuck.

Lemma p4r_step {X : Type} told tnew i (K : Z -> W4 -> outcome X) :
  match p4r_hashpart (told, tnew) i (pcnt (told i) - 1) i (p4r_logcount (-1)) (p4r_logcount 0) with
  | Ok code => match p4r_remove (told, tnew) i (pcnt (told i) - 1) code with
               | Ok (r, w) => K r w
               | Stuck => Stuck | Fuel => Fuel | Exn => Exn
               end
  | Stuck => Stuck | Fuel => Fuel | Exn => Exn
  end = match prelocate_item H mm hash told tnew L newL i with
        | Ok w => K (pcnt (told i) - 1) w
        | Stuck => Stuck | Fuel => Fuel | Exn => Exn
        end.
Proof.
  unfold p4r_hashpart, p4r_remove, prelocate_item, p4r_logcount. cbn [fst snd Z.eqb Pos.eqb]. cbv zeta.
  rewrite Z.eqb_refl. rewrite p4_gen_add_eq.
  destruct (padd_nogrow H tnew newL (Gen_P4.GetHashCodePart H (ps (told i)) (hash (pky (told i) (pcnt (told i) - 1))) i L newL 8 (pcnt (told i) - 1))
              (pky (told i) (pcnt (told i) - 1))) as [tnew'| | |]; try reflexivity.
  destruct (premove_at H mm told i (pcnt (told i) - 1)) as [told'| | |]; reflexivity.
Qed.

Notation pgen_loop1 := (pvRelocateItemsB_loop1 W4 p4r_logcount p4r_hashpart p4r_remove).
Notation pgen_loop0 := (pvRelocateItemsB_loop0 W4 p4r_logcount bounds_of at_idx p4r_count p4r_end p4r_hashpart p4r_remove).
Definition proj2w (r : ptable * ptable * Z) : W4 := fst r.

Lemma p4_reloc_loop1 i bp g mmg : 0 <= i < 2 ^ L -> forall fuel1 fuel2 told tnew calls, PTinv H hash L told -> PTinv H hash newL tnew ->
  (Z.to_nat (pcnt (told i)) < fuel1)%nat -> (Z.to_nat (pcnt (told i)) < fuel2)%nat ->
  pgen_loop1 fuel1 i bp (-1) g i 0 mmg (pcnt (told i)) (pcnt (told i)) (told, tnew)
  = lift2 (fun r : ptable * ptable * Z => (None, (0, 0, proj2w r))) (pmigrate_bucket H mm hash fuel2 told tnew L newL i calls).
Proof.
  intros Hi. induction fuel1 as [|f1 IH]; intros fuel2 told tnew calls Hold Hnew Hf1 Hf2; [lia|]. destruct fuel2 as [|f2]; [lia|].
  rewrite pvRelocateItemsB_loop1_eq. cbn [pmigrate_bucket]. cbv zeta.
  pose proof (pbwf_cnt H hash L _ (proj1 Hold i)) as Hc.
  destruct (Z.eqb_spec (pcnt (told i)) 0) as [Hz|Hnz].
  - rewrite Hz. reflexivity.
  - destruct (Z.gtb_spec (pcnt (told i)) 0); [|lia].
    pose proof (prelocate_item_spec H mm hash HH Hmm hash_range L newL told tnew i HL HnL Hold Hnew Hi ltac:(lia)) as Hstep.
    etransitivity; [apply (p4r_step told tnew i)|].
    destruct (prelocate_item H mm hash told tnew L newL i) as [[told1 tnew1]| | |]; try reflexivity.
    destruct Hstep as (Ho1 & Hn1 & Hc1 & _).
    rewrite (wrapU_small 64 (pcnt (told i) - 1)) by (change (2 ^ 64) with 18446744073709551616; lia).
    rewrite <- Hc1. apply IH; try assumption; lia.
Qed.

Lemma p4_reloc_loop0 bp g ht mmg : forall n fuel i told tnew calls, PTinv H hash L told -> PTinv H hash newL tnew ->
  0 <= i -> i + Z.of_nat n = 2 ^ L -> (n < fuel)%nat ->
  pgen_loop0 fuel (2 ^ L) bp (-1) g ht 0 mmg i (told, tnew)
  = lift2 (fun r : ptable * ptable * Z => (None, (2 ^ L, proj2w r))) (pmigrate_from H mm hash n told tnew L newL i calls).
Proof.
  assert (Hpow : 2 ^ L <= 2 ^ 62) by (apply pow2_le_mono; lia).
  induction n as [|m IH]; intros fuel i told tnew calls Hold Hnew Hi Hsum Hf; (destruct fuel as [|f]; [lia|]); rewrite pvRelocateItemsB_loop0_eq; cbn [pmigrate_from].
  - destruct (Z.ltb_spec i (2 ^ L)); [lia|]. replace i with (2 ^ L) by lia. reflexivity.
  - destruct (Z.ltb_spec i (2 ^ L)); [|lia]. cbv zeta. rewrite !at_idx_eq. unfold bounds_of.
    unfold p4r_end at 1. cbn [fst]. unfold p4r_count at 1. destruct (Z.eqb_spec i (-1)); [lia|]. cbn [fst].
    pose proof (pbwf_cnt H hash L _ (proj1 Hold i)) as Hc.
    rewrite (p4_reloc_loop1 i bp g mmg ltac:(lia) _ 5%nat told tnew calls Hold Hnew) by lia.
    pose proof (pmigrate_bucket_spec H mm hash HH Hmm hash_range L newL i HL HnL ltac:(lia) 5%nat told tnew calls Hold Hnew ltac:(lia)) as Hb.
    revert Hb. destruct (pmigrate_bucket H mm hash 5 told tnew L newL i calls) as [[[told1 tnew1] calls1]| | |]; try (intros _; reflexivity).
    cbn [lift2 proj2w fst]. intros ((Ho1 & Hn1 & _) & _).
    rewrite (wrapU_small 64 (i + 1)) by (change (2 ^ 64) with (4 * 2 ^ 62); lia).
    apply IH; try assumption; lia.
Qed.

Definition p4_gen_reloc (told tnew : ptable) : outcome (ptable * ptable) :=
  lift2 (fun r : unit * W4 => snd r)
    (pvRelocateItemsB W4 (fun _ => 0) p4r_logcount bounds_of at_idx p4r_count p4r_end p4r_hashpart p4r_remove (told, tnew) 0 (-1) 0 0 0 0).

Theorem p4_gen_reloc_eq told tnew calls : PTinv H hash L told -> PTinv H hash newL tnew ->
  p4_gen_reloc told tnew = lift2 proj2w (pmigrate_from H mm hash (Z.to_nat (2 ^ L)) told tnew L newL 0 calls).
Proof.
  intros Hold Hnew. assert (Hpow : 2 ^ L <= 2 ^ 62) by (apply pow2_le_mono; lia). assert (Hpos : 0 < 2 ^ L) by (apply pow2_pos; lia).
  unfold p4_gen_reloc, pvRelocateItemsB. cbv zeta. unfold p4r_count at 1. cbn [Z.eqb Pos.eqb].
  rewrite shl1_pow2 by lia. rewrite (wrapU_small 64 (2 ^ L)) by (change (2 ^ 64) with (4 * 2 ^ 62); lia).
  rewrite (p4_reloc_loop0 0 0 0 0 (Z.to_nat (2 ^ L)) _ 0 told tnew calls Hold Hnew) by lia.
  destruct (pmigrate_from H mm hash (Z.to_nat (2 ^ L)) told tnew L newL 0 calls) as [[[to tn] c]| | |]; reflexivity.
Qed.

Theorem p4_gen_reloc_found told : PTinv H hash L told ->
  match p4_gen_reloc told (pempty_table H mm) with
  | Ok (_, tnew) => PTinv H hash newL tnew /\ (forall k, PPresent L told k -> PFound hash newL tnew k)
  | Exn => True
  | _ => False
  end.
Proof.
  intros Hold. rewrite (p4_gen_reloc_eq told (pempty_table H mm) 0 Hold (pempty_inv H mm hash HH Hmm newL)).
  pose proof (pmigrate_found H mm hash HH Hmm hash_range L newL told HL HnL Hold) as Hf. unfold pmigrate in Hf.
  destruct (pmigrate_from H mm hash (Z.to_nat (2 ^ L)) told (pempty_table H mm) L newL 0 0) as [[[to tn] c]| | |]; exact Hf.
Qed.
End RelocP4.

Fixpoint p4_gen_grow_chain (H mm : Z) (hash : Z -> Z) (t : ptable) (L : Z) (Ls : list Z) : outcome (ptable * Z) :=
  match Ls with
  | [] => Ok (t, L)
  | newL :: r => match p4_gen_reloc H mm hash L newL t (pempty_table H mm) with
                 | Ok (_, tnew) => p4_gen_grow_chain H mm hash tnew newL r
                 | Stuck => Stuck | Fuel => Fuel | Exn => Exn
                 end
  end.

Section ChainGenP4.
Variables (H mm : Z).
Variable hash : Z -> Z.
Hypothesis HH : 4 <= H <= 8.
Hypothesis Hmm : 1 <= mm <= 4.
Hypothesis hash_range : forall k, 0 <= hash k < 2 ^ 64.

Theorem p4_gen_grow_chain_eq : forall Ls L t, 0 <= L <= 63 -> increasing L Ls -> PTinv H hash L t ->
  p4_gen_grow_chain H mm hash t L Ls = pgrow_chain H mm hash t L Ls.
Proof.
  induction Ls as [|n r IH]; intros L t HL Hinc Ht; cbn [p4_gen_grow_chain pgrow_chain]; [reflexivity|].
  destruct Hinc as [Hn Hr].
  rewrite (p4_gen_reloc_eq H mm hash HH Hmm hash_range L n ltac:(lia) Hn t (pempty_table H mm) 0 Ht (pempty_inv H mm hash HH Hmm n)).
  fold (pmigrate H mm hash t L n).
  pose proof (pmigrate_present H mm hash HH Hmm hash_range L n t ltac:(lia) Hn Ht) as Hm. revert Hm.
  destruct (pmigrate H mm hash t L n) as [[[told' tnew] c]| | |]; try (intros _; reflexivity).
  cbn [lift2 proj2w fst]. intros [Htn _]. apply IH; [lia|exact Hr|exact Htn].
Qed.

Theorem p4_gen_grow_chain_find : forall Ls L t, 0 <= L <= 63 -> increasing L Ls -> PTinv H hash L t ->
  match p4_gen_grow_chain H mm hash t L Ls with
  | Ok (t', L') => PTinv H hash L' t' /\ (forall k, PPresent L t k -> exists r, pfind t' L' k (hash k) = Ok r /\ phit hash L' t' k r)
  | Exn => True
  | _ => False
  end.
Proof.
  intros Ls L t HL Hinc Ht. rewrite (p4_gen_grow_chain_eq Ls L t HL Hinc Ht). exact (pgrow_chain_find H mm hash HH Hmm hash_range Ls L t HL Hinc Ht).
Qed.
End ChainGenP4.
