(* C02 (last round) -- the general theorem for operator++: the REAL TreeSetConstIterator::operator++ (with pvMoveIf and pvMove; dumped
   statement trees, interpreted by ProtoSemC02 with MOMO_CHECK / MOMO_ASSERT as obligations), run from ANY valid position of ANY
   well-formed tree, passes every obligation and ends at the hand model's `next`. *)
From Coq Require Import String List ZArith Bool Lia Arith.
From MomoCommon Require Import GenPrelude.
From C02 Require Import ProtoSyntaxC02 Gen_TreeProto ProtoSemC02 ProtoProofsC02 ProtoIterC02 ProtoMoveC02 BTreeModel BTreeBase.
Import ListNotations.
Local Open Scope string_scope.

Section Incr.
Variables (maxCap : nat) (r : node).
Notation lin := false.
Notation P0 := (fun _ : Z => false).

(* hooks with a fuel parameter: pvMove / pvMoveIf / VersionKeeper::Check are interpreted by running their own dumped bodies *)
Definition run_move_f (F : nat) (e : env) : option env := env_of_res (exec lin P0 r no_calls F e iter_pvMove).
Definition moveif_calls (F : nat) : string -> env -> option env := fun nm e' => if nm =? "pvMove" then run_move_f F e' else None.
Definition run_moveif_f (F : nat) (e : env) : option env := env_of_res (exec lin P0 r (moveif_calls F) F e iter_pvMoveIf).
Definition incr_calls (F : nat) : string -> env -> option env :=
  fun nm e' => if nm =? "Check" then Some e' else if nm =? "pvMoveIf" then run_moveif_f F e' else None.

Section Steps2.
Variable calls : string -> env -> option env.
Notation exec := (exec lin P0 r calls).
Notation eval := (eval lin P0 r).

Lemma exec_while_false f e c body rest v : eval e c = Some v -> truthy v = Some false ->
  exec (S f) e (SWhile c body :: rest) = exec f e rest.
Proof. intros H1 H2. cbn [ProtoSemC02.exec]. rewrite H1, H2. reflexivity. Qed.
Lemma exec_assert_true f e c rest v : eval e c = Some v -> truthy v = Some true -> exec (S f) e (SAssert c :: rest) = exec f e rest.
Proof. intros H1 H2. cbn [ProtoSemC02.exec]. rewrite H1, H2. reflexivity. Qed.
Lemma exec_incr f e x z rest : e x = Some (VNum z) -> exec (S f) e (SExpr (EUn "++" (EVar x)) :: rest) = exec f (set e x (VNum (z + 1))) rest.
Proof. intros H. cbn [ProtoSemC02.exec sform_of String.eqb Ascii.eqb Bool.eqb andb]. rewrite H. reflexivity. Qed.
Lemma exec_call f e nm rest : exec (S f) e (SExpr (ECall ENone nm []) :: rest) = match calls nm e with Some e' => exec f e' rest | None => RErr end.
Proof. reflexivity. Qed.
Lemma eval_un_not e a : eval e (EUn "!" a) = match eval e a with Some v => option_map (fun b => vbool (negb b)) (truthy v) | None => None end.
Proof. reflexivity. Qed.
Lemma eval_num e z : eval e (ENum z) = Some (VNum z).
Proof. reflexivity. Qed.
Lemma eval_isleaf2 e x p n : e x = Some (VPtr (Some p)) -> node_at p r = Some n ->
  eval e (ECall (EVar x) "IsLeaf" []) = Some (vbool (is_leaf n)).
Proof. intros H1 H2. cbn [ProtoSemC02.eval call_sem map String.eqb Ascii.eqb Bool.eqb andb]. rewrite H1. unfold nd. rewrite H2. reflexivity. Qed.
Lemma eval_childk e x p i mi a : e x = Some (VPtr (Some p)) -> eval e a = Some (VNum (Z.of_nat i)) -> node_at (p ++ [i]) r = Some mi ->
  eval e (ECall (EVar x) "GetChild" [a]) = Some (VPtr (Some (p ++ [i])%list)).
Proof.
  intros H1 H2 H3. cbn [ProtoSemC02.eval call_sem map String.eqb Ascii.eqb Bool.eqb andb]. rewrite H1.
  change (ProtoSemC02.eval lin P0 r e a) with (eval e a). rewrite H2. unfold nd. rewrite Nat2Z.id, H3.
  replace (0 <=? Z.of_nat i)%Z with true by (symmetry; apply Z.leb_le; lia). reflexivity.
Qed.

Definition left_loop_stmt : pstmt :=
  SWhile (EUn "!" (ECall (EVar "mNode") "IsLeaf" [])) [SExpr (EBin "=" (EVar "mNode") (ECall (EVar "mNode") "GetChild" [ENum 0]))].

(* `while (!mNode->IsLeaf()) mNode = mNode->GetChild(0);` ends at the leftmost leaf below mNode *)
Lemma left_loop : forall x q mq (e : env) k rest,
  node_at q r = Some mq -> shape maxCap x mq -> e "mNode" = Some (VPtr (Some q)) ->
  exists e', exec (S (x + (2 + k))) e (left_loop_stmt :: rest) = exec (2 + k) e' rest /\
    e' "mNode" = Some (VPtr (Some (q ++ leftmost x mq)%list)) /\ e' "mItemIndex" = e "mItemIndex".
Proof.
  induction x as [|x IH]; intros q mq e k rest Hq Sh En; unfold left_loop_stmt.
  - pose proof (shape_0_leaf maxCap mq Sh) as Lf.
    rewrite (exec_while_false _ e _ _ _ (vbool false)); [| rewrite eval_un_not, (eval_isleaf2 e "mNode" q mq En Hq), Lf; reflexivity | reflexivity].
    exists e. cbn [leftmost Nat.add]. rewrite app_nil_r. auto.
  - pose proof (shape_S_internal maxCap x mq Sh) as Lf. destruct Sh as (_ & _ & L & F & _).
    destruct (n_children mq) as [|ch cs] eqn:Ec; [simpl in L; lia|]. inversion F as [|? ? Sc _]; subst.
    assert (Hc : node_at (q ++ [0%nat]) r = Some ch) by (rewrite (node_at_app q [0%nat] r mq Hq); cbn [node_at]; rewrite Ec; reflexivity).
    replace (S (S x + (2 + k))) with (S (S (x + (2 + k)))) by lia.
    rewrite (exec_while_true lin P0 r calls _ e _ _ _ (vbool true)); [| rewrite eval_un_not, (eval_isleaf2 e "mNode" q mq En Hq), Lf; reflexivity | reflexivity].
    rewrite exec_assign, (eval_childk e "mNode" q 0%nat ch (ENum 0) En (eval_num e 0%Z) Hc).
    replace (x + (2 + k)) with (S (x + (1 + k))) by lia. rewrite exec_nil. replace (S (x + (1 + k))) with (x + (2 + k)) by lia.
    set (e1 := set e "mNode" (VPtr (Some (q ++ [0%nat])%list))).
    assert (E1n : e1 "mNode" = Some (VPtr (Some (q ++ [0%nat])%list))) by reflexivity.
    destruct (IH (q ++ [0%nat])%list ch e1 k rest Hc Sc E1n) as (e' & He & A & B).
    exists e'. split; [exact He|]. split; [|exact B]. rewrite A. cbn [leftmost]. rewrite Ec, <- app_assoc. reflexivity.
Qed.
Lemma eval_eq_count e x i y p n : e x = Some (VNum (Z.of_nat i)) -> e y = Some (VPtr (Some p)) -> node_at p r = Some n ->
  eval e (EBin "==" (EVar x) (ECall (EVar y) "GetCount" [])) = Some (vbool (i =? n_count n)%nat).
Proof.
  intros H1 H2 H3. rewrite (eval_bin lin P0 r). cbn [ProtoSemC02.eval call_sem map String.eqb Ascii.eqb Bool.eqb andb]. rewrite H1, H2. unfold nd. rewrite H3.
  cbn [binop String.eqb Ascii.eqb Bool.eqb andb].
  assert (Vn : forall a b, veq (VNum a) (VNum b) = Some (a =? b)%Z) by (intros [| |] b; reflexivity).
  rewrite Vn. cbn [option_map]. f_equal. f_equal.
  destruct (Nat.eqb_spec i (n_count n)); [apply Z.eqb_eq | apply Z.eqb_neq]; lia.
Qed.
End Steps2.

(* pvMove as a whole (its MOMO_ASSERT(mNode->IsLeaf()) holds), run through the hook *)
Lemma run_move_spec d q mq (e : env) k :
  shape maxCap d r -> node_at q r = Some mq -> is_leaf mq = true -> e "mNode" = Some (VPtr (Some q)) ->
  exists e', run_move_f (13 + (k + length q)) e = Some e' /\
    e' "mNode" = Some (VPtr (Some (fst (up r q)))) /\ e' "mItemIndex" = Some (VNum (Z.of_nat (snd (up r q)))).
Proof.
  intros Sh Hq Lf En. unfold run_move_f, iter_pvMove. cbn [Nat.add].
  rewrite (exec_assert_true no_calls _ e _ _ (vbool true)); [| rewrite (eval_isleaf2 e "mNode" q mq En Hq), Lf; reflexivity | reflexivity].
  assert (Hq' : node_at (rev (rev q)) r = Some mq) by (rewrite rev_involutive; exact Hq).
  assert (En' : e "mNode" = Some (VPtr (Some (rev (rev q))))) by (rewrite rev_involutive; exact En).
  destruct (move_loop_is_up maxCap lin P0 r no_calls (rev q) e k mq d Sh Hq' En') as (e' & He & A & B).
  rewrite rev_length in He. unfold move_loop, iter_pvMove in He. cbn [skipn Nat.add] in He. rewrite He.
  rewrite rev_involutive in A, B. exists e'. cbn [env_of_res]. auto.
Qed.

(* pvMoveIf: climb exactly when the index is the node's count *)
Lemma run_moveif_spec d q mq (e : env) k i :
  shape maxCap d r -> node_at q r = Some mq -> is_leaf mq = true ->
  e "mNode" = Some (VPtr (Some q)) -> e "mItemIndex" = Some (VNum (Z.of_nat i)) ->
  exists e', run_moveif_f (13 + (k + length q)) e = Some e' /\
    e' "mNode" = Some (VPtr (Some (fst (if (i =? n_count mq)%nat then up r q else (q, i))))) /\
    e' "mItemIndex" = Some (VNum (Z.of_nat (snd (if (i =? n_count mq)%nat then up r q else (q, i))))).
Proof.
  intros Sh Hq Lf En Ei. unfold run_moveif_f, iter_pvMoveIf. cbn [Nat.add].
  rewrite exec_if, (eval_eq_count e "mItemIndex" i "mNode" q mq Ei En Hq).
  destruct (i =? n_count mq)%nat; cbn [vbool truthy Z.eqb negb].
  - rewrite exec_call. unfold moveif_calls at 1. cbn [String.eqb Ascii.eqb Bool.eqb andb].
    destruct (run_move_spec d q mq e k Sh Hq Lf En) as (e' & He & A & B). cbn [Nat.add] in He. rewrite He.
    rewrite exec_nil, exec_nil. exists e'. cbn [env_of_res]. auto.
  - rewrite exec_nil, exec_nil. exists e. cbn [env_of_res fst snd]. auto.
Qed.
Lemma eval_ne0 e x p : e x = Some (VPtr (Some p)) -> eval lin P0 r e (EBin "!=" (EVar x) (ENum 0)) = Some (vbool true).
Proof. intros H. rewrite (eval_bin lin P0 r). cbn [ProtoSemC02.eval]. rewrite H. reflexivity. Qed.
Lemma eval_plus1 e x j : e x = Some (VNum (Z.of_nat j)) -> eval lin P0 r e (EBin "+" (EVar x) (ENum 1)) = Some (VNum (Z.of_nat (S j))).
Proof. intros H. rewrite (eval_bin lin P0 r). cbn [ProtoSemC02.eval]. rewrite H. cbn [binop String.eqb Ascii.eqb Bool.eqb andb]. f_equal. f_equal. lia. Qed.

(* the REAL operator++ from any valid position of any well-formed tree: every MOMO_CHECK / MOMO_ASSERT passes and the iterator ends at the
   hand model's next *)
Theorem incr_is_next d p m j (e : env) k :
  shape maxCap d r -> node_at p r = Some m -> (j < n_count m)%nat ->
  e "mNode" = Some (VPtr (Some p)) -> e "mItemIndex" = Some (VNum (Z.of_nat j)) ->
  let nx := next {| root := Some r; cnt := 0 |} (p, j) in
  exists e', exec lin P0 r (incr_calls (13 + (k + d))) (16 + (d + k)) e iter_incr = RReturn VUnit e' /\
    e' "mNode" = Some (VPtr (Some (fst nx))) /\ e' "mItemIndex" = Some (VNum (Z.of_nat (snd nx))).
Proof.
  intros Sh Hm Hj En Ei. cbv zeta. rewrite (next_is_zipper maxCap d r p j m Sh Hm Hj).
  destruct (shape_at maxCap p d r m Sh Hm) as [Sm Lp].
  set (F := 13 + (k + d)). unfold iter_incr. cbn [Nat.add].
  rewrite exec_call. unfold incr_calls at 1. cbn [String.eqb Ascii.eqb Bool.eqb andb].
  rewrite (exec_assert_true _ _ e _ _ (vbool true) (eval_ne0 e "mNode" p En) eq_refl).
  rewrite (exec_assert_true _ _ e _ _ (vbool true)); [| rewrite (eval_lt lin P0 r e "mItemIndex" j "mNode" p m Ei En Hm); f_equal; f_equal; apply Z.ltb_lt; lia | reflexivity].
  rewrite exec_if, (eval_isleaf2 e "mNode" p m En Hm).
  unfold step_fwd. rewrite Hm. destruct (is_leaf m) eqn:Lf; cbn [vbool truthy Z.eqb negb].
  - (* leaf: ++mItemIndex *)
    rewrite (exec_incr _ _ e "mItemIndex" (Z.of_nat j) _ Ei), exec_nil.
    set (e1 := set e "mItemIndex" (VNum (Z.of_nat j + 1))).
    assert (E1n : e1 "mNode" = Some (VPtr (Some p))) by exact En.
    assert (E1i : e1 "mItemIndex" = Some (VNum (Z.of_nat (S j)))) by (unfold e1, set; cbn [String.eqb Ascii.eqb Bool.eqb andb]; f_equal; f_equal; lia).
    rewrite exec_call. unfold incr_calls at 1. cbn [String.eqb Ascii.eqb Bool.eqb andb].
    destruct (run_moveif_spec d p m e1 (k + d - length p) (S j) Sh Hm Lf E1n E1i) as (e' & He & A & B).
    replace (13 + (k + d - length p + length p)) with F in He by (unfold F; lia). rewrite He.
    rewrite exec_return. cbn [ProtoSemC02.eval String.eqb Ascii.eqb Bool.eqb andb].
    exists e'. split; [reflexivity|]. unfold cnt_at. rewrite Hm.
    destruct (Nat.eqb_spec (S j) (n_count m)) as [Eq|Ne].
    + replace (S j <? n_count m)%nat with false by (symmetry; apply Nat.ltb_ge; lia). auto.
    + replace (S j <? n_count m)%nat with true by (symmetry; apply Nat.ltb_lt; lia). auto.
  - (* internal node: child index+1, leftmost leaf, index 0 *)
    destruct (shape_internal maxCap _ m Sm Lf) as [x Ex]. rewrite Ex in Sm. destruct Sm as (_ & _ & Lc & Fc & _).
    destruct (nth_error (n_children m) (S j)) as [ch|] eqn:Ech; [|apply nth_error_None in Ech; lia].
    assert (Sc : shape maxCap x ch) by (rewrite Forall_forall in Fc; apply Fc; eapply nth_error_In; exact Ech).
    assert (Hch : node_at (p ++ [S j]) r = Some ch) by (rewrite (node_at_app p [S j] r m Hm); cbn [node_at]; rewrite Ech; reflexivity).
    replace (d - length p - 1) with x by lia.
    rewrite exec_assign, (eval_childk e "mNode" p (S j) ch _ En (eval_plus1 e "mItemIndex" j Ei) Hch).
    set (e1 := set e "mNode" (VPtr (Some (p ++ [S j])%list))).
    assert (E1n : e1 "mNode" = Some (VPtr (Some (p ++ [S j])%list))) by reflexivity.
    replace (S (S (S (S (S (S (S (S (S (S (S (d + k)))))))))))) with (S (x + (2 + (8 + (d - x) + k)))) by lia.
    destruct (left_loop (incr_calls F) x (p ++ [S j])%list ch e1 (8 + (d - x) + k) [SExpr (EBin "=" (EVar "mItemIndex") (ENum 0))] Hch Sc E1n) as (e2 & He2 & A2 & B2).
    fold left_loop_stmt. rewrite He2. cbn [Nat.add].
    rewrite exec_assign, eval_num, exec_nil.
    set (e3 := set e2 "mItemIndex" (VNum 0)).
    set (q := (p ++ S j :: leftmost x ch)%list).
    assert (Eq : ((p ++ [S j]) ++ leftmost x ch)%list = q) by (unfold q; rewrite <- app_assoc; reflexivity).
    assert (E3n : e3 "mNode" = Some (VPtr (Some q))) by (rewrite <- Eq; exact A2).
    assert (E3i : e3 "mItemIndex" = Some (VNum (Z.of_nat 0))) by reflexivity.
    destruct (leftmost_leaf maxCap x ch Sc) as (lm & Hl & S0).
    assert (Hq : node_at q r = Some lm) by (unfold q; rewrite (node_at_app p _ r m Hm); cbn [node_at]; rewrite Ech; exact Hl).
    assert (Lq : (length q <= d)%nat) by (destruct (shape_at maxCap q d r lm Sh Hq); assumption).
    rewrite exec_call. unfold incr_calls at 1. cbn [String.eqb Ascii.eqb Bool.eqb andb].
    destruct (run_moveif_spec d q lm e3 (k + d - length q) 0%nat Sh Hq (shape_0_leaf maxCap lm S0) E3n E3i) as (e' & He & A & B).
    replace (13 + (k + d - length q + length q)) with F in He by (unfold F; lia). rewrite He.
    rewrite exec_return. cbn [ProtoSemC02.eval String.eqb Ascii.eqb Bool.eqb andb].
    exists e'. split; [reflexivity|]. unfold cnt_at. fold q. rewrite Hq.
    destruct (Nat.eqb_spec 0 (n_count lm)) as [Eq0|Ne0].
    + replace (0 <? n_count lm)%nat with false by (symmetry; apply Nat.ltb_ge; lia). auto.
    + replace (0 <? n_count lm)%nat with true by (symmetry; apply Nat.ltb_lt; lia). auto.
Qed.
End Incr.
