"""C15 static pass: for every public member function of the version-keeping momo containers, is a version bump
(mCrew.IncVersion() / ++<version member>) reachable in its body or in the member functions it calls?
Built from the clang JSON AST of props/C15/inst.cpp (one run per class) with tools/cxx2coq.py's dump_ast/load_objs.
The result is written as Gallina (Gen_VersionTable.v) and checked against the model's classification in Coq."""
import os, re, sys, json
import cxx2coq

# class -> (define for inst.cpp, AST filter)
CLASSES = [('HashSet', 'INST_HASHSET'), ('TreeSet', 'INST_TREESET'), ('HashMap', 'INST_HASHMAP'),
           ('TreeMap', 'INST_TREEMAP'), ('HashMultiMap', 'INST_HASHMULTIMAP'), ('DataTable', 'INST_DATATABLE')]
# version cells: tag -> how a bump of it looks in the AST
OWN_CALLS = {'IncVersion': 'version'}                                  # mCrew.IncVersion()
OWN_INCS = {'GetValueVersion': 'valueVersion', 'GetChangeVersion': 'changeVersion', 'GetRemoveVersion': 'removeVersion'}


QUERY_TEMPLATES = ('Find', 'ContainsKey', 'GetLowerBound', 'GetUpperBound', 'GetKeyCount')


def walk(n):
    if isinstance(n, dict):
        yield n
        for c in n.get('inner', []) or []:
            yield from walk(c)


def strip_targs(t, cls):
    """momo::Cls<balanced...>  ->  Cls"""
    key = 'momo::' + cls + '<'
    while True:
        i = t.find(key)
        if i < 0:
            return t
        j = i + len(key); d = 1
        while j < len(t) and d > 0:
            d += {'<': 1, '>': -1}.get(t[j], 0); j += 1
        t = t[:i] + cls + t[j:]


def norm_type(t, cls):
    t = strip_targs(t, cls)
    t = t.replace(cls + '::', '')
    t = t.replace('momo::internal::', '').replace('momo::', '').replace('std::', '')
    return re.sub(r'\s+', ' ', t).strip()


def params_of(m, cls):
    qt = m.get('type', {}).get('qualType', '')
    mm = re.search(r'\((.*)\)\s*(const)?', qt)
    ps = norm_type(mm.group(1), cls) if mm else ''
    ps = re.sub(r'\(lambda at [^)]*\)', 'lambda', ps)
    return ps, bool(re.search(r'\)\s*const\b', qt))


def bodies(decl):
    """[(method node with body)] for a CXXMethodDecl or the instantiations of a FunctionTemplateDecl"""
    if decl['kind'] in ('CXXMethodDecl', 'CXXConstructorDecl', 'CXXDestructorDecl'):
        return [decl] if any(y.get('kind') == 'CompoundStmt' for y in decl.get('inner', [])) else []
    out = []
    for y in decl.get('inner', []):
        if y.get('kind') == 'CXXMethodDecl' and any(z.get('kind') == 'CompoundStmt' for z in y.get('inner', [])) \
                and any(z.get('kind') == 'TemplateArgument' for z in y.get('inner', [])):
            out.append(y)
    return out


def class_of_type(t):
    s = (t or {}).get('desugaredQualType') or (t or {}).get('qualType') or ''
    m = re.search(r'momo::(?:internal::)?(\w+)<', s)
    if m:
        return m.group(1)
    m = re.search(r'(\w+)\s*[&*]*$', s)
    return m.group(1) if m else ''


# Each (translation unit, AST filter, defines) is dumped by clang and parsed ONCE per run (the four passes below share the dumps; the
# nodes are never modified), and `prefetch` runs the clang processes side by side (cold-start time of the check).
_AST = {}
def _ast_key(cfg, repo):
    return (cfg['tu'], cfg['filter'], tuple(cfg.get('defines', [])), repo)
def _ast(cfg, repo):
    k = _ast_key(cfg, repo)
    if k not in _AST:
        _AST[k] = cxx2coq.load_objs(cxx2coq.dump_ast(cfg, repo))
    elif isinstance(_AST[k], Exception):
        raise _AST[k]
    return _AST[k]
def prefetch(repo):
    import concurrent.futures as cf
    here = os.path.dirname(os.path.abspath(__file__))
    tu = os.path.join(here, 'inst.cpp'); tu_gen = os.path.join(here, 'inst_gen.cpp')
    want = [(tu, cls, [define]) for cls, define in CLASSES] + [(tu, flt, [define]) for define, flt, _ in HANDLE_DUMPS] + \
           [(tu, 'DataSelection', ['INST_DATATABLE']), (tu_gen, 'DataRawMultiHashIterator', []), (tu_gen, 'DataTable', [])]
    cfgs = []
    for tu_, flt, defs in want:
        cfg = {'tu': tu_, 'filter': flt, 'class': flt, 'defines': defs, 'includes': [os.path.join(repo, 'include')]}
        if _ast_key(cfg, repo) not in _AST and _ast_key(cfg, repo) not in [_ast_key(c, repo) for c in cfgs]:
            cfgs.append(cfg)
    def dump(cfg):
        try: return cxx2coq.dump_ast(cfg, repo)
        except Exception as e: return e
    with cf.ThreadPoolExecutor(max_workers=4) as ex:
        texts = list(ex.map(dump, cfgs))
    for cfg, txt in zip(cfgs, texts):
        _AST[_ast_key(cfg, repo)] = txt if isinstance(txt, Exception) else cxx2coq.load_objs(txt)


def analyse(cls, define, repo, prev):
    """prev: {(class, name): (all_tags:set, any_tags:set)} of already analysed classes (for nested containers)"""
    cfg = {'tu': os.path.join(os.path.dirname(os.path.abspath(__file__)), 'inst.cpp'), 'filter': cls, 'class': cls,
           'defines': [define], 'includes': [os.path.join(repo, 'include')]}
    objs = _ast(cfg, repo)
    spec = cxx2coq.find_spec(objs, cfg)
    # member function bodies by decl id
    body = {}          # id -> node
    entries = []       # (access, name, params, is_const, [ids])
    acc = 'private'
    for m in spec.get('inner', []):
        k = m.get('kind')
        if k == 'AccessSpecDecl':
            acc = m.get('access', acc); continue
        if k not in ('CXXMethodDecl', 'FunctionTemplateDecl'):
            continue
        bs = bodies(m)
        for b in bs:
            body[b['id']] = b
        if k == 'FunctionTemplateDecl':
            pat = next((y for y in m.get('inner', []) if y.get('kind') == 'CXXMethodDecl'), None)
            ps, cst = params_of(pat, cls) if pat else ('', False)
            entries.append((acc, m.get('name'), '<T>' + ps, cst, [b['id'] for b in bs], not bs))
        else:
            ps, cst = params_of(m, cls)
            if m.get('isImplicit') or m.get('explicitlyDeleted'):
                continue
            entries.append((acc, m.get('name'), ps, cst, [b['id'] for b in bs], not bs))
    # SetExtractedItem(Set& set, ConstIterator iter) / MapExtractedPair(Map&, iter) call set.Remove(iter, *this)
    extract_targets = set()
    for (acc_, name_, ps_, cst_, ids_, un_) in entries:
        if name_ == 'Remove' and 'Extracted' in ps_:
            extract_targets |= set(ids_)
    # direct facts per body
    own = {}; calls = {}; cross = {}
    for i, b in body.items():
        o = set(); c = set(); x = set()
        for n in walk(b):
            if n.get('kind') == 'MemberExpr':
                nm = n.get('name'); ref = n.get('referencedMemberDecl')
                if nm in OWN_CALLS:
                    o.add(OWN_CALLS[nm])
                if ref in body:
                    c.add(ref)
                elif n.get('type', {}).get('qualType') == '<bound member function type>':
                    base = (n.get('inner') or [{}])[0]
                    bc = class_of_type(base.get('type'))
                    if (bc, nm) in prev:
                        x.add((bc, nm))
            elif n.get('kind') in ('CXXConstructExpr', 'CXXTemporaryObjectExpr') and re.search(r'Extracted(Item|Pair)', n.get('type', {}).get('qualType', '')) \
                    and len(n.get('inner') or []) == 2:
                c |= extract_targets
            elif n.get('kind') == 'UnaryOperator' and n.get('opcode') == '++':
                for q in walk(n):
                    if q.get('kind') == 'MemberExpr' and q.get('name') in OWN_INCS:
                        o.add(OWN_INCS[q['name']])
                    if q.get('kind') == 'MemberExpr' and re.search(r'[vV]ersion$', q.get('name') or '') and \
                            q.get('type', {}).get('qualType') != '<bound member function type>':
                        o.add(q['name'])
        own[i] = o; calls[i] = c; cross[i] = x
    # may-reach closure inside the class
    reach_all = {}; reach_any = {}
    for i in body:
        seen = set(); st = [i]; ta = set(); tn = set()
        while st:
            j = st.pop()
            if j in seen: continue
            seen.add(j)
            ta |= own[j]; tn |= own[j]
            for (bc, nm) in cross[j]:
                a, n2 = prev[(bc, nm)]
                ta |= {bc + '.' + t for t in a}; tn |= {bc + '.' + t for t in n2}
            st.extend(calls[j])
        reach_all[i] = ta; reach_any[i] = tn
    rows = []
    byname = {}
    for (acc, name, ps, cst, ids, uninst) in entries:
        if ids:
            ta = set.intersection(*[reach_all[i] for i in ids]); tn = set.union(*[reach_any[i] for i in ids])
        else:
            ta = set(); tn = set()
        if ids:
            a0, n0 = byname.get(name, (None, set()))
            byname[name] = (ta if a0 is None else (a0 & ta), n0 | tn)
        if uninst and name in QUERY_TEMPLATES:
            continue          # heterogeneous-lookup overloads (need a transparent traits class): same body as the non-template overload
        if acc == 'public' and not name.startswith('operator=') and name != 'operator==' and name != cls:
            rows.append({'class': cls, 'method': '%s(%s)%s' % (name, ps, ' const' if cst else ''), 'const': cst,
                         'all': sorted(ta), 'any': sorted(tn), 'uninstantiated': uninst})
    for name, (a, n) in byname.items():
        prev[(cls, name)] = (a or set(), n)
    return rows


# DataTable is instantiated implicitly (not all of its members are valid for one column list): members without a body are
# left out of the table, except that every member with one of these names MUST have a body
DT_MUST = ('Clear', 'Assign', 'Remove', 'Extract', 'Add', 'AddRow', 'TryAdd', 'TryAddRow', 'Insert', 'InsertRow', 'TryInsert',
           'TryInsertRow', 'Update', 'TryUpdate')


def build(repo, classes=None):
    prev = {}; rows = []
    for cls, define in CLASSES:
        if classes and cls not in classes:
            continue
        rs = analyse(cls, define, repo, prev)
        if cls == 'DataTable':
            rs = [r for r in rs if not r['uninstantiated'] or r['method'].split('(')[0] in DT_MUST]
        rows += rs
    return rows


def guard_prefix_facts(repo, gen_cfgs):
    """review round: the `"prefix": {"until_stmt": k}` cuts of the translator configs are hand-set.  For every function translated as a
    guard prefix: how many assignment / compound-assignment / ++ / -- operators the statements BEFORE the cut contain, and the names of
    everything they call (member functions, operators, free functions).  TableCheck.v requires 0 writes and a fixed list of query names.
    Functions translated as whole bodies (no prefix entry) are listed with cut = total."""
    here = os.path.dirname(os.path.abspath(__file__))
    rows = []
    for cf in gen_cfgs:
        cfg = json.load(open(os.path.join(here, cf))); cfg.setdefault('includes', [os.path.join(repo, 'include')])
        spec = cxx2coq.find_spec(_ast(cfg, repo), cfg)
        for fn in cfg['functions']:
            name = fn['name']; idx = fn.get('index', 0); pf = (cfg.get('prefix') or {}).get(name)
            if not pf:
                continue
            ds = cxx2coq.method_decls(spec, name)
            if idx >= len(ds):
                raise cxx2coq.TranslationError('guard_prefix_facts: %s overload %d not found' % (name, idx))
            body = [x for x in ds[idx]['inner'] if x['kind'] == 'CompoundStmt'][0]
            cut = int(pf['until_stmt']); writes = 0; calls = set()
            for st in body['inner'][int(pf.get('from_stmt', 0)):cut]:       # (from_stmt: statements in front that the translation leaves out)
                for n in walk(st):
                    k = n.get('kind')
                    if k == 'CompoundAssignOperator' or (k == 'BinaryOperator' and n.get('opcode') == '=') or \
                            (k == 'UnaryOperator' and n.get('opcode') in ('++', '--')):
                        writes += 1
                    if k in ('CXXMemberCallExpr', 'CallExpr', 'CXXOperatorCallExpr'):
                        c = n['inner'][0]
                        while c.get('kind') in ('ImplicitCastExpr', 'ParenExpr'):
                            c = c['inner'][0]
                        calls.add(c.get('name') or (c.get('referencedDecl') or {}).get('name') or c.get('kind'))
            rows.append((cfg['name'], fn.get('as', name), cut, len(body['inner']), writes, sorted(calls)))
    return rows


def to_coq(rows, leak_rows=(), noexc=((), 0), sites=(), prefixes=()):
    def sl(l): return '[' + '; '.join('"%s"' % x for x in l) + ']'
    out = ['(* GENERATED by props/C15/vtable.py from the clang AST of /repo/include/momo (do not edit).',
           '   (class, public method, version cells certainly bumped on some path = reachable in every instantiation,',
           '    version cells bumped in some instantiation) *)',
           'From Coq Require Import String List.', 'Import ListNotations.', 'Open Scope string_scope.',
           'Definition version_table : list (string * string * list string * list string) := [']
    body = []
    for r in rows:
        body.append('  ("%s", "%s", %s, %s)' % (r['class'], r['method'].replace('"', "'"), sl(r['all']), sl(r['any'])))
    out.append(';\n'.join(body))
    out.append('].')
    out.append('(* path-sensitive pass over HashSet / TreeSet / HashMap / TreeMap / HashMultiMap / DataTable: public members with a normal')
    out.append('   return reached after a structural write of some version cell (own fields, or a mutating call on the nested container)')
    out.append('   and without the bump of that cell on the same path; the cell is named in brackets *)')
    out.append('Definition version_leaks : list (string * string) := [' +
               '; '.join('("%s", "%s")' % (c, m.replace('"', "'")) for c, m in leak_rows) + '].')
    out.append('(* the facts themselves: for every public member (instantiation) the abstract states (cells written, cells bumped) in which a')
    out.append('   NORMAL return of the function can be reached *)')
    def sl2(l): return '[' + '; '.join('"%s"' % x for x in l) + ']'
    out.append('Definition path_facts : list (string * string * list (list string * list string)) := [')
    out.append(';\n'.join('  ("%s", "%s", [%s])' % (c, m.replace('"', "'"), '; '.join('(%s, %s)' % (sl2(w), sl2(b)) for w, b in sts))
                          for c, m, sts in PATH_FACTS))
    out.append('].')
    out.append('(* noexcept functions reachable from a client-visible operator of a handle class that call a checked (may-throw) handle operation *)')
    out.append('Definition noexcept_checked_paths : list (string * string * string * string) := [' +
               '; '.join('("%s", "%s", "%s", "%s")' % r for r in noexc[0]) + '].')
    out.append('Definition client_operators_scanned : nat := %d.' % noexc[1])
    out.append('(* entry points that take row ranges / read the raws of a selection directly: does the body contain the version check? *)')
    out.append('Definition stale_check_sites : list (string * string * bool) := [' +
               '; '.join('("%s", "%s", %s)' % (c, m.replace('"', "'"), 'true' if ok else 'false') for c, m, ok in sites) + '].')
    out.append('(* guard prefixes of the translator configs: (module, guard, statements before the cut, statements of the body, write operators')
    out.append('   before the cut, names called before the cut) *)')
    out.append('Definition guard_prefix_facts : list (string * string * nat * nat * nat * list string) := [' +
               '; '.join('("%s", "%s", %d, %d, %d, %s)' % (m, g, c, n, w, sl(cs)) for m, g, c, n, w, cs in prefixes) + '].')
    return '\n'.join(out) + '\n'


if __name__ == '__main__':
    rows = build(os.environ.get('VERIF_REPO', '/repo'), sys.argv[1:] or None)
    for r in rows:
        print('%-12s %-70s all=%s any=%s%s' % (r['class'], r['method'], r['all'], r['any'], '  UNINSTANTIATED' if r['uninstantiated'] else ''))


# ------------------------------------------------------------------------------------------------------------------
# Path-sensitive pass ("no structural write escapes without a bump"): for HashSet / TreeSet, abstract state = (written, bumped)
# where written = an assignment / ++ / -- / compound assignment to one of this->{structural fields} happened and bumped =
# this->mCrew.IncVersion() happened.  Every public member function is executed abstractly over its AST (sequencing, if with
# constant-folded template conditions, loops to a fixpoint, return, throw, try/catch, lambdas as "may run here", calls to own
# member functions through summaries computed to a fixpoint).  A member LEAKS if some normal return is reachable in state
# (written, not bumped).  Exceptional exits are ignored (strong exception safety is property C04's business).
# Per class: cells (write bit 2j, bump bit 2j+1).
#  fields      : member of *this whose assignment / ++ / -- / compound assignment is a structural write of cell j
#  incversion  : this->mCrew.IncVersion() bumps cell j
#  inc_bumps   : ++<expr containing this->...Name()> bumps cell j
#  nested      : calls on this-><member> use the summaries of the nested container class (its cell 0 -> our cell j)
#  member_calls: calls this-><member>.<name>() that are structural writes of the given cells
#  write_calls : calls of own member functions that are structural writes of the given cells (in addition to their summary)
PATH_CFG = {
    'HashSet': dict(fields={'mCount': 0, 'mCapacity': 0, 'mBuckets': 0}, incversion=0),
    'TreeSet': dict(fields={'mCount': 0, 'mRootNode': 0, 'mNodeParams': 0}, incversion=0),
    'HashMap': dict(nested={'mHashSet': ('HashSet', 0)}),
    'TreeMap': dict(nested={'mTreeSet': ('TreeSet', 0)}),
    'HashMultiMap': dict(nested={'mHashMap': ('HashMap', 0)}, fields={'mValueCount': 1}, inc_bumps={'GetValueVersion': 1}),
    'DataTable': dict(inc_bumps={'GetChangeVersion': 0, 'GetRemoveVersion': 1},
                      member_calls={('mRaws', 'AddBackNogrow'): [0], ('mRaws', 'AddBack'): [0], ('mRaws', 'Insert'): [0],
                                    ('mRaws', 'Remove'): [0, 1], ('mRaws', 'RemoveBack'): [0, 1], ('mRaws', 'Clear'): [0, 1],
                                    ('mRaws', 'SetCount'): [0, 1]},
                      write_calls={'pvDestroyRaw': [0, 1], 'pvDestroyRaws': [0, 1]}),
}
PATH_CELLS = {'HashSet': ['version'], 'TreeSet': ['version'], 'HashMap': ['HashSet.version'], 'TreeMap': ['TreeSet.version'],
              'HashMultiMap': ['HashMap.HashSet.version', 'valueVersion'], 'DataTable': ['changeVersion', 'removeVersion']}
CLASS_SUMM = {}     # class -> member name -> set of states (union over overloads / instantiations)


def leaky(state, ncells):
    return any((state >> (2 * j)) & 1 and not (state >> (2 * j + 1)) & 1 for j in range(ncells))


SKIP = ('ImplicitCastExpr', 'ParenExpr', 'SubstNonTypeTemplateParmExpr', 'ConstantExpr', 'ExprWithCleanups', 'MaterializeTemporaryExpr')


def _strip(n):
    while isinstance(n, dict) and n.get('kind') in SKIP and n.get('inner'):
        n = n['inner'][-1]
    return n


def _on_this(member_expr):
    """is the object of this MemberExpr (implicitly or explicitly) *this?"""
    inner = member_expr.get('inner') or []
    if not inner:
        return True
    b = _strip(inner[0])
    return b.get('kind') == 'CXXThisExpr'


class PathPass:
    def __init__(self, cls, body, names=None):
        self.cfg = PATH_CFG[cls]; self.fields = self.cfg.get('fields', {}); self.body = body
        self.summ = {i: set() for i in body}; self.names = names or {}
        # SetExtractedItem(Set&, iter) / MapExtractedPair(Map&, iter) call set.Remove(iter, *this): the Remove overloads taking an Extracted*
        self.extract_ids = [i for i, b in body.items() if b.get('name') == 'Remove' and 'Extracted' in b.get('type', {}).get('qualType', '')]

    def is_field(self, n):
        n = _strip(n)
        return isinstance(n, dict) and n.get('kind') == 'MemberExpr' and n.get('name') in self.fields and _on_this(n)

    def wbit(self, n):
        return 1 << (2 * self.fields[_strip(n).get('name')])

    def this_member(self, n):
        """name of m if n is this->m (possibly wrapped), else None"""
        n = _strip(n) if isinstance(n, dict) else {}
        if n.get('kind') == 'MemberExpr' and _on_this(n) and n.get('type', {}).get('qualType') != '<bound member function type>':
            return n.get('name')
        return None

    def expr(self, n, S):
        if not isinstance(n, dict) or not S:
            return S
        k = n.get('kind'); inner = n.get('inner') or []
        if k == 'CXXThrowExpr':
            for c in inner: S = self.expr(c, S)
            return set()
        if k == 'LambdaExpr':
            lam = set()
            for c in inner:
                if c.get('kind') == 'CompoundStmt':
                    out, R = self.stmt(c, {0}); lam |= out | R
            return S | {s | e for s in S for e in lam}
        if k in ('CompoundStmt', 'IfStmt', 'ReturnStmt', 'WhileStmt', 'ForStmt', 'DoStmt', 'CXXForRangeStmt', 'CXXTryStmt', 'DeclStmt',
                 'SwitchStmt', 'BreakStmt', 'ContinueStmt', 'NullStmt'):
            out, R = self.stmt(n, S); self.pending_returns |= R
            return out
        if k in ('CXXTemporaryObjectExpr', 'CXXConstructExpr') and len(inner) == 2 and \
                re.search(r'Extracted(Item|Pair)', n.get('type', {}).get('qualType', '')) and self.extract_ids:
            for c in inner: S = self.expr(c, S)
            eff = set()
            for i in self.extract_ids: eff |= self.summ[i]
            return {s | e for s in S for e in eff} if eff else S
        if k == 'CXXMemberCallExpr' and inner:
            callee = _strip(inner[0])
            for c in inner[1:]: S = self.expr(c, S)
            if callee.get('kind') == 'MemberExpr':
                base = (callee.get('inner') or [None])[0]
                S = self.expr(base, S) if base is not None and _strip(base).get('kind') != 'CXXThisExpr' else S
                if callee.get('name') == 'IncVersion':
                    crew = _strip(base) if base is not None else {}
                    if 'incversion' in self.cfg and crew.get('kind') == 'MemberExpr' and _on_this(crew):
                        return {s | (2 << (2 * self.cfg['incversion'])) for s in S}
                    return S
                owner = self.this_member(base) if base is not None else None
                if owner is not None:
                    nm = callee.get('name')
                    if owner in self.cfg.get('nested', {}):
                        ncls, cell = self.cfg['nested'][owner]
                        eff = CLASS_SUMM.get(ncls, {}).get(nm)
                        if eff:
                            shifted = {((e & 3) << (2 * cell)) for e in eff}
                            return {s | e for s in S for e in shifted}
                        return S
                    cells = self.cfg.get('member_calls', {}).get((owner, nm))
                    if cells:
                        w = 0
                        for c in cells: w |= 1 << (2 * c)
                        return {s | w for s in S}
                    return S
                ref = callee.get('referencedMemberDecl')
                if ref in self.summ and _on_this(callee):
                    S = {s | e for s in S for e in self.summ[ref]}
                    cells = self.cfg.get('write_calls', {}).get(callee.get('name'))
                    if cells:
                        w = 0
                        for c in cells: w |= 1 << (2 * c)
                        S = {s | w for s in S}
                    return S
            return S
        for c in inner:
            if k in ('BinaryOperator', 'CompoundAssignOperator') and c is inner[0] and self.is_field(c):
                continue
            S = self.expr(c, S)
        if (k == 'CompoundAssignOperator' or (k == 'BinaryOperator' and n.get('opcode') == '=')) and inner and self.is_field(inner[0]):
            S = {s | self.wbit(inner[0]) for s in S}
        if k == 'UnaryOperator' and n.get('opcode') in ('++', '--') and inner:
            if self.is_field(inner[0]):
                S = {s | self.wbit(inner[0]) for s in S}
            elif n.get('opcode') == '++' and self.cfg.get('inc_bumps'):
                for q in walk(inner[0]):
                    if q.get('kind') == 'MemberExpr' and q.get('name') in self.cfg['inc_bumps']:
                        S = {s | (2 << (2 * self.cfg['inc_bumps'][q['name']])) for s in S}
        return S

    def stmt(self, n, S):
        """-> (fall-through states, states at return statements)"""
        k = n.get('kind'); inner = n.get('inner') or []
        R = set()
        if k == 'CompoundStmt':
            for c in inner:
                S, r = self.stmt(c, S); R |= r
            return S, R
        if k == 'ReturnStmt':
            saved = self.pending_returns; self.pending_returns = set()
            for c in inner: S = self.expr(c, S)
            R = S | self.pending_returns; self.pending_returns = saved
            return set(), R
        if k == 'IfStmt':
            parts = [c for c in inner]
            has_else = n.get('hasElse', False)
            body = parts[-2:] if has_else else parts[-1:]
            pre = parts[:len(parts) - len(body)]
            cond = _strip(pre[-1]) if pre else {}
            for c in pre: S = self.expr(c, S)
            if cond.get('kind') == 'CXXBoolLiteralExpr':
                if cond.get('value'):
                    return self.stmt(body[0], S)
                return self.stmt(body[1], S) if has_else else (S, R)
            o1, r1 = self.stmt(body[0], S)
            o2, r2 = self.stmt(body[1], S) if has_else else (S, set())
            return o1 | o2, r1 | r2
        if k in ('WhileStmt', 'ForStmt', 'DoStmt', 'CXXForRangeStmt'):
            head = set(S)
            self.loop_exits.append(set())
            while True:
                cur = set(head)
                for c in inner:
                    if isinstance(c, dict) and c:
                        cur, r = self.stmt(c, cur); R |= r
                new = head | cur | self.loop_exits[-1]
                if new == head: break
                head = new
            self.loop_exits.pop()
            return head, R
        if k in ('BreakStmt', 'ContinueStmt'):
            if self.loop_exits: self.loop_exits[-1] |= S
            return set(), R
        if k == 'CXXTryStmt':
            o, r = self.stmt(inner[0], S); R |= r
            entry = S | o          # (states in the middle of the try block are approximated by its entry and exit states)
            for h in inner[1:]:
                for c in (h.get('inner') or []):
                    if c.get('kind') == 'CompoundStmt':
                        oh, rh = self.stmt(c, entry); o |= oh; R |= rh
            return o, R
        if k == 'DeclStmt':
            for d in inner:
                for c in (d.get('inner') or []): S = self.expr(c, S)
            return S, R
        # expression statement / anything else
        saved = self.pending_returns; self.pending_returns = set()
        S = self.expr(n, S) if k not in ('CompoundStmt',) else S
        R |= self.pending_returns; self.pending_returns = saved
        return S, R

    def run(self):
        changed = True; it = 0
        while changed and it < 12:
            changed = False; it += 1
            for i, b in self.body.items():
                self.pending_returns = set(); self.loop_exits = []
                comp = next((c for c in b.get('inner', []) if c.get('kind') == 'CompoundStmt'), None)
                out, R = self.stmt(comp, {0})
                res = out | R
                if res != self.summ[i]:
                    self.summ[i] = res; changed = True
        return self.summ


PATH_FACTS = []     # filled by leaks(): (class, method, const?, [(written cells, bumped cells)] one per abstract state at a normal return)


def leaks(repo, classes=None):
    """[(class, method)] public members with a normal return in a state where some cell was written and not bumped"""
    out = []
    CLASS_SUMM.clear(); del PATH_FACTS[:]
    for cls, define in CLASSES:
        if cls not in PATH_CFG or (classes and cls not in classes and cls not in ('HashSet', 'TreeSet', 'HashMap')):
            continue
        cfg = {'tu': os.path.join(os.path.dirname(os.path.abspath(__file__)), 'inst.cpp'), 'filter': cls, 'class': cls,
               'defines': [define], 'includes': [os.path.join(repo, 'include')]}
        spec = cxx2coq.find_spec(_ast(cfg, repo), cfg)
        body = {}; pub = []; acc = 'private'; names = {}
        for m in spec.get('inner', []):
            if m.get('kind') == 'AccessSpecDecl':
                acc = m.get('access', acc); continue
            if m.get('kind') not in ('CXXMethodDecl', 'FunctionTemplateDecl'):
                continue
            for b in bodies(m):
                body[b['id']] = b; names[b['id']] = m.get('name')
                if acc == 'public' and not (m.get('name') or '').startswith('operator='):
                    pub.append((m.get('name'), params_of(b, cls)[0], b['id']))
        summ = PathPass(cls, body).run()
        cs = {}
        for i, st in summ.items():
            cs.setdefault(names[i], set()).update(st)
        CLASS_SUMM[cls] = cs
        ncells = len(PATH_CELLS[cls])
        for name, ps, i in pub:
            sts = sorted(summ[i])
            PATH_FACTS.append((cls, '%s(%s)%s' % (name, re.sub(r'\(lambda at [^)]*\)', 'lambda', ps), ' const' if params_of(body[i], cls)[1] else ''),
                               [([PATH_CELLS[cls][j] for j in range(ncells) if (s >> (2 * j)) & 1],
                                 [PATH_CELLS[cls][j] for j in range(ncells) if (s >> (2 * j + 1)) & 1]) for s in sts]))
            bad = [s for s in summ[i] if leaky(s, ncells)]
            if bad and (not classes or cls in classes):
                cells = sorted({PATH_CELLS[cls][j] for s in bad for j in range(ncells) if (s >> (2 * j)) & 1 and not (s >> (2 * j + 1)) & 1})
                out.append((cls, '%s(%s) [%s]' % (name, re.sub(r'\(lambda at [^)]*\)', 'lambda', ps), ', '.join(cells))))
    return sorted(set(out))



# ------------------------------------------------------------------------------------------------------------------
# Two more generated fact families (one per fixed defect class):
#  (a) noexcept_checked_paths: from a client-visible operator of a handle class (++, --, ->, *, +=) no function declared `noexcept` may be
#      reachable (inside the class) that itself calls a CHECKED, non-noexcept operation of a handle (operator-> / ++ / ... / Check / GetRaw)
#      or contains a throw: the std::invalid_argument of exception mode would hit the noexcept boundary = std::terminate (fix f1f44c5).
#  (b) stale_check_sites: the entry points that take row ranges / work on the raws of a selection directly must contain the version check
#      (`rowRef.GetRaw()` as a member call, resp. `VersionKeeper::Check()`) (fix f5d4e4e).
CHECKED_NAMES = ('operator->', 'operator*', 'operator++', 'operator--', 'operator+=', 'operator-=', 'Check', 'ptCheck', 'GetRaw')
CLIENT_OPS = ('operator++', 'operator--', 'operator->', 'operator*', 'operator+=', 'operator-=')
HANDLE_DUMPS = [('INST_HASHSET', 'HashSet', ('HashSetConstIterator', 'HashSetConstPosition')),
                ('INST_TREESET', 'TreeSet', ('TreeSetConstIterator',)),
                ('INST_HASHMULTIMAP', 'HashMultiMap', ('HashMultiMapIterator', 'HashMultiMapKeyIterator')),
                ('INST_DATATABLE', 'DataRawIterator', ('DataRawIterator',)), ('INST_DATATABLE', 'DataRowIterator', ('DataRowIterator',))]


def _specs(objs, names):
    out = []
    for o in objs:
        cands = [o] if o.get('kind') == 'ClassTemplateSpecializationDecl' else \
            [m for m in o.get('inner', []) if m.get('kind') == 'ClassTemplateSpecializationDecl'] if o.get('kind') == 'ClassTemplateDecl' else []
        for s in cands:
            if s.get('name') in names and any(m.get('kind') in ('CXXMethodDecl', 'FunctionTemplateDecl') for m in s.get('inner', [])):
                out.append(s)
    return out


def _is_noexcept(d):
    return 'noexcept' in (d.get('type', {}).get('qualType', '') or '')


def noexcept_checked_paths(repo):
    rows = []; scanned = 0
    tu = os.path.join(os.path.dirname(os.path.abspath(__file__)), 'inst.cpp')
    for define, flt, names in HANDLE_DUMPS:
        cfg = {'tu': tu, 'filter': flt, 'class': flt, 'defines': [define], 'includes': [os.path.join(repo, 'include')]}
        for spec in _specs(_ast(cfg, repo), names):
            body = {}
            for m in spec.get('inner', []):
                if m.get('kind') in ('CXXMethodDecl', 'FunctionTemplateDecl', 'CXXConstructorDecl'):
                    for b in bodies(m) if m.get('kind') != 'CXXConstructorDecl' else ([m] if any(y.get('kind') == 'CompoundStmt' for y in m.get('inner', [])) else []):
                        body[b['id']] = b
            calls = {}; bad = {}
            for i, b in body.items():
                c = set(); offenders = []
                for n in walk(b):
                    k = n.get('kind')
                    if k == 'MemberExpr' and n.get('referencedMemberDecl') in body:
                        c.add(n['referencedMemberDecl'])
                    if k in ('MemberExpr', 'DeclRefExpr'):
                        nm = n.get('name') or (n.get('referencedDecl') or {}).get('name')
                        ty = (n.get('referencedDecl') or {}).get('type', {}).get('qualType') if k == 'DeclRefExpr' else None
                        if k == 'DeclRefExpr' and (n.get('referencedDecl') or {}).get('id') in body:
                            c.add(n['referencedDecl']['id'])
                        if nm in CHECKED_NAMES:
                            fty = ty if ty is not None else ''
                            if k == 'MemberExpr':
                                # the member function's own type is not printed on a bound MemberExpr: look it up in this class, else assume checked
                                ref = n.get('referencedMemberDecl')
                                fty = body[ref].get('type', {}).get('qualType', '') if ref in body else '()'
                            if '(' in fty and 'noexcept' not in fty:
                                offenders.append(nm)
                    if k == 'CXXThrowExpr':
                        offenders.append('throw')
                calls[i] = c; bad[i] = offenders
            for i, b in body.items():
                if b.get('name') in CLIENT_OPS and not _is_noexcept(b):
                    scanned += 1
                    seen = set(); st = [i]
                    while st:
                        j = st.pop()
                        if j in seen: continue
                        seen.add(j); st.extend(calls[j])
                        if j != i and _is_noexcept(body[j]) and bad[j]:
                            rows.append((spec.get('name'), b.get('name'), body[j].get('name'), ','.join(sorted(set(bad[j])))))
    return sorted(set(rows)), scanned


def stale_check_sites(repo):
    rows = []
    tu = os.path.join(os.path.dirname(os.path.abspath(__file__)), 'inst.cpp')
    def has_member(b, name):
        return any(n.get('kind') == 'MemberExpr' and n.get('name') == name for n in walk(b))
    tu_gen = os.path.join(os.path.dirname(os.path.abspath(__file__)), 'inst_gen.cpp')
    for tu_, defs, flt, names, sites in (
            (tu, ['INST_DATATABLE'], 'DataSelection', ('DataSelection',), {'pvSort': 'Check|pvMakeConstRowReference', 'pvGroup': 'Check', 'pvBinarySearch': 'Check', 'Add': 'GetRaw'}),
            (tu, ['INST_DATATABLE'], 'DataTable', ('DataTable',), {'pvAssign': 'GetRaw', 'pvRemove': 'GetRaw|pvMakeConstRowReference'}),
            # grow round 4: the raw iterators of FindByMultiHash bounds check their changeVersion keeper before moving / dereferencing
            (tu_gen, [], 'DataRawMultiHashIterator', ('DataRawMultiHashIterator',), {'operator+=': 'Check', 'operator->': 'Check'}),
            # ... and the raw bounds handed out by FindByMultiHash / FindByUniqueHash get a keeper on changeVersion
            (tu_gen, [], 'DataTable', ('DataTable',), {'pvFindByHash': 'GetChangeVersion@FindRaws'})):
        cfg = {'tu': tu_, 'filter': flt, 'class': flt, 'defines': defs, 'includes': [os.path.join(repo, 'include')]}
        for spec in _specs(_ast(cfg, repo), names):
            for m in spec.get('inner', []):
                if m.get('kind') in ('CXXMethodDecl', 'FunctionTemplateDecl') and m.get('name') in sites:
                    want, _, only = sites[m['name']].partition('@')       # 'A|B@C': bodies containing a call of C must contain A or B
                    for b in bodies(m):
                        if only and not has_member(b, only):
                            continue
                        ok = any(has_member(b, alt) for alt in want.split('|'))
                        rows.append((spec.get('name'), '%s(%s)' % (m['name'], re.sub(r'\(lambda at [^)]*\)', 'lambda', params_of(b, flt)[0])[:120]), ok))
    return sorted(set(rows))
