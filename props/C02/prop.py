"""C02 - B-tree set/map always equals the abstract sorted (multi)sequence.
proof: Coq theorems about a hand-written executable model of TreeSet.h (coq/BTreeModel.v) whose split index and
       leaf-capacity arithmetic are regenerated from the headers (T-gen: Gen_TreeNode.v, Gen_Node.v);
tie:   T-cor - the extracted model and the real TreeSet/TreeMap run the same op histories on 48 node/traits/item/crew/
       memory-manager configurations (each static_asserted to instantiate the intended classes); per op the index of every returned iterator, bounds/find/count on probe keys, forward and
       backward traversals, GetCount and the pre-order shape (leaf?/count/capacity) must be identical;
       node scripts: the real Node object driven directly, count byte / memPoolIndex / capacity / whole index table / raw slots /
       child array compared byte for byte with the GENERATED node operations (Gen_NodeOpsI/C via NodeScript.v);
oracle: a stable sorted std::vector twin inside the harness (independent of the model), structural checks of the real
       nodes (parent links, uniform depth, count <= capacity) and a counting memory manager (no leak after merges)."""
import os

GEN = ['gen_treenode.json', 'gen_node.json', 'gen_nodeops_i.json', 'gen_nodeops_c.json', 'gen_rebalance.json', 'gen_split.json', 'gen_ordered.json', 'gen_findfirst.json']

#   id: (maxCap, step, blockCount, lin, multi, key, value(''=set), real layout, crew, checkVersion, memory manager, traits)
#   key kinds: int = trivially relocatable; str = nothrow move, not trivially relocatable (short keys inside the SSO buffer,
#   long ones on the heap); move = heap-owning with a move constructor not marked noexcept (momo treats it as nothrow-
#   relocatable); heap = heap-owning COPY-ONLY (not nothrow-relocatable, not nothrow-shiftable: the library forces the indexed
#   layout); swap = copy-only with a nothrow ADL swap (not nothrow-relocatable but shiftable by swapping: continuous layout).
#   The harness static_asserts every column on the instantiated classes and prints them back (stage config-facts).
def _c(mc, st, bc, lin, multi, key, val='', layout='C', crew='ptr', ver=1, mm='empty', traits='TreeTraits'):
    return (mc, st, bc, lin, multi, key, val, layout, crew, ver, mm, traits)
CONFIGS = {
    0: _c(1, 0, 8, 1, 0, 'int'), 1: _c(1, 1, 1, 0, 1, 'int', 'long', 'I'), 2: _c(2, 0, 1, 0, 1, 'str'), 3: _c(2, 1, 8, 1, 0, 'int', 'long', 'I'),
    4: _c(2, 2, 8, 0, 1, 'heap', '', 'I'), 5: _c(3, 1, 8, 1, 1, 'int'), 6: _c(3, 2, 1, 0, 0, 'str', 'long', 'I'), 7: _c(3, 100, 8, 0, 0, 'int'),
    8: _c(4, 0, 8, 1, 1, 'int', 'long', 'I'), 9: _c(4, 1, 1, 0, 0, 'heap', '', 'I'), 10: _c(4, 2, 8, 1, 0, 'int'), 11: _c(4, 100, 1, 1, 1, 'str'),
    12: _c(5, 1, 8, 0, 0, 'int'), 13: _c(5, 2, 1, 1, 1, 'int', 'long'), 14: _c(5, 0, 8, 0, 1, 'heap', 'long', 'I'), 15: _c(5, 100, 1, 1, 0, 'int', '', 'I'),
    16: _c(8, 1, 8, 1, 0, 'int'), 17: _c(8, 2, 1, 0, 1, 'int'), 18: _c(8, 0, 1, 1, 0, 'str', 'long', 'I'), 19: _c(8, 100, 8, 0, 1, 'int', 'long'),
    20: _c(32, 4, 8, 1, 0, 'int'), 21: _c(32, 1, 1, 0, 1, 'int', 'long', 'I'), 22: _c(32, 2, 8, 0, 0, 'move'), 23: _c(32, 0, 1, 1, 1, 'int'),
    24: _c(255, 100, 1, 1, 0, 'int'), 25: _c(255, 1, 8, 0, 1, 'int', 'long', 'I'), 26: _c(255, 0, 1, 0, 0, 'int'), 27: _c(255, 2, 8, 1, 1, 'str'),
    28: _c(3, 0, 8, 0, 1, 'int'), 29: _c(4, 1, 8, 0, 1, 'int', 'long'), 30: _c(2, 100, 1, 1, 0, 'int'), 31: _c(1, 2, 8, 0, 0, 'heap', 'long', 'I'),
    # audit round
    32: _c(32, 4, 8, 1, 0, 'int', crew='inline', ver=0), 33: _c(4, 2, 8, 0, 1, 'int', 'long', crew='inline', ver=0),
    34: _c(3, 1, 8, 0, 1, 'swap'), 35: _c(8, 2, 1, 0, 0, 'swap', 'long', crew='inline', ver=0),
    36: _c(4, 1, 8, 1, 1, 'int', 'heap', 'I'), 37: _c(5, 2, 8, 0, 0, 'str', 'str', crew='inline', ver=0),
    38: _c(4, 2, 8, 1, 0, 'int', mm='stateful-unequal'), 39: _c(2, 1, 1, 0, 1, 'int', 'long', ver=0, mm='stateful-unequal'),
    40: _c(4, 1, 8, 0, 1, 'int', traits='TreeTraitsStd<stateful less>'), 41: _c(3, 0, 1, 0, 0, 'str', crew='inline', ver=0, traits='TreeTraitsStd<std::less>'),
    42: _c(254, 127, 127, 1, 0, 'int'), 43: _c(255, 255, 2, 0, 1, 'int', crew='inline', ver=0),
    44: _c(255, 254, 1, 1, 0, 'int', 'str', 'I'), 45: _c(16, 2, 8, 1, 0, 'int', ver=0, mm='stateful-equal'),
    46: _c(64, 8, 1, 0, 1, 'str', 'long', mm='stateful-equal'), 47: _c(255, 1, 1, 0, 0, 'heap', '', 'I'),
}
NTU = 8
PER_TU = 6
# C02_ONLY_TUS=0,5 restricts a run to the configurations of those harness translation units.  Used ONLY to re-confirm mutants
# cheaply on a loaded machine: whatever a subset of the configurations catches, the full check (a superset of cases) catches too.
_only = os.environ.get('C02_ONLY_TUS', '')
TUS = sorted(int(x) for x in _only.split(',') if x.strip() != '') if _only.strip() else list(range(NTU))
def active():
    return [cid for cid in sorted(CONFIGS) if cid // PER_TU in TUS]
KEYFACTS = {'int': (1, 1, 1), 'str': (0, 1, 1), 'move': (0, 1, 0), 'heap': (0, 0, 0), 'swap': (0, 0, 1)}   # trivially reloc, nothrow reloc, nothrow swap

def merge_modelled(cid):
    """the model's MergeTo follows the equal-memory-manager / empty-traits path selection"""
    return CONFIGS[cid][10] != 'stateful-unequal' and CONFIGS[cid][11] == 'TreeTraits'

def expected_facts(cid):
    mc, st, bc, lin, multi, key, val, layout, crew, ver, mm, traits = CONFIGS[cid]
    kt, kr, ks = KEYFACTS[key]
    return {'layout': layout, 'crew': crew, 'keyTriv': str(kt), 'keyNothrowReloc': str(kr), 'keyNothrowSwap': str(ks), 'lin': str(lin), 'multi': str(multi),
            'checkVersion': str(ver), 'emptyMM': str(int(mm == 'empty')), 'emptyTraits': str(int(traits == 'TreeTraits')), 'map': str(int(val != ''))}

DIST = {}
def dist(k, n=1):
    DIST[k] = DIST.get(k, 0) + n

import re as _re
def line(cid, ops):
    """one case line; keys are C++ ints: anything a generator pushed beyond INT_MAX (extreme key + offset) is clamped"""
    return head(cid) + ' ' + _re.sub(r'\d{10,}', lambda m: str(min(int(m.group(0)), 2147483647)), ' '.join(ops))

def head(cid):
    mc, st, bc, lin, multi = CONFIGS[cid][:5]
    return '%d %d %d %d %d %d' % (cid, mc, st, bc, lin, multi)

def gen_history(r, cid, nops, modelled_only):
    """one aimed op history for configuration cid"""
    mc, st, bc, lin, multi = CONFIGS[cid][:5]
    ops = []
    size = [0, 0]                      # rough size estimate (exact bookkeeping is the harness's job)
    style = r.below(8)
    dist('keys.' + ['ascending', 'descending', 'clustered-duplicates', 'permutation', 'uniform', 'uniform', 'uniform', 'uniform'][style])
    span = r.choice([6, 12, 40, 200, 1000]) if multi else r.choice([20, 60, 300, 2000])
    if mc >= 32:
        nops = nops * 3
    nxt = [0]
    def key():
        if r.chance(1, 60): return r.choice([0, 1, 2147483646, 2147483647])           # extreme keys
        if style == 0: nxt[0] += 1; return 20000 + nxt[0]                       # ascending
        if style == 1: nxt[0] += 1; return 25000 - nxt[0]                # descending
        if style == 2: return 20000 + r.choice([3, 3, 3, 7, 7, 11, 50]) + r.below(2)   # clustered duplicates
        if style == 3: nxt[0] += 1; return 20000 + (nxt[0] * 7919) % span      # permutation-like
        return 20000 + r.below(span)
    def probe(k):
        return 'q%d' % max(0, k + r.range(-2, 2))
    i = 0
    # phase A: build
    build = r.range(nops // 3, nops * 2 // 3)
    while i < build:
        k = key(); t = r.below(10)
        if t < 7: ops.append('i%d' % k)
        elif t < 9: ops.append('a%d:%d' % (r.below(size[0] + 2), k))    # hinted add, right or wrong hint
        else: ops.append('a%d:%d' % (max(0, size[0] - r.below(2)), k))
        size[0] += 1; i += 1
        if r.chance(1, 4): ops.append(probe(k))
        if r.chance(1, 9): ops.append('s')
        if r.chance(1, 15): ops.append('t')
    ops += ['s', 't']
    # phase B: aimed removals / mixed
    mode = r.below(6)
    if mode == 0:
        # drain a subtree one item at a time at a fixed index, then remove its separator (the item just before/after)
        h = r.below(size[0] + 1); n = r.range(mc, 3 * mc + 3)
        for _ in range(n):
            ops.append('r%d' % h)
            if r.chance(1, 3): ops.append('s')
        ops += ['r%d' % max(0, h - 1), 's', 'r%d' % max(0, h - 1), 't', 's']
        size[0] = max(0, size[0] - n - 2)
    elif mode == 1:
        # drain from the front / the back
        for _ in range(r.range(size[0] // 2, size[0] + 2)):
            ops.append('r%d' % (0 if r.chance(1, 2) else 1000000007))
            if r.chance(1, 5): ops.append('s')
        ops += ['t', 's']
        size[0] = size[0] // 3
    rest = nops - i
    for _ in range(max(rest, 5)):
        t = r.below(100); k = key()
        if t < 28: ops.append('i%d' % k); size[0] += 1
        elif t < 36: ops.append('a%d:%d' % (r.below(size[0] + 2), k)); size[0] += 1
        elif t < 62: ops.append('r%d' % r.below(max(size[0], 1) + 3))
        elif t < 68:
            ops.append('k%d' % k)
        elif t < 74: ops.append('x%d' % r.below(max(size[0], 1)) + ('' if r.chance(1, 2) else ':%d' % k))
        elif t < 79: ops.append('e%d:%d' % (r.below(max(size[0], 1)), k))
        elif t < 82: ops.append(r.choice(['y', 'Y', 'm']))
        elif t < 84: ops.append(r.choice(['p%d:%d' % (r.range(2, 5), r.below(2)), 'p1:0', 'p3:5']))
        elif t < 85 and r.chance(1, 3): ops.append('c'); size[0] = 0
        elif t < 92: ops.append(probe(k))
        elif t < 96: ops.append('s')
        else: ops.append('t')
        if r.chance(1, 14):
            # Insert(begin, end): ordered runs (fast path), runs with duplicates, partially unordered input
            m = r.choice([1, 2, 3, mc + 1, 2 * mc + 3, 12]); base_k = key(); kind_n = r.below(4)
            if kind_n == 0: run = [base_k + j for j in range(m)]
            elif kind_n == 1: run = sorted(base_k + r.below(4) for _ in range(m))
            elif kind_n == 2: run = [base_k + r.below(2 * m + 1) for _ in range(m)]
            else: run = sorted(base_k + r.below(3 * m) for _ in range(m)); run[r.below(len(run))] = base_k + r.below(3 * m)
            ops.append('n%s' % ','.join(str(x) for x in run)); size[0] += m
            if r.chance(1, 2): ops.append('s')
        if r.chance(1, 12):
            lo = r.below(size[0] + 2); ops.append('g%d:%d' % (lo, lo + r.choice([0, 1, 2, 3, r.below(size[0] + 2)])))
            if r.chance(1, 2): ops.append('s')
        if r.chance(1, 10):
            # exact boundary positions (negative = counted from the end): hint == end / begin, last item, empty ranges at
            # both ends, everything, everything but one, Remove(iter, ExtractedItem&) + Add(iter, ExtractedItem&&), dropped extract
            ops.append(r.choice(['a-1:%d' % k, 'a0:%d' % k, 'a-2:%d' % k, 'r-1', 'r0', 'r-2', 'g0:-1', 'g-1:-1', 'g0:0', 'g1:-1', 'g0:-2', 'g1:-2',
                                 'x-1', 'x0', 'X-1', 'X0', 'X%d' % r.below(max(size[0], 1)), 'd-1', 'd0', 'd%d' % r.below(max(size[0], 1)),
                                 'e-1:%d' % k, 'e0:%d' % k, 'q0', 'q2147483647', 'k%d' % k]))
            if r.chance(1, 2): ops.append('s')
        if r.chance(1, 150): ops.append('z')
        if not modelled_only:
            u = r.below(40)
            if u < 3: ops.append('g%d:%d' % (r.below(size[0] + 2), r.below(size[0] + 2)))
            elif u < 9: ops.append('bi%d' % max(0, k + (r.choice([0, 0, 10000, -10000]) if r.chance(1, 2) else 0)))
            elif u < 10: ops.append('br%d' % r.below(50))
            elif u < 12: ops.append(r.choice(['u', 'v', 'bu', 'bv']))
            elif u < 13: ops.append('w')
            elif u < 14: ops += ['bt']
            elif u < 16: ops.append(r.choice(['j', 'bj']))
            elif u < 17: ops.append(r.choice(['z', 'bz']))
    ops += ['s', 't']
    if not modelled_only:
        ops += ['bt']
    return line(cid, ops)

def gen_merge_history(r, cid):
    """two sets built ordered / interleaved / overlapping, merged (fast concatenation path when ordered), then freed"""
    mc = CONFIGS[cid][0]
    ops = []
    n1 = r.range(1, 6 * mc + 4); n2 = r.range(1, 6 * mc + 4)
    kind = r.below(6)
    if kind >= 4:
        # ordered blocks that share an equivalent boundary key (either side may be the source): the fast-path tests
        lo = [20000 + r.below(300) for _ in range(n1)] + [20300] * r.range(1, 3)
        hi = [20300] * r.range(1, 3) + [20300 + r.below(300) for _ in range(n2)]
        a, b = (lo, hi) if kind == 4 else (hi, lo)
        ops += ['i%d' % k for k in a] + ['bi%d' % k for k in b]
    else:
        base2 = {0: 10000, 1: -10000, 2: 0, 3: 3}[kind]
        for j in range(n1): ops.append('i%d' % (20000 + (j * 3 if r.chance(3, 4) else r.below(3 * n1))))
        for j in range(n2): ops.append('bi%d' % (20000 + base2 + (j * 3 if r.chance(3, 4) else r.below(3 * n2))))
    for _ in range(r.below(4)): ops.append(r.choice(['r0', 'br0', 'r1000000007', 'br1000000007', 'r%d' % r.below(50)]))
    ops += ['s', 'bs', r.choice(['u', 'v', 'bu', 'bv']), 't', 'bt', 's', 'bs']
    for _ in range(r.below(10)):
        ops.append(r.choice(['i%d' % (20000 + r.below(100)), 'bi%d' % (20000 + r.below(100)), 'r%d' % r.below(60), 'br%d' % r.below(60), 'w', 'u', 'bv']))
    ops += ['t', 'bt']
    fin = r.below(3)
    if fin == 0: ops += ['c', 'bc']
    elif fin == 1: ops += ['r0'] * (n1 + n2 + 12) + ['br0'] * (n1 + n2 + 12) + ['t', 'bt']
    return line(cid, ops)

def gen_separator_history(r, cid):
    """ascending build, drain the leftmost leaves completely (no merge possible while the right sibling is full), then
    remove the separators whose left subtree has become empty - up to the root (pvRemoveInternal, childNode == node)"""
    mc = CONFIGS[cid][0]
    n = r.choice([2 * mc + 2, 2 * mc + 2, 3 * mc + 3, (mc + 1) * (mc + 2) + r.below(4), 4 * mc + 4])
    n = min(n, 700)
    ops = ['i%d' % (20000 + j) for j in range(n)] + ['s']
    for _ in range(r.range(1, min(n, 3 * mc + 3))):
        ops.append('r0')
        if r.chance(1, 3): ops.append('s')
        if r.chance(1, 6): ops.append('q%d' % (20000 + r.below(n)))
    ops += ['t', 's']
    for _ in range(r.below(4)):
        ops += ['r%d' % r.below(3), 's']
    return line(cid, ops + ['t'])

def gen_merge_modelled(r, cid):
    """two key sets - interleaved (generic / linear path), ordered either way (pvMergeFast, trees of equal and of
    different heights, full and non-full nodes on the joining edge), ordered with an equivalent boundary key, or one
    side empty (swap shortcut) - merged, then single-container traffic and possibly further merges"""
    mc, st, bc, lin, multi = CONFIGS[cid][:5]
    kind = r.below(10)
    base = 20000
    sizes = [min(x, 150 if mc <= 8 else 560) for x in [0, 1, 2, 3, mc, mc + 1, 2 * mc + 1, 3 * mc + 2, (mc + 1) * (mc + 1), 40, 120]]
    na = r.choice(sizes); nb = r.choice(sizes)
    if kind <= 3:       # interleaved
        a = [base + 1, base + 1000] + [base + 3 + r.below(r.choice([30, 1000]) if multi else 1000) for _ in range(na)]
        b = [base + 2, base + 999] + [base + 3 + r.below(r.choice([30, 1000]) if multi else 1000) for _ in range(nb)]
    elif kind <= 6:     # a entirely before b (strictly), fast path in one of the two directions
        a = [base + r.below(400) for _ in range(na + 1)]; b = [base + 500 + r.below(400) for _ in range(nb + 1)]
    elif kind == 7:     # equivalent boundary key
        a = [base + r.below(400) for _ in range(na)] + [base + 400]; b = [base + 400] + [base + 400 + r.below(400) for _ in range(nb)]
    elif kind == 8: a = []; b = [base + r.below(900) for _ in range(nb + 1)]
    else: b = []; a = [base + r.below(900) for _ in range(na + 1)]
    if r.chance(1, 2): a, b = b, a
    ops = ['i%d' % k for k in a] + ['bi%d' % k for k in b]
    r.shuffle(ops)
    ops += ['s', 'bs', r.choice(['u', 'v', 'bu', 'bv']), 't', 'bt', 's', 'bs']
    for _ in range(r.below(14)):
        k = base + r.below(1100)
        ops.append(r.choice(['i%d' % k, 'bi%d' % k, 'r%d' % r.below(60), 'br%d' % r.below(60), 'q%d' % k, 'bq%d' % k, 'w',
                             'u', 'bu', 'v', 'bv', 's', 'bs']))
    ops += ['t', 'bt', 's', 'bs']
    return line(cid, ops)

BIG255_QUICK = (47,)     # quick tier: a continuous 255, an even-capacity 254 and an indexed copy-only 255 configuration split a FULL internal node
def gen_big_history(r, cid, thorough, first=False):
    """trees big enough to split INTERNAL nodes (and to fill a 255-entry node / index table to the last slot), to cross the
    height thresholds more than once, then range removals across several levels, re-growth and a full drain"""
    mc, st, bc, lin, multi = CONFIGS[cid][:5]
    if mc <= 8: n = min(1500, r.choice([(mc + 1) ** 3, 2 * (mc + 1) ** 3 + 5]))
    elif mc <= 64: n = r.choice([(mc + 1) * (mc + 1) + mc + 40, 2 * (mc + 1) * (mc + 1)])     # > (mc+1)*mc+mc forces an internal split
    else: n = (mc + 1) * (mc + 1) + 500 if thorough else r.choice([mc + 1, 2 * mc + 2, 3 * mc + 40])
    base = 100000
    pat = r.below(5)
    if mc >= 254 and (thorough or (first and cid in BIG255_QUICK)):
        # 255 separators + 256 children in one internal node, then its split: needs > 128 * 256 items when leaves split in the middle
        pat = r.below(2); n = 66000 if thorough else 34000
    dist('big.' + ['ascending', 'descending', 'two-interleaved-passes', 'duplicate-blocks', 'three-strided-passes'][pat]); dist('big.items', n)
    if pat == 0: ops = ['f%d:%d:1' % (n, base)]
    elif pat == 1: ops = ['f%d:%d:-1' % (n, base + n)]
    elif pat == 2: ops = ['f%d:%d:2' % (n // 2, base), 's', 'f%d:%d:2' % (n - n // 2, base + 1)]
    elif pat == 3: ops = (['f%d:%d:0' % (n // 4, base + 5 * j) for j in range(4)] if multi else ['f%d:%d:1' % (n // 2, base), 'f%d:%d:1' % (n // 2, base + n // 4)])
    else: ops = ['f%d:%d:3' % (n // 3, base + j) for j in (2, 0, 1)]
    ops += ['s', 't', 'q%d' % (base - 1), 'q%d' % base, 'q%d' % (base + n // 2), 'q%d' % (base + 3 * n)]
    for _ in range(r.range(2, 6)):
        ops.append(r.choice(['r0', 'r-1', 'r%d' % r.below(n), 'X%d' % r.below(n), 'a-1:%d' % (base + 4 * n), 'a0:%d' % (base - 7), 'i%d' % (base + r.below(n))]))
    ops += ['g%d:-%d' % (max(1, n // 10), max(2, n // 10)), 's', 't']            # range removal across all levels
    ops += ['f%d:%d:1' % (n // 2, base + 5 * n), 's', 'g1:-2', 's', 't']         # re-growth, then everything but the two ends
    ops += ['f%d:%d:-1' % (n // 3 + 3, base + 9 * n), 's']
    if not thorough or mc <= 64:
        d1 = r.range(mc + 2, 3 * mc + 8); d2 = r.range(mc + 2, 3 * mc + 8)
        if n > 5000: d1 = min(d1, 40); d2 = min(d2, 40)      # per-op iterator indexes are O(n) in the model: keep the 34 000-item cases short
        ops += ['r0'] * d1 + ['s'] + ['r-1'] * d2 + ['s', 't']
    ops += [r.choice(['c', 'z', 'g0:-1']), 's', 'i5', 't']
    return line(cid, ops)

def gen_destroy_history(r, cid):
    """merge, REFILL THE SOURCE, destroy one of the two containers while the other one lives on (destination first or
    source first), keep working with the survivor (allocations and frees go through the merged pools), merge again"""
    mc, st, bc, lin, multi = CONFIGS[cid][:5]
    base = 20000
    na = r.choice([1, mc, mc + 1, 2 * mc + 2, 3 * mc + 3, (mc + 1) * (mc + 1) + 1 if mc <= 8 else 3 * mc]); nb = r.choice([1, mc + 1, 2 * mc + 2, 4 * mc + 4])
    na = min(na, 600); nb = min(nb, 600)
    kind = r.below(4)
    dist('destroy.' + ['ordered a<b', 'ordered b<a', 'interleaved', 'equal boundary key'][kind])
    if kind == 0: a = [base + 2 * j for j in range(na)]; b = [base + 5000 + 2 * j for j in range(nb)]
    elif kind == 1: b = [base + 2 * j for j in range(nb)]; a = [base + 5000 + 2 * j for j in range(na)]
    elif kind == 2: a = [base + 4 * j for j in range(na)]; b = [base + 4 * j + 2 for j in range(nb)]
    else: a = [base + 2 * j for j in range(na)] + [base + 5000]; b = [base + 5000] + [base + 5000 + 2 * j for j in range(nb)]
    ops = ['i%d' % k for k in a] + ['bi%d' % k for k in b]
    m = r.choice(['u', 'v', 'bu', 'bv'])
    dst, src = ('', 'b') if m in ('u', 'v') else ('b', '')
    ops += ['s', 'bs', m, 's', 'bs']
    ops += ['%si%d' % (src, base + 20000 + 3 * j) for j in range(r.range(1, 3 * mc + 3))]      # refill the source
    first = r.choice([dst, src]); other = src if first == dst else dst
    dist('destroy.destination-first' if first == dst else 'destroy.source-first')
    ops += ['%ss' % src, '%sz' % first]
    for j in range(r.range(mc + 2, 4 * mc + 6)):
        ops.append(other + r.choice(['i%d' % (base + 1 + 2 * r.below(3000)), 'r0', 'r-1', 'r%d' % r.below(50), 'q%d' % (base + r.below(6000))]))
    ops += ['%ss' % other, '%st' % other]
    ops += ['%si%d' % (first, base + 40000 + j) for j in range(r.range(1, 2 * mc + 2))]          # the re-created container gets items
    ops += [r.choice(['u', 'v', 'bu', 'bv']), 's', 'bs', 't', 'bt', r.choice(['z', 'bz']), 's', 'bs', r.choice(['i7', 'bi7']), 't', 'bt']
    return line(cid, ops)

def gen_node_script(r, cid):
    """the REAL Node object driven directly (Create / construct item + AcceptBackItem / Remove, valid and assert-violating
    indexes, leaf and internal nodes, filled to the last slot): count byte, memPoolIndex, capacity, the whole index table,
    every raw slot and the child array are compared with the generated + hand node model after every op"""
    mc = CONFIGS[cid][0]; layout = CONFIGS[cid][7]
    ops = ['N', layout]
    count = 0
    def create():
        nonlocal count
        c0 = r.choice([0, 0, 1, mc // 2, max(0, mc - 1), mc, r.below(mc + 1)])
        ops.append(r.choice(['L', 'T']) + str(c0)); count = c0
    create()
    dist('node.scripts')
    for _ in range(r.range(10, 60 if mc <= 64 else 30)):
        t = r.below(20)
        if t == 0: create()
        elif t < 11 or count == 0:
            ops.append('A%d:%d' % (r.choice([0, count, r.below(count + 1), r.below(count + 1), count + 1]), 2000 + r.below(7000)))
            count = min(count + 1, mc)      # estimate only: a leaf can be smaller, then the op is a checked assert ('S')
        else:
            ops.append('R%d' % r.choice([0, max(0, count - 1), r.below(count), r.below(count), count]))
            count = max(0, count - 1)
    return head(cid) + ' ' + ' '.join(ops)

def gen_tree_facts(ctx):
    """T-gen (AST facts, astfacts.py): the pvMergeFast if-chain of TreeSet::MergeTo, the items pvIsOrdered(set, set) compares and the
    statements of pvRebalance's root-collapse loop are read off the clang AST of the current headers and written to
    coq/Gen_TreeFacts.v; BTreeFastDecide.v proves the merge choice sound and the collapse loop free of reads of destroyed nodes"""
    import importlib.util
    out = os.path.join(ctx.cdir, 'Gen_TreeFacts.v')
    try:
        sp = importlib.util.spec_from_file_location('c02_astfacts', os.path.join(ctx.pdir, 'astfacts.py'))
        m = importlib.util.module_from_spec(sp); sp.loader.exec_module(m)
        txt = m.tree_facts_text(os.path.join(ctx.pdir, 'inst_ts.cpp'), ctx.repo, ctx.root)
        if not os.path.exists(out) or open(out).read() != txt:
            open(out, 'w').write(txt)
        import hashlib
        ctx.tie_obligations.append({'name': 'translate Gen_TreeFacts (AST facts: MergeTo fast chain, pvIsOrdered(sets), pvRebalance collapse loop)', 'ok': True,
                                    'sha256': hashlib.sha256(txt.encode()).hexdigest()[:16]})
        return True
    except Exception as e:
        if os.path.exists(out): os.remove(out)       # a stale fact file must not keep the proofs green
        ctx.tie_obligations.append({'name': 'translate Gen_TreeFacts', 'ok': False, 'error': str(e)[:400]})
        ctx.stage('regen', False, 'AST facts: %s' % str(e)[:300])
        return False

def gen_tree_proto(ctx):
    """T-gen (deep embedding, c02_proto.py): the statement trees of pvFindFirst(itemPred), operator++/--, pvMoveIf, pvMove are dumped
    from the clang AST of the current headers into coq/Gen_TreeProto.v; ProtoSemC02.v interprets them, ProtoProofsC02.v proves them"""
    import importlib.util, hashlib
    out = os.path.join(ctx.cdir, 'Gen_TreeProto.v')
    try:
        sp = importlib.util.spec_from_file_location('c02_proto', os.path.join(ctx.pdir, 'c02_proto.py'))
        m = importlib.util.module_from_spec(sp); sp.loader.exec_module(m)
        txt = m.translate(os.path.join(ctx.pdir, 'inst_ts.cpp'), ctx.repo)
        if not os.path.exists(out) or open(out).read() != txt:
            open(out, 'w').write(txt)
        ctx.tie_obligations.append({'name': 'translate Gen_TreeProto (deep embedding: pvFindFirst descent, iterator ++ / -- / pvMoveIf / pvMove)', 'ok': True,
                                    'sha256': hashlib.sha256(txt.encode()).hexdigest()[:16]})
        return True
    except Exception as e:
        if os.path.exists(out): os.remove(out)
        ctx.tie_obligations.append({'name': 'translate Gen_TreeProto', 'ok': False, 'error': str(e)[:400]})
        ctx.stage('regen', False, 'deep embedding: %s' % str(e)[:300])
        return False

def gen_cases(ctx, scale, modelled_only):
    r = ctx.rng
    cases = []
    thorough = not ctx.quick()
    for cid in active():
        mc = CONFIGS[cid][0]
        for _ in range((6 if mc <= 8 else 2) * scale):
            cases.append(gen_separator_history(r, cid))
        n = (24 if mc <= 8 else 8) * scale
        for _ in range(n):
            nops = r.choice([20, 40, 80, 160]) if mc <= 8 else r.choice([60, 120])
            cases.append(gen_history(r, cid, nops, modelled_only))
        for j in range((2 if thorough else 1) if mc <= 64 else 1):     # quick: one big tree per configuration (cold-start budget)
            cases.append(gen_big_history(r, cid, thorough and modelled_only, first=(j == 0 and modelled_only)))
        if merge_modelled(cid) or not modelled_only:
            for _ in range((4 if mc <= 8 else 2) * scale):
                cases.append(gen_destroy_history(r, cid))
        if modelled_only and CONFIGS[cid][6] == '':
            for _ in range((6 if mc <= 64 else 3) * scale):
                cases.append(gen_node_script(r, cid))
        if modelled_only and merge_modelled(cid):
            for _ in range((8 if mc <= 8 else 3) * scale):
                cases.append(gen_merge_modelled(r, cid))
        if not modelled_only:
            for _ in range(12 * scale):
                cases.append(gen_merge_history(r, cid))
    return cases

def split_by_tu(cases):
    groups = {}
    for i, c in enumerate(cases):
        groups.setdefault(int(c.split(' ', 1)[0]) // PER_TU, []).append(i)
    return groups

def run_exe(exe, inp_path, timeout):
    """run one harness executable on a case file; bytes in/out (a corrupted run may print anything), a hang is a timeout"""
    import subprocess
    env = dict(os.environ); env.setdefault('ASAN_OPTIONS', 'detect_leaks=1:abort_on_error=0')
    try:
        r = subprocess.run([exe], stdin=open(inp_path, 'rb'), capture_output=True, timeout=timeout, env=env)
        rc, o, e = r.returncode, r.stdout, r.stderr
    except subprocess.TimeoutExpired as ex:
        rc, o, e = 124, ex.stdout or b'', (ex.stderr or b'') + b' TIMEOUT (hang) after %ds' % timeout
    lines = o.decode('utf8', 'replace').split('\n')
    if lines and lines[-1] == '': lines.pop()
    elif rc != 0 and lines: lines.pop()          # an incomplete last line belongs to the crashed case
    return rc, lines, e.decode('utf8', 'replace')

MEASURED = {}      # '#STAT' counters the harness measured on the real containers, summed over the run; '#STATMAX' maxima
MEASURED_MAX = {}
def absorb_stats(e):
    rest = []
    for ln in e.split('\n'):
        if ln.startswith('#STAT '):
            k, v = ln[6:].rsplit('\t', 1); MEASURED[k] = MEASURED.get(k, 0) + int(v)
        elif ln.startswith('#STATMAX '):
            k, v = ln[9:].rsplit('\t', 1); MEASURED_MAX[k] = max(MEASURED_MAX.get(k, 0), int(v))
        else: rest.append(ln)
    return '\n'.join(rest)

def run_impl(ctx, harn, cases, name, measure=False):
    """run the real code: each case goes to the harness executable that holds its configuration.
    A crash (assert, segfault on poisoned freed memory, sanitizer report) is attributed to the case being run and the
    rest of the batch is re-run after it."""
    out = [None] * len(cases); err = ''
    for tu, idxs in split_by_tu(cases).items():
        todo = list(idxs); rounds = 0
        while todo and rounds < 40:
            rounds += 1
            path = os.path.join(ctx.build, '%s.tu%d.cases' % (name, tu))
            open(path, 'w').write('\n'.join(cases[i] for i in todo) + '\n')
            rc, lines, e = run_exe(harn[tu], path, 150 if ctx.quick() else 1500)
            if measure: e = absorb_stats(e)
            else: e = '\n'.join(l for l in e.split('\n') if not l.startswith('#STAT'))
            n = min(len(lines), len(todo))
            for j in range(n):
                out[todo[j]] = lines[j]
            if rc == 0 and n == len(todo):
                todo = []
            else:
                if n < len(todo):
                    out[todo[n]] = '<missing: harness crashed with exit %d: %s>' % (rc, ' '.join(e.strip().split())[-400:])
                    err += 'harness tu%d crashed (exit %d) on case: %s\n' % (tu, rc, cases[todo[n]][:160])
                    todo = todo[n + 1:]
                else:
                    err += 'harness tu%d exit %d: %s\n' % (tu, rc, e[-300:]); todo = []
        for i in todo:
            out[i] = '<missing: not run>'
    return out, err

def first_diff(case, a, b):
    ops = case.split()[6:]; ta = a.split(' '); tb = b.split(' ')
    # oracle '!' tokens are extra tokens on the implementation side; drop them for alignment
    ta = [x for x in ta if not x.startswith('!')]
    for i in range(max(len(ta), len(tb))):
        x = ta[i] if i < len(ta) else '<none>'; y = tb[i] if i < len(tb) else '<none>'
        if x != y:
            return i, (ops[i] if i < len(ops) else '?'), x, y
    return None

def shrink(ctx, case, still_fails):
    """ddmin-lite on the op list (keeps the header)"""
    w = case.split(); hd, ops = w[:6], w[6:]
    chunk = max(1, len(ops) // 2); budget = 250
    while chunk >= 1 and budget > 0:
        i = 0; progressed = False
        while i < len(ops) and budget > 0:
            cand = ops[:i] + ops[i + chunk:]
            budget -= 1
            if cand and still_fails(' '.join(hd + cand)):
                ops = cand; progressed = True
            else:
                i += chunk
        if not progressed or chunk == 1:
            if chunk == 1: break
        chunk = max(1, chunk // 2) if chunk > 1 else 0
        if chunk == 0: break
    return ' '.join(hd + ops)

def impl_fails(ctx, harn):
    def f(case):
        out, err = run_impl(ctx, harn, [case], 'shrink')
        return any(t.startswith('!') or t.startswith('<missing') for t in out[0].split(' '))
    return f

def corr_fails(ctx, harn):
    def f(case):
        out, err = run_impl(ctx, harn, [case], 'shrink')
        path = os.path.join(ctx.build, 'shrink.model.cases'); open(path, 'w').write(case + '\n')
        rc, lines, e = ctx.run_lines([ctx.model_exe], path)
        a = ' '.join(x for x in out[0].split(' ') if not x.startswith('!'))
        return not lines or a != lines[0]
    return f

def build_harness(ctx):
    """4 TUs of 8 configurations each.  A TU is rebuilt only when harness.cpp, the flags or any momo header changed
    (content hash), so an unchanged tree does not pay the compile time again."""
    import hashlib, glob
    h = hashlib.sha256()
    for f in [os.path.join(ctx.pdir, 'harness.cpp'), os.path.join(ctx.root, 'harness', 'private_access.h')] + \
            sorted(glob.glob(os.path.join(ctx.repo, 'include', 'momo', '*.h')) + glob.glob(os.path.join(ctx.repo, 'include', 'momo', 'details', '*.h'))):
        h.update(f.encode()); h.update(open(f, 'rb').read())
    h.update(ctx.tier.encode())
    if TUS != list(range(NTU)): h.update(repr(TUS).encode())
    stamp = h.hexdigest()
    suffix = '' if ctx.quick() else '.san'
    spath = os.path.join(ctx.build, 'harness%s.stamp' % suffix)      # one stamp per tier: a thorough run does not invalidate the quick binaries
    exes = {k: os.path.join(ctx.build, 'harness%d%s' % (k, suffix)) for k in TUS}
    if os.path.exists(spath) and open(spath).read() == stamp and all(os.path.exists(e) for e in exes.values()):
        ctx.stage('build-harness', True)
        return exes
    if os.path.exists(spath): os.remove(spath)
    res = ctx.cxx_many([('harness.cpp', 'harness%d' % k, ['-DCFGSET=%d' % k] + (['-O0', '-g0'] if ctx.quick() else [])) for k in TUS], timeout=3000)
    harn = {k: res.get('harness%d' % k) for k in TUS}
    if any(v is None for v in harn.values()):
        ctx.stage('build-harness', False, getattr(ctx, 'last_cxx_error', ''))
        return None
    open(spath, 'w').write(stamp)
    ctx.stage('build-harness', True)
    return harn

def replay(ctx, rp):
    harn = build_harness(ctx)
    if harn is None:
        print('harness does not build'); return 2
    case = rp.get('case')
    if not case:
        print('replay has no concrete case (no-failing-input-found): broken stages were', list(rp.get('broken', {}).keys())); return 1
    out, err = run_impl(ctx, harn, [case], 'replay')
    print('case:', case, '\nimplementation:', out[0], err)
    bad = '!' in out[0] or out[0].startswith('<missing')
    if rp.get('model') and not bad:
        # a correspondence violation: re-run the model as well
        ctx.regen(GEN); gen_tree_facts(ctx); gen_tree_proto(ctx); ctx.prove()
        if ctx.stages.get('prove', {}).get('ok') and ctx.extract():
            path = os.path.join(ctx.build, 'replay.model.cases'); open(path, 'w').write(case + '\n')
            rc, lines, e = ctx.run_lines([ctx.model_exe], path)
            print('model:         ', lines[0] if lines else e)
            bad = not lines or lines[0] != out[0]
    if bad:
        print('VIOLATION property=C02 replay=%s' % ctx.replay); return 1
    print('property holds on this case'); return 0

def run(ctx):
    scale = 1 if ctx.quick() else 8
    ctx.trusted += ['tools/cxx2coq.py + clang 14 JSON AST for GetSplitItemIndex / GetCapacity / pvGetLeafMemPoolIndex / Node::AcceptBackItem, Remove, pvAcceptBackItem, pvRemove, pvInitIndexes, GetCount of both layouts incl. the std::copy / std::copy_backward range copies on the index table and the child array (translated as a parallel range copy; the standard no-overlap preconditions of the two algorithms are assumed) / the decision prefix of TreeSet::pvRebalance / the AddSegment trace of Relocator::pvSplitNode / pvIsOrdered(iter, iter) / pvFindFirst(Node*, pred) both strategies / the CreateNode counts of pvSplitNode; props/C02/astfacts.py (own walker over the same clang JSON AST) for the pvMergeFast if-chain of MergeTo, pvIsOrdered(set, set) the statements of the root-collapse loop and the stop rule of the climbing loop of pvRebalance; props/C02/c02_proto.py (generic statement-tree dumper copied from props/C07/proto2coq.py) for the descent of pvFindFirst(itemPred) and the iterator steps, with coq/ProtoSemC02.v as their (trusted-by-inspection) semantics: Node* = path into the hand tree, MOMO_CHECK / MOMO_ASSERT kept as Stuck obligations (default check mode assumed); ASSUMED primitive: ItemTraits::ShiftNothrow(begin, shift) on the continuous item array rotates [begin, begin+shift] by one (its proof is C03); skipped: item creator / remover functors; validated through the shape and the node-level byte correspondence',
                    'extraction: ExtrOcamlBasic only (no Extract Constant; Extraction Blacklist for module names), OCaml 4.13.1, zarith for decimal I/O only',
                    'g++ 12 -std=c++17, harness reaches private members via #define private public',
                    'the hand-written model coq/BTreeModel.v is tied to TreeSet.h by differential execution only (T-cor), on the listed configurations']
    ctx.assumptions += ['keys are totally ordered by < (TreeTraits::IsLess is a strict weak order); the model uses Z',
                        'parent pointers and the indexed (non-continuous) item permutation are abstracted (paths / item lists); item relocation, exceptions and memory are not modelled (C03/C04)',
                        '1 <= maxCapacity <= 255 (static assert of the source)']
    ctx.regen(GEN)
    gen_tree_facts(ctx)
    gen_tree_proto(ctx)
    ctx.prove()
    harn = build_harness(ctx)
    if harn is None:
        return ctx.finish(rule=RULE)
    # the INTENDED classes are really instantiated: static_asserts in harness.cpp (build fails otherwise) + printed back here
    fcases = [head(cid) + ' @' for cid in active()]
    if TUS != list(range(NTU)): ctx.coverage['restricted_to_translation_units'] = TUS
    fout, ferr = run_impl(ctx, harn, fcases, 'facts')
    facts = {}; fbad = []
    for cid, o in zip(active(), fout):
        got = dict(kv.split('=') for kv in o.lstrip('@').split() if '=' in kv)
        facts[cid] = got
        exp = expected_facts(cid)
        if any(got.get(k) != v for k, v in exp.items()): fbad.append((cid, exp, got))
    ctx.stage('config-facts', not fbad and not ferr, ferr + ('; '.join('cfg %d expected %s got %s' % x for x in fbad[:3])))
    ctx.tie_obligations.append({'name': 'all %d configurations instantiate the intended node layout / crew / item category / traits (static_assert + printed facts)' % len(CONFIGS), 'ok': not fbad and not ferr})
    # the correspondence also runs when a PROOF broke but the executable model still compiles (make -k): a broken theorem about generated
    # code then comes with the concrete inputs on which the real code leaves the model (e.g. node shapes), not only with the oracle's
    have_model = ctx.extract()
    if have_model:
        cases = gen_cases(ctx, scale, True)
        impl, err = run_impl(ctx, harn, cases, 'corr', measure=True)
        path = os.path.join(ctx.build, 'corr.model.cases'); open(path, 'w').write('\n'.join(cases) + '\n')
        rc, model, e2 = ctx.run_lines([ctx.model_exe], path, timeout=1500)
        mism = []
        for i, c in enumerate(cases):
            a = ' '.join(x for x in impl[i].split(' ') if not x.startswith('!'))
            b = model[i] if i < len(model) else '<missing>'
            if a != b: mism.append((i, c, impl[i], b))
            else: ctx.traces_validated += 1
            if 'N' in a: ctx.nontrivial.add(c)
        ctx.evaluations += len(cases)
        ok = not mism and not err and rc == 0
        det = err + (e2[-500:] if rc != 0 else '')
        if mism:
            d = first_diff(mism[0][1], mism[0][2], mism[0][3])
            det += 'first disagreement: %d cases; case %r op#%s impl=%r model=%r' % (len(mism), mism[0][1][:200], d and d[0], d and d[2][:120], d and d[3][:120])
        ctx.stage('corr:model-vs-treeset', ok, det)
        ctx.tie_obligations.append({'name': 'extracted BTreeModel == real TreeSet/TreeMap on %d histories x 48 configurations (iterator indexes, bounds, traversals, shape)' % len(cases), 'ok': ok})
        for (i, c, a, b) in mism[:2]:
            small = shrink(ctx, c, corr_fails(ctx, harn))
            out1, _ = run_impl(ctx, harn, [small], 'shrink')
            ctx.violation('model and implementation disagree', {'case': small, 'impl': out1[0][:2000], 'model': True, 'original_case': c[:3000],
                          'cmd': 'echo "<case>" | build/C02/harness%d   and   | build/C02/model_driver' % (int(c.split()[0]) // PER_TU)}, found_input=True)
        ops_hist = {}
        for c in cases:
            for o in c.split()[6:]:
                ops_hist[o[0]] = ops_hist.get(o[0], 0) + 1
        ctx.coverage['corr_op_histogram'] = ops_hist
    # the property's own oracle on the real code (always; bigger when a stage broke = search stage)
    oscale = scale
    if any(not s['ok'] for s in ctx.stages.values()):
        ctx.log('a stage broke: searching the implementation for a failing input with the thorough generator')
        oscale = max(scale, 6)
    ocases = gen_cases(ctx, oscale, False)
    oimpl, oerr = run_impl(ctx, harn, ocases, 'oracle', measure=True)
    ctx.evaluations += len(ocases)
    def viol(o):
        return [t for t in o.split(' ') if t.startswith('!') or t.startswith('<missing') or '?' in t]
    bad = [(c, o) for c, o in zip(ocases, oimpl) if viol(o)]
    ctx.stage('oracle', not bad and not oerr, (oerr + ('%d failing histories; first: %s -> %s' % (len(bad), bad[0][0][:200], viol(bad[0][1])[:3]) if bad else '')))
    for (c, o) in bad[:2]:
        small = shrink(ctx, c, impl_fails(ctx, harn))
        out1, _ = run_impl(ctx, harn, [small], 'shrink')
        ctx.violation('the real container differs from the stable sorted reference sequence (or leaks / breaks its node structure): %s' %
                      [t for t in out1[0].split(' ') if t.startswith('!') or t.startswith('<')][:3],
                      {'case': small, 'impl_output': out1[0][:2000], 'original_case': c[:3000],
                       'cmd': 'echo "<case>" | build/C02/harness%d' % (int(c.split()[0]) // PER_TU)}, found_input=True)
    for c in (ocases[::max(1, len(ocases) // 5)])[:5]:
        ctx.add_sample(c[:400])
    ohist = {}
    for c in ocases:
        for o in c.split()[6:]:
            key = o[:2] if o[0] == 'b' else o[0]
            ohist[key] = ohist.get(key, 0) + 1
    ctx.coverage['oracle_op_histogram'] = ohist
    ctx.coverage['configurations'] = {str(k): dict(zip(('maxCapacity', 'capacityStep', 'blockCount', 'linear', 'multi', 'key', 'value', 'layout', 'crew', 'checkVersion', 'memManager', 'traits'), v),
                                                 instantiated=facts.get(k)) for k, v in CONFIGS.items()}
    # measured input distribution: what REALLY happened in this run (harness counters on the real containers) + generator families
    per_cfg = {}
    for k, v in list(MEASURED.items()) + list(MEASURED_MAX.items()):
        if k.startswith('c') and '.' in k and k[1:k.index('.')].isdigit():
            per_cfg.setdefault(k[1:k.index('.')], {})[k[k.index('.') + 1:]] = v
    def tot(name): return sum(d.get(name, 0) for d in per_cfg.values())
    def by(pred, name): return sum(per_cfg.get(str(c), {}).get(name, 0) for c in CONFIGS if pred(CONFIGS[c]))
    ctx.coverage['input_distribution'] = {
        'per_configuration': {k: per_cfg[k] for k in sorted(per_cfg, key=int)},
        'ops_executed_on_real_code': {k[3:]: v for k, v in sorted(MEASURED.items()) if k.startswith('op.')},
        'entry_points_and_boundaries': {k: v for k, v in sorted(MEASURED.items()) if not k.startswith('op.') and not k.startswith('c')},
        'threshold_events_total': {n: tot(n) for n in ('leafSplit', 'internalNodesAdded', 'fullInternalNodeSplit', 'rootGrow', 'rootCollapse', 'nodesFreedByMerge', 'opsLeavingEmptyLeaf',
                                                       'opsLeavingEmptyInternal', 'opsWithFullInternalNode', 'opsWithLeafAtMaxCapacityFull')},
        'fullInternalNodeSplit_by_maxCapacity': {str(m): by(lambda c, m=m: c[0] == m, 'fullInternalNodeSplit') for m in sorted(set(c[0] for c in CONFIGS.values()))},
        'ops_by_layout': {l: by(lambda c, l=l: c[7] == l, 'ops') for l in 'CI'},
        'ops_by_crew': {l: by(lambda c, l=l: c[8] == l, 'ops') for l in ('ptr', 'inline')},
        'ops_by_key_category': {l: by(lambda c, l=l: c[5] == l, 'ops') for l in KEYFACTS},
        'ops_by_value_category': {l or 'set': by(lambda c, l=l: c[6] == l, 'ops') for l in ('', 'long', 'str', 'heap')},
        'ops_by_memory_manager': {l: by(lambda c, l=l: c[10] == l, 'ops') for l in ('empty', 'stateful-equal', 'stateful-unequal')},
        'ops_by_traits': {l: by(lambda c, l=l: c[11] == l, 'ops') for l in sorted(set(c[11] for c in CONFIGS.values()))},
        'ops_by_search': {'linear': by(lambda c: c[3] == 1, 'ops'), 'binary': by(lambda c: c[3] == 0, 'ops')},
        'ops_by_multi': {'unique': by(lambda c: c[4] == 0, 'ops'), 'multi': by(lambda c: c[4] == 1, 'ops')},
        'generator_families': dict(sorted(DIST.items())),
    }
    return ctx.finish(rule=RULE)

RULE = ('cases = op histories (insert ascending/descending/clustered/random incl. extreme keys, every Insert/Add entry point, hinted add with '
        'right and wrong hints and hint == begin/end, Insert(begin,end)/Insert(initializer_list), remove by iterator/key/range/predicate '
        'with exact boundary positions, drain-a-subtree-then-remove-its-separator, extract+insert / Remove(it,ext)+Add(it,ext) / dropped '
        'extract, ResetKey, copy/move/swap, destroy-and-recreate, MergeFrom/MergeTo on every path incl. unequal managers, non-empty traits '
        'and another container type, merge-refill-destroy, bulk fills that split full internal nodes up to 255 items) over 48 configurations '
        'of TreeSet/TreeMap x unique/multi x TreeNode<1..255, step 0..255, blockCount 1/2/8/127, continuous or indexed> x linear/binary search '
        'x int / std::string (SSO and heap) / throwing-move / copy-only / swap-shifted keys x long/string/copy-only values x pointer/inline crew '
        'x empty/stateful memory managers x TreeTraits/TreeTraitsStd; distinct = distinct history line; non-trivial = the history built a tree '
        'with at least one internal node (a split happened)')
