(* C16 model driver: same case format / output format as harness.cpp (index arithmetic cases; hist = L1 model).
   The functions run here are the twins of coq/Fast.v, each PROVED equal to the generated function (wrapU computed by land). *)
open Zutil
let vals_sq l i =
  let (s, j) = Fast.sq_seg l i in (s, j, Fast.sq_idx l s j, Fast.sq_cnt l s)
let vals_cn l i =
  let (s, j) = Fast.cn_seg l i in (s, j, Fast.cn_idx l s j, Fast.cn_cnt l)
let four vals l i =
  let (s, j, idx, cnt) = vals l i in
  Printf.sprintf "%s %s %s %s" (string_of_z s) (string_of_z j) (string_of_z idx) (string_of_z cnt)
(* the same lossless run-length form as harness.cpp *)
let range vals l lo n =
  let b = Buffer.create 4096 in
  let lo = Z.of_string lo and n = int_of_string n in
  let s0 = ref Z.zero and j0 = ref Z.zero and i0 = ref Z.zero and c0 = ref Z.zero and len = ref 0 in
  let flush () = if !len > 0 then
      Buffer.add_string b (Printf.sprintf "%s %s %s %s x%d;" (Z.to_string !s0) (Z.to_string !j0) (Z.to_string !i0) (Z.to_string !c0) !len) in
  for k = 0 to n - 1 do
    let (s, j, idx, cnt) = vals l (z_of_zarith (Z.add lo (Z.of_int k))) in
    let s = zarith_of_z s and j = zarith_of_z j and idx = zarith_of_z idx and cnt = zarith_of_z cnt in
    if !len > 0 && Z.equal s !s0 && Z.equal cnt !c0 && Z.equal j (Z.add !j0 (Z.of_int !len)) && Z.equal idx (Z.add !i0 (Z.of_int !len))
    then incr len
    else begin flush (); s0 := s; j0 := j; i0 := idx; c0 := cnt; len := 1 end
  done; flush (); Buffer.contents b
(* hist / hist2: the extracted L1 model (SegModel.step / wstep) over the twins of the GENERATED sizing functions.
   The driver keeps a twin of the element VALUES only to know how many elements a filter-Remove deletes. *)
let sizing f l = if String.sub f 0 2 = "sq" then (Fast.sq_seg l, Fast.sq_idx l) else (Fast.cn_seg l, Fast.cn_idx l)
let split_op tok =
  let c = tok.[0] in
  let rest = if String.length tok > 1 then String.sub tok 1 (String.length tok - 1) else "0" in
  match String.index_opt rest ':' with
  | Some k -> (c, String.sub rest 0 k, String.sub rest (k + 1) (String.length rest - k - 1))
  | None -> (c, rest, "0")
let rec take n l = if n <= 0 then [] else match l with [] -> [] | x :: t -> x :: take (n - 1) t
let rec drop n l = if n <= 0 then l else match l with [] -> [] | _ :: t -> drop (n - 1) t
let rec rep n x = if n <= 0 then [] else x :: rep (n - 1) x
let rec seqfrom a n = if n <= 0 then [] else a :: seqfrom (a + 1) (n - 1)
(* translate one harness op into model ops; twin/next evolve exactly as in harness.cpp *)
let model_ops tok (twin : int list ref) (next : int ref) : SegModel.op list option =
  let (c, a, b) = split_op tok in
  let n = (try int_of_string a with _ -> max_int) and m = (try int_of_string b with _ -> max_int) in   (* SIZE_MAX arguments: only the Z value zn is used *)
  let old = List.length !twin in
  let zn = z_of_string a in
  match c with
  | 'a' -> twin := !twin @ seqfrom !next n; next := !next + n; Some (rep n SegModel.AddBack)
  | 'r' -> Some [SegModel.Reserve zn]
  | 's' -> twin := (if n <= old then take n !twin else !twin @ rep (n - old) 0); Some [SegModel.SetCount zn]
  | 'k' -> Some [SegModel.ShrinkFit]
  | 'K' -> Some [SegModel.ShrinkTo zn]
  | 'b' -> if n <= old then (twin := take (old - n) !twin; Some [SegModel.RemoveBack zn]) else Some []
  | 'c' -> twin := []; Some [SegModel.Clear false]
  | 'C' -> twin := []; Some [SegModel.Clear true]
  | 'i' -> if n <= old then (twin := take n !twin @ (!next :: drop n !twin); incr next; Some [SegModel.InsertN (z_of_int 1)]) else Some []
  | 'd' -> if n < old then (twin := take n !twin @ drop (n + 1) !twin; Some [SegModel.RemoveBack (z_of_int 1)]) else Some []
  | 'n' -> Some [SegModel.AddBackNogrow]   (* harness: only when count < capacity; the model op has the same guard *)
  | 'I' -> if n <= old then (twin := take n !twin @ rep m !next @ drop n !twin; incr next; Some [SegModel.InsertN (z_of_int m)]) else Some []
  | 'J' -> if n <= old then (twin := take n !twin @ seqfrom !next m @ drop n !twin; next := !next + m; Some [SegModel.InsertN (z_of_int m)]) else Some []
  | 'D' -> if n <= old && m <= old - n then (twin := take n !twin @ drop (n + m) !twin; Some [SegModel.RemoveBack (z_of_int m)]) else Some []
  | 'F' -> if n > 0 then begin
             let t2 = List.filter (fun v -> v mod n <> 0) !twin in
             let k = old - List.length t2 in twin := t2; Some [SegModel.RemoveBack (z_of_int k)] end else Some []
  (* const& / count,item / other iterator kinds: the same effect on count and capacity as their siblings *)
  | 'e' -> twin := !twin @ seqfrom !next n; next := !next + n; Some (rep n SegModel.AddBack)
  | 'o' -> Some [SegModel.AddBackNogrow]
  | 'S' -> twin := (if n <= old then take n !twin else !twin @ rep (n - old) !next); incr next; Some [SegModel.SetCount zn]
  | 'j' -> if n <= old then (twin := take n !twin @ (!next :: drop n !twin); incr next; Some [SegModel.InsertN (z_of_int 1)]) else Some []
  | 'U' -> if n <= old then (twin := take n !twin @ seqfrom !next m @ drop n !twin; next := !next + m; Some (rep m (SegModel.InsertN (z_of_int 1))))
           else Some []
  | 'L' -> if n <= old then (twin := take n !twin @ seqfrom !next 3 @ drop n !twin; next := !next + 3; Some [SegModel.InsertN (z_of_int 3)])
           else Some []
  (* a newly constructed array is move-assigned: old segments freed, then the constructor's own steps *)
  | 'G' -> twin := rep n 0; Some [SegModel.Clear true; SegModel.SetCount zn]
  | 'H' -> twin := rep n !next; incr next; Some [SegModel.Clear true; SegModel.SetCount zn]
  | 'R' -> twin := seqfrom !next n; next := !next + n; Some (SegModel.Clear true :: rep n SegModel.AddBack)
  | 'T' -> twin := seqfrom !next 3; next := !next + 3; Some (SegModel.Clear true :: rep 3 SegModel.AddBack)
  | 'P' -> twin := []; Some [SegModel.Clear true; SegModel.Reserve zn]
  | 'Q' -> twin := seqfrom !next n; next := !next + n; Some [SegModel.Clear true; SegModel.SetCount zn]
  | _ -> None
let show idx (s : SegModel.state) =
  let top = match List.rev s.SegModel.segs with [] -> "-1" | x :: _ -> string_of_z x in
  Printf.sprintf "%s/%s/%s/%s" (string_of_z s.SegModel.count) (string_of_z (SegModel.len s)) (string_of_z (SegModel.capacity idx s)) top
(* 'n' when the array is full: harness does nothing and the twin must not change; AddBackNogrow in the model has the same guard,
   but the twin needs the decision *)
let nogrow_fix tok idx (st : SegModel.state) twin next =
  if (tok.[0] = 'n' || tok.[0] = 'o') && Z.lt (zarith_of_z st.SegModel.count) (zarith_of_z (SegModel.capacity idx st)) then (twin := !twin @ [!next]; incr next)
let hist f l ops =
  let (seg, idx) = sizing f (z_of_string l) in
  let st = ref SegModel.empty and twin = ref [] and next = ref 1 in
  let b = Buffer.create 1024 and bad = ref false in
  List.iter (fun tok -> if not !bad then begin
    nogrow_fix tok idx !st twin next;
    (match model_ops tok twin next with
     | None -> bad := true
     | Some os -> List.iter (fun o -> if not !bad then match SegModel.step seg idx !st o with Some s -> st := s | None -> bad := true) os);
    Buffer.add_string b (if !bad then "MODEL-ASSERT" else show idx !st ^ " ") end) ops;
  Buffer.contents b
let hist2 f l ops =
  let (seg, idx) = sizing f (z_of_string l) in
  let w = ref SegModel.wempty in
  let ta = ref [] and tb = ref [] and next = ref 1 in
  let b = Buffer.create 1024 and bad = ref false in
  let wapply o = if not !bad then match SegModel.wstep seg idx !w o with Some x -> w := x | None -> bad := true in
  List.iter (fun tok -> if not !bad then begin
    if String.length tok > 2 && tok.[1] = '.' then begin
      let on_a = tok.[0] = 'A' in
      let sub = String.sub tok 2 (String.length tok - 2) in
      let twin = if on_a then ta else tb in
      nogrow_fix sub idx (if on_a then SegModel.stA !w else SegModel.stB !w) twin next;
      match model_ops sub twin next with
      | None -> bad := true
      | Some os -> List.iter (fun o -> wapply (if on_a then SegModel.OnA o else SegModel.OnB o)) os
    end else begin
      let ab = String.length tok = 3 && tok.[1] = 'A' in
      (match tok.[0] with
       | 'm' | 'M' -> if ab then (tb := !ta; ta := []; wapply SegModel.MoveAB) else (ta := !tb; tb := []; wapply SegModel.MoveBA)
       | 'x' -> let t = !ta in ta := !tb; tb := t; wapply SegModel.SwapAB
       | 'c' -> if ab then (tb := !ta; wapply (SegModel.CopyAB true)) else (ta := !tb; wapply (SegModel.CopyBA true))
       | 'k' -> if ab then (tb := !ta; wapply (SegModel.CopyAB false)) else (ta := !tb; wapply (SegModel.CopyBA false))
       | _ -> bad := true)
    end;
    Buffer.add_string b (if !bad then "MODEL-ASSERT" else show idx (SegModel.stA !w) ^ "|" ^ show idx (SegModel.stB !w) ^ " ") end) ops;
  Buffer.contents b
(* ghist: the container's OWN functions as regenerated by cxx2coq from SegmentedArray.h (Gen_ArrSqrt: GetCapacity, Reserve, Shrink,
   Clear, AddBackCrt, SetCountCrt, pvDecCount with pvIncCapacity / pvDecCapacity / pvIncCount inside), run on the state
   (mSegments : index -> segment id, mSegments_n, mCount).  The allocator answer `alloc` is the next fresh id. *)
let ghist f l ops =
  let l = z_of_string l in
  let sq = String.sub f 0 2 = "sq" in
  let seg = if sq then Fast.sq_seg l else Fast.cn_seg l in
  let idx = if sq then Fast.sq_idx l else Fast.cn_idx l in
  let cnt = if sq then Fast.sq_cnt l else (fun _ -> Fast.cn_cnt l) in
  let nextid = ref 0 in
  let shl32 = Z.shift_left Z.one 32 in
  let alloc = fun _ -> let r = z_of_zarith (Z.mul (Z.of_int !nextid) shl32) in incr nextid; r in   (* segment pointer = id << 32 *)
  let segs = ref (fun _ -> z_of_int (-1)) and n = ref (z_of_int 0) and c = ref (z_of_int 0) in
  (* element values: cells index -> value, kept in a table; the regenerated ArrayShifter (Gen_ShiftSqrt) runs on the cell FUNCTION *)
  let cells : (int, int) Hashtbl.t = Hashtbl.create 1024 and nextv = ref 1 in
  let cellf = fun i -> z_of_int (try Hashtbl.find cells (Z.to_int (zarith_of_z i)) with Not_found -> 0) in
  let flush_cells (f : BinNums.coq_Z -> BinNums.coq_Z) cnt = let vs = Array.init cnt (fun i -> Z.to_int (zarith_of_z (f (z_of_int i)))) in
    Hashtbl.reset cells; Array.iteri (fun i v -> Hashtbl.replace cells i v) vs in
  let b = Buffer.create 1024 and bad = ref "" in
  let fail o = bad := (match o with GenPrelude.Stuck -> "GEN-STUCK" | GenPrelude.Fuel -> "GEN-FUEL" | _ -> "GEN-EXN") in
  List.iter (fun tok -> if !bad = "" then begin
    let (op, a, _) = split_op tok in
    let za = z_of_string a in
    (* which slots will be destroyed: the ghost log of the regenerated pvDecCount (Gen_ArrLog), run on the state BEFORE the op *)
    let target = (match op with
      | 'b' -> if Z.leq (Z.of_string a) (zarith_of_z !c) then Some (Z.sub (zarith_of_z !c) (Z.of_string a)) else None
      | 's' | 'S' -> if Z.lt (Z.of_string a) (zarith_of_z !c) then Some (Z.of_string a) else None
      | 'c' | 'C' -> Some Z.zero
      | 'F' -> let k = int_of_string a in
               if k > 0 then begin let kept = ref 0 in
                 for i = 0 to Z.to_int (zarith_of_z !c) - 1 do if (try Hashtbl.find cells i with Not_found -> 0) mod k <> 0 then incr kept done;
                 Some (Z.of_int !kept) end else None
      | 'D' -> let (_, _, m) = split_op tok in
               if Z.leq (Z.of_string a) (zarith_of_z !c) && Z.leq (Z.of_string m) (Z.sub (zarith_of_z !c) (Z.of_string a))
               then Some (Z.sub (zarith_of_z !c) (Z.of_string m)) else None
      | _ -> None) in
    let ci () = Z.to_int (zarith_of_z !c) in
    let dlog = (match target with
      | None -> "d-1:-1x0"
      | Some t ->
        (match Gen_ArrLog.pvDecCount seg cnt !segs !n !c (fun _ -> z_of_int 0) (z_of_int 0) (z_of_zarith t) with
         | GenPrelude.Ok (((_, _), lg), gn) ->
           let m = Z.to_int (zarith_of_z gn) / 2 in
           if m = 0 then "d-1:-1x0" else begin
             let ent k = zarith_of_z (lg (z_of_int k)) in
             let hi = Z.pred (Z.add (ent 0) (ent 1)) and lo = ent (2 * (m - 1)) in
             let tot = ref Z.zero in for k = 0 to m - 1 do tot := Z.add !tot (ent (2 * k + 1)) done;
             Printf.sprintf "d%s:%sx%s" (Z.to_string lo) (Z.to_string hi) (Z.to_string !tot) end
         | _ -> "dGEN-LOG-STUCK")) in
    (match op with
     | 'a' | 'e' -> for _ = 1 to int_of_string a do if !bad = "" then
                      (match Gen_ArrSqrt.coq_AddBackCrt seg alloc !segs !n !c with
                       | GenPrelude.Ok (((_, s'), n'), c') -> Hashtbl.replace cells (ci ()) !nextv; incr nextv; segs := s'; n := n'; c := c' | o -> fail o) done
     | 'I' -> (* Insert(p, m, item) = Reserve(count + m) + the regenerated ArrayShifter::InsertNogrow on the cells *)
       let (_, _, ms) = split_op tok in let p = int_of_string a and m = int_of_string ms in
       if p <= ci () then begin
         (match Gen_ArrSqrt.coq_Reserve seg idx alloc !segs !n !c (z_of_int (ci () + m)) with GenPrelude.Ok ((_, s'), n') -> segs := s'; n := n' | o -> fail o);
         if !bad = "" then begin
           let cap = Gen_ArrSqrt.coq_GetCapacity idx !segs !n !c in
           let it = Z.to_int (zarith_of_z cap) + ci () + m + 5 in Hashtbl.replace cells it !nextv; incr nextv;
           (match Gen_ShiftSqrt.coq_ShiftInsert cellf !c cap (z_of_int p) (z_of_int m) (z_of_int it) with
            | GenPrelude.Ok ((_, items'), c') -> flush_cells items' (Z.to_int (zarith_of_z c')); c := c' | o -> fail o) end end
     | 'J' -> (* Insert(p, begin, end), forward iterators = Reserve(count + m) + the regenerated RANGE InsertNogrow; the source range is a block of cells *)
       let (_, _, ms) = split_op tok in let p = int_of_string a and m = int_of_string ms in
       if p <= ci () then begin
         (match Gen_ArrSqrt.coq_Reserve seg idx alloc !segs !n !c (z_of_int (ci () + m)) with GenPrelude.Ok ((_, s'), n') -> segs := s'; n := n' | o -> fail o);
         if !bad = "" then begin
           let cap = Gen_ArrSqrt.coq_GetCapacity idx !segs !n !c in
           let base = Z.to_int (zarith_of_z cap) + ci () + m + 5 in
           for k = 0 to m - 1 do Hashtbl.replace cells (base + k) !nextv; incr nextv done;
           (match Gen_ShiftXSqrt.coq_ShiftInsertRange cellf !c cap (z_of_int p) (z_of_int base) (z_of_int m) with
            | GenPrelude.Ok ((_, items'), c') -> flush_cells items' (Z.to_int (zarith_of_z c')); c := c' | o -> fail o) end end
     | 'F' -> (* Remove(filter v % k == 0) = the regenerated ArrayShifter::Remove(array, filter) *)
       let k = int_of_string a in
       if k > 0 then
         (match Gen_ShiftXSqrt.coq_ShiftRemoveIf (fun v -> Z.equal (Z.rem (zarith_of_z v) (Z.of_int k)) Z.zero) cellf !c (Gen_ArrSqrt.coq_GetCapacity idx !segs !n !c) with
          | GenPrelude.Ok ((_, items'), c') -> flush_cells items' (Z.to_int (zarith_of_z c')); c := c' | o -> fail o)
     | 'D' -> let (_, _, ms) = split_op tok in let p = int_of_string a and m = int_of_string ms in
       if p <= ci () && m <= ci () - p then
         (match Gen_ShiftSqrt.coq_ShiftRemove cellf !c (Gen_ArrSqrt.coq_GetCapacity idx !segs !n !c) (z_of_int p) (z_of_int m) with
          | GenPrelude.Ok ((_, items'), c') -> flush_cells items' (Z.to_int (zarith_of_z c')); c := c' | o -> fail o)
     | 'r' -> (match Gen_ArrSqrt.coq_Reserve seg idx alloc !segs !n !c za with GenPrelude.Ok ((_, s'), n') -> segs := s'; n := n' | o -> fail o)
     | 's' | 'S' -> (match Gen_ArrSqrt.coq_SetCountCrt seg idx cnt alloc !segs !n !c za with
                     | GenPrelude.Ok (((_, s'), n'), c') ->
                       let oldc = ci () and newc = Z.to_int (zarith_of_z c') in
                       for i = oldc to newc - 1 do Hashtbl.replace cells i (if op = 'S' then !nextv else 0) done;
                       if op = 'S' then incr nextv;
                       segs := s'; n := n'; c := c' | o -> fail o)
     | 'k' -> (match Gen_ArrSqrt.coq_ShrinkFit seg idx !segs !n !c with GenPrelude.Ok (_, n') -> n := n' | o -> fail o)
     | 'K' -> (match Gen_ArrSqrt.coq_ShrinkTo seg idx !segs !n !c za with GenPrelude.Ok (_, n') -> n := n' | o -> fail o)
     | 'c' | 'C' -> (match Gen_ArrSqrt.coq_Clear seg idx cnt !segs !n !c (op = 'C') with GenPrelude.Ok ((_, n'), c') -> n := n'; c := c' | o -> fail o)
     | 'b' -> (* the harness calls RemoveBack only for k <= count (otherwise it throws) *)
       if Z.leq (Z.of_string a) (zarith_of_z !c) then
         (match Gen_ArrSqrt.coq_RemoveBack seg cnt !segs !n !c za with GenPrelude.Ok (_, c') -> c := c' | o -> fail o)
     | 'n' | 'o' -> (* the harness calls AddBackNogrow only when count < capacity *)
       if Z.lt (zarith_of_z !c) (zarith_of_z (Gen_ArrSqrt.coq_GetCapacity idx !segs !n !c)) then
         (match Gen_ArrSqrt.coq_AddBackNogrowCrt seg !segs !n !c with GenPrelude.Ok (_, c') -> Hashtbl.replace cells (ci ()) !nextv; incr nextv; c := c' | o -> fail o)
     | _ -> bad := "GEN-BAD-OP");
    if !bad <> "" then Buffer.add_string b !bad else begin
      let top = if Z.sign (zarith_of_z !n) = 0 then "-1"
                else Z.to_string (Z.shift_right (zarith_of_z (!segs (z_of_zarith (Z.pred (zarith_of_z !n))))) 32) in
      (* operator[] of the middle element through the generated pvGetItem *)
      let addr = if Z.sign (zarith_of_z !c) = 0 then "-1" else
          (match Gen_ArrSqrt.pvGetItem seg !segs !n !c (z_of_zarith (Z.div (zarith_of_z !c) (Z.of_int 2))) with
           | GenPrelude.Ok a -> string_of_z a | _ -> "GEN-GETITEM-STUCK") in
      let h = ref 0 in
      for i = 0 to ci () - 1 do h := (!h + ((i + 1) * ((try Hashtbl.find cells i with Not_found -> 0) mod 1000000007)) mod 1000000007) mod 1000000007 done;
      Buffer.add_string b (Printf.sprintf "%s/%s/%s/%s/%s/%s/v%d " (string_of_z !c) (string_of_z !n)
                             (string_of_z (Gen_ArrSqrt.coq_GetCapacity idx !segs !n !c)) top addr dlog !h) end end) ops;
  Buffer.contents b
let () = iter_lines (fun line ->
  match words line with
  | "ghist" :: f :: l :: ops -> print_endline (ghist f l ops)
  | "hist" :: f :: l :: ops -> print_endline (hist f l ops)
  | "hist2" :: f :: l :: ops -> print_endline (hist2 f l ops)
  | ["lg64"; v] -> print_endline (string_of_z (Fast.log2_64 (z_of_string v)))
  | ["lg32"; v] -> print_endline (string_of_z (Fast.log2_32 (z_of_string v)))
  | ["sq"; l; i] -> print_endline (four vals_sq (z_of_string l) (z_of_string i))
  | ["cn"; l; i] -> print_endline (four vals_cn (z_of_string l) (z_of_string i))
  | ["sqs"; l; i] ->
    let (s, j) = Fast.sq_seg (z_of_string l) (z_of_string i) in
    Printf.printf "%s %s\n" (string_of_z s) (string_of_z j)
  | ["sqr"; l; lo; n] -> print_endline (range vals_sq (z_of_string l) lo n)
  | ["cnr"; l; lo; n] -> print_endline (range vals_cn (z_of_string l) lo n)
  | ["sqx"; l; s; j] ->
    let l = z_of_string l in
    let i = Fast.sq_idx l (z_of_string s) (z_of_string j) in
    let (s2, j2) = Fast.sq_seg l i in
    Printf.printf "%s %s %s\n" (string_of_z i) (string_of_z s2) (string_of_z j2)
  | ["cnx"; l; s; j] ->
    let l = z_of_string l in
    let i = Fast.cn_idx l (z_of_string s) (z_of_string j) in
    let (s2, j2) = Fast.cn_seg l i in
    Printf.printf "%s %s %s\n" (string_of_z i) (string_of_z s2) (string_of_z j2)
  | _ -> print_endline "?")
