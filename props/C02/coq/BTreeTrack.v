(* C02 -- the saved node of pvRebalance: the position (savedNode, index) keeps its in-order index through the root
   collapse and through every sibling merge (merge_adjust is where the node is afterwards) *)
From Coq Require Import List ZArith Arith Lia Bool.
From C02 Require Import BTreeModel BTreeBase BTreeSearch BTreeIter BTreeAdd BTreeRemove BTreeCtx BTreeRemove2.
Import ListNotations.

Lemma firstn_app_le {A} k (a b : list A) : k <= length a -> firstn k (a ++ b) = firstn k a.
Proof. intros H. rewrite firstn_app. replace (k - length a) with 0 by lia. simpl. apply app_nil_r. Qed.

Lemma skipn_app_ge {A} m (a b : list A) : skipn (length a + m) (a ++ b) = skipn m b.
Proof.
  rewrite skipn_app. rewrite skipn_all2 by lia. replace (length a + m - length a) with m by lia. reflexivity.
Qed.

Lemma skipn_app_plus {A} m t (a b : list A) : length a = m -> skipn (m + t) (a ++ b) = skipn t b.
Proof. intros <-. apply skipn_app_ge. Qed.

Lemma skipn_app_exact {A} m (a b : list A) : length a = m -> skipn m (a ++ b) = b.
Proof. intros <-. rewrite skipn_app, skipn_all, Nat.sub_diag. reflexivity. Qed.
Lemma skipn_app_ge2 {A} m t (a b : list A) : length a = m -> m <= t -> skipn t (a ++ b) = skipn (t - m) b.
Proof. intros <- H. rewrite skipn_app, skipn_all2 by lia. reflexivity. Qed.
Lemma skipn_skipn {A} a b (l : list A) : skipn a (skipn b l) = skipn (a + b) l.
Proof.
  revert l; induction b; intros l; [rewrite Nat.add_0_r; reflexivity|].
  destruct l; [rewrite !skipn_nil; reflexivity|]. rewrite Nat.add_succ_r. simpl. apply IHb.
Qed.
Lemma skipn_1_cons {A} (x : A) l : skipn 1 (x :: l) = l.
Proof. reflexivity. Qed.
Lemma skipn_S_cons {A} m (x : A) l : skipn (S m) (x :: l) = skipn m l.
Proof. reflexivity. Qed.

Lemma is_prefix_app p : forall sp, is_prefix p sp = true -> exists tail, sp = p ++ tail.
Proof.
  induction p as [|c p IH]; intros sp H; [exists sp; reflexivity|].
  destruct sp as [|c' sp]; [discriminate|]. simpl in H. apply andb_true_iff in H. destruct H as [H1 H2].
  apply Nat.eqb_eq in H1. subst c'. destruct (IH sp H2) as [t ->]. exists t. reflexivity.
Qed.

Lemma strip_prefix_app p t : strip_prefix p (p ++ t) = Some t.
Proof. induction p as [|c p IH]; simpl; auto. rewrite Nat.eqb_refl. exact IH. Qed.

Lemma strip_prefix_none p : forall sp, is_prefix p sp = false -> strip_prefix p sp = None.
Proof.
  induction p as [|c p IH]; intros sp H; [discriminate|].
  destruct sp as [|c' sp]; [reflexivity|]. simpl in *. destruct (c =? c'); simpl in H; auto.
Qed.

Lemma list_eqb_false_neq a b : list_eqb a b = false -> a <> b.
Proof.
  revert b; induction a as [|x a IH]; destruct b as [|y b]; simpl; intros H E; try discriminate.
  inversion E; subst. rewrite Nat.eqb_refl in H. simpl in H. eapply IH; eauto.
Qed.

Section Track.
Variable maxCap : nat.
Hypothesis Hpos : 0 < maxCap.
Notation shape := (shape maxCap).

Lemma node_at_shape p : forall d n nd,
  shape d n -> node_at p n = Some nd -> length p <= d /\ valid d p n 0 /\ shape (d - length p) nd.
Proof.
  induction p as [|c p IH]; intros d n nd Sh E.
  - simpl in *. inversion E; subst. rewrite Nat.sub_0_r. repeat split; auto; lia.
  - cbn [node_at] in E. destruct (nth_error (n_children n) c) as [ch|] eqn:Ec; [|discriminate].
    destruct d as [|d]. { destruct Sh as (_ & _ & L). rewrite L in Ec. destruct c; discriminate. }
    destruct (IH d ch nd (shape_child _ _ _ _ _ Sh Ec) E) as (A & B & C).
    cbn [valid length]. rewrite Ec. repeat split; auto. lia.
Qed.

Lemma valid_app_inv p : forall d n nd q j,
  valid d (p ++ q) n j -> node_at p n = Some nd -> valid (d - length p) q nd j.
Proof.
  induction p as [|c p IH]; intros d n nd q j V E.
  - simpl in *. inversion E; subst. rewrite Nat.sub_0_r. exact V.
  - cbn [app] in V. destruct (valid_cons _ _ _ _ _ V) as (d' & ch & -> & Ec & V').
    cbn [node_at] in E. rewrite Ec in E. simpl. eauto.
Qed.

(* ---------- one merge, seen from the parent ---------- *)
Definition adj (j c1 k : nat) (rest : list nat) : nat * list nat :=
  if k =? S j then match rest with r0 :: rt => (j, (r0 + c1 + 1) :: rt) | [] => (k, rest) end
  else if S j <? k then (k - 1, rest) else (k, rest).

Lemma merge_pos d par j par' n1 k rest j0 :
  shape (S d) par -> merge_children par (S j) = Some par' -> nth_error (n_children par) j = Some n1 ->
  valid (S d) (k :: rest) par j0 -> length rest = d -> ~ (k = S j /\ rest = []) ->
  let '(k', rest') := adj j (n_count n1) k rest in
  valid (S d) (k' :: rest') par' j0 /\ length rest' = d /\ before (k' :: rest') par' j0 = before (k :: rest) par j0.
Proof.
  intros Sh M E1 V Lr Nr.
  destruct (merge_children_spec maxCap Hpos d par j par' Sh M) as [Sh' Fl'].
  pose proof Sh as (H1 & H2 & L & F & Cpx). unfold merge_children in M.
  replace (S j - 1) with j in M by lia. rewrite E1 in M.
  destruct (nth_error (n_children par) (S j)) as [n2|] eqn:E2; [|discriminate].
  destruct (nth_error (n_items par) j) as [sep|] eqn:Es; [|discriminate].
  destruct (n_cap n1 <? n_count n1 + n_count n2 + 1) eqn:Ecap; [discriminate|].
  set (Mn := Node (n_cap n1) (n_items n1 ++ sep :: n_items n2) (n_children n1 ++ n_children n2)).
  assert (Ep : par' = Node (n_cap par) (remove_at j (n_items par))
            (firstn j (n_children par) ++ Mn :: skipn (S (S j)) (n_children par))) by (unfold Mn; congruence).
  clear M.
  pose proof (shape_child _ _ _ _ _ Sh E1) as S1. pose proof (shape_child _ _ _ _ _ Sh E2) as S2.
  assert (Hj : j < n_count par) by (apply nth_error_lt in Es; exact Es).
  assert (Lc : length (firstn j (n_children par)) = j) by (apply firstn_length_le; unfold n_count in *; lia).
  assert (Lk : length (firstn j (n_items par)) = j) by (apply firstn_length_le; unfold n_count in *; lia).
  destruct (valid_cons _ _ _ _ _ V) as (d0 & ch & Ed & Ek & Vr). inversion Ed; subst d0. clear Ed.
  assert (Hk : k <= n_count par) by (apply nth_error_lt in Ek; lia).
  assert (Ec' : n_children par' = firstn j (n_children par) ++ Mn :: skipn (S (S j)) (n_children par)) by (rewrite Ep; reflexivity).
  assert (Ek' : n_items par' = firstn j (n_items par) ++ skipn (S j) (n_items par)) by (rewrite Ep; reflexivity).
  unfold adj. destruct (k =? S j) eqn:EkS; [|destruct (S j <? k) eqn:EkG].
  - (* the saved node is below the right node of the merge *)
    apply Nat.eqb_eq in EkS. subst k. rewrite E2 in Ek. inversion Ek; subst ch. clear Ek.
    destruct rest as [|r0 rt]; [exfalso; apply Nr; auto|].
    destruct d as [|d]; [simpl in Lr; lia|].
    destruct (valid_cons _ _ _ _ _ Vr) as (d0 & ch2 & Ed & Er & Vrt). inversion Ed; subst d0. clear Ed.
    pose proof S1 as (_ & _ & L1 & _). pose proof S2 as (_ & _ & L2 & _).
    assert (EM : nth_error (n_children par') j = Some Mn).
    { rewrite Ec', nth_error_app2 by lia. rewrite Lc, Nat.sub_diag. reflexivity. }
    assert (ErM : nth_error (n_children Mn) (r0 + n_count n1 + 1) = Some ch2).
    { unfold Mn. cbn [n_children]. rewrite nth_error_app2 by lia. rewrite L1.
      replace (r0 + n_count n1 + 1 - S (n_count n1)) with r0 by lia. exact Er. }
    assert (Vn : valid (S (S d)) (j :: (r0 + n_count n1 + 1) :: rt) par' j0).
    { cbn [valid]. rewrite EM, ErM. exact Vrt. }
    split; [exact Vn|]. split; [exact Lr|].
    apply (app_inv_tail (after (j :: (r0 + n_count n1 + 1) :: rt) par' j0)).
    rewrite (before_after maxCap _ _ par' j0 Sh' Vn).
    assert (Ea : after (j :: (r0 + n_count n1 + 1) :: rt) par' j0 = after (S j :: r0 :: rt) par j0).
    { cbn [after]. rewrite EM, ErM, E2, Er. f_equal; [f_equal|].
      - unfold Mn. rewrite post_Node. unfold post. rewrite map_app.
        replace (S (r0 + n_count n1 + 1)) with (length (map flatten (n_children n1)) + S r0) by (rewrite map_length, L1; lia).
        rewrite skipn_app_ge.
        replace (r0 + n_count n1 + 1) with (length (n_items n1) + S r0) by (unfold n_count; lia).
        rewrite skipn_app_ge, skipn_S_cons. reflexivity.
      - unfold post. rewrite Ec', Ek', map_app. cbn [map].
        replace (S j) with (j + 1) at 1 by lia.
        rewrite (skipn_app_plus j 1) by (rewrite map_length; exact Lc). rewrite skipn_1_cons.
        rewrite (skipn_app_exact j (firstn j (n_items par))) by exact Lk.
        rewrite (skipn_map' flatten (S (S j))). reflexivity. }
    rewrite Ea, Fl'. symmetry. apply (before_after maxCap _ _ par j0 Sh V).
  - (* a child to the right of the merge *)
    apply Nat.ltb_lt in EkG.
    assert (Ekn : nth_error (n_children par') (k - 1) = Some ch).
    { rewrite Ec', nth_error_app2 by lia. rewrite Lc. destruct (k - 1 - j) as [|m] eqn:Em; [lia|].
      cbn [nth_error]. rewrite nth_error_skipn'. replace (S (S j) + m) with k by lia. exact Ek. }
    assert (Vn : valid (S d) ((k - 1) :: rest) par' j0) by (cbn [valid]; rewrite Ekn; exact Vr).
    split; [exact Vn|]. split; [exact Lr|].
    apply (app_inv_tail (after ((k - 1) :: rest) par' j0)).
    rewrite (before_after maxCap _ _ par' j0 Sh' Vn).
    assert (Ea : after ((k - 1) :: rest) par' j0 = after (k :: rest) par j0).
    { cbn [after]. rewrite Ekn, Ek. f_equal. unfold post. rewrite Ec', Ek', map_app. cbn [map].
      replace (S (k - 1)) with (length (map flatten (firstn j (n_children par))) + S (k - 1 - j)) by (rewrite map_length, Lc; lia).
      rewrite skipn_app_ge, skipn_S_cons.
      rewrite (skipn_app_ge2 j (k - 1)) by (exact Lk || lia). rewrite skipn_map', !skipn_skipn.
      replace (k - 1 - j + S (S j)) with (S k) by lia. replace (k - 1 - j + S j) with k by lia.
      rewrite <- skipn_map'. reflexivity. }
    rewrite Ea, Fl'. symmetry. apply (before_after maxCap _ _ par j0 Sh V).
  - (* k <= j *)
    apply Nat.eqb_neq in EkS. apply Nat.ltb_ge in EkG. assert (Hkj : k <= j) by lia.
    assert (Pk : pre par' k = pre par k).
    { unfold pre. rewrite Ec', Ek', map_app. rewrite !firstn_app_le by (rewrite ?map_length; lia).
      rewrite <- firstn_map', !firstn_firstn, !Nat.min_l by lia. reflexivity. }
    destruct (Nat.eq_dec k j) as [->|Hne].
    + rewrite E1 in Ek. inversion Ek; subst ch. clear Ek.
      assert (EM : nth_error (n_children par') j = Some Mn).
      { rewrite Ec', nth_error_app2 by lia. rewrite Lc, Nat.sub_diag. reflexivity. }
      split; [|split; [exact Lr|]].
      * cbn [valid]. rewrite EM. destruct rest as [|r0 rt].
        -- cbn [valid] in *. unfold Mn, n_count in *. cbn [n_items]. rewrite app_length. simpl. lia.
        -- destruct d as [|d]; [simpl in Lr; lia|].
           destruct (valid_cons _ _ _ _ _ Vr) as (d0 & ch2 & Ed & Er & Vrt). inversion Ed; subst d0.
           cbn [valid]. unfold Mn. cbn [n_children]. rewrite nth_error_app1 by (eapply nth_error_lt; eauto). rewrite Er. exact Vrt.
      * cbn [before]. rewrite EM, E1, Pk. f_equal. destruct rest as [|r0 rt].
        -- destruct d as [|d]; [|simpl in Lr; lia]. cbn [before].
           pose proof S1 as (_ & _ & C1). pose proof S2 as (_ & _ & C2).
           replace (is_leaf Mn) with true by (unfold Mn, is_leaf; cbn [n_children]; rewrite C1, C2; reflexivity).
           rewrite (shape_0_leaf _ _ S1). unfold Mn. cbn [n_items]. apply firstn_app_le. cbn [valid] in Vr. exact Vr.
        -- destruct d as [|d]; [simpl in Lr; lia|].
           destruct (valid_cons _ _ _ _ _ Vr) as (d0 & ch2 & Ed & Er & Vrt). inversion Ed; subst d0.
           pose proof S1 as (_ & _ & L1 & _).
           assert (Hr : r0 <= n_count n1) by (apply nth_error_lt in Er; lia).
           cbn [before]. unfold Mn at 2. cbn [n_children]. rewrite nth_error_app1 by (eapply nth_error_lt; eauto). rewrite Er.
           f_equal. unfold Mn. rewrite pre_Node. unfold pre. rewrite map_app.
           rewrite !firstn_app_le by (rewrite ?map_length; unfold n_count in *; lia). reflexivity.
    + assert (Ekn : nth_error (n_children par') k = Some ch).
      { rewrite Ec', nth_error_app1 by lia. rewrite nth_error_firstn' by lia. exact Ek. }
      split; [cbn [valid]; rewrite Ekn; exact Vr|]. split; [exact Lr|].
      cbn [before]. rewrite Ekn, Ek, Pk. reflexivity.
Qed.

(* ---------- one merge, seen from the root ---------- *)
Lemma try_merge_track d r pp i sp j0 r' sp' :
  shape d r -> valid d sp r j0 -> length sp = d -> try_merge r pp i sp = Some (r', sp') ->
  shape d r' /\ flatten r' = flatten r /\ valid d sp' r' j0 /\ length sp' = d /\ before sp' r' j0 = before sp r j0.
Proof.
  intros Sh V Ls T. destruct (try_merge_spec maxCap Hpos _ _ _ _ _ _ _ Sh T) as [Sh' Fl'].
  unfold try_merge in T.
  destruct (node_at pp r) as [par|] eqn:En; [|discriminate].
  destruct ((i =? 0) || (n_count par <? i)) eqn:E0; [discriminate|].
  destruct (list_eqb (pp ++ [i]) sp) eqn:Eq; [discriminate|].
  destruct (merge_children par i) as [par'|] eqn:Em; [|discriminate].
  destruct (nth_error (n_children par) (i - 1)) as [n1|] eqn:E1; [|discriminate].
  inversion T; subst r' sp'. clear T.
  apply orb_false_iff in E0. destruct E0 as [E0 _]. apply Nat.eqb_neq in E0.
  destruct i as [|j]; [lia|]. replace (S j - 1) with j in E1 by lia.
  destruct (node_at_shape pp d r par Sh En) as (Lpp & Vpp & Spar).
  destruct (d - length pp) as [|dd] eqn:Edd.
  { exfalso. destruct Spar as (_ & _ & C). rewrite C in E1. destruct j; discriminate. }
  destruct (merge_children_spec maxCap Hpos dd par j par' Spar Em) as [Spar' Flp].
  assert (Spar'' : shape (d - length pp) par') by (rewrite Edd; exact Spar').
  split; [exact Sh'|]. split; [exact Fl'|].
  destruct (is_prefix pp sp) eqn:Epre.
  - destruct (is_prefix_app pp sp Epre) as [tail ->]. unfold merge_adjust. rewrite strip_prefix_app.
    destruct tail as [|k rest].
    { rewrite app_nil_r in Ls. lia. }
    pose proof (valid_app_inv pp d r par (k :: rest) j0 V En) as Vloc. rewrite Edd in Vloc.
    assert (Lrest : length rest = dd) by (rewrite app_length in Ls; simpl in Ls; lia).
    assert (Nr : ~ (k = S j /\ rest = [])).
    { intros [-> ->]. apply list_eqb_false_neq in Eq. apply Eq. reflexivity. }
    pose proof (merge_pos dd par j par' n1 k rest j0 Spar Em E1 Vloc Lrest Nr) as MP.
    destruct (update_ctx maxCap Hpos pp d r par' Sh Vpp Spar'') as (_ & N' & B' & _ & V').
    assert (Eadj : (if k =? S j then match rest with r0 :: rt => pp ++ (S j - 1) :: (r0 + n_count n1 + 1) :: rt | [] => pp ++ k :: rest end
                    else if S j <? k then pp ++ (k - 1) :: rest else pp ++ k :: rest)
                   = pp ++ (fst (adj j (n_count n1) k rest)) :: snd (adj j (n_count n1) k rest)).
    { unfold adj. destruct (k =? S j); [destruct rest; simpl; [reflexivity | replace (j - 0) with j by lia; reflexivity]|].
      destruct (S j <? k); reflexivity. }
    rewrite Eadj. destruct (adj j (n_count n1) k rest) as [k' rest']. cbn [fst snd].
    destruct MP as (Vn & Ln & Bn).
    assert (Vn' : valid (d - length pp) (k' :: rest') par' j0) by (rewrite Edd; exact Vn).
    destruct (pos_app pp d _ par' (k' :: rest') j0 V' N' Vn') as [VV BB].
    assert (Vloc' : valid (d - length pp) (k :: rest) par j0) by (rewrite Edd; exact Vloc).
    destruct (pos_app pp d r par (k :: rest) j0 Vpp En Vloc') as [_ BB0].
    split; [exact VV|]. split; [rewrite app_length in *; simpl in *; lia|].
    rewrite BB, BB0, B', Bn. reflexivity.
  - unfold merge_adjust. rewrite (strip_prefix_none pp sp Epre).
    destruct (update_other maxCap Hpos pp d r par par' sp j0 Sh Vpp En Spar'' Flp V Epre) as (V2 & B2 & _).
    auto.
Qed.

Lemma reb_loop_track rnp : forall d r sp j0 fast,
  shape d r -> valid d sp r j0 -> length sp = d ->
  let res := reb_loop rnp r sp fast in
  shape d (fst res) /\ flatten (fst res) = flatten r /\ valid d (snd res) (fst res) j0 /\ length (snd res) = d /\
  before (snd res) (fst res) j0 = before sp r j0.
Proof.
  induction rnp as [|index rpp IH]; intros d r sp j0 fast Sh V Ls; cbn [reb_loop].
  - cbn [fst snd]. auto.
  - destruct (try_merge r (rev rpp) (S index) sp) as [[r1 sp1]|] eqn:T1.
    + destruct (try_merge_track _ _ _ _ _ _ _ _ Sh V Ls T1) as (S1 & F1 & V1 & L1 & B1).
      destruct (IH d r1 sp1 j0 fast S1 V1 L1) as (S' & F' & V' & L' & B'). cbv zeta. repeat split; auto; congruence.
    + destruct (try_merge r (rev rpp) index sp) as [[r2 sp2]|] eqn:T2.
      * destruct (try_merge_track _ _ _ _ _ _ _ _ Sh V Ls T2) as (S2 & F2 & V2 & L2 & B2).
        destruct (IH d r2 sp2 j0 fast S2 V2 L2) as (S' & F' & V' & L' & B'). cbv zeta. repeat split; auto; congruence.
      * destruct fast; [cbn [fst snd]; auto | apply IH; auto].
Qed.

Lemma collapse_track fuel : forall d r np sp j0,
  shape d r -> valid d sp r j0 -> length sp = d ->
  let res := collapse fuel r np sp in
  exists d', shape d' (fst (fst res)) /\ flatten (fst (fst res)) = flatten r /\ valid d' (snd res) (fst (fst res)) j0 /\
             length (snd res) = d' /\ before (snd res) (fst (fst res)) j0 = before sp r j0.
Proof.
  induction fuel; intros d r np sp j0 Sh V Ls; cbn [collapse]; [exists d; cbn [fst snd]; auto|].
  destruct ((n_count r =? 0) && negb (is_leaf r)) eqn:E; [|exists d; cbn [fst snd]; auto].
  apply andb_true_iff in E. destruct E as [E1 E2]. apply Nat.eqb_eq in E1. apply negb_true_iff in E2.
  destruct (shape_internal _ _ _ Sh E2) as [d' ->]. pose proof Sh as (_ & _ & L & F & Cpx).
  destruct (n_children r) as [|ch cs] eqn:Ec; [simpl in L; lia|].
  assert (cs = []) by (destruct cs; simpl in L; [reflexivity | lia]). subst cs.
  inversion F; subst.
  destruct sp as [|c sp]; [simpl in Ls; lia|].
  destruct (valid_cons _ _ _ _ _ V) as (d0 & ch0 & Ed & Ec0 & V0). inversion Ed; subst d0.
  rewrite Ec in Ec0. destruct c; [|destruct c; discriminate]. simpl in Ec0. inversion Ec0; subst ch0.
  destruct (IHfuel d' ch (tl np) sp j0 H1 V0 ltac:(simpl in Ls; lia)) as (d'' & S'' & F'' & V'' & L'' & B'').
  exists d''. cbn [tl]. split; [exact S''|]. split; [|split; [exact V''|split; [exact L''|]]].
  - rewrite F''. rewrite (flatten_unfold r), Ec. unfold n_count in E1. destruct (n_items r); simpl in *; [reflexivity | lia].
  - rewrite B''. cbn [before]. rewrite Ec. cbn [nth_error]. unfold pre. cbn [firstn zipcat app]. reflexivity.
Qed.

(* the whole pvRebalance *)
Theorem rebalance_track d r np sp j0 fast :
  shape d r -> valid d sp r j0 -> length sp = d ->
  let res := rebalance r np sp fast in
  exists d', shape d' (fst res) /\ flatten (fst res) = flatten r /\ valid d' (snd res) (fst res) j0 /\
             length (snd res) = d' /\ before (snd res) (fst res) j0 = before sp r j0.
Proof.
  intros Sh V Ls. unfold rebalance.
  destruct (collapse_track (height r) d r np sp j0 Sh V Ls) as (d' & S' & F' & V' & L' & B').
  destruct (collapse (height r) r np sp) as [[r0 np0] sp0]. cbn [fst snd] in *.
  destruct (reb_loop_track (rev np0) d' r0 sp0 j0 fast S' V' L') as (S'' & F'' & V'' & L'' & B'').
  exists d'. cbv zeta. repeat split; auto; congruence.
Qed.

End Track.
