(* C04 -- ObjectManager::pvRelocateExec(.., std::false_type) (ObjectManager.h:516-535; the element is not nothrow relocatable) AT THE FACTS READ OFF THE
   CURRENT HEADERS (Gen_C04Facts.relocexec_*, regenerated each run by astfacts04.py):
       size_t index = 0;
       try { srcIter = srcBegin; dstIter = dstBegin; for (; index < count; ++index, ++srcIter, ++dstIter) Copy(memManager, item at srcIter, address of item at dstIter); exec(); }
       catch (...) { Destroy(memManager, dstBegin, index); throw; }
       Destroy(memManager, srcBegin, count);
   The statement order of body / try block / loop is pinned by equalities; the HANDLER is interpreted into the hand model: relocate_exec_at h is
   ObjMgr.relocate_exec with the handler chosen by `handler_of <generated catch list>`.  The general strong-guarantee theorem (every count, executor,
   schedule) is stated for relocate_exec_at (handler_of Gen_C04Facts.relocexec_catch): removing the Destroy from the handler (mutant M3) makes
   handler_of return HRethrowOnly and the theorem false -- the prove stage breaks.  (The copy loop itself stays the hand model's copy_from, tied by
   micro-correspondence `relcreate` / `copyexec`.) *)
From Coq Require Import List Arith Bool String Lia.
From C04 Require Import Effects ObjMgr GenPrimsC04.
From C04 Require Gen_C04Facts.
Import ListNotations.
Local Open Scope string_scope.

Fixpoint strs_eqb (a b : list string) : bool :=
  match a, b with
  | [], [] => true
  | x :: a', y :: b' => String.eqb x y && strs_eqb a' b'
  | _, _ => false
  end.

Inductive handler := HDestroyCopied | HRethrowOnly | HOther.
(* catch (...) { Destroy(memManager, dstBegin, index); throw; }  -- exactly the copies made so far, [dstBegin, dstBegin + index), then rethrow *)
Definition handler_of (c : list cstmt) : handler :=
  match c with
  | [SCallArgs f args; SRethrow] =>
      if String.eqb f "Destroy" && strs_eqb args ["memManager"; "dstBegin"; "index"] then HDestroyCopied else HOther
  | [SRethrow] => HRethrowOnly
  | _ => HOther
  end.

Definition body_expected : list cstmt := [SDecl "index" "?IntegerLiteral"; STry; SCallArgs "Destroy" ["memManager"; "srcBegin"; "count"]].
Definition try_expected : list cstmt := [SDecl "srcIter" "srcBegin"; SDecl "dstIter" "dstBegin"; SLoop; SCall "operator()"].
Definition loop_expected : list cstmt :=
  [SCallArgs "<" ["index"; "count"]; SCallArgs "++" ["index"; "srcIter"; "dstIter"]; SCallArgs "Copy" ["memManager"; "srcIter"; "addressof()"]].
Local Close Scope string_scope.

Definition relocate_exec_at (h : handler) (c : cat) (src dst : nat -> loc) (count : nat) (exec : M unit) : M unit :=
  if nothrow c then
    exec ;; relocate_from c src dst 0 count
  else
    setr rIndex 0 ;;
    try_catch (copy_from src dst 0 count ;; exec)
              (match h with
               | HDestroyCopied => idx <- getr rIndex ;; destroy_from dst 0 idx ;; throw
               | HRethrowOnly => throw
               | HOther => stuck
               end) ;;
    destroy_from src 0 count.

Lemma relocate_exec_at_destroy : forall c src dst n e, relocate_exec_at HDestroyCopied c src dst n e = relocate_exec c src dst n e.
Proof. reflexivity. Qed.

Lemma handler_at_current_headers : handler_of Gen_C04Facts.relocexec_catch = HDestroyCopied.
Proof. vm_compute. reflexivity. Qed.

Theorem relocate_exec_at_generated :
  Gen_C04Facts.relocexec_body = body_expected /\ Gen_C04Facts.relocexec_try = try_expected /\ Gen_C04Facts.relocexec_loop = loop_expected /\
  forall (src dst : nat -> loc) (n : nat) (exec : M unit) (fp : loc -> Prop) (P : heap -> Prop) (R : heap -> heap -> Prop),
    exec_spec exec fp P R -> (forall j, j < n -> ~ fp (src j) /\ ~ fp (dst j)) ->
    forall c s, range_pre src dst n (hp s) -> P (hp s) ->
      wp (relocate_exec_at (handler_of Gen_C04Facts.relocexec_catch) c src dst n exec) s
         (fun _ s' => moved_range src dst n fp (hp s) (hp s') /\ R (hp s) (hp s'))
         (fun s' => unchanged (hp s) (hp s')).
Proof.
  split; [reflexivity|]. split; [reflexivity|]. split; [reflexivity|].
  intros src dst n exec fp P R He Hfp c s Hpre HP. rewrite handler_at_current_headers, relocate_exec_at_destroy.
  apply relocate_exec_spec with (P := P); assumption.
Qed.

(* a handler that only rethrows (mutant M3) leaks: 2 copy-only items, the second copy throws; the first copy stays alive in the destination *)
Definition rx_heap : heap :=
  mkH (fun l => if (fst l =? 0) && (snd l <? 2) then Live (10 + snd l) else Raw) (fun b => b <? 2) (fun _ => 2) 2 (fun _ => 0).
Lemma relocate_exec_rethrow_only_refuted :
  exists s', relocate_exec_at HRethrowOnly CPY (fun j => (0, j)) (fun j => (1, j)) 2 (ret tt) (mkS rx_heap [false; true] []) = (Exn, s') /\
             mem (hp s') (1, 0) = Live 10.
Proof. eexists. split; [vm_compute; reflexivity|reflexivity]. Qed.
Lemma relocate_exec_destroying_handler_same_run :
  exists s', relocate_exec_at HDestroyCopied CPY (fun j => (0, j)) (fun j => (1, j)) 2 (ret tt) (mkS rx_heap [false; true] []) = (Exn, s') /\
             mem (hp s') (1, 0) = Raw /\ mem (hp s') (0, 0) = Live 10 /\ mem (hp s') (0, 1) = Live 11.
Proof. eexists. split; [vm_compute; reflexivity|repeat split; reflexivity]. Qed.
