(* C08 -- model of the std-style wrapper momo::stdish::unordered_multimap over the HashMultiMap model:
   size / count / equal_range (unordered_multimap.h:418-468, 663-675), erase(key) / erase(pos) / erase(first,last)
   (555-596), erase_if (598-604), operator== (624-645).  The wrapper must never expose value-less keys (which
   erase_if leaves behind): its results depend only on the multiset of (key, value) pairs. *)
From Coq Require Import ZArith List Lia Bool Permutation.
From C08 Require Import ArrayBucketModel MultiMapModel.
Import ListNotations.
Local Open Scope Z_scope.

Definition pairs (m : mm) : list (Z * Z) := all_pairs (fst m).     (* what iteration begin()..end() yields *)

Definition w_size (m : mm) : Z := get_count m.
Definition w_count (m : mm) (k : Z) : nat :=
  match find k (fst m) with Some e => length (evals e) | None => O end.
(* the values in [equal_range(k).first, equal_range(k).second): pvEqualRange returns (end, end) for an absent
   key and for a key without values, else (MakeIterator(key, 0), MakeIterator(key, count)) *)
Definition w_equal_range (m : mm) (k : Z) : list Z :=
  match find k (fst m) with
  | Some e => if (length (evals e) =? 0)%nat then [] else evals e
  | None => []
  end.

Definition w_insert (M : Z) (m : mm) (k v : Z) : mm := step1 M m (OAdd k 0 v).
Definition w_erase_key (M : Z) (m : mm) (k : Z) : mm := step1 M m (ORemoveKey k).
Definition w_erase_if (M : Z) (m : mm) (p : Z -> Z -> bool) : mm := step1 M m (ORemoveIf p).
Definition w_clear (M : Z) (m : mm) : mm := step1 M m OClear.

(* erase(const_iterator where), where = the i-th value of key k: lines 555-563 *)
Definition w_erase_at (M : Z) (m : mm) (k : Z) (i : nat) : mm :=
  if (w_count m k =? 1)%nat then step1 M m (ORemoveKey k) else step1 M m (ORemove k i).

(* a const_iterator as a position in begin()..end(): the a-th pair; end() = GetCount.
   locate = the (key, value index) of a dereferenceable position *)
Fixpoint locate (es : list entry) (a : nat) : option (Z * nat) :=
  match es with
  | [] => None
  | e :: r => if (a <? length (evals e))%nat then Some (ekey e, a) else locate r (a - length (evals e))
  end.

Inductive erase_result : Type := ErOk (m : mm) | ErThrow.

(* erase(first, last), lines 569-591, for positions a <= b <= size *)
Definition w_erase_range (M : Z) (m : mm) (a b : nat) : erase_result :=
  let n := length (pairs m) in
  if (a =? b)%nat then ErOk m                                         (* first == last *)
  else
    match (if (a <? n)%nat then                                       (* first != end() *)
             match locate (fst m) a with
             | Some (k, i) =>
                 if (S a =? b)%nat then Some (w_erase_at M m k i)     (* std::next(first) == last *)
                 else if (i =? 0)%nat && (b =? a + w_count m k)%nat   (* first == MakeIterator(key,0) && last == MakeIterator(key,count) *)
                 then Some (step1 M m (ORemoveKey k))
                 else None
             | None => None
             end
           else None) with
    | Some m' => ErOk m'
    | None => if (a =? 0)%nat && (b =? n)%nat then ErOk (w_clear M m) else ErThrow
    end.

(* std::is_permutation(first1, last1, first2) on ranges of equal length, modelled by its specification
   (a library function, not momo code): executable multiset equality *)
Fixpoint remove_one (x : Z) (l : list Z) : option (list Z) :=
  match l with
  | [] => None
  | y :: r => if x =? y then Some r else match remove_one x r with Some r' => Some (y :: r') | None => None end
  end.
Fixpoint is_perm (l1 l2 : list Z) : bool :=
  match l1 with
  | [] => match l2 with [] => true | _ => false end
  | x :: r => match remove_one x l2 with Some l2' => is_perm r l2' | None => false end
  end.

(* operator==, lines 624-647.  Keys are (id, tag): key_eq compares ids, operator== of the key compares both *)
Definition w_eq (l r : mm) : bool :=
  if negb (get_count l =? get_count r) then false
  else forallb (fun e =>
         if (length (evals e) =? 0)%nat then true                      (* value-less key: continue *)
         else match find (ekey e) (fst r) with
              | None => false
              | Some e' =>
                  if negb (etag e =? etag e') then false                (* !(ref.key == rightKeyIter->key), fix 4339d66 *)
                  else if negb (length (evals e) =? length (evals e'))%nat then false
                  else is_perm (evals e) (evals e')
              end) (fst l).

(* ================================================================ proofs *)
Lemma remove_one_perm x l l' : remove_one x l = Some l' -> Permutation l (x :: l').
Proof.
  revert l'. induction l as [|y r IH]; simpl; intros l'; [discriminate|].
  destruct (Z.eqb_spec x y) as [->|NE].
  - intros [= <-]. apply Permutation_refl.
  - destruct (remove_one x r) as [r'|]; [|discriminate]. intros [= <-].
    eapply perm_trans; [apply perm_skip; apply IH; reflexivity|apply perm_swap].
Qed.

Lemma remove_one_none x l : remove_one x l = None -> ~ In x l.
Proof.
  induction l as [|y r IH]; simpl; auto. destruct (Z.eqb_spec x y); [discriminate|].
  destruct (remove_one x r); [discriminate|]. intros _ [E|I]; [congruence|]. apply IH; auto.
Qed.

Lemma is_perm_spec l1 l2 : is_perm l1 l2 = true <-> Permutation l1 l2.
Proof.
  revert l2. induction l1 as [|x r IH]; intros l2; simpl.
  - destruct l2; split; intros H; auto; try discriminate. apply Permutation_nil in H. discriminate.
  - destruct (remove_one x l2) as [l2'|] eqn:R.
    + rewrite IH. pose proof (remove_one_perm _ _ _ R) as P. split; intros H.
      * eapply perm_trans; [apply perm_skip; exact H|]. apply Permutation_sym; exact P.
      * apply Permutation_cons_inv with x. eapply perm_trans; [exact H|exact P].
    + split; [discriminate|]. intros H. apply remove_one_none in R. exfalso. apply R.
      eapply Permutation_in; [exact H|]. left; reflexivity.
Qed.

Definition len_of (k : Z) (es : list entry) : Z :=
  match find k es with Some e => elen e | None => 0 end.

Lemma len_of_nonneg k es : 0 <= len_of k es.
Proof. unfold len_of, elen. destruct (find k es); lia. Qed.

Lemma sumlen_split k es : sumlen es = len_of k es + sumlen (remove_key k es).
Proof.
  unfold len_of. destruct (find k es) as [e|] eqn:F.
  - rewrite (sumlen_remove _ _ _ F). lia.
  - assert (remove_key k es = es) as ->; [|lia].
    clear - F. induction es as [|a r IH]; simpl in *; auto. destruct (ekey a =? k); [discriminate|]. rewrite IH; auto.
Qed.

Fixpoint sumlen_on (ks : list Z) (es : list entry) : Z :=
  match ks with [] => 0 | k :: r => len_of k es + sumlen_on r es end.

Lemma sumlen_on_remove k ks es : ~ In k ks -> sumlen_on ks (remove_key k es) = sumlen_on ks es.
Proof.
  induction ks as [|x r IH]; simpl; auto. intros N. rewrite IH by tauto.
  unfold len_of. rewrite find_remove_other by (intros ->; tauto). reflexivity.
Qed.

(* keys outside ks carry no values when the keys in ks already account for all values *)
Lemma sumlen_on_bound ks : forall es, NoDup ks -> NoDup (keys es) ->
  sumlen_on ks es <= sumlen es /\
  (sumlen_on ks es = sumlen es -> forall x, ~ In x ks -> len_of x es = 0).
Proof.
  induction ks as [|k r IH]; intros es NK NE; simpl.
  - pose proof (sumlen_nonneg es). split; [lia|]. intros E x _.
    unfold len_of. destruct (find x es) as [e|] eqn:F; auto.
    pose proof (sumlen_split x es) as S. unfold len_of in S. rewrite F in S.
    pose proof (sumlen_nonneg (remove_key x es)). unfold elen in *. lia.
  - inversion NK; subst.
    destruct (IH (remove_key k es) H2 (nodup_remove k es NE)) as [LE EQ].
    rewrite sumlen_on_remove in LE, EQ by auto.
    pose proof (sumlen_split k es) as S.
    split; [lia|]. intros E x NI.
    assert (x <> k) by (intros ->; apply NI; left; auto).
    specialize (EQ ltac:(lia) x ltac:(intros I; apply NI; right; auto)).
    unfold len_of in *. rewrite find_remove_other in EQ by auto. exact EQ.
Qed.

(* the keys of l that have values *)
Definition nonempty_keys (es : list entry) : list Z :=
  map ekey (filter (fun e => negb (length (evals e) =? 0)%nat) es).

Lemma nonempty_keys_nodup es : NoDup (keys es) -> NoDup (nonempty_keys es).
Proof.
  unfold nonempty_keys, keys. induction es as [|e r IH]; simpl; intros H; [constructor|].
  inversion H; subst. destruct (negb (length (evals e) =? 0)%nat); simpl; auto.
  constructor; auto. intros I. apply H2. apply in_map_iff in I. destruct I as (e' & E & I).
  apply filter_In in I. apply in_map_iff. exists e'. tauto.
Qed.

Lemma count_pairs es k v : NoDup (keys es) ->
  count_occ pair_dec (all_pairs es) (k, v) =
  match find k es with Some e => count_occ Z.eq_dec (evals e) v | None => O end.
Proof.
  intros ND. pose proof (traverse_counts (es, 0) k v ND) as T. rewrite traverse_eq in T. simpl in T.
  unfold abs in T. destruct (find k es); exact T.
Qed.

Lemma perm_count_len (l1 l2 : list Z) :
  (forall v, count_occ Z.eq_dec l1 v = count_occ Z.eq_dec l2 v) -> Permutation l1 l2.
Proof. intros H. apply (Permutation_count_occ Z.eq_dec). exact H. Qed.

Lemma find_in_keys k es e : find k es = Some e -> In k (keys es).
Proof. intros F. destruct (in_dec Z.eq_dec k (keys es)); auto. apply find_none in n. congruence. Qed.

Lemma in_find es e : NoDup (keys es) -> In e es -> find (ekey e) es = Some e.
Proof.
  induction es as [|a r IH]; simpl; intros ND I; [contradiction|]. inversion ND; subst.
  destruct I as [->|I].
  - rewrite Z.eqb_refl. reflexivity.
  - destruct (Z.eqb_spec (ekey a) (ekey e)) as [E|NE]; [|auto].
    exfalso. apply H1. rewrite E. apply in_map. exact I.
Qed.

(* sum over the non-empty keys of l of their lengths in l *)
Lemma sumlen_on_nonempty_self es : NoDup (keys es) -> sumlen_on (nonempty_keys es) es = sumlen es.
Proof.
  intros ND.
  assert (forall sub, incl sub es -> NoDup (keys sub) ->
            sumlen_on (nonempty_keys sub) es = sumlen sub) as G.
  { induction sub as [|e r IH]; intros IN NS; [reflexivity|].
    inversion NS; subst. unfold nonempty_keys. simpl.
    assert (find (ekey e) es = Some e) as F by (apply in_find; auto; apply IN; left; auto).
    destruct (Nat.eqb_spec (length (evals e)) 0) as [L|L]; simpl.
    - fold (nonempty_keys r). rewrite IH; auto; [|intros x I; apply IN; right; auto]. unfold elen. lia.
    - fold (nonempty_keys r). rewrite IH; auto; [|intros x I; apply IN; right; auto]. unfold len_of. rewrite F. lia. }
  apply G; auto. apply incl_refl.
Qed.

Definition WInv (m : mm) : Prop := NoDup (keys (fst m)) /\ snd m = sumlen (fst m).

Lemma inv_winv M m : Inv M m -> WInv m.
Proof. intros (A & B & _). split; auto. Qed.

Lemma length_all_pairs es : Z.of_nat (length (all_pairs es)) = sumlen es.
Proof.
  unfold all_pairs. induction es as [|e r IH]; simpl; auto.
  rewrite app_length, Nat2Z.inj_add, IH. unfold pairs_of, elen. rewrite map_length. reflexivity.
Qed.

(* keys for which key_eq-equivalence is == (std::equal_to): every tag is 0 *)
Definition plain_keys (es : list entry) : Prop := Forall (fun e => etag e = 0) es.

(* operator== is exactly multiset equality of the (key, value) pairs: value-less keys are invisible *)
Theorem w_eq_iff_pairs_permutation l r : WInv l -> WInv r -> plain_keys (fst l) -> plain_keys (fst r) ->
  (w_eq l r = true <-> Permutation (pairs l) (pairs r)).
Proof.
  intros [NL CL] [NR CR] PL PR. unfold w_eq, pairs, get_count. destruct l as [el nl], r as [er nr]. simpl in *. subst nl nr.
  split.
  - (* -> *)
    destruct (Z.eqb_spec (sumlen el) (sumlen er)) as [EC|]; simpl; [|discriminate].
    intros FA. rewrite forallb_forall in FA.
    (* per non-empty key of l: same multiset in r *)
    assert (forall e, In e el -> length (evals e) <> O ->
              exists e', find (ekey e) er = Some e' /\ Permutation (evals e) (evals e')) as PK.
    { intros e I NZ. specialize (FA e I). destruct (Nat.eqb_spec (length (evals e)) 0); [contradiction|].
      destruct (find (ekey e) er) as [e'|]; [|discriminate]. exists e'. split; auto.
      destruct (negb (etag e =? etag e')); [discriminate|].
      destruct (negb (length (evals e) =? length (evals e'))%nat); [discriminate|]. apply is_perm_spec; auto. }
    (* the non-empty keys of l account for all values of r *)
    assert (sumlen_on (nonempty_keys el) er = sumlen_on (nonempty_keys el) el) as SO.
    { assert (forall sub, incl sub el -> sumlen_on (nonempty_keys sub) er = sumlen_on (nonempty_keys sub) el) as G.
      { induction sub as [|e s IH]; intros IN; [reflexivity|]. unfold nonempty_keys. simpl.
        destruct (Nat.eqb_spec (length (evals e)) 0) as [L|L]; simpl; fold (nonempty_keys s).
        - apply IH. intros x I; apply IN; right; auto.
        - rewrite IH by (intros x I; apply IN; right; auto).
          destruct (PK e (IN e ltac:(left; auto)) L) as (e' & F & P).
          unfold len_of. rewrite F. rewrite (in_find el e NL (IN e ltac:(left; auto))).
          unfold elen. rewrite (Permutation_length P). reflexivity. }
      apply G. apply incl_refl. }
    rewrite sumlen_on_nonempty_self in SO by auto.
    destruct (sumlen_on_bound (nonempty_keys el) er (nonempty_keys_nodup el NL) NR) as [_ Z0].
    specialize (Z0 ltac:(lia)).
    apply (Permutation_count_occ pair_dec). intros [k v].
    rewrite !count_pairs by auto.
    destruct (find k el) as [e|] eqn:FL.
    + destruct (Nat.eqb_spec (length (evals e)) 0) as [L|L].
      * (* value-less in l: r has no values for k either *)
        assert (~ In k (nonempty_keys el)) as NI.
        { unfold nonempty_keys. intros I. apply in_map_iff in I. destruct I as (e2 & E & I). apply filter_In in I.
          destruct I as [I NZ]. pose proof (in_find el e2 NL I) as F2. rewrite E, FL in F2. inversion F2; subst e2.
          rewrite L in NZ. discriminate. }
        specialize (Z0 k NI). unfold len_of, elen in Z0.
        destruct (evals e); [|simpl in L; lia]. simpl.
        destruct (find k er) as [e'|]; auto. destruct (evals e'); [reflexivity|simpl in Z0; lia].
      * pose proof (find_key _ _ _ FL) as EK. destruct (PK e (find_in _ _ _ FL) L) as (e' & F & P).
        rewrite EK in F. rewrite F. revert v. apply (Permutation_count_occ Z.eq_dec). exact P.
    + assert (~ In k (nonempty_keys el)) as NI.
      { unfold nonempty_keys. intros I. apply in_map_iff in I. destruct I as (e2 & E & I). apply filter_In in I.
        destruct I as [I _]. pose proof (in_find el e2 NL I) as F2. rewrite E, FL in F2. discriminate. }
      specialize (Z0 k NI). unfold len_of, elen in Z0.
      destruct (find k er) as [e'|]; auto. destruct (evals e'); [reflexivity|simpl in Z0; lia].
  - (* <- *)
    intros P.
    assert (sumlen el = sumlen er) as EC.
    { rewrite <- !length_all_pairs. rewrite (Permutation_length P). reflexivity. }
    rewrite EC, Z.eqb_refl. simpl. apply forallb_forall. intros e I.
    destruct (Nat.eqb_spec (length (evals e)) 0) as [L|L]; auto.
    pose proof (in_find el e NL I) as FL.
    pose proof (proj1 (Permutation_count_occ pair_dec _ _) P) as CO.
    assert (forall v, count_occ Z.eq_dec (evals e) v =
              match find (ekey e) er with Some e' => count_occ Z.eq_dec (evals e') v | None => O end) as CV.
    { intros v. specialize (CO (ekey e, v)). rewrite !count_pairs in CO by auto. rewrite FL in CO. exact CO. }
    destruct (find (ekey e) er) as [e'|] eqn:FR.
    + assert (Permutation (evals e) (evals e')) as PE by (apply perm_count_len; exact CV).
      assert (etag e = etag e') as ->.
      { unfold plain_keys in *. rewrite Forall_forall in PL, PR. rewrite (PL e I), (PR e' (find_in _ _ _ FR)). reflexivity. }
      rewrite Z.eqb_refl. simpl.
      rewrite (Permutation_length PE), Nat.eqb_refl. simpl. apply is_perm_spec. exact PE.
    + exfalso. destruct (evals e) as [|v vs]; [simpl in L; lia|].
      specialize (CV v). simpl in CV. destruct (Z.eq_dec v v); [discriminate|contradiction].
Qed.

(* count(k) and equal_range(k) are functions of the pairs only *)
Lemma count_occ_map_fst es k : NoDup (keys es) ->
  count_occ Z.eq_dec (map fst (all_pairs es)) k = match find k es with Some e => length (evals e) | None => O end.
Proof.
  unfold all_pairs. induction es as [|e r IH]; intros ND; [reflexivity|]. inversion ND; subst.
  simpl. rewrite map_app, count_occ_app, IH by auto.
  assert (count_occ Z.eq_dec (map fst (pairs_of e)) k = if ekey e =? k then length (evals e) else O) as ->.
  { unfold pairs_of. rewrite map_map. simpl. induction (evals e) as [|w l IHl]; simpl.
    - destruct (ekey e =? k); reflexivity.
    - destruct (Z.eq_dec (ekey e) k) as [E|NE].
      + rewrite IHl. destruct (Z.eqb_spec (ekey e) k); [reflexivity|contradiction].
      + rewrite IHl. destruct (Z.eqb_spec (ekey e) k); [contradiction|reflexivity]. }
  destruct (Z.eqb_spec (ekey e) k) as [E|NE]; [|reflexivity].
  subst. assert (find (ekey e) r = None) as -> by (apply find_none; auto). lia.
Qed.

Theorem w_count_spec m k : NoDup (keys (fst m)) ->
  w_count m k = count_occ Z.eq_dec (map fst (pairs m)) k.
Proof. intros ND. unfold w_count, pairs. rewrite count_occ_map_fst by auto. reflexivity. Qed.

Theorem w_count_depends_only_on_pairs m1 m2 k :
  NoDup (keys (fst m1)) -> NoDup (keys (fst m2)) -> Permutation (pairs m1) (pairs m2) ->
  w_count m1 k = w_count m2 k.
Proof.
  intros N1 N2 P. rewrite !w_count_spec by auto.
  apply (Permutation_count_occ Z.eq_dec). apply Permutation_map. exact P.
Qed.

Lemma equal_range_filter es k : NoDup (keys es) ->
  map snd (filter (fun p => fst p =? k) (all_pairs es)) =
  match find k es with Some e => evals e | None => [] end.
Proof.
  unfold all_pairs. induction es as [|e r IH]; intros ND; [reflexivity|]. inversion ND; subst.
  simpl. rewrite filter_app, map_app, IH by auto.
  assert (map snd (filter (fun p => fst p =? k) (pairs_of e)) = if ekey e =? k then evals e else []) as ->.
  { unfold pairs_of. induction (evals e) as [|w l IHl]; simpl.
    - destruct (ekey e =? k); reflexivity.
    - destruct (ekey e =? k); simpl; [rewrite IHl; reflexivity|exact IHl]. }
  destruct (Z.eqb_spec (ekey e) k) as [E|NE]; [|reflexivity].
  subst. assert (find (ekey e) r = None) as -> by (apply find_none; auto). apply app_nil_r.
Qed.

(* equal_range(k) yields exactly the values paired with k, in iteration order *)
Theorem w_equal_range_spec m k : NoDup (keys (fst m)) ->
  w_equal_range m k = map snd (filter (fun p => fst p =? k) (pairs m)).
Proof.
  intros ND. unfold w_equal_range, pairs. rewrite equal_range_filter by auto.
  destruct (find k (fst m)) as [e|]; auto. destruct (Nat.eqb_spec (length (evals e)) 0) as [L|L]; auto.
  destruct (evals e); [reflexivity|simpl in L; lia].
Qed.

Theorem w_equal_range_depends_only_on_pairs m1 m2 k :
  NoDup (keys (fst m1)) -> NoDup (keys (fst m2)) -> Permutation (pairs m1) (pairs m2) ->
  Permutation (w_equal_range m1 k) (w_equal_range m2 k).
Proof.
  intros N1 N2 P. rewrite !w_equal_range_spec by auto. apply Permutation_map.
  revert P. generalize (pairs m1) (pairs m2). induction 1; simpl; auto.
  - destruct (fst x =? k); auto.
  - destruct (fst x =? k), (fst y =? k); auto. apply perm_swap.
  - eapply perm_trans; eauto.
Qed.

Lemma filter_pairs_of k e0 :
  filter (fun p => negb (fst p =? k)) (pairs_of e0) = if ekey e0 =? k then [] else pairs_of e0.
Proof.
  unfold pairs_of. induction (evals e0) as [|w l IHl]; simpl.
  - destruct (ekey e0 =? k); reflexivity.
  - destruct (ekey e0 =? k); simpl; [exact IHl|rewrite IHl; reflexivity].
Qed.

Lemma all_pairs_filter_notin k r : ~ In k (keys r) ->
  filter (fun p => negb (fst p =? k)) (all_pairs r) = all_pairs r.
Proof.
  unfold all_pairs. induction r as [|a r IH]; intros F; [reflexivity|]. simpl.
  rewrite filter_app, IH by (intros I; apply F; right; auto).
  rewrite filter_pairs_of. destruct (Z.eqb_spec (ekey a) k) as [E|NE]; [|reflexivity].
  exfalso. apply F. left; auto.
Qed.

(* erase(key) removes exactly the pairs with that key and returns their number *)
Theorem w_erase_key_spec M m k : NoDup (keys (fst m)) ->
  pairs (w_erase_key M m k) = filter (fun p => negb (fst p =? k)) (pairs m) /\
  get_count m - get_count (w_erase_key M m k) = Z.of_nat (w_count m k).
Proof.
  intros ND. unfold w_erase_key, w_count, pairs, get_count. destruct m as [es n]. simpl in *.
  destruct (find k es) as [e|] eqn:F; simpl.
  - split; [|unfold elen; lia].
    clear F. induction es as [|a r IH]; [reflexivity|]. inversion ND; subst. simpl.
    change (all_pairs (a :: r)) with (pairs_of a ++ all_pairs r).
    rewrite filter_app, filter_pairs_of. destruct (Z.eqb_spec (ekey a) k) as [E|NE]; simpl.
    + subst. rewrite all_pairs_filter_notin by auto. reflexivity.
    + change (all_pairs (a :: remove_key k r)) with (pairs_of a ++ all_pairs (remove_key k r)).
      rewrite IH by auto. reflexivity.
  - split; [|lia]. apply find_none in F. rewrite all_pairs_filter_notin by auto. reflexivity.
Qed.

(* erase_if removes exactly the pairs satisfying the predicate (possibly leaving value-less keys behind) *)
Theorem w_erase_if_spec M m p :
  Permutation (pairs (w_erase_if M m p)) (filter (fun kv => negb (p (fst kv) (snd kv))) (pairs m)).
Proof.
  unfold w_erase_if, pairs. destruct m as [es n]. simpl. unfold all_pairs.
  induction es as [|e r IH]; [constructor|]. simpl. rewrite filter_app. apply Permutation_app; [|exact IH].
  unfold pairs_of, evals. simpl. unfold ab_remove_if. rewrite rm_loop_vals. fold (rm_if (p (ekey e)) (snd (earr e))).
  eapply perm_trans; [apply Permutation_map; apply rm_if_perm|].
  induction (snd (earr e)) as [|w l IHl]; simpl; [constructor|].
  destruct (p (ekey e) w); simpl; auto.
Qed.

(* ---------------------------------------------------------------- erase(first, last) *)
Definition slice (a b : nat) (l : list (Z * Z)) : list (Z * Z) := firstn (b - a) (skipn a l).

Lemma all_pairs_app x y : all_pairs (x ++ y) = all_pairs x ++ all_pairs y.
Proof. unfold all_pairs. apply flat_map_app. Qed.

Lemma all_pairs_cons e r : all_pairs (e :: r) = pairs_of e ++ all_pairs r.
Proof. reflexivity. Qed.

Lemma length_pairs_of e : length (pairs_of e) = length (evals e).
Proof. unfold pairs_of. apply map_length. Qed.

Lemma locate_split es : forall a k i, locate es a = Some (k, i) ->
  exists pre e post, es = pre ++ e :: post /\ ekey e = k /\ (i < length (evals e))%nat /\
                     a = (length (all_pairs pre) + i)%nat.
Proof.
  induction es as [|e r IH]; simpl; intros a k i; [discriminate|].
  destruct (Nat.ltb_spec a (length (evals e))).
  - intros [= <- <-]. exists [], e, r. simpl. auto.
  - intros H'. destruct (IH _ _ _ H') as (pre & e0 & post & E & K & I & A).
    exists (e :: pre), e0, post. subst r. split; [reflexivity|]. split; [auto|]. split; [auto|].
    rewrite all_pairs_cons, app_length, length_pairs_of. lia.
Qed.

Lemma nodup_split_keys pre e post : NoDup (keys (pre ++ e :: post)) ->
  ~ In (ekey e) (keys pre) /\ ~ In (ekey e) (keys post).
Proof.
  unfold keys. rewrite map_app. simpl. intros H. apply NoDup_remove in H. destruct H as [_ N].
  split; intros I; apply N; apply in_or_app; auto.
Qed.

Lemma find_split k pre e post : ~ In k (keys pre) -> ekey e = k -> find k (pre ++ e :: post) = Some e.
Proof.
  intros N E. induction pre as [|a r IH]; simpl.
  - rewrite E, Z.eqb_refl. reflexivity.
  - destruct (Z.eqb_spec (ekey a) k); [exfalso; apply N; left; auto|]. apply IH. intros I; apply N; right; auto.
Qed.

Lemma remove_key_split k pre e post : ~ In k (keys pre) -> ekey e = k -> remove_key k (pre ++ e :: post) = pre ++ post.
Proof.
  intros N E. induction pre as [|a r IH]; simpl.
  - rewrite E, Z.eqb_refl. reflexivity.
  - destruct (Z.eqb_spec (ekey a) k); [exfalso; apply N; left; auto|]. rewrite IH; auto. intros I; apply N; right; auto.
Qed.

Lemma upd_split k f pre e post : ~ In k (keys pre) -> ekey e = k -> upd k f (pre ++ e :: post) = pre ++ f e :: post.
Proof.
  intros N E. induction pre as [|a r IH]; simpl.
  - rewrite E, Z.eqb_refl. reflexivity.
  - destruct (Z.eqb_spec (ekey a) k); [exfalso; apply N; left; auto|]. rewrite IH; auto. intros I; apply N; right; auto.
Qed.

Lemma skipn_len_app (x w : list (Z * Z)) : skipn (length x) (x ++ w) = w.
Proof. induction x; simpl; auto. Qed.

Lemma firstn_len_app (y z : list (Z * Z)) : firstn (length y) (y ++ z) = y.
Proof. induction y; simpl; auto. f_equal; auto. Qed.

Lemma slice_mid x y z : slice (length x) (length x + length y) (x ++ y ++ z) = y.
Proof. unfold slice. rewrite skipn_len_app. replace (length x + length y - length x)%nat with (length y) by lia. apply firstn_len_app. Qed.

Lemma perm_replace_mid (pre Pe Pe' post S : list (Z * Z)) :
  Permutation Pe (Pe' ++ S) -> Permutation (pre ++ Pe ++ post) ((pre ++ Pe' ++ post) ++ S).
Proof.
  intros P. rewrite <- !app_assoc. apply Permutation_app_head.
  eapply perm_trans; [apply Permutation_app_tail; exact P|].
  rewrite <- app_assoc. apply Permutation_app_head. apply Permutation_app_comm.
Qed.

Lemma swap_remove_perm i (l : list Z) : (i < length l)%nat -> Permutation l (swap_remove i l ++ [nth i l 0]).
Proof.
  intros Hi. destruct (nth_split l 0 Hi) as (l1 & l2 & E & L). rewrite E at 1 2. rewrite <- L.
  rewrite swap_remove_app. rewrite <- app_assoc. apply Permutation_app_head.
  destruct l2 as [|y l2].
  - apply Permutation_refl.
  - set (b := y :: l2). eapply perm_trans; [apply Permutation_cons_append|].
    apply Permutation_app_tail. apply Permutation_sym. apply perm_last_removelast. discriminate.
Qed.

(* erase(first, last) removes exactly the pairs of the range [first, last), or throws (std::invalid_argument) *)
Theorem w_erase_range_spec M m a b m' : WInv m -> (a <= b <= length (pairs m))%nat ->
  w_erase_range M m a b = ErOk m' ->
  Permutation (pairs m) (pairs m' ++ slice a b (pairs m)).
Proof.
  intros [ND CN] Hab. unfold w_erase_range.
  destruct (Nat.eqb_spec a b) as [->|NE].
  - intros [= <-]. unfold slice. rewrite Nat.sub_diag. simpl. rewrite app_nil_r. apply Permutation_refl.
  - (* the whole-container case, shared by the fall-through branches *)
    assert (forall mm', (if (a =? 0)%nat && (b =? length (pairs m))%nat then ErOk (w_clear M m) else ErThrow) = ErOk mm' ->
              Permutation (pairs m) (pairs mm' ++ slice a b (pairs m))) as CL.
    { intros mm'. destruct (Nat.eqb_spec a 0) as [->|]; simpl; [|discriminate].
      destruct (Nat.eqb_spec b (length (pairs m))) as [->|]; [|discriminate]. intros [= <-].
      unfold w_clear, slice. simpl. rewrite Nat.sub_0_r, firstn_all. apply Permutation_refl. }
    destruct (Nat.ltb_spec a (length (pairs m))) as [LT|GE]; [|apply CL].
    destruct (locate (fst m) a) as [[k i]|] eqn:LOC; [|apply CL].
    destruct (locate_split _ _ _ _ LOC) as (pre & e & post & E & K & I & A).
    destruct m as [es n]. cbn [fst snd] in *. subst es.
    destruct (nodup_split_keys _ _ _ ND) as [NPre NPost].
    pose proof (find_split k pre e post ltac:(rewrite <- K; auto) K) as F.
    assert (pairs (pre ++ e :: post, n) = all_pairs pre ++ pairs_of e ++ all_pairs post) as PE
      by (unfold pairs; simpl; rewrite all_pairs_app, all_pairs_cons; reflexivity).
    assert (forall n', pairs (pre ++ post, n') = all_pairs pre ++ [] ++ all_pairs post) as PR
      by (intros; unfold pairs; simpl; rewrite all_pairs_app; reflexivity).
    unfold w_count. simpl fst. rewrite F.
    destruct (Nat.eqb_spec (S a) b) as [<-|NS].
    + (* single element *)
      intros [= <-]. unfold w_erase_at, w_count. simpl fst. rewrite F.
      destruct (nth_split (evals e) 0 I) as (l1 & l2 & EV & L1).
      assert (slice a (S a) (pairs (pre ++ e :: post, n)) = [(k, nth i (evals e) 0)]) as SL.
      { rewrite PE. unfold pairs_of at 1. rewrite EV at 1. rewrite map_app. simpl map.
        rewrite <- app_assoc. rewrite app_assoc.
        replace a with (length (all_pairs pre ++ map (pair (ekey e)) l1)) at 1 2
          by (rewrite app_length, map_length; lia).
        replace (S (length (all_pairs pre ++ map (pair (ekey e)) l1)))
          with (length (all_pairs pre ++ map (pair (ekey e)) l1) + length [(ekey e, nth i (evals e) 0%Z)])%nat by (simpl; lia).
        change (((ekey e, nth i (evals e) 0) :: map (pair (ekey e)) l2) ++ all_pairs post)
          with ([(ekey e, nth i (evals e) 0)] ++ map (pair (ekey e)) l2 ++ all_pairs post).
        rewrite slice_mid. rewrite K. reflexivity. }
      rewrite SL.
      destruct (Nat.eqb_spec (length (evals e)) 1) as [L|L]; simpl; rewrite F.
      * (* the key's only value: RemoveKey *)
        rewrite remove_key_split by (auto; rewrite <- K; auto). rewrite PE, PR.
        apply perm_replace_mid. simpl. unfold pairs_of.
        destruct (evals e) as [|v [|v2 vs]]; simpl in L; try lia.
        assert (i = O) as -> by (simpl in I; lia). simpl. rewrite K. apply Permutation_refl.
      * destruct (Nat.ltb_spec i (length (evals e))); [|lia]. simpl.
        rewrite upd_split by (auto; rewrite <- K; auto).
        unfold pairs at 2. simpl fst. rewrite all_pairs_app, all_pairs_cons. rewrite PE.
        apply perm_replace_mid. unfold pairs_of, evals. simpl. rewrite <- K.
        change [(ekey e, nth i (snd (earr e)) 0)] with (map (pair (ekey e)) [nth i (snd (earr e)) 0]).
        rewrite <- map_app. apply Permutation_map. apply swap_remove_perm. exact I.
    + destruct (Nat.eqb_spec i 0) as [->|NI]; simpl; [|apply CL].
      destruct (Nat.eqb_spec b (a + length (evals e))) as [->|NB]; [|apply CL].
      intros [= <-]. simpl. rewrite F. rewrite remove_key_split by (auto; rewrite <- K; auto).
      rewrite PE, PR. apply perm_replace_mid. simpl.
      replace a with (length (all_pairs pre)) by lia. rewrite <- length_pairs_of. rewrite slice_mid.
      apply Permutation_refl.
Qed.

(* ---------------------------------------------------------------- operator== for arbitrary keys *)
(* keys are (equivalence class id, identity tag): key_eq / hash see the id, operator== of the key sees both.
   kpairs = the (key, value) pairs as the user sees them, i.e. with the key's identity. *)
Definition kpairs_of (e : entry) : list (Z * Z * Z) := map (fun v => (ekey e, etag e, v)) (evals e).
Definition all_kpairs (es : list entry) : list (Z * Z * Z) := flat_map kpairs_of es.
Definition kpairs (m : mm) : list (Z * Z * Z) := all_kpairs (fst m).

Definition triple_dec : forall a b : Z * Z * Z, {a = b} + {a <> b}.
Proof. decide equality; [apply Z.eq_dec|apply pair_dec]. Defined.

Lemma count_kpairs_of e k t v :
  count_occ triple_dec (kpairs_of e) (k, t, v) =
  if (ekey e =? k) && (etag e =? t) then count_occ Z.eq_dec (evals e) v else O.
Proof.
  unfold kpairs_of. induction (evals e) as [|w l IH].
  - simpl. destruct ((ekey e =? k) && (etag e =? t)); reflexivity.
  - cbn [map]. destruct (triple_dec (ekey e, etag e, w) (k, t, v)) as [E|NE].
    + rewrite count_occ_cons_eq by exact E. inversion E; subst. rewrite !Z.eqb_refl in *. cbn [andb] in *.
      rewrite count_occ_cons_eq by reflexivity. rewrite IH. reflexivity.
    + rewrite count_occ_cons_neq by exact NE. rewrite IH.
      destruct (Z.eqb_spec (ekey e) k); cbn [andb]; auto. destruct (Z.eqb_spec (etag e) t); cbn [andb]; auto.
      rewrite count_occ_cons_neq; auto. intros ->. subst. contradiction.
Qed.

Lemma count_kpairs es k t v : NoDup (keys es) ->
  count_occ triple_dec (all_kpairs es) (k, t, v) =
  match find k es with Some e => if etag e =? t then count_occ Z.eq_dec (evals e) v else O | None => O end.
Proof.
  unfold all_kpairs. induction es as [|e r IH]; intros ND; [reflexivity|]. inversion ND; subst.
  simpl. rewrite count_occ_app, count_kpairs_of, IH by auto.
  destruct (Z.eqb_spec (ekey e) k) as [E|NE]; simpl; [|reflexivity].
  subst. assert (find (ekey e) r = None) as -> by (apply find_none; auto). lia.
Qed.

Lemma length_all_kpairs es : Z.of_nat (length (all_kpairs es)) = sumlen es.
Proof.
  unfold all_kpairs. induction es as [|e r IH]; simpl; auto.
  rewrite app_length, Nat2Z.inj_add, IH. unfold kpairs_of, elen. rewrite map_length. reflexivity.
Qed.

(* operator== (with the key == test of 4339d66) is EXACTLY multiset equality of the (key identity, value) pairs,
   for arbitrary keys: no assumption that key_eq-equivalent keys are ==.  Value-less keys are invisible. *)
Theorem w_eq_iff_keyed_pairs_permutation l r : WInv l -> WInv r ->
  (w_eq l r = true <-> Permutation (kpairs l) (kpairs r)).
Proof.
  intros [NL CL] [NR CR]. unfold w_eq, kpairs, get_count. destruct l as [el nl], r as [er nr]. simpl in *. subst nl nr.
  split.
  - destruct (Z.eqb_spec (sumlen el) (sumlen er)) as [EC|]; simpl; [|discriminate].
    intros FA. rewrite forallb_forall in FA.
    assert (forall e, In e el -> length (evals e) <> O ->
              exists e', find (ekey e) er = Some e' /\ etag e = etag e' /\ Permutation (evals e) (evals e')) as PK.
    { intros e I NZ. specialize (FA e I). destruct (Nat.eqb_spec (length (evals e)) 0); [contradiction|].
      destruct (find (ekey e) er) as [e'|]; [|discriminate]. exists e'. split; auto.
      destruct (Z.eqb_spec (etag e) (etag e')); simpl in FA; [|discriminate]. split; auto.
      destruct (negb (length (evals e) =? length (evals e'))%nat); [discriminate|]. apply is_perm_spec; auto. }
    assert (sumlen_on (nonempty_keys el) er = sumlen_on (nonempty_keys el) el) as SO.
    { assert (forall sub, incl sub el -> sumlen_on (nonempty_keys sub) er = sumlen_on (nonempty_keys sub) el) as G.
      { induction sub as [|e s IH]; intros IN; [reflexivity|]. unfold nonempty_keys. simpl.
        destruct (Nat.eqb_spec (length (evals e)) 0) as [L|L]; simpl; fold (nonempty_keys s).
        - apply IH. intros x I; apply IN; right; auto.
        - rewrite IH by (intros x I; apply IN; right; auto).
          destruct (PK e (IN e ltac:(left; auto)) L) as (e' & F & _ & P).
          unfold len_of. rewrite F. rewrite (in_find el e NL (IN e ltac:(left; auto))).
          unfold elen. rewrite (Permutation_length P). reflexivity. }
      apply G. apply incl_refl. }
    rewrite sumlen_on_nonempty_self in SO by auto.
    destruct (sumlen_on_bound (nonempty_keys el) er (nonempty_keys_nodup el NL) NR) as [_ Z0].
    specialize (Z0 ltac:(lia)).
    assert (forall k e, find k el = Some e -> length (evals e) = O -> len_of k er = 0) as EMP.
    { intros k e FL L. apply Z0. unfold nonempty_keys. intros I. apply in_map_iff in I. destruct I as (e2 & E & I).
      apply filter_In in I. destruct I as [I NZ]. pose proof (in_find el e2 NL I) as F2. rewrite E, FL in F2.
      inversion F2; subst e2. rewrite L in NZ. discriminate. }
    assert (forall k, find k el = None -> len_of k er = 0) as ABS.
    { intros k FL. apply Z0. unfold nonempty_keys. intros I. apply in_map_iff in I. destruct I as (e2 & E & I).
      apply filter_In in I. destruct I as [I _]. pose proof (in_find el e2 NL I) as F2. rewrite E, FL in F2. discriminate. }
    assert (forall k, len_of k er = 0 -> forall t v,
              match find k er with Some e => if etag e =? t then count_occ Z.eq_dec (evals e) v else O | None => O end = O) as ZR.
    { intros k Z1 t v. unfold len_of, elen in Z1. destruct (find k er) as [e'|]; auto.
      destruct (evals e'); [destruct (etag e' =? t); reflexivity|simpl in Z1; lia]. }
    apply (Permutation_count_occ triple_dec). intros [[k t] v].
    rewrite !count_kpairs by auto.
    destruct (find k el) as [e|] eqn:FL.
    + destruct (Nat.eqb_spec (length (evals e)) 0) as [L|L].
      * rewrite (ZR k (EMP k e FL L)). destruct (evals e); [destruct (etag e =? t); reflexivity|simpl in L; lia].
      * pose proof (find_key _ _ _ FL) as EK. destruct (PK e (find_in _ _ _ FL) L) as (e' & F & ET & P).
        rewrite EK in F. rewrite F, <- ET. destruct (etag e =? t); auto.
        revert v. apply (Permutation_count_occ Z.eq_dec). exact P.
    + rewrite (ZR k (ABS k FL)). reflexivity.
  - intros P.
    assert (sumlen el = sumlen er) as EC.
    { rewrite <- !length_all_kpairs. rewrite (Permutation_length P). reflexivity. }
    rewrite EC, Z.eqb_refl. simpl. apply forallb_forall. intros e I.
    destruct (Nat.eqb_spec (length (evals e)) 0) as [L|L]; auto.
    pose proof (in_find el e NL I) as FL.
    pose proof (proj1 (Permutation_count_occ triple_dec _ _) P) as CO.
    assert (forall v, count_occ Z.eq_dec (evals e) v =
              match find (ekey e) er with Some e' => if etag e' =? etag e then count_occ Z.eq_dec (evals e') v else O | None => O end) as CV.
    { intros v. specialize (CO (ekey e, etag e, v)). rewrite !count_kpairs in CO by auto. rewrite FL, Z.eqb_refl in CO. exact CO. }
    destruct (evals e) as [|v0 vs] eqn:EV; [simpl in L; lia|].
    pose proof (CV v0) as C0. simpl in C0. destruct (Z.eq_dec v0 v0); [|contradiction].
    destruct (find (ekey e) er) as [e'|]; [|discriminate].
    destruct (Z.eqb_spec (etag e') (etag e)) as [ET|]; [|discriminate].
    rewrite <- ET, Z.eqb_refl. cbn [negb].
    assert (Permutation (v0 :: vs) (evals e')) as PE by (apply perm_count_len; exact CV).
    rewrite (Permutation_length PE), Nat.eqb_refl. cbn [negb]. apply is_perm_spec. exact PE.
Qed.

(* for plain keys (all tags 0) the keyed pairs carry no more information than the pairs: special case above *)
